(* C15RunP.v — lemmas about the loop-nest interpreter of Model/C15Metrics.v: transparency,
   two-finger intersection = set intersection, event counts = recursive sums. *)
From Coq Require Import ZArith List Bool Lia Sorted.
From FT Require Import Model.Base Model.Obs Model.C15Metrics Model.C15Check.
Import ListNotations.
Open Scope Z_scope.

(* ------------------------------------------------------------------ counting events *)

Definition cnt (p : mev -> bool) (evs : list mev) : Z := Z.of_nat (length (filter p evs)).
Definition is_cnt (k : Z) (e : mev) : bool := match e with ECount k' => Z.eqb k' k | _ => false end.
Definition is_use (r : Z) (e : mev) : bool := match e with EUse r' => Z.eqb r' r | _ => false end.
Definition is_reg (r : Z) (e : mev) : bool := match e with ERegister r' => Z.eqb r' r | _ => false end.

Lemma cnt_app p a b : cnt p (a ++ b) = cnt p a + cnt p b.
Proof. unfold cnt. rewrite filter_app, app_length. lia. Qed.

Lemma cnt_nil p : cnt p [] = 0.
Proof. reflexivity. Qed.

Lemma cnt_cons p e l : cnt p (e :: l) = (if p e then 1 else 0) + cnt p l.
Proof. unfold cnt. cbn [filter]. destruct (p e); cbn [length]; lia. Qed.

Lemma cnt_nonneg p l : 0 <= cnt p l.
Proof. unfold cnt. lia. Qed.

(* ------------------------------------------------------------------ transparency *)

Lemma step_fst r l zb body1 body2 st1 st2 el :
  (forall z a b, fst (body1 z a b) = fst (body2 z a b)) ->
  fst st1 = fst st2 ->
  fst (step true r l zb body1 st1 el) = fst (step false r l zb body2 st2 el).
Proof.
  intros Hb Hst. destruct el as [c [ta tb]]. unfold step. rewrite Hst.
  destruct (lz l).
  - destruct (lookup c (elems (fst st2))) as [zc|].
    + specialize (Hb zc ta tb). destruct (body1 zc ta tb), (body2 zc ta tb).
      cbn [fst] in *. subst. reflexivity.
    + specialize (Hb (z_default zb) ta tb).
      destruct (body1 (z_default zb) ta tb), (body2 (z_default zb) ta tb).
      cbn [fst] in *. subst. reflexivity.
  - specialize (Hb (fst st2) ta tb). destruct (body1 (fst st2) ta tb), (body2 (fst st2) ta tb).
    cbn [fst] in *. subst. reflexivity.
Qed.

Lemma fold_step_fst r l zb body1 body2 :
  (forall z a b, fst (body1 z a b) = fst (body2 z a b)) ->
  forall els st1 st2, fst st1 = fst st2 ->
  fst (fold_left (step true r l zb body1) els st1)
  = fst (fold_left (step false r l zb body2) els st2).
Proof.
  intros Hb. induction els as [|el els IH]; intros st1 st2 Hst; cbn [fold_left]; auto.
  apply IH. apply step_fst; auto.
Qed.

Lemma run_transparent : forall lv r z a b,
  fst (run true r lv z a b) = fst (run false r lv z a b).
Proof.
  induction lv as [|l lv IH]; intros r z a b; cbn [run].
  - unfold leaf_stmt. destruct a, b; reflexivity.
  - apply fold_step_fst; auto.
Qed.

(* with collection off nothing is emitted *)
Lemma fold_step_off r l zb body :
  (forall z a b, snd (body z a b) = []) ->
  forall els st, snd st = [] -> snd (fold_left (step false r l zb body) els st) = [].
Proof.
  intros Hb. induction els as [|[c [ta tb]] els IH]; intros st Hst; cbn [fold_left]; auto.
  apply IH. unfold step. destruct (lz l).
  - destruct (lookup c (elems (fst st))) as [zc|].
    + specialize (Hb zc ta tb). destruct (body zc ta tb). cbn [snd fst] in *.
      rewrite Hst, Hb. reflexivity.
    + specialize (Hb (z_default zb) ta tb). destruct (body (z_default zb) ta tb).
      cbn [snd fst] in *. rewrite Hst, Hb. reflexivity.
  - specialize (Hb (fst st) ta tb). destruct (body (fst st) ta tb). cbn [snd fst] in *.
    rewrite Hst, Hb. reflexivity.
Qed.

Lemma run_off_silent : forall lv r z a b, snd (run false r lv z a b) = [].
Proof.
  induction lv as [|l lv IH]; intros r z a b; cbn [run].
  - unfold leaf_stmt. destruct a, b; reflexivity.
  - apply fold_step_off; auto.
Qed.

(* ------------------------------------------------------------------ sortedness *)

Definition ssortedP (l : fib) : Prop := StronglySorted Z.lt (map fst l).

Lemma ssorted_Sorted l : ssorted l = true -> Sorted Z.lt l.
Proof.
  induction l as [|x l IH]; intros H; [constructor|].
  cbn [ssorted] in H. destruct l as [|y l'].
  - repeat constructor.
  - apply andb_true_iff in H. destruct H as [Hlt Hs]. constructor; auto.
    constructor. lia.
Qed.

Lemma ssorted_SS l : ssorted l = true -> StronglySorted Z.lt l.
Proof.
  intros H. apply Sorted_StronglySorted.
  - intros x y z. lia.
  - apply ssorted_Sorted; auto.
Qed.

Lemma ssortedP_tl x l : ssortedP (x :: l) -> ssortedP l.
Proof. unfold ssortedP; cbn [map]; intros H; apply StronglySorted_inv in H; tauto. Qed.

Lemma ssortedP_hd_lt c p l c' : ssortedP ((c, p) :: l) -> In c' (map fst l) -> c < c'.
Proof.
  unfold ssortedP; cbn [map fst]; intros H Hin. apply StronglySorted_inv in H.
  destruct H as [_ H]. rewrite Forall_forall in H. auto.
Qed.

Lemma ssortedP_filter f l : ssortedP l -> ssortedP (filter f l).
Proof.
  unfold ssortedP. induction l as [|[c p] l IH]; intros H; cbn [filter map]; auto.
  cbn [map fst] in H. apply StronglySorted_inv in H. destruct H as [Hs Hall].
  destruct (f (c, p)); auto. cbn [map fst]. constructor; auto.
  rewrite Forall_forall in *. intros x Hx. apply Hall.
  apply in_map_iff in Hx. destruct Hx as [[c' p'] [Hc Hin]]. apply filter_In in Hin.
  apply in_map_iff. exists (c', p'). tauto.
Qed.

Lemma lookup_In c (l : fib) q : lookup c l = Some q -> In (c, q) l.
Proof.
  induction l as [|[c' p'] l IH]; cbn [lookup]; [discriminate|].
  destruct (Z.eqb_spec c c'); intros H.
  - inversion H; subst. left; reflexivity.
  - right; auto.
Qed.

Lemma and_spec_drop_b a cb pb b :
  (forall c, In c (map fst a) -> cb < c) ->
  and_spec a ((cb, pb) :: b) = and_spec a b.
Proof.
  intros Hall. induction a as [|[c p] a IH]; cbn [and_spec]; auto.
  assert (cb < c) by (apply Hall; cbn [map fst]; left; reflexivity).
  cbn [lookup]. destruct (Z.eqb_spec c cb); [lia|].
  rewrite IH; auto. intros c0 Hc0; apply Hall; cbn [map]; right; auto.
Qed.

Lemma and_merge_nil_r a : and_merge a [] = [].
Proof. destruct a as [|[c p] a]; reflexivity. Qed.

Lemma and_spec_nil_r a : and_spec a [] = [].
Proof. induction a as [|[c p] a IH]; cbn [and_spec lookup]; auto. Qed.

Lemma and_merge_cons ca pa a cb pb b :
  and_merge ((ca, pa) :: a) ((cb, pb) :: b) =
  if Z.eqb ca cb then (ca, (pa, pb)) :: and_merge a b
  else if Z.ltb ca cb then and_merge a ((cb, pb) :: b)
  else and_merge ((ca, pa) :: a) b.
Proof. reflexivity. Qed.

(* the two-finger walk yields exactly the elements of a whose coordinate b also has *)
Lemma and_merge_spec : forall a b,
  ssortedP a -> ssortedP b -> and_merge a b = and_spec a b.
Proof.
  induction a as [|[ca pa] a IHa]; intros b Hsa Hsb.
  - destruct b; reflexivity.
  - induction b as [|[cb pb] b IHb].
    + rewrite and_merge_nil_r, and_spec_nil_r; reflexivity.
    + rewrite and_merge_cons. cbn [and_spec lookup].
      destruct (Z.eqb_spec ca cb) as [Heq|Hne].
      * subst cb. rewrite IHa by eauto using ssortedP_tl.
        f_equal. symmetry. apply and_spec_drop_b.
        intros c Hc. exact (ssortedP_hd_lt _ _ _ _ Hsa Hc).
      * destruct (Z.ltb_spec ca cb).
        -- rewrite IHa by eauto using ssortedP_tl.
           assert (lookup ca b = None) as ->.
           { destruct (lookup ca b) eqn:E; auto. apply lookup_In in E.
             assert (In ca (map fst b)) as Hin by (apply in_map_iff; exists (ca, t); auto).
             pose proof (ssortedP_hd_lt _ _ _ _ Hsb Hin). lia. }
           reflexivity.
        -- rewrite IHb by eauto using ssortedP_tl.
           cbn [and_spec].
           rewrite (and_spec_drop_b a cb pb b); auto.
           intros c Hc. pose proof (ssortedP_hd_lt _ _ _ _ Hsa Hc). lia.
Qed.

Lemma sorted_t_elems t : sorted_t t = true -> ssortedP (elems t).
Proof.
  destruct t as [v|es]; cbn [sorted_t elems]; intros H.
  - constructor.
  - apply andb_true_iff in H. destruct H as [H _]. apply ssorted_SS; auto.
Qed.

Lemma iter_elems_spec l a b :
  sorted_t a = true -> sorted_t b = true -> iter_elems l a b = spec_elems l a b.
Proof.
  intros Ha Hb. unfold iter_elems, spec_elems. destruct (la l && lb l); auto.
  apply and_merge_spec; unfold present; apply ssortedP_filter; apply sorted_t_elems; auto.
Qed.

(* where the yielded payloads come from *)
Lemma and_spec_In a b c p q :
  In (c, (p, q)) (and_spec a b) -> In (c, p) a /\ In (c, q) b.
Proof.
  induction a as [|[c' p'] a IH]; cbn [and_spec]; [intros []|].
  destruct (lookup c' b) eqn:E.
  - intros [H|H].
    + inversion H; subst. split; [left; reflexivity | apply lookup_In; auto].
    + apply IH in H. destruct H; split; [right|]; auto.
  - intros H. apply IH in H. destruct H; split; [right|]; auto.
Qed.

Lemma spec_elems_In l a b c ta tb :
  la l || lb l = true ->
  In (c, (ta, tb)) (spec_elems l a b) ->
  (if la l then In (c, ta) (present 0 (elems a)) else ta = a) /\
  (if lb l then In (c, tb) (present 0 (elems b)) else tb = b).
Proof.
  unfold spec_elems. destruct (la l) eqn:Ea, (lb l) eqn:Eb; cbn [andb orb]; intros Hl;
    [| | |discriminate].
  - apply and_spec_In.
  - intros H. apply in_map_iff in H. destruct H as [[c' s] [Heq Hin]].
    cbn [fst snd] in Heq. inversion Heq; subst. split; auto.
  - intros H. apply in_map_iff in H. destruct H as [[c' s] [Heq Hin]].
    cbn [fst snd] in Heq. inversion Heq; subst. split; auto.
Qed.

(* ------------------------------------------------------------------ linear measures of a loop *)

Lemma fold_step_cnt p r l zb body (g : tree -> tree -> Z) :
  (forall z ta tb, cnt p (snd (body z ta tb)) = g ta tb) ->
  forall els st,
  cnt p (snd (fold_left (step true r l zb body) els st))
  = cnt p (snd st)
    + sumZ (map (fun el => cnt p [EUse r] + g (fst (snd el)) (snd (snd el))) els).
Proof.
  intros Hb. induction els as [|[c [ta tb]] els IH]; intros st; cbn [fold_left map sumZ fold_right].
  - lia.
  - rewrite IH. cbn [fst snd].
    assert (cnt p (snd (step true r l zb body st (c, (ta, tb))))
            = cnt p (snd st) + (cnt p [EUse r] + g ta tb)) as ->; [|unfold sumZ; lia].
    unfold step. destruct (lz l).
    + destruct (lookup c (elems (fst st))) as [zc|].
      * specialize (Hb zc ta tb). destruct (body zc ta tb). cbn [snd] in *.
        rewrite !cnt_app, Hb. reflexivity.
      * specialize (Hb (z_default zb) ta tb). destruct (body (z_default zb) ta tb).
        cbn [snd] in *. rewrite !cnt_app, Hb. reflexivity.
    + specialize (Hb (fst st) ta tb). destruct (body (fst st) ta tb). cbn [snd] in *.
      rewrite !cnt_app, Hb. reflexivity.
Qed.

Lemma sumZ_map_ext {A} (f g : A -> Z) l :
  (forall x, In x l -> f x = g x) -> sumZ (map f l) = sumZ (map g l).
Proof.
  induction l as [|x l IH]; intros H; cbn [map sumZ fold_right]; auto.
  unfold sumZ in IH. rewrite IH, (H x); auto; [left; auto | intros; apply H; right; auto].
Qed.

Lemma sumZ_map_const1 {A} (l : list A) : sumZ (map (fun _ => 1) l) = Z.of_nat (length l).
Proof. induction l as [|x l IH]; cbn [map sumZ fold_right length]; [reflexivity|]. unfold sumZ in IH. lia. Qed.

Lemma sumZ_map_0 {A} (l : list A) : sumZ (map (fun _ => 0) l) = 0.
Proof. induction l as [|x l IH]; cbn [map sumZ fold_right]; [reflexivity|]. unfold sumZ in IH. lia. Qed.

(* ------------------------------------------------------------------ well-formed operands *)

Definition op_ok (f : level -> bool) (lv : list level) (t : tree) : Prop :=
  depth_ok (cntb f lv) t = true /\ sorted_t t = true /\ vals_ok t = true.

Lemma nonneg_vals_ok_child c s es :
  nonneg (Node es) = true -> In (c, s) (present 0 es) -> vals_ok s = true.
Proof.
  cbn [nonneg]. intros Hn Hin. unfold present in Hin. apply filter_In in Hin.
  destruct Hin as [Hin Hne]. rewrite forallb_forall in Hn. specialize (Hn _ Hin).
  cbn [snd] in *. destruct s as [v|es']; cbn [vals_ok]; auto.
  cbn [is_empty nonneg] in *. apply negb_true_iff in Hne. lia.
Qed.

Lemma op_ok_down f l lv t :
  op_ok f (l :: lv) t ->
  if f l then forall c s, In (c, s) (present 0 (elems t)) -> op_ok f lv s
  else op_ok f lv t.
Proof.
  unfold op_ok, cntb. cbn [filter]. destruct (f l); [|tauto].
  cbn [length]. intros [Hd [Hs Hv]] c s Hin.
  destruct t as [v|es]; [discriminate|]. cbn [elems] in Hin.
  assert (In (c, s) es) as Hin' by (unfold present in Hin; apply filter_In in Hin; tauto).
  cbn [depth_ok sorted_t vals_ok] in *.
  apply andb_true_iff in Hs. destruct Hs as [_ Hs].
  rewrite forallb_forall in Hd, Hs.
  repeat split.
  - apply (Hd _ Hin').
  - apply (Hs _ Hin').
  - eapply nonneg_vals_ok_child; eauto.
Qed.

Lemma spec_elems_ok l lv a b c ta tb :
  la l || lb l = true ->
  op_ok la (l :: lv) a -> op_ok lb (l :: lv) b ->
  In (c, (ta, tb)) (spec_elems l a b) -> op_ok la lv ta /\ op_ok lb lv tb.
Proof.
  intros Hl Ha Hb Hin. apply spec_elems_In in Hin; auto. destruct Hin as [H1 H2].
  apply op_ok_down in Ha. apply op_ok_down in Hb.
  destruct (la l), (lb l); subst; split; eauto.
Qed.

(* ------------------------------------------------------------------ counts of multiplies and updates *)

Lemma run_cnt_leafs k : k = 0 \/ k = 2 ->
  forall lv r z a b, forallb (fun l => la l || lb l) lv = true ->
  op_ok la lv a -> op_ok lb lv b ->
  cnt (is_cnt k) (snd (run true r lv z a b)) = spec_leafs lv a b.
Proof.
  intros Hk. induction lv as [|l lv IH]; intros r z a b Hlv Ha Hb.
  - cbn [run spec_leafs]. destruct Ha as [Ha _], Hb as [Hb _]. unfold cntb in *. cbn in Ha, Hb.
    destruct a as [va|]; [|discriminate]. destruct b as [vb|]; [|discriminate].
    unfold leaf_stmt, evs_if. cbn [snd]. rewrite !cnt_cons.
    destruct (Z.eqb (leaf_val z) 0); [rewrite cnt_nil | rewrite cnt_cons, cnt_nil];
      destruct Hk; subst k; reflexivity.
  - cbn [run spec_leafs]. cbn [forallb] in Hlv. apply andb_true_iff in Hlv. destruct Hlv as [Hl Hlv].
    assert (sorted_t a = true /\ sorted_t b = true) as [Hsa Hsb] by (unfold op_ok in *; tauto).
    rewrite iter_elems_spec by auto.
    assert (forall c ta tb, In (c, (ta, tb)) (spec_elems l a b) ->
            forall z', cnt (is_cnt k) (snd (run true (r + 1) lv z' ta tb)) = spec_leafs lv ta tb) as Hel.
    { intros c ta tb Hin z'. destruct (spec_elems_ok _ _ _ _ _ _ _ Hl Ha Hb Hin). apply IH; auto. }
    clear IH. revert Hel. generalize (spec_elems l a b) as els.
    intros els Hel.
    (* per-element form of fold_step_cnt *)
    assert (forall st, cnt (is_cnt k) (snd (fold_left (step true r l (existsb lz lv) (run true (r + 1) lv)) els st))
            = cnt (is_cnt k) (snd st)
              + sumZ (map (fun el => spec_leafs lv (fst (snd el)) (snd (snd el))) els)) as Hf.
    { induction els as [|[c [ta tb]] els IHe]; intros st; cbn [fold_left map sumZ fold_right]; [lia|].
      rewrite IHe by (intros; eapply Hel; right; eauto). cbn [fst snd].
      assert (cnt (is_cnt k) (snd (step true r l (existsb lz lv) (run true (r + 1) lv) st (c, (ta, tb))))
              = cnt (is_cnt k) (snd st) + spec_leafs lv ta tb) as ->; [|unfold sumZ; lia].
      pose proof (Hel c ta tb (or_introl eq_refl)) as H1.
      unfold step. destruct (lz l).
      - destruct (lookup c (elems (fst st))) as [zc|].
        + specialize (H1 zc). destruct (run true (r + 1) lv zc ta tb). cbn [snd] in *.
          rewrite !cnt_app, H1. unfold evs_if. rewrite cnt_cons, cnt_nil.
          destruct Hk; subst k; cbn [is_cnt]; lia.
        + specialize (H1 (z_default (existsb lz lv))).
          destruct (run true (r + 1) lv (z_default (existsb lz lv)) ta tb). cbn [snd] in *.
          rewrite !cnt_app, H1. unfold evs_if. rewrite cnt_cons, cnt_nil.
          destruct Hk; subst k; cbn [is_cnt]; lia.
      - specialize (H1 (fst st)). destruct (run true (r + 1) lv (fst st) ta tb). cbn [snd] in *.
        rewrite !cnt_app, H1. unfold evs_if. rewrite cnt_cons, cnt_nil.
        destruct Hk; subst k; cbn [is_cnt]; lia. }
    rewrite Hf. cbn [snd]. unfold evs_if. rewrite cnt_cons, cnt_nil.
    destruct Hk; subst k; cbn [is_cnt]; lia.
Qed.

(* ------------------------------------------------------------------ iteration counts *)

Lemma fold_step_cnt_in p r l zb body (g : tree -> tree -> Z) els :
  (forall c ta tb, In (c, (ta, tb)) els -> forall z, cnt p (snd (body z ta tb)) = g ta tb) ->
  forall st,
  cnt p (snd (fold_left (step true r l zb body) els st))
  = cnt p (snd st)
    + sumZ (map (fun el => cnt p [EUse r] + g (fst (snd el)) (snd (snd el))) els).
Proof.
  induction els as [|[c [ta tb]] els IH]; intros Hb st; cbn [fold_left map sumZ fold_right].
  - lia.
  - rewrite IH by (intros; eapply Hb; right; eauto). cbn [fst snd].
    assert (cnt p (snd (step true r l zb body st (c, (ta, tb))))
            = cnt p (snd st) + (cnt p [EUse r] + g ta tb)) as ->; [|unfold sumZ; lia].
    pose proof (Hb c ta tb (or_introl eq_refl)) as H1.
    unfold step. destruct (lz l).
    + destruct (lookup c (elems (fst st))) as [zc|].
      * specialize (H1 zc). destruct (body zc ta tb). cbn [snd] in *.
        rewrite !cnt_app, H1. reflexivity.
      * specialize (H1 (z_default zb)). destruct (body (z_default zb) ta tb).
        cbn [snd] in *. rewrite !cnt_app, H1. reflexivity.
    + specialize (H1 (fst st)). destruct (body (fst st) ta tb). cbn [snd] in *.
      rewrite !cnt_app, H1. reflexivity.
Qed.

Lemma run_cnt_use : forall lv r z a b q,
  forallb (fun l => la l || lb l) lv = true ->
  op_ok la lv a -> op_ok lb lv b ->
  cnt (is_use q) (snd (run true r lv z a b))
  = if Z.ltb q r then 0 else spec_bodies (Z.to_nat (q - r)) lv a b.
Proof.
  induction lv as [|l lv IH]; intros r z a b q Hlv Ha Hb.
  - cbn [run spec_bodies]. unfold leaf_stmt, evs_if.
    destruct a, b; cbn [snd]; try (destruct (Z.ltb q r); reflexivity).
    destruct (Z.eqb (leaf_val z) 0); destruct (Z.ltb q r); reflexivity.
  - cbn [run]. cbn [forallb] in Hlv. apply andb_true_iff in Hlv. destruct Hlv as [Hl Hlv].
    assert (sorted_t a = true /\ sorted_t b = true) as [Hsa Hsb] by (unfold op_ok in *; tauto).
    rewrite iter_elems_spec by auto.
    rewrite (fold_step_cnt_in (is_use q) r l (existsb lz lv) (run true (r + 1) lv)
               (fun ta tb => if Z.ltb q (r + 1) then 0
                             else spec_bodies (Z.to_nat (q - (r + 1))) lv ta tb)).
    2:{ intros c ta tb Hin z'. destruct (spec_elems_ok _ _ _ _ _ _ _ Hl Ha Hb Hin). apply IH; auto. }
    cbn [snd]. unfold evs_if. rewrite !cnt_cons, !cnt_nil. cbn [is_use is_reg].
    destruct (Z.ltb_spec q r) as [Hlt|Hge].
    + rewrite (sumZ_map_ext _ (fun _ => 0)), sumZ_map_0; [lia|].
      intros x _. destruct (Z.eqb_spec r q); [lia|]. destruct (Z.ltb_spec q (r + 1)); lia.
    + destruct (Z.eqb_spec r q) as [Heq|Hne].
      * subst q. replace (Z.to_nat (r - r)) with O by lia. cbn [spec_bodies].
        rewrite (sumZ_map_ext _ (fun _ => 1)), sumZ_map_const1; [lia|].
        intros x _. destruct (Z.ltb_spec r (r + 1)); lia.
      * replace (Z.to_nat (q - r)) with (S (Z.to_nat (q - (r + 1)))) by lia.
        cbn [spec_bodies].
        rewrite (sumZ_map_ext _ (fun el => spec_bodies (Z.to_nat (q - (r + 1))) lv
                                                    (fst (snd el)) (snd (snd el)))); [lia|].
        intros x _. destruct (Z.ltb_spec q (r + 1)); lia.
Qed.

(* a rank's rows are only written after the rank was registered *)
Definition reg_first (q : Z) (evs : list mev) : Prop :=
  cnt (is_reg q) evs = 0 -> cnt (is_use q) evs = 0.

Lemma reg_first_app q a b : reg_first q a -> reg_first q b -> reg_first q (a ++ b).
Proof.
  unfold reg_first. rewrite !cnt_app. intros Ha Hb H.
  pose proof (cnt_nonneg (is_reg q) a). pose proof (cnt_nonneg (is_reg q) b).
  rewrite Ha, Hb; lia.
Qed.

Lemma fold_step_reg_first q r l zb body :
  q <> r ->
  (forall z ta tb, reg_first q (snd (body z ta tb))) ->
  forall els st, reg_first q (snd st) ->
  reg_first q (snd (fold_left (step true r l zb body) els st)).
Proof.
  intros Hq Hb. induction els as [|[c [ta tb]] els IH]; intros st Hst; cbn [fold_left]; auto.
  apply IH.
  assert (reg_first q (evs_if true [EUse r])) as Hu.
  { unfold reg_first, evs_if. rewrite !cnt_cons, !cnt_nil. cbn [is_use is_reg].
    destruct (Z.eqb_spec r q); lia. }
  unfold step. destruct (lz l).
  - destruct (lookup c (elems (fst st))) as [zc|].
    + specialize (Hb zc ta tb). destruct (body zc ta tb). cbn [snd] in *.
      repeat apply reg_first_app; auto.
    + specialize (Hb (z_default zb) ta tb). destruct (body (z_default zb) ta tb). cbn [snd] in *.
      repeat apply reg_first_app; auto.
  - specialize (Hb (fst st) ta tb). destruct (body (fst st) ta tb). cbn [snd] in *.
    repeat apply reg_first_app; auto.
Qed.

Lemma fold_step_prefix r l zb body :
  forall els st, exists ext, snd (fold_left (step true r l zb body) els st) = snd st ++ ext.
Proof.
  induction els as [|[c [ta tb]] els IH]; intros st; cbn [fold_left].
  - exists []. rewrite app_nil_r. reflexivity.
  - destruct (IH (step true r l zb body st (c, (ta, tb)))) as [ext Hext]. rewrite Hext.
    unfold step. destruct (lz l).
    + destruct (lookup c (elems (fst st))) as [zc|].
      * destruct (body zc ta tb). cbn [snd]. eexists. rewrite <- app_assoc. reflexivity.
      * destruct (body (z_default zb) ta tb). cbn [snd]. eexists. rewrite <- app_assoc. reflexivity.
    + destruct (body (fst st) ta tb). cbn [snd]. eexists. rewrite <- app_assoc. reflexivity.
Qed.

Lemma run_reg_first : forall lv r z a b q, reg_first q (snd (run true r lv z a b)).
Proof.
  induction lv as [|l lv IH]; intros r z a b q.
  - cbn [run]. unfold reg_first, leaf_stmt, evs_if. intros _.
    destruct a, b; cbn [snd]; try reflexivity.
    destruct (Z.eqb (leaf_val z) 0); reflexivity.
  - cbn [run]. destruct (Z.eq_dec q r) as [Heq|Hne].
    + subst q. unfold reg_first. intros H. exfalso.
      destruct (fold_step_prefix r l (existsb lz lv) (run true (r + 1) lv) (iter_elems l a b)
                  (z, evs_if true [ERegister r])) as [ext Hext].
      rewrite Hext in H. cbn [snd] in H. unfold evs_if in H.
      rewrite cnt_app, cnt_cons, cnt_nil in H. cbn [is_reg] in H. rewrite Z.eqb_refl in H.
      pose proof (cnt_nonneg (is_reg r) ext). lia.
    + apply fold_step_reg_first; auto.
      cbn [snd]. unfold reg_first, evs_if. intros _. reflexivity.
Qed.

(* ------------------------------------------------------------------ the add rule *)

Definition nzlf (es : fib) : Z := sumZ (map (fun ct => nzl (snd ct)) es).

Lemma nzl_Node es : nzl (Node es) = nzlf es.
Proof. reflexivity. Qed.

Lemma nzlf_cons c t es : nzlf ((c, t) :: es) = nzl t + nzlf es.
Proof. reflexivity. Qed.

Lemma nzlf_replace c t es old :
  lookup c es = Some old -> nzlf (z_replace c t es) = nzlf es - nzl old + nzl t.
Proof.
  induction es as [|[c' t'] es IH]; cbn [lookup z_replace]; [discriminate|].
  destruct (Z.eqb c c'); intros H.
  - inversion H; subst. rewrite !nzlf_cons. lia.
  - rewrite !nzlf_cons, IH; auto. lia.
Qed.

Lemma nzlf_del c es old :
  lookup c es = Some old -> nzlf (z_del c es) = nzlf es - nzl old.
Proof.
  induction es as [|[c' t'] es IH]; cbn [lookup z_del]; [discriminate|].
  destruct (Z.eqb c c'); intros H.
  - inversion H; subst. rewrite !nzlf_cons. lia.
  - rewrite !nzlf_cons, IH; auto. lia.
Qed.

Lemma nzlf_insert c t es : nzlf (z_insert c t es) = nzlf es + nzl t.
Proof.
  induction es as [|[c' t'] es IH]; cbn [z_insert].
  - rewrite !nzlf_cons. unfold nzlf. cbn. lia.
  - destruct (Z.ltb c c'); rewrite !nzlf_cons; [|rewrite IH]; lia.
Qed.

Lemma forallb_replace (P : Z * tree -> bool) c t es :
  forallb P es = true -> P (c, t) = true -> forallb P (z_replace c t es) = true.
Proof.
  induction es as [|[c' t'] es IH]; cbn [z_replace forallb]; auto.
  intros H Hp. apply andb_true_iff in H. destruct H as [H1 H2].
  destruct (Z.eqb c c'); cbn [forallb]; rewrite ?Hp, ?H1, ?H2, ?IH; auto.
Qed.

Lemma forallb_insert (P : Z * tree -> bool) c t es :
  forallb P es = true -> P (c, t) = true -> forallb P (z_insert c t es) = true.
Proof.
  induction es as [|[c' t'] es IH]; cbn [z_insert forallb]; intros H Hp.
  - rewrite Hp. reflexivity.
  - apply andb_true_iff in H. destruct H as [H1 H2].
    destruct (Z.ltb c c'); cbn [forallb]; rewrite ?Hp, ?H1, ?H2, ?IH; auto.
Qed.

Lemma forallb_del (P : Z * tree -> bool) c es :
  forallb P es = true -> forallb P (z_del c es) = true.
Proof.
  induction es as [|[c' t'] es IH]; cbn [z_del forallb]; auto.
  intros H. apply andb_true_iff in H. destruct H as [H1 H2].
  destruct (Z.eqb c c'); cbn [forallb]; rewrite ?H1, ?H2, ?IH; auto.
Qed.

Definition zpre (lv : list level) (z : tree) : Prop :=
  depth_ok (cntb lz lv) z = true /\ nonneg z = true.

Lemma zpre_default lv : zpre lv (z_default (existsb lz lv)).
Proof.
  unfold zpre, z_default, cntb. induction lv as [|l lv IH]; cbn [existsb filter].
  - split; reflexivity.
  - destruct (lz l); cbn [orb length].
    + split; reflexivity.
    + exact IH.
Qed.

Lemma nzl_default b : nzl (z_default b) = 0.
Proof. destruct b; reflexivity. Qed.

Lemma zpre_node_inv l lv es :
  lz l = true -> zpre (l :: lv) (Node es) ->
  forallb (fun ct => depth_ok (cntb lz lv) (snd ct)) es = true
  /\ forallb (fun ct => nonneg (snd ct)) es = true.
Proof.
  unfold zpre, cntb. cbn [filter]. intros ->. cbn [length depth_ok nonneg]. tauto.
Qed.

Lemma zpre_node_intro l lv es :
  lz l = true ->
  forallb (fun ct => depth_ok (cntb lz lv) (snd ct)) es = true ->
  forallb (fun ct => nonneg (snd ct)) es = true ->
  zpre (l :: lv) (Node es).
Proof.
  unfold zpre, cntb. cbn [filter]. intros ->. cbn [length depth_ok nonneg]. tauto.
Qed.

Lemma zpre_is_node l lv z : lz l = true -> zpre (l :: lv) z -> exists es, z = Node es.
Proof.
  unfold zpre, cntb. cbn [filter]. intros ->. cbn [length]. destruct z as [v|es].
  - cbn [depth_ok]. intros [H _]; discriminate.
  - eauto.
Qed.

Lemma zpre_skip l lv z : lz l = false -> (zpre (l :: lv) z <-> zpre lv z).
Proof. unfold zpre, cntb. cbn [filter]. intros ->. tauto. Qed.

Definition dadd (evs : list mev) : Z := cnt (is_cnt 2) evs - cnt (is_cnt 1) evs.

Lemma dadd_app a b : dadd (a ++ b) = dadd a + dadd b.
Proof. unfold dadd. rewrite !cnt_app. lia. Qed.

Lemma run_z : forall lv r z a b,
  forallb (fun l => la l || lb l) lv = true ->
  op_ok la lv a -> op_ok lb lv b -> zpre lv z ->
  zpre lv (fst (run true r lv z a b))
  /\ dadd (snd (run true r lv z a b)) = nzl (fst (run true r lv z a b)) - nzl z.
Proof.
  induction lv as [|l lv IH]; intros r z a b Hlv Ha Hb Hz.
  - cbn [run]. destruct Ha as [Had [_ Hav]], Hb as [Hbd [_ Hbv]], Hz as [Hzd Hzn].
    unfold cntb in *. cbn [filter length] in *.
    destruct a as [va|]; [|discriminate]. destruct b as [vb|]; [|discriminate].
    destruct z as [vz|]; [|discriminate].
    cbn [vals_ok nonneg] in *. unfold leaf_stmt, leaf_val, evs_if, zpre, cntb. cbn [fst snd filter length].
    assert (0 < va * vb) by (apply Z.mul_pos_pos; lia).
    split.
    + cbn [depth_ok nonneg]. split; auto. lia.
    + unfold dadd. cbn [nzl]. rewrite !cnt_cons.
      destruct (Z.eqb_spec vz 0); [rewrite cnt_nil | rewrite !cnt_cons, cnt_nil];
        cbn [is_cnt]; destruct (Z.eqb_spec (vz + va * vb) 0); cbn; lia.
  - cbn [run]. cbn [forallb] in Hlv. apply andb_true_iff in Hlv. destruct Hlv as [Hl Hlv].
    assert (sorted_t a = true /\ sorted_t b = true) as [Hsa Hsb] by (unfold op_ok in *; tauto).
    rewrite iter_elems_spec by auto.
    assert (forall c ta tb, In (c, (ta, tb)) (spec_elems l a b) ->
            forall zc, zpre lv zc ->
            zpre lv (fst (run true (r + 1) lv zc ta tb))
            /\ dadd (snd (run true (r + 1) lv zc ta tb))
               = nzl (fst (run true (r + 1) lv zc ta tb)) - nzl zc) as Hel.
    { intros c ta tb Hin zc Hzc. destruct (spec_elems_ok _ _ _ _ _ _ _ Hl Ha Hb Hin).
      apply IH; auto. }
    clear IH Ha Hb Hsa Hsb. revert Hel. generalize (spec_elems l a b) as els. intros els Hel.
    set (stp := step true r l (existsb lz lv) (run true (r + 1) lv)).
    assert (forall st, zpre (l :: lv) (fst st) ->
            zpre (l :: lv) (fst (fold_left stp els st))
            /\ dadd (snd (fold_left stp els st)) - nzl (fst (fold_left stp els st))
               = dadd (snd st) - nzl (fst st)) as Hf.
    { induction els as [|[c [ta tb]] els IHe]; intros st Hst; cbn [fold_left]; [split; auto|].
      pose proof (Hel c ta tb (or_introl eq_refl)) as H1.
      assert (zpre (l :: lv) (fst (stp st (c, (ta, tb))))
              /\ dadd (snd (stp st (c, (ta, tb)))) - nzl (fst (stp st (c, (ta, tb))))
                 = dadd (snd st) - nzl (fst st)) as [Hs1 Hs2].
      { unfold stp, step. destruct (lz l) eqn:Elz.
        - destruct (zpre_is_node _ _ _ Elz Hst) as [zes Hzes]. rewrite Hzes in *. cbn [elems].
          destruct (zpre_node_inv _ _ _ Elz Hst) as [Hzd Hzn].
          destruct (lookup c zes) as [zc|] eqn:Elk.
          + assert (zpre lv zc) as Hzc.
            { apply lookup_In in Elk. rewrite forallb_forall in Hzd, Hzn.
              split; [apply (Hzd _ Elk) | apply (Hzn _ Elk)]. }
            specialize (H1 zc Hzc). destruct (run true (r + 1) lv zc ta tb) as [zc' e].
            cbn [fst snd] in *. destruct H1 as [[Hd' Hn'] He].
            rewrite !dadd_app. unfold evs_if.
            assert (dadd [EUse r] = 0) as -> by reflexivity.
            destruct (z_removed false zc') eqn:Erm.
            * split.
              -- apply zpre_node_intro; auto; apply forallb_del; auto.
              -- rewrite !nzl_Node, (nzlf_del _ _ _ Elk).
                 destruct zc' as [v|es']; cbn [z_removed andb] in Erm; [|discriminate].
                 cbn [nzl] in *. rewrite Erm in *. lia.
            * split.
              -- apply zpre_node_intro; auto; apply forallb_replace; auto.
              -- rewrite !nzl_Node, (nzlf_replace _ _ _ _ Elk). lia.
          + pose proof (zpre_default lv) as Hzc.
            specialize (H1 _ Hzc).
            destruct (run true (r + 1) lv (z_default (existsb lz lv)) ta tb) as [zc' e].
            cbn [fst snd] in *. destruct H1 as [[Hd' Hn'] He]. rewrite nzl_default in He.
            rewrite !dadd_app. unfold evs_if.
            assert (dadd [EUse r] = 0) as -> by reflexivity.
            destruct (z_removed true zc') eqn:Erm.
            * split; [exact Hst|].
              assert (nzl zc' = 0) as Hz0.
              { destruct zc' as [v|es']; cbn [z_removed andb] in Erm.
                - cbn [nzl]. rewrite Erm. reflexivity.
                - destruct es'; [reflexivity | discriminate]. }
              lia.
            * split.
              -- apply zpre_node_intro; auto; apply forallb_insert; auto.
              -- rewrite !nzl_Node, nzlf_insert. lia.
        - assert (zpre lv (fst st)) as Hzc by (apply (zpre_skip _ _ _ Elz); auto).
          specialize (H1 _ Hzc). destruct (run true (r + 1) lv (fst st) ta tb) as [z' e].
          cbn [fst snd] in *. destruct H1 as [Hz' He]. split.
          + apply (zpre_skip _ _ _ Elz); auto.
          + rewrite !dadd_app. unfold evs_if. assert (dadd [EUse r] = 0) as -> by reflexivity. lia. }
      destruct (IHe (fun c0 ta0 tb0 Hin => Hel c0 ta0 tb0 (or_intror Hin)) _ Hs1) as [Hr1 Hr2].
      split; auto. lia. }
    destruct (Hf (z, evs_if true [ERegister r]) Hz) as [Hr1 Hr2]. subst stp. split; auto.
    unfold evs_if in *. cbn [fst snd] in Hr2.
    assert (dadd [ERegister r] = 0) as Hd0 by reflexivity. lia.
Qed.
