(* C09OrderP.v — the lexicographic comparison is a strict total order; pairwise sortedness. *)
From Coq Require Import ZArith List Bool Lia.
From FT Require Import Model.Base Model.C09Transform.
Import ListNotations.
Open Scope Z_scope.

Section Lex.
  Context {A : Type} (cmp : A -> A -> comparison).
  Hypothesis cmp_refl : forall a, cmp a a = Eq.
  Hypothesis cmp_eq : forall a b, cmp a b = Eq -> a = b.
  Hypothesis cmp_trans : forall a b c, cmp a b = Lt -> cmp b c = Lt -> cmp a c = Lt.
  Hypothesis cmp_anti : forall a b, cmp b a = CompOpp (cmp a b).

  Lemma lex_refl : forall a, lex_cmp cmp a a = Eq.
  Proof. induction a as [|x a IH]; simpl; [reflexivity|]. rewrite cmp_refl. exact IH. Qed.

  Lemma lex_eq : forall a b, lex_cmp cmp a b = Eq -> a = b.
  Proof.
    induction a as [|x a IH]; intros [|y b] H; simpl in H; try discriminate; [reflexivity|].
    destruct (cmp x y) eqn:E; try discriminate.
    apply cmp_eq in E. subst. f_equal. apply IH. exact H.
  Qed.

  Lemma lex_trans : forall a b c,
    lex_cmp cmp a b = Lt -> lex_cmp cmp b c = Lt -> lex_cmp cmp a c = Lt.
  Proof.
    induction a as [|x a IH]; intros [|y b] [|z c] H1 H2; simpl in *; try discriminate; try reflexivity.
    destruct (cmp x y) eqn:E1; try discriminate.
    - apply cmp_eq in E1. subst y.
      destruct (cmp x z) eqn:E2; try discriminate; [|reflexivity].
      eapply IH; eassumption.
    - destruct (cmp y z) eqn:E2; try discriminate.
      + apply cmp_eq in E2. subst z. rewrite E1. reflexivity.
      + rewrite (cmp_trans _ _ _ E1 E2). reflexivity.
  Qed.

  Lemma lex_anti : forall a b, lex_cmp cmp b a = CompOpp (lex_cmp cmp a b).
  Proof.
    induction a as [|x a IH]; intros [|y b]; simpl; try reflexivity.
    rewrite (cmp_anti x y). destruct (cmp x y); simpl; auto.
  Qed.
End Lex.

Lemma Zc_trans : forall a b c : Z, (a ?= b) = Lt -> (b ?= c) = Lt -> (a ?= c) = Lt.
Proof. intros a b c H1 H2. rewrite Z.compare_lt_iff in *. lia. Qed.

Lemma ccmp_refl : forall a, ccmp a a = Eq.
Proof. apply lex_refl. exact Z.compare_refl. Qed.
Lemma ccmp_eq : forall a b, ccmp a b = Eq -> a = b.
Proof. apply lex_eq. exact Z.compare_eq. Qed.
Lemma ccmp_trans : forall a b c, ccmp a b = Lt -> ccmp b c = Lt -> ccmp a c = Lt.
Proof. apply lex_trans. exact Z.compare_eq. exact Zc_trans. Qed.
Lemma ccmp_anti : forall a b, ccmp b a = CompOpp (ccmp a b).
Proof. apply lex_anti. intros. apply Z.compare_antisym. Qed.

Lemma kcmp_refl : forall a, kcmp a a = Eq.
Proof. apply lex_refl. exact ccmp_refl. Qed.
Lemma kcmp_eq : forall a b, kcmp a b = Eq -> a = b.
Proof. apply lex_eq. exact ccmp_eq. Qed.
Lemma kcmp_trans : forall a b c, kcmp a b = Lt -> kcmp b c = Lt -> kcmp a c = Lt.
Proof. apply lex_trans. exact ccmp_eq. exact ccmp_trans. Qed.
Lemma kcmp_anti : forall a b, kcmp b a = CompOpp (kcmp a b).
Proof. apply lex_anti. exact ccmp_anti. Qed.

(* ------------------------------------------------------------------ pairwise sortedness *)
Section PW.
  Context {K : Type} (cmp : K -> K -> comparison).
  Hypothesis cmp_trans : forall a b c, cmp a b = Lt -> cmp b c = Lt -> cmp a c = Lt.

  Fixpoint pw (l : list K) : Prop :=
    match l with
    | [] => True
    | x :: l' => Forall (fun y => cmp x y = Lt) l' /\ pw l'
    end.

  Lemma asc_pw : forall l, asc cmp l = true -> pw l.
  Proof.
    induction l as [|x l IH]; intros H; simpl; [exact I|].
    destruct l as [|y l']; [split; [constructor|exact I]|].
    simpl in H. apply andb_true_iff in H. destruct H as [Hxy Hl].
    specialize (IH Hl). split; [|exact IH].
    destruct (cmp x y) eqn:E; try discriminate.
    constructor; [exact E|].
    destruct IH as [Hy _]. eapply Forall_impl; [|exact Hy].
    intros z Hz. eapply cmp_trans; eassumption.
  Qed.

  Lemma pw_asc : forall l, pw l -> asc cmp l = true.
  Proof.
    induction l as [|x l IH]; intros H; [reflexivity|].
    destruct H as [Hx Hl]. destruct l as [|y l']; [reflexivity|].
    change (is_lt (cmp x y) && asc cmp (y :: l') = true).
    inversion Hx as [|? ? Hxy _]; subst. rewrite Hxy. simpl. apply IH. exact Hl.
  Qed.

  Lemma pw_app : forall l1 l2, pw l1 -> pw l2 ->
    (forall x y, In x l1 -> In y l2 -> cmp x y = Lt) -> pw (l1 ++ l2).
  Proof.
    induction l1 as [|x l1 IH]; intros l2 H1 H2 Hc; simpl; [exact H2|].
    destruct H1 as [Hx H1]. split.
    - apply Forall_app. split; [exact Hx|].
      apply Forall_forall. intros y Hy. apply Hc; [left; reflexivity|exact Hy].
    - apply IH; auto. intros; apply Hc; [right|]; assumption.
  Qed.

  Lemma pw_filter : forall f l, pw l -> pw (filter f l).
  Proof.
    induction l as [|x l IH]; intros H; simpl; [exact I|].
    destruct H as [Hx Hl]. destruct (f x); [|auto].
    split; [|auto]. apply Forall_forall. intros y Hy. apply filter_In in Hy.
    rewrite Forall_forall in Hx. apply Hx. tauto.
  Qed.
End PW.

Lemma pw_map : forall {A K} (cmpA : A -> A -> comparison) (cmpK : K -> K -> comparison)
  (f : A -> K) l,
  (forall a b, cmpA a b = Lt -> cmpK (f a) (f b) = Lt) -> pw cmpA l -> pw cmpK (map f l).
Proof.
  induction l as [|x l IH]; intros Hf H; simpl; [exact I|].
  destruct H as [Hx Hl]. split; [|auto].
  apply Forall_forall. intros y Hy. apply in_map_iff in Hy. destruct Hy as [z [<- Hz]].
  apply Hf. rewrite Forall_forall in Hx. auto.
Qed.
