(* C17LiftP.v — from the buffet state machine of one binding to the model's observation:
   the accesses built from the traces are window-sorted with correct next-use stamps, the counts
   on accesses are the oracle's counts on (line, window) pairs, and the per-tensor sums over the
   bucket-sorted bindings are those over the given bindings. *)
From Coq Require Import ZArith List Bool Lia PeanoNat Permutation.
From FT Require Import Model.Base Model.Obs Model.C17Traffic Model.C17Check
                       Proofs.ObsP Proofs.C17TrafficP Proofs.C17CheckP Proofs.C17SchedP
                       Proofs.C17BuffetP.
Import ListNotations.
Open Scope Z_scope.

(* ------------------------------------------------------------------ next-use stamps *)
Section Acc.
Variables (mask : list bool) (epl : Z) (shape : option Z).
Let mk := mk_access mask epl shape.

Lemma map_fst_nu rows : map fst (nu_spec mask epl rows) = rows.
Proof. induction rows as [|r rest IH]; cbn [nu_spec map fst]; [reflexivity|]. rewrite IH. reflexivity. Qed.

Lemma find_map_nu o : forall rest,
  option_map a_stamp (find (fun x => list_eqb o (a_obj x)) (map mk (nu_spec mask epl rest)))
  = option_map (fun c : crow => r_stamp (fst c))
               (find (fun r' : crow => list_eqb o (obj_of mask epl (fst r'))) rest).
Proof.
  induction rest as [|r rest IH]; cbn [nu_spec map find]; [reflexivity|].
  unfold mk at 1. unfold mk_access at 1. cbn [a_obj fst snd].
  destruct (list_eqb o (obj_of mask epl (fst r))); [reflexivity|exact IH].
Qed.

Lemma nextok_accesses : forall rows, nextok (map mk (nu_spec mask epl rows)).
Proof.
  induction rows as [|r rest IH]; cbn [nu_spec map nextok]; [exact I|]. split; [|exact IH].
  unfold obj_eq. unfold mk at 1 2. unfold mk_access at 1 2. cbn [a_next a_obj fst snd].
  symmetry. apply find_map_nu.
Qed.

Lemma stamps_accesses rows :
  map a_stamp (map mk (nu_spec mask epl rows)) = map (fun c : crow => r_stamp (fst c)) rows.
Proof.
  rewrite map_map. rewrite <- (map_fst_nu rows) at 2. rewrite map_map.
  apply map_ext. intros x. reflexivity.
Qed.
End Acc.

Lemma lle_firstn e : forall x y, lex_lt y x = false -> lex_lt (firstn e y) (firstn e x) = false.
Proof.
  induction e as [|e IH]; intros x y H; [reflexivity|].
  destruct y as [|b y], x as [|a x]; cbn [firstn lex_lt] in *; auto; try discriminate.
  destruct (Z.ltb b a); [discriminate|]. destruct (Z.ltb a b); auto.
Qed.

Lemma sortedL_of_stamps e : forall acc,
  sorted_by lex_le (map a_stamp acc) = true -> sortedL e acc.
Proof.
  induction acc as [|a acc IH]; intros H; cbn [sortedL]; [exact I|]. split.
  - intros y Hy. unfold wle, lle, win. apply lle_firstn. cbn [map] in H.
    apply (sorted_le_all _ _ H). apply in_map. exact Hy.
  - apply IH. cbn [map] in H. eapply sorted_tl. exact H.
Qed.

Lemma sorted_crow_stamps (l : list crow) :
  sorted_by (fun a b => negb (crow_lt b a)) l
  = sorted_by lex_le (map (fun c : crow => r_stamp (fst c)) l).
Proof.
  induction l as [|x l IH]; [reflexivity|]. destruct l as [|y l]; [reflexivity|].
  cbn [map sorted_by] in *. rewrite IH. reflexivity.
Qed.

(* ------------------------------------------------------------------ lines *)
Lemma list_eqb_snoc : forall p p' x x',
  list_eqb (p ++ [x]) (p' ++ [x']) = list_eqb p p' && Z.eqb x x'.
Proof.
  induction p as [|a p IH]; intros [|b p'] x x'; cbn [app list_eqb].
  - rewrite andb_true_r. reflexivity.
  - destruct p'; cbn; rewrite andb_false_r; reflexivity.
  - destruct p; cbn; rewrite andb_false_r; reflexivity.
  - rewrite IH. rewrite andb_assoc. reflexivity.
Qed.

Lemma line_base_eqb epl a b : 1 <= epl -> Z.eqb (a / epl * epl) (b / epl * epl) = Z.eqb (a / epl) (b / epl).
Proof.
  intros H. destruct (Z.eqb_spec (a / epl) (b / epl)) as [E|E].
  - rewrite E. apply Z.eqb_refl.
  - apply Z.eqb_neq. intros E'. apply E. apply Z.mul_reg_r in E'; [exact E'|lia].
Qed.

Lemma obj_line mask epl shape (x y : crow) : 1 <= epl ->
  list_eqb (obj_of mask epl (fst x)) (obj_of mask epl (fst y))
  = same_line (mk_sacc mask epl shape x) (mk_sacc mask epl shape y).
Proof.
  intros H. unfold obj_of, set_last, same_line, mk_sacc. cbn [s_pre s_ln].
  rewrite list_eqb_snoc, line_base_eqb by exact H. reflexivity.
Qed.

Lemma existsb_map2 {A B C} (p : B -> bool) (p' : C -> bool) (u : A -> B) (v : A -> C) (h : list A) :
  (forall y, p (u y) = p' (v y)) -> existsb p (map u h) = existsb p' (map v h).
Proof. intros H. induction h as [|y h IH]; cbn [map existsb]; [reflexivity|]. rewrite H, IH. reflexivity. Qed.

Section Corr.
Variables (mask : list bool) (epl : Z) (shape : option Z) (e : nat).
Hypothesis Hepl : 1 <= epl.
Let f := mk_access mask epl shape.
Let g := fun x : crow * option crow => mk_sacc mask epl shape (fst x).

Lemma pair_corr x y : pair_eq e (f x) (f y) = same_pair e (g x) (g y).
Proof.
  unfold pair_eq, same_pair, obj_eq, win, f, g, mk_access. cbn [a_obj a_stamp].
  rewrite (obj_line mask epl shape (fst x) (fst y) Hepl). reflexivity.
Qed.

Lemma w_corr x : a_w (f x) = s_w (g x). Proof. reflexivity. Qed.
Lemma wb_corr x : a_wb (f x) = s_wb (g x). Proof. reflexivity. Qed.

Lemma fills_corr : forall l h, afills e (map f h) (map f l) = spec_fills e (map g h) (map g l).
Proof.
  induction l as [|x l IH]; intros h; cbn [map afills spec_fills]; [reflexivity|].
  pose proof (IH (x :: h)) as IH'. cbn [map] in IH'. rewrite <- IH'. f_equal.
  rewrite w_corr.
  rewrite (existsb_map2 (pair_eq e (f x)) (same_pair e (g x)) f g h (pair_corr x)). reflexivity.
Qed.

Lemma wbs_corr : forall l h, awbs e (map f h) (map f l) = spec_wbs e (map g h) (map g l).
Proof.
  induction l as [|x l IH]; intros h; cbn [map awbs spec_wbs]; [reflexivity|].
  pose proof (IH (x :: h)) as IH'. cbn [map] in IH'. rewrite <- IH'. f_equal.
  rewrite wb_corr.
  rewrite (existsb_map2 (fun y => pair_eq e (f x) y && a_wb y) (fun y => same_pair e (g x) y && s_wb y) f g h).
  - reflexivity.
  - intros y. rewrite pair_corr, wb_corr. reflexivity.
Qed.
End Corr.

(* ------------------------------------------------------------------ one binding of a case *)
Lemma epl_pos c b : bind_ok c b = true -> 1 <= epl_of c b.
Proof.
  unfold bind_ok. intros H. repeat (apply andb_true_iff in H; destruct H as [H ?]).
  repeat match goal with X : _ && _ = true |- _ => apply andb_true_iff in X; destruct X end.
  unfold epl_of. apply Z.div_le_lower_bound; lia.
Qed.

Lemma spec_acc_rows c pin b : bind_ok c b = true ->
  spec_acc c pin b
  = map (fun x : crow * option crow =>
           mk_sacc (mask_of (tensor_of c b) (k_r b)) (epl_of c b)
                   (if pin b then Some (shape_of (tensor_of c b) (k_r b)) else None) (fst x))
        (nu_spec (mask_of (tensor_of c b) (k_r b)) (epl_of c b)
                 (combine_traces (opt_rows (k_read b)) (opt_rows (k_write b)))).
Proof.
  intros B. destruct (bind_ok_traces c b B) as [Hr Hw].
  unfold spec_acc. rewrite <- (combine_is_sort _ _ Hr Hw).
  rewrite <- (map_fst_nu (mask_of (tensor_of c b) (k_r b)) (epl_of c b)
                         (combine_traces (opt_rows (k_read b)) (opt_rows (k_write b)))) at 1.
  rewrite map_map. reflexivity.
Qed.

Lemma binding_counts c pin b line : bind_ok c b = true ->
  let s := fold_left (bstep (evict_end b) line) (acc_of c pin b) bst0 in
  b_rd s = line * spec_fills (evict_end b) [] (spec_acc c pin b)
  /\ b_wr s = line * spec_wbs (evict_end b) [] (spec_acc c pin b).
Proof.
  intros B. destruct (bind_ok_traces c b B) as [Hr Hw]. pose proof (epl_pos c b B) as Hepl.
  cbn zeta. unfold acc_of, accesses. rewrite next_use_is_spec.
  set (mask := mask_of (tensor_of c b) (k_r b)). set (epl := epl_of c b) in *.
  set (shape := if pin b then Some (shape_of (tensor_of c b) (k_r b)) else None).
  set (rows := combine_traces (opt_rows (k_read b)) (opt_rows (k_write b))).
  assert (S : sortedL (evict_end b) (map (mk_access mask epl shape) (nu_spec mask epl rows))).
  { apply sortedL_of_stamps. rewrite stamps_accesses, <- sorted_crow_stamps.
    unfold rows. rewrite (combine_is_sort _ _ Hr Hw). apply ssort_sorted. }
  destruct (buffet_machine_spec (evict_end b) line _ S (nextok_accesses mask epl shape rows))
    as (R & W & _).
  cbn zeta in R, W. rewrite R, W.
  rewrite (spec_acc_rows c pin b B). fold mask epl shape rows.
  pose proof (fills_corr mask epl shape (evict_end b) Hepl (nu_spec mask epl rows) []) as F.
  pose proof (wbs_corr mask epl shape (evict_end b) Hepl (nu_spec mask epl rows) []) as G.
  cbn [map] in F, G. rewrite F, G. split; reflexivity.
Qed.

(* ------------------------------------------------------------------ bucket sort of the bindings *)
Lemma filter_split_perm (bs : list c17_bind) n :
  Permutation (filter (fun b => Nat.ltb (k_r b) (S n)) bs)
              (filter (fun b => Nat.ltb (k_r b) n) bs ++ filter (fun b => Nat.eqb (k_r b) n) bs).
Proof.
  induction bs as [|b bs IH]; cbn [filter]; [constructor|].
  destruct (Nat.ltb_spec (k_r b) (S n)), (Nat.ltb_spec (k_r b) n), (Nat.eqb_spec (k_r b) n); try lia.
  - cbn [app]. constructor. exact IH.
  - apply Permutation_cons_app. exact IH.
  - exact IH.
Qed.

Lemma flat_perm (bs : list c17_bind) : forall n,
  Permutation (flat_map (fun r => filter (fun b => Nat.eqb (k_r b) r) bs) (seq 0 n))
              (filter (fun b => Nat.ltb (k_r b) n) bs).
Proof.
  induction n as [|n IH].
  - cbn. induction bs; cbn; auto.
  - rewrite seq_S, flat_map_app. cbn [flat_map plus]. rewrite app_nil_r.
    apply perm_trans with (filter (fun b => Nat.ltb (k_r b) n) bs ++ filter (fun b => Nat.eqb (k_r b) n) bs).
    + apply Permutation_app_tail. exact IH.
    + apply Permutation_sym. apply filter_split_perm.
Qed.

Lemma max_r_bound bs b : In b bs -> (k_r b <= max_r bs)%nat.
Proof.
  induction bs as [|x bs IH]; intros H; [destruct H|]. cbn [max_r fold_right]. fold (max_r bs).
  destruct H as [<-|H]; [lia|]. specialize (IH H). lia.
Qed.

Lemma filter_all {A} (p : A -> bool) l : (forall x, In x l -> p x = true) -> filter p l = l.
Proof.
  induction l as [|x l IH]; intros H; cbn [filter]; [reflexivity|].
  rewrite (H x (or_introl eq_refl)). f_equal. apply IH. intros; apply H; right; assumption.
Qed.

Lemma sort_binds_perm bs : Permutation (sort_binds bs) bs.
Proof.
  unfold sort_binds. eapply perm_trans; [apply flat_perm|].
  rewrite filter_all; [apply Permutation_refl|].
  intros b Hb. apply Nat.ltb_lt. pose proof (max_r_bound bs b Hb). lia.
Qed.

Lemma perm_filter {A} (p : A -> bool) l l' : Permutation l l' -> Permutation (filter p l) (filter p l').
Proof.
  induction 1; cbn [filter]; auto.
  - destruct (p x); auto.
  - destruct (p x), (p y); auto. constructor.
  - eapply perm_trans; eassumption.
Qed.

Lemma perm_sum {A} (F : A -> Z) l l' : Permutation l l' -> sumZ (map F l) = sumZ (map F l').
Proof. unfold sumZ. induction 1; cbn [map fold_right]; lia. Qed.

Lemma perm_existsb {A} (p : A -> bool) l l' : Permutation l l' -> existsb p l = existsb p l'.
Proof.
  induction 1; cbn [existsb]; auto.
  - rewrite IHPermutation. reflexivity.
  - destruct (p x), (p y); reflexivity.
  - congruence.
Qed.

Lemma sumZ_scale {A} (k : Z) (F : A -> Z) l : sumZ (map (fun x => k * F x) l) = k * sumZ (map F l).
Proof. unfold sumZ. induction l as [|x l IH]; cbn [map fold_right]; [lia|]. rewrite IH. lia. Qed.

Lemma combine_map_r {A B} (h : A -> B) l : combine l (map h l) = map (fun x => (x, h x)) l.
Proof. induction l as [|x l IH]; cbn; [reflexivity|]. rewrite IH. reflexivity. Qed.

Lemma filter_map_comm {A B} (p : B -> bool) (u : A -> B) l :
  filter p (map u l) = map u (filter (fun x => p (u x)) l).
Proof.
  induction l as [|x l IH]; cbn [map filter]; [reflexivity|].
  destruct (p (u x)); cbn [map]; rewrite IH; reflexivity.
Qed.

Lemma existsb_map1 {A B} (p : B -> bool) (u : A -> B) l : existsb p (map u l) = existsb (fun x => p (u x)) l.
Proof. induction l as [|x l IH]; cbn [map existsb]; [reflexivity|]. rewrite IH. reflexivity. Qed.

(* per-tensor totals: bucket-sorted bindings with their machines' counters = the oracle's sums *)
Lemma tensor_sums c bs (F G : c17_bind -> Z) ti :
  Permutation bs (k_binds c) ->
  V_tensor bs (map (fun b => (k_line c * F b, k_line c * G b)) bs) ti
  = VL [per_tensor c has_r F ti; per_tensor c has_w G ti].
Proof.
  intros P. unfold V_tensor, per_tensor. rewrite combine_map_r, filter_map_comm. cbn [fst].
  rewrite !existsb_map1, !map_map. cbn [fst snd].
  pose proof (perm_filter (fun b => Nat.eqb (k_t b) ti) _ _ P) as PF.
  rewrite (perm_existsb (fun x => has_r x) _ _ PF), (perm_existsb (fun x => has_w x) _ _ PF).
  rewrite !sumZ_scale, (perm_sum F _ _ PF), (perm_sum G _ _ PF). reflexivity.
Qed.

(* ------------------------------------------------------------------ the model's buffet run *)
Lemma buffet_fold_len es cap line : forall sched g,
  length (g_b (fold_left (buffet_global es cap line) sched g)) = length (g_b g).
Proof.
  induction sched as [|x sched IH]; intros g; [reflexivity|]. cbn [fold_left]. rewrite IH.
  unfold buffet_global. destruct (buffet_step _ _ _ _) as [[s' dl] added]. cbn [g_b].
  apply upd_length.
Qed.

Definition bind0 : c17_bind :=
  {| k_t := O; k_r := O; k_type := 0; k_foot := 1; k_evict := None; k_read := None; k_write := None |}.

Definition Fb (c : c17_case) (b : c17_bind) : Z := spec_fills (evict_end b) [] (spec_acc c pin_buffet b).
Definition Gb (c : c17_case) (b : c17_bind) : Z := spec_wbs (evict_end b) [] (spec_acc c pin_buffet b).

Lemma model_buffet_counters c : c17_wf c = true ->
  let bs := sort_binds (k_binds c) in
  map (fun s => (b_rd s, b_wr s))
      (g_b (buffet_run (map evict_end bs) (k_bcap c) (k_line c) (sched_of c pin_buffet)))
  = map (fun b => (k_line c * Fb c b, k_line c * Gb c b)) bs.
Proof.
  intros W bs.
  pose proof (wf_binds c W) as F. rewrite forallb_forall in F.
  pose proof (sort_binds_perm (k_binds c)) as P. fold bs in P.
  unfold sched_of. fold bs.
  apply (nth_ext _ _ (b_rd bst0, b_wr bst0) ((fun b => (k_line c * Fb c b, k_line c * Gb c b)) bind0)).
  - rewrite !map_length. unfold buffet_run. rewrite buffet_fold_len. cbn [g_b]. rewrite !map_length. reflexivity.
  - intros i Hi. rewrite map_length in Hi. unfold buffet_run in Hi. rewrite buffet_fold_len in Hi.
    cbn [g_b] in Hi. rewrite !map_length in Hi.
    rewrite (map_nth (fun s => (b_rd s, b_wr s))), (map_nth (fun b => (k_line c * Fb c b, k_line c * Gb c b))).
    rewrite buffet_run_binding by (rewrite !map_length; reflexivity).
    rewrite (nth_indep (map evict_end bs) O (evict_end bind0)) by (rewrite map_length; exact Hi).
    rewrite (nth_indep (map (acc_of c pin_buffet) bs) [] (acc_of c pin_buffet bind0)) by (rewrite map_length; exact Hi).
    rewrite !map_nth.
    assert (B : bind_ok c (nth i bs bind0) = true).
    { apply F. apply (Permutation_in _ P). apply nth_In. exact Hi. }
    destruct (binding_counts c pin_buffet (nth i bs bind0) (k_line c) B) as [R Wr].
    cbn zeta in R, Wr. rewrite R, Wr. reflexivity.
Qed.

Theorem buffet_fills_writebacks c : c17_wf c = true ->
  vnth 0 (model_buffet c) = spec_buffet c.
Proof.
  intros W. unfold model_buffet, V_result, vnth. cbn [vl nth].
  rewrite (model_buffet_counters c W). unfold spec_buffet, Vl. f_equal.
  apply map_ext. intros ti. apply (tensor_sums c _ (Fb c) (Gb c) ti). apply sort_binds_perm.
Qed.

Lemma model_buffet_ok c : c17_wf c = true -> buffet_ok c (model_buffet c) = true.
Proof.
  intros W. unfold buffet_ok. rewrite (buffet_fills_writebacks c W), V_eqb_refl.
  unfold model_buffet, V_result, vnth. cbn [vl nth length is_vz Nat.eqb]. rewrite V_eqb_refl. reflexivity.
Qed.

(* ------------------------------------------------------------------ the whole oracle on the model,
   up to the cache clause *)
Lemma model_meets_modulo_cache c : c17_wf c = true ->
  cache_ok c (vnth 3 (c17_model c)) = true ->
  c17_holds c (c17_model c) = true.
Proof.
  intros W C. unfold c17_holds. rewrite W, C.
  unfold c17_model at 1 2 3 4. unfold vnth. cbn [vl nth length Nat.eqb].
  rewrite (model_filter_meets c W), (model_comb_meets c W), !V_eqb_refl, (model_buffet_ok c W).
  reflexivity.
Qed.

Lemma model_meets_no_cache c : c17_wf c = true -> k_caps c = [] ->
  c17_holds c (c17_model c) = true.
Proof.
  intros W E. apply model_meets_modulo_cache; [exact W|].
  unfold c17_model, vnth. cbn [vl nth]. unfold cache_ok, Vl. rewrite E. reflexivity.
Qed.
