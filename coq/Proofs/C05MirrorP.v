(* C05MirrorP.v — the populate loop nest seen from the tensor: at every yield and at the end the
   destination is well-formed, its rank lists mirror its tree (C02's invariant, by counting as
   in Proofs/StoreMirror.v), and the reference handed out is the element of the destination at
   the offered path.

   [wdelta] is StoreMirror's [delta] with the clause "every identity of the counter interval is
   in the tree" weakened to "at most": populate creates a fiber and may remove it again (LIFO:
   the fiber removed is the last one of the next rank's list, which is what Rank.pop() takes). *)
From Coq Require Import ZArith List Bool Lia PeanoNat.
From FT Require Import Model.Base Model.Obs Model.Store Model.StoreCheck Model.C05Populate
                       Model.C05PopulateCheck Proofs.StoreWF Proofs.StoreMap Proofs.StoreCheckP
                       Proofs.StoreMirror Proofs.C05PositionsP Proofs.C05PopulateP.
Import ListNotations.
Open Scope nat_scope.

Definition wdelta (lvl : nat) (es : ifib) (nx : nat) (rk : list (list nat))
                  (es' : ifib) (nx' : nat) (rk' : list (list nat)) : Prop :=
  nx <= nx' /\ length rk' = length rk
  /\ (forall x j Q, j < length rk -> (forall k, Q k = Nat.eqb j (k + S lvl)) ->
        cntl x (nth j rk' []) + cntf x Q es = cntl x (nth j rk []) + cntf x Q es')
  /\ (forall x, cntf x tt_ es' <= cntf x tt_ es + bump nx nx' x)
  /\ (own_f (S lvl) es = true -> own_f (S lvl) es' = true).

Lemma delta_w lvl es nx rk es' nx' rk' :
  delta lvl es nx rk es' nx' rk' -> wdelta lvl es nx rk es' nx' rk'.
Proof.
  intros (H1 & H2 & H3 & H4 & H5). split; [exact H1|]. split; [exact H2|]. split; [exact H3|].
  split; [intros x; rewrite H4; lia|exact H5].
Qed.

Lemma wdelta_refl lvl es nx rk : wdelta lvl es nx rk es nx rk.
Proof. apply delta_w, delta_refl. Qed.

Lemma wdelta_trans lvl es nx rk es1 nx1 rk1 es2 nx2 rk2 :
  wdelta lvl es nx rk es1 nx1 rk1 -> wdelta lvl es1 nx1 rk1 es2 nx2 rk2 ->
  wdelta lvl es nx rk es2 nx2 rk2.
Proof.
  intros (Ha1 & Ha2 & Ha3 & Ha4 & Ha5) (Hb1 & Hb2 & Hb3 & Hb4 & Hb5).
  split; [lia|]. split; [congruence|]. split; [|split].
  - intros x j Q Hj HQ. pose proof (Ha3 x j Q Hj HQ). rewrite <- Ha2 in Hj.
    pose proof (Hb3 x j Q Hj HQ). lia.
  - intros x. pose proof (Hb4 x). pose proof (Ha4 x).
    pose proof (bump_trans nx nx1 nx2 x Ha1 Hb1). lia.
  - intros H. apply Hb5, Ha5, H.
Qed.

Lemma wdelta_child lvl es i c c0 id ow e nx rk e' nx' rk' :
  nth_error es i = Some (c0, INode id ow e) ->
  wdelta (S lvl) e nx rk e' nx' rk' ->
  wdelta lvl es nx rk (set_nth i (c, INode id ow e') es) nx' rk'.
Proof.
  intros Hn (H1 & H2 & H3 & H4 & H5).
  split; [exact H1|]. split; [exact H2|]. split; [|split].
  - intros x j Q Hj HQ.
    pose proof (cntf_set_nth x Q es i c (INode id ow e') c0 (INode id ow e) Hn) as Hs.
    rewrite !cnt_node in Hs.
    assert (HQ' : forall k, (fun j0 => Q (S j0)) k = Nat.eqb j (k + S (S lvl))).
    { intros k. cbn beta. rewrite HQ. f_equal. lia. }
    pose proof (H3 x j _ Hj HQ'). lia.
  - intros x.
    pose proof (cntf_set_nth x tt_ es i c (INode id ow e') c0 (INode id ow e) Hn) as Hs.
    rewrite !cnt_node in Hs. change (fun k => tt_ (S k)) with tt_ in Hs.
    pose proof (H4 x). lia.
  - intros Hes.
    pose proof (own_f_nth _ _ _ _ _ Hes Hn) as Ho. rewrite owners_node in Ho.
    apply andb_true_iff in Ho. destruct Ho as [Ho1 Ho2].
    eapply own_f_set_nth; [exact Hes|exact Hn|]. rewrite owners_node, Ho1. cbn [andb].
    apply H5. exact Ho2.
Qed.

Lemma wdelta_mirror rid ow es nx rk es' nx' rk' :
  MirrorC (INode rid ow es) rk nx -> wdelta 0 es nx rk es' nx' rk' ->
  MirrorC (INode rid ow es') rk' nx'.
Proof.
  intros (HA & HB & HC & HD) (H1 & H2 & H3 & H4 & H5).
  split; [|split; [|split]].
  - intros k x Hk. rewrite H2 in Hk. specialize (HA k x Hk). rewrite cnt_node in *.
    assert (HQ : forall j, (fun j0 => Nat.eqb k (S j0)) j = Nat.eqb k (j + 1)).
    { intros j. cbn beta. f_equal. lia. }
    pose proof (H3 x k _ Hk HQ). lia.
  - intros x. specialize (HB x). specialize (HC x). specialize (H4 x). rewrite cnt_node in *.
    change (fun k => tt_ (S k)) with tt_ in *.
    pose proof (bump_le1 nx nx' x). destruct (Nat.le_gt_cases nx x) as [Hle|Hgt].
    + specialize (HC Hle). lia.
    + rewrite (bump_lt nx nx' x Hgt) in H4. lia.
  - intros x Hx. assert (Hx' : nx <= x) by lia. specialize (HC x Hx'). specialize (H4 x).
    rewrite cnt_node in *. change (fun k => tt_ (S k)) with tt_ in *.
    rewrite (bump_ge nx nx' x Hx) in H4. lia.
  - rewrite owners_node in *. apply andb_true_iff in HD. destruct HD as [Ho1 Ho2].
    rewrite Ho1. cbn [andb]. apply H5. exact Ho2.
Qed.

Lemma wmirror_with_root s rid ow es es' nx' rk' :
  s_root s = INode rid ow es -> Mirror s ->
  wdelta 0 es (s_next s) (s_ranks s) es' nx' rk' -> Mirror (with_root s es' nx' rk').
Proof.
  intros Hr HM Hd. apply Mirror_C. apply Mirror_C in HM. unfold with_root. rewrite Hr in *.
  cbn [s_root s_ranks s_next]. eapply wdelta_mirror; eassumption.
Qed.

(* ---------- removal ---------- *)
Lemma cntf_remove_nth x P : forall es i c t,
  nth_error es i = Some (c, t) -> cntf x P (remove_nth i es) + cnt x P t = cntf x P es.
Proof.
  induction es as [|a es IH]; intros [|i] c t Hn; cbn [nth_error] in Hn; try discriminate.
  - inversion Hn; subst a. cbn [remove_nth]. rewrite cntf_cons. cbn [snd]. lia.
  - cbn [remove_nth]. rewrite !cntf_cons. specialize (IH i c t Hn). lia.
Qed.

Lemma pop_rank_length : forall rs k, length (pop_rank k rs) = length rs.
Proof.
  induction rs as [|r rs IH]; intros [|k]; cbn [pop_rank length]; try reflexivity. rewrite IH. reflexivity.
Qed.

Lemma pop_rank_nth : forall rs k j,
  nth j (pop_rank k rs) [] = if Nat.eqb j k then removelast (nth j rs []) else nth j rs [].
Proof.
  induction rs as [|r rs IH]; intros k j.
  - destruct k; cbn [pop_rank]; destruct j; cbn [nth]; destruct (Nat.eqb _ _); reflexivity.
  - destruct k as [|k]; cbn [pop_rank]; destruct j as [|j]; cbn [nth Nat.eqb]; try reflexivity.
    apply IH.
Qed.

Lemma app_rank_nth_eq : forall rs k id j,
  nth j (app_rank k id rs) []
  = if Nat.eqb j k && Nat.ltb k (length rs) then nth j rs [] ++ [id] else nth j rs [].
Proof.
  induction rs as [|r rs IH]; intros k id j.
  - destruct k; cbn [app_rank]; destruct j; cbn [nth length]; rewrite ?andb_false_r; reflexivity.
  - destruct k as [|k]; cbn [app_rank]; destruct j as [|j]; cbn [nth Nat.eqb andb length]; try reflexivity.
    rewrite IH. reflexivity.
Qed.

Lemma wdelta_remove_leaf lvl es i c v nx rk :
  nth_error es i = Some (c, ILeaf v) -> wdelta lvl es nx rk (remove_nth i es) nx rk.
Proof.
  intros Hn. split; [lia|]. split; [reflexivity|]. split; [|split].
  - intros x j Q _ _. pose proof (cntf_remove_nth x Q es i c _ Hn) as H. cbn [cnt] in H. lia.
  - intros x. pose proof (cntf_remove_nth x tt_ es i c _ Hn) as H. lia.
  - intros H. unfold own_f in *. apply forallb_remove_nth. exact H.
Qed.

Lemma wdelta_remove_node lvl es i c id ow nx rk l0 :
  nth_error es i = Some (c, INode id ow []) -> nth (S lvl) rk [] = l0 ++ [id] ->
  wdelta lvl es nx rk (remove_nth i es) nx (pop_rank (S lvl) rk).
Proof.
  intros Hn Hl. split; [lia|]. split; [apply pop_rank_length|]. split; [|split].
  - intros x j Q Hj HQ. pose proof (cntf_remove_nth x Q es i c _ Hn) as H.
    rewrite cnt_node, cntf_nil, (HQ 0) in H. cbn [plus] in H. rewrite pop_rank_nth.
    destruct (Nat.eqb_spec j (S lvl)) as [E|E]; cbn [andb] in H.
    + subst j. rewrite Hl, removelast_last, cntl_app, cntl_cons, cntl_nil. lia.
    + lia.
  - intros x. pose proof (cntf_remove_nth x tt_ es i c _ Hn) as H. lia.
  - intros H. unfold own_f in *. apply forallb_remove_nth. exact H.
Qed.

Lemma nth_error_set_nth_same {A} : forall (l : list A) i x y,
  nth_error l i = Some y -> nth_error (set_nth i x l) i = Some x.
Proof.
  induction l as [|a l IH]; intros [|i] x y Hn; cbn [nth_error set_nth] in *; try discriminate;
    [reflexivity|eapply IH; exact Hn].
Qed.

(* getPayloadRef on a fiber of rank lvl registers what it creates with the ranks below lvl only *)
Lemma app_rank_low k id rs j : j <> k -> nth j (app_rank k id rs) [] = nth j rs [].
Proof.
  intros H. rewrite app_rank_nth_eq. assert (E : Nat.eqb j k = false) by (apply Nat.eqb_neq; exact H).
  rewrite E. reflexivity.
Qed.

Lemma get_ref_low n d w : forall pt lvl es nx rk j, j <= lvl ->
  nth j (snd (fst (get_ref n d w lvl pt es nx rk))) [] = nth j rk [].
Proof.
  induction pt as [|c pt IH]; intros lvl es nx rk j Hj; [reflexivity|].
  cbn [get_ref].
  set (i := bisect c (map fst es)).
  destruct (coord_exists c (map fst es) i).
  - destruct (nth_error es i) as [[c' p]|]; [|reflexivity].
    destruct pt as [|c2 pt']; destruct p as [v|id ow e1]; try reflexivity.
    specialize (IH (S lvl) e1 nx rk j).
    destruct (get_ref n d w (S lvl) (c2 :: pt') e1 nx rk) as [[[e2 nx2] rk2] r].
    cbn [fst snd] in *. apply IH. lia.
  - destruct (Nat.eqb (S lvl) n).
    + destruct (nth_error (insert_at i (c, ILeaf d) es) i) as [[c' p]|]; [|reflexivity].
      destruct pt as [|c2 pt']; destruct p as [v|id ow e1]; try reflexivity.
      specialize (IH (S lvl) e1 nx rk j).
      destruct (get_ref n d w (S lvl) (c2 :: pt') e1 nx rk) as [[[e2 nx2] rk2] r].
      cbn [fst snd] in *. apply IH. lia.
    + destruct (nth_error (insert_at i (c, INode nx (Some (S lvl)) []) es) i) as [[c' p]|];
        [|cbn [fst snd]; apply app_rank_low; lia].
      destruct pt as [|c2 pt']; destruct p as [v|id ow e1]; cbn [fst snd];
        try (apply app_rank_low; lia).
      specialize (IH (S lvl) e1 (S nx) (app_rank (S lvl) nx rk) j).
      destruct (get_ref n d w (S lvl) (c2 :: pt') e1 (S nx) (app_rank (S lvl) nx rk))
        as [[[e2 nx2] rk2] r].
      cbn [fst snd] in *. rewrite IH by lia. apply app_rank_low. lia.
Qed.

(* ---------- the loop nest, throughout ---------- *)
Section Through.
  Variables (n : nat) (dz : Z) (sp : srcp) (bd : body).
  (* the destination before the whole nest *)
  Variables (R0 : ifib) (N0 : nat) (K0 : list (list nat)).

  (* [root] is the whole destination when the fiber at [path] is [es'] *)
  Definition SnapOK (path : list Z) (es' root : ifib) (nx' : nat) (rk' : list (list nat)) : Prop :=
    wf_fib n 0 root = true /\ wdelta 0 R0 N0 K0 root nx' rk'
    /\ forall p t, subtree_at p (Node (efib es')) = Some t ->
                   subtree_at (path ++ p) (Node (efib root)) = Some t.

  Definition PlugOK (plug : ifib -> ifib) (l : nat) (path : list Z) (es : ifib) (nx : nat)
             (rk : list (list nat)) : Prop :=
    forall es' nx' rk', wf_fib n l es' = true -> wdelta l es nx rk es' nx' rk' ->
                        SnapOK path es' (plug es') nx' rk'.

  Definition EvOK (e : ev) : Prop :=
    wf_fib n 0 (e_root e) = true /\ wdelta 0 R0 N0 K0 (e_root e) (e_nx e) (e_rk e)
    /\ subtree_at (e_path e) (Node (efib (e_root e))) = Some (erase (e_z e)).

  Definition RT (l k : nat) (R : runner) : Prop :=
    forall path bp plug es nx rk,
      l < n -> wf_fib n l es = true -> wf_tree k bp = true -> length rk = n ->
      let r := R path bp plug es nx rk in
      wf_fib n l (fst (fst (fst r))) = true
      /\ wdelta l es nx rk (fst (fst (fst r))) (snd (fst (fst r))) (snd (fst r))
      /\ (forall j, j <= l -> nth j (snd (fst r)) [] = nth j rk [])
      /\ (PlugOK plug l path es nx rk -> Forall EvOK (snd r)).

  Lemma PlugOK_shift plug l path es nx rk es1 nx1 rk1 :
    PlugOK plug l path es nx rk -> wdelta l es nx rk es1 nx1 rk1 -> PlugOK plug l path es1 nx1 rk1.
  Proof.
    intros HP Hd es' nx' rk' Hw Hd'. apply HP; [exact Hw|]. eapply wdelta_trans; eassumption.
  Qed.

  Variables (k' : nat) (inner : runner) (lvl : nat) (path : list Z).
  Hypothesis Hk : S lvl + k' = n.
  Hypothesis Hinner : RT (S lvl) k' inner.

  Lemma step2_through plug c bp es nx rk :
    lvl < n -> wf_fib n lvl es = true -> wf_tree k' bp = true -> length rk = n ->
    let r := step2 n dz bd inner lvl path plug c bp es nx rk in
    wf_fib n lvl (fst (fst (fst r))) = true
    /\ wdelta lvl es nx rk (fst (fst (fst r))) (snd (fst (fst r))) (snd (fst r))
    /\ (forall j, j <= lvl -> nth j (snd (fst r)) [] = nth j rk [])
    /\ (PlugOK plug lvl path es nx rk -> Forall EvOK (snd r)).
  Proof.
    intros Hlt Hwf Hbp Hlen. cbv zeta. unfold step2.
    pose proof (create_facts n dz k' lvl Hk c es nx rk Hwf) as Hc. cbv zeta in Hc.
    set (i := bisect c (map fst es)) in *.
    set (ex := coord_exists c (map fst es) i) in *.
    (* creation *)
    assert (Hcre : wdelta lvl es nx rk (fst (fst (create_at n dz lvl ex i c es nx rk)))
                          (snd (fst (create_at n dz lvl ex i c es nx rk)))
                          (snd (create_at n dz lvl ex i c es nx rk))
                   /\ (forall j, j <= lvl -> nth j (snd (create_at n dz lvl ex i c es nx rk)) [] = nth j rk [])
                   /\ (ex = false -> Nat.eqb (S lvl) n = false ->
                       nth (S lvl) (snd (create_at n dz lvl ex i c es nx rk)) []
                       = nth (S lvl) rk [] ++ [nx])).
    { unfold create_at. destruct ex.
      - cbn [fst snd]. split; [apply wdelta_refl|]. split; [reflexivity|discriminate].
      - destruct (Nat.eqb (S lvl) n) eqn:El; cbn [fst snd].
        + split; [apply delta_w, delta_insert_leaf|]. split; [reflexivity|discriminate].
        + split; [apply delta_w, delta_insert_node|]. split.
          * intros j Hj. rewrite app_rank_nth_eq.
            assert (E : Nat.eqb j (S lvl) = false) by (apply Nat.eqb_neq; lia). rewrite E. reflexivity.
          * intros _ _. rewrite app_rank_nth_eq, Nat.eqb_refl. cbn [andb].
            apply Nat.eqb_neq in El.
            assert (E : Nat.ltb (S lvl) (length rk) = true) by (apply Nat.ltb_lt; lia).
            rewrite E. reflexivity. }
    destruct (create_at n dz lvl ex i c es nx rk) as [[es1 nx1] rk1] eqn:Hcr.
    cbn [fst snd] in Hc, Hcre. destruct Hc as (Hwf1 & Hb1 & Hn1 & Hzw & Hex & Ha1).
    destruct Hcre as (Hd1 & Hk1 & Hlast).
    rewrite Hn1.
    set (zp := match assoc c es with Some p => p | None => zdef n dz lvl nx end) in *.
    assert (Hlen1 : length rk1 = n) by (destruct Hd1 as (_ & H2 & _); lia).
    pose proof Hwf1 as Hwf1'. unfold wf_fib in Hwf1'. apply andb_true_iff in Hwf1'.
    destruct Hwf1' as [Hs1 _]. pose proof (ssorted_NoDup _ Hs1) as Hnd1.
    (* the yield *)
    assert (Hev : PlugOK plug lvl path es nx rk ->
                  EvOK {| e_path := path ++ [c]; e_a := bp; e_z := zp; e_root := plug es1;
                          e_nx := nx1; e_rk := rk1 |}).
    { intros HP. destruct (HP es1 nx1 rk1 Hwf1 Hd1) as (S1 & S2 & S3).
      split; [exact S1|]. split; [exact S2|]. cbn [e_path e_root e_z].
      apply S3. cbn [subtree_at]. rewrite lookup_efib, Ha1, Z.eqb_refl. reflexivity. }
    (* the body *)
    assert (Hbody : exists zp' nx2 rk2 evs,
      body_run n dz bd inner lvl path plug c bp es1 i zp nx1 rk1 = (zp', nx2, rk2, evs)
      /\ wf_i n (S lvl) zp' = true
      /\ wdelta lvl es1 nx1 rk1 (set_nth i (c, zp') es1) nx2 rk2
      /\ (forall j, j <= S lvl -> nth j rk2 [] = nth j rk1 [])
      /\ (PlugOK plug lvl path es nx rk -> Forall EvOK evs)
      /\ (forall id ow sub', zp' = INode id ow sub' -> exists sub, zp = INode id ow sub)
      /\ (forall v', zp' = ILeaf v' -> exists v, zp = ILeaf v)).
    { assert (Hsame : exists zp' nx2 rk2 evs, (zp, nx1, rk1, @nil ev) = (zp', nx2, rk2, evs)
              /\ wf_i n (S lvl) zp' = true
              /\ wdelta lvl es1 nx1 rk1 (set_nth i (c, zp') es1) nx2 rk2
              /\ (forall j, j <= S lvl -> nth j rk2 [] = nth j rk1 [])
              /\ (PlugOK plug lvl path es nx rk -> Forall EvOK evs)
              /\ (forall id ow sub', zp' = INode id ow sub' -> exists sub, zp = INode id ow sub)
              /\ (forall v', zp' = ILeaf v' -> exists v, zp = ILeaf v)).
      { exists zp, nx1, rk1, []. split; [reflexivity|]. split; [exact Hzw|]. split.
        - destruct zp as [v|id ow sub] eqn:Ezp.
          + apply delta_w. eapply delta_set_leaf. exact Hn1.
          + eapply wdelta_child; [exact Hn1|apply wdelta_refl].
        - split; [reflexivity|]. split; [intros _; constructor|].
          split; [intros id ow sub' E; exists sub'; exact E|intros v' E; exists v'; exact E]. }
      unfold body_run. destruct zp as [v|id ow sub] eqn:Ezp.
      - destruct (bd (path ++ [c])) as [|w| |pt w] eqn:Hbd; try exact Hsame.
        exists (ILeaf (apply_wr w v)), nx1, rk1, []. split; [reflexivity|]. split; [exact Hzw|].
        split; [apply delta_w; eapply delta_set_leaf; exact Hn1|]. split; [reflexivity|].
        split; [intros _; constructor|]. split; [intros ? ? ? E; discriminate|].
        intros v' _. exists v. reflexivity.
      - pose proof Hzw as Hzw0. rewrite wf_i_node in Hzw0. apply andb_true_iff in Hzw0.
        destruct Hzw0 as [Hlt1 Hwsub]. apply Nat.ltb_lt in Hlt1.
        destruct (bd (path ++ [c])) as [|w| |pt w] eqn:Hbd; [exact Hsame|exact Hsame| |].
        + pose proof (Hinner (path ++ [c]) bp (fun s => plug (set_nth i (c, INode id ow s) es1)) sub nx1 rk1
                             Hlt1 Hwsub Hbp Hlen1) as Hin. cbv zeta in Hin.
          destruct (inner (path ++ [c]) bp (fun s => plug (set_nth i (c, INode id ow s) es1)) sub nx1 rk1)
            as [[[sub' nx2] rk2] evs] eqn:Hrun.
          cbn [fst snd] in Hin. destruct Hin as (I1 & I2 & I3 & I4).
          exists (INode id ow sub'), nx2, rk2, evs. split; [reflexivity|].
          split; [rewrite wf_i_node, I1, andb_true_r; apply Nat.ltb_lt; exact Hlt1|].
          split; [eapply wdelta_child; [exact Hn1|exact I2]|]. split; [exact I3|].
          split; [|split; [intros id' ow' s' E; inversion E; subst; exists sub; reflexivity|intros ? E; discriminate]].
          intros HP. apply I4.
          (* the context of the nested loop *)
          intros s' nx' rk' Hws' Hds'.
          assert (Hw' : wf_fib n lvl (set_nth i (c, INode id ow s') es1) = true).
          { eapply wf_fib_set_nth; [exact Hwf1|exact Hn1|].
            rewrite wf_i_node, Hws', andb_true_r. apply Nat.ltb_lt. exact Hlt1. }
          assert (Hd' : wdelta lvl es nx rk (set_nth i (c, INode id ow s') es1) nx' rk').
          { eapply wdelta_trans; [exact Hd1|]. eapply wdelta_child; [exact Hn1|exact Hds']. }
          destruct (HP _ nx' rk' Hw' Hd') as (S1 & S2 & S3).
          split; [exact S1|]. split; [exact S2|].
          intros p t Hp. rewrite <- app_assoc. cbn [app]. apply S3. cbn [subtree_at].
          rewrite lookup_efib, (assoc_set_nth es1 i c (INode id ow sub) _ c Hnd1 Hn1), Z.eqb_refl.
          cbn [option_map]. rewrite erase_node. exact Hp.
        + destruct (Nat.eqb (S lvl + length pt) n) eqn:Elen; [|exact Hsame].
          pose proof (get_ref_wf n dz w pt (S lvl) sub nx1 rk1 Hlt1 Hwsub) as Hgw.
          pose proof (get_ref_low n dz w pt (S lvl) sub nx1 rk1) as Hgl.
          destruct (get_ref n dz w (S lvl) pt sub nx1 rk1) as [[[sub' nx2] rk2] rr] eqn:Hg.
          cbn [fst snd] in Hgw, Hgl.
          exists (INode id ow sub'), nx2, rk2, []. split; [reflexivity|].
          split; [rewrite wf_i_node, Hgw, andb_true_r; apply Nat.ltb_lt; exact Hlt1|].
          split; [eapply wdelta_child; [exact Hn1|]; apply delta_w; eapply get_ref_delta; exact Hg|].
          split; [exact Hgl|]. split; [intros _; constructor|].
          split; [intros id' ow' s' E; inversion E; subst; exists sub; reflexivity|intros ? E; discriminate]. }
    destruct Hbody as (zp' & nx2 & rk2 & evs & Hrun & Hzw' & Hd2 & Hk2 & Hevs & Hnode & Hleafp).
    rewrite Hrun.
    set (rm := should_remove dz (negb ex) zp').
    pose proof (finish_facts n lvl c es1 i zp zp' rm rk2 Hwf1 Hb1 Hn1 Hzw') as Hf. cbv zeta in Hf.
    assert (Hn2 : nth_error (set_nth i (c, zp') es1) i = Some (c, zp'))
      by (apply (nth_error_set_nth_same es1 i (c, zp') (c, zp) Hn1)).
    assert (Hm2 : map fst (set_nth i (c, zp') es1) = map fst es1)
      by (apply (map_fst_set_nth i c zp' zp es1 Hn1)).
    assert (Hfin : wdelta lvl (set_nth i (c, zp') es1) nx2 rk2
                          (fst (finish n lvl c rm (set_nth i (c, zp') es1) rk2)) nx2
                          (snd (finish n lvl c rm (set_nth i (c, zp') es1) rk2))
                   /\ (forall j, j <= lvl ->
                         nth j (snd (finish n lvl c rm (set_nth i (c, zp') es1) rk2)) [] = nth j rk2 [])).
    { unfold finish. rewrite Hm2, Hb1. destruct rm eqn:Erm; cbn [fst snd];
        [|split; [apply wdelta_refl|reflexivity]].
      destruct zp' as [v'|id ow sub'] eqn:Ezp'.
      - destruct (Hleafp v' eq_refl) as [v Hv].
        assert (Hl : Nat.ltb (S lvl) n = false).
        { apply Nat.ltb_ge. cbn [wf_i] in Hzw'. apply Nat.eqb_eq in Hzw'. lia. }
        rewrite Hl. split; [eapply wdelta_remove_leaf; exact Hn2|reflexivity].
      - destruct (Hnode id ow sub' eq_refl) as [sub Hsub].
        unfold rm, should_remove in Erm. apply andb_true_iff in Erm. destruct Erm as [Eex El].
        apply Nat.eqb_eq in El. destruct sub'; [|discriminate].
        assert (Hexf : ex = false) by (destruct ex; [discriminate|reflexivity]).
        rewrite wf_i_node in Hzw'. apply andb_true_iff in Hzw'. destruct Hzw' as [Hl _].
        rewrite Hl. apply Nat.ltb_lt in Hl.
        assert (Hnl : Nat.eqb (S lvl) n = false) by (apply Nat.eqb_neq; lia).
        assert (Hnone : assoc c es = None).
        { destruct (assoc c es) eqn:Ha; [|reflexivity]. exfalso.
          assert (ex = true) by (apply (proj2 Hex); discriminate). congruence. }
        assert (Hid : id = nx).
        { unfold zp in Hsub. rewrite Hnone in Hsub. unfold zdef in Hsub. rewrite Hnl in Hsub.
          inversion Hsub; reflexivity. }
        subst id. split.
        + eapply (wdelta_remove_node lvl _ i c nx ow nx2 rk2 (nth (S lvl) rk [])); [exact Hn2|].
          rewrite (Hk2 (S lvl) (le_n _)). apply Hlast; assumption.
        + intros j Hj. rewrite pop_rank_nth.
          assert (E : Nat.eqb j (S lvl) = false) by (apply Nat.eqb_neq; lia). rewrite E. reflexivity. }
    destruct (finish n lvl c rm (set_nth i (c, zp') es1) rk2) as [es3 rk3] eqn:Hfi.
    cbn [fst snd] in *. destruct Hf as [Hwf3 _]. destruct Hfin as [Hd3 Hk3].
    split; [exact Hwf3|].
    split; [eapply wdelta_trans; [exact Hd1|]; eapply wdelta_trans; [exact Hd2|exact Hd3]|].
    split.
    { intros j Hj. rewrite (Hk3 j Hj), (Hk2 j) by lia. apply Hk1. exact Hj. }
    intros HP. constructor; [apply Hev; exact HP|apply Hevs; exact HP].
  Qed.

  Lemma loop2_through plug : forall b es nx rk,
    lvl < n -> wf_fib n lvl es = true -> (forall cb, In cb b -> wf_tree k' (snd cb) = true) ->
    length rk = n ->
    let r := loop2 n dz bd inner lvl path plug b es nx rk in
    wf_fib n lvl (fst (fst (fst r))) = true
    /\ wdelta lvl es nx rk (fst (fst (fst r))) (snd (fst (fst r))) (snd (fst r))
    /\ (forall j, j <= lvl -> nth j (snd (fst r)) [] = nth j rk [])
    /\ (PlugOK plug lvl path es nx rk -> Forall EvOK (snd r)).
  Proof.
    induction b as [|[c0 bp0] b IH]; intros es nx rk Hlt Hwf Hbw Hlen; cbv zeta.
    - cbn [loop2 fst snd]. split; [exact Hwf|]. split; [apply wdelta_refl|]. split; [reflexivity|].
      intros _. constructor.
    - cbn [loop2].
      pose proof (step2_through plug c0 bp0 es nx rk Hlt Hwf (Hbw (c0, bp0) (or_introl eq_refl)) Hlen) as Hst.
      cbv zeta in Hst.
      destruct (step2 n dz bd inner lvl path plug c0 bp0 es nx rk) as [[[es3 nx2] rk3] evs] eqn:Hs2.
      cbn [fst snd] in Hst. destruct Hst as (S1 & S2 & S3 & S4).
      assert (Hlen3 : length rk3 = n) by (destruct S2 as (_ & H2 & _); lia).
      pose proof (IH es3 nx2 rk3 Hlt S1 (fun cb Hin => Hbw cb (or_intror Hin)) Hlen3) as Hih.
      cbv zeta in Hih.
      destruct (loop2 n dz bd inner lvl path plug b es3 nx2 rk3) as [[[esf nxf] rkf] evs'] eqn:Hl2.
      cbn [fst snd] in *. destruct Hih as (I1 & I2 & I3 & I4).
      split; [exact I1|]. split; [eapply wdelta_trans; eassumption|].
      split; [intros j Hj; rewrite (I3 j Hj); apply S3; exact Hj|].
      intros HP. apply Forall_app. split; [apply S4; exact HP|].
      apply I4. eapply PlugOK_shift; eassumption.
  Qed.
End Through.

Theorem pop_RT n dz sp bd R0 N0 K0 : forall k l, l + k = n ->
  RT n R0 N0 K0 l k (pop k n dz sp bd l).
Proof.
  induction k as [|k IH]; intros l Hlk; unfold RT; intros path bp plug es nx rk Hlt Hwf Hbp Hlen; [lia|].
  destruct bp as [v|aes]; [cbn [wf_tree] in Hbp; discriminate|].
  cbn [wf_tree] in Hbp. apply andb_true_iff in Hbp. destruct Hbp as [Hsa Hka].
  cbn [pop]. rewrite (offers_presents n sp l aes Hsa).
  pose proof Hwf as Hwf0. unfold wf_fib in Hwf0. apply andb_true_iff in Hwf0. destruct Hwf0 as [Hse _].
  rewrite loop1_loop2;
    [|exact Hse|apply a_presents_sorted; exact Hsa|destruct (a_presents n sp l aes) as [|[c ?] ?]; [exact I|lia]].
  assert (Hk : S l + k = n) by lia.
  exact (loop2_through n dz bd R0 N0 K0 k (pop k n dz sp bd (S l)) l path Hk (IH (S l) Hk) plug
                       (a_presents n sp l aes) es nx rk Hlt Hwf (a_presents_wf n sp l aes k Hk Hka) Hlen).
Qed.
