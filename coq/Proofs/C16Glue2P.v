(* C16Glue2P.v — the glue to the oracle for nests with a populate prefix (no projection level), for
   cases that register no destination-side (populate_read / populate_write) trace. *)
From Coq Require Import ZArith List Bool Lia ZifyBool.
From FT Require Import Model.Base Model.Obs Model.C16Metrics Model.C16Nest Model.C16Check
                       Proofs.ObsP Proofs.C16MetricsP Proofs.C16CoreP Proofs.C16RefP Proofs.C16AndP
                       Proofs.C16NestP Proofs.C16PlainP Proofs.C16AndLevelP Proofs.C16EagerP
                       Proofs.C16CheckP Proofs.C16GlueP Proofs.C16PopP Proofs.C16PopNestP.
Import ListNotations.
Open Scope Z_scope.

Section WithZZ.
Context {zz : ZZ}.

Lemma pnest_nth : forall lv j, pnest lv = true -> is_proj (nth j lv dflt_level) = false.
Proof.
  induction lv as [|L lv IH]; intros j H; [destruct j; reflexivity|].
  cbn [pnest] in H. apply andb_true_iff in H. destruct H as [Hok H].
  destruct j as [|j]; cbn [nth].
  - unfold lvl_ok in Hok. unfold is_proj. destruct (l_proj L); [discriminate|reflexivity].
  - destruct (l_pop L); [apply IH; exact H|].
    cbn [forallb] in H. apply andb_true_iff in H. destruct H as [_ H].
    apply (eager_nth lv j H).
Qed.

Lemma trace_ok_of_spec2 : forall c zt k data,
  (forall j, is_proj (nth j (k_levels c) dflt_level) = false) -> (length (k_levels c) <= 3)%nat ->
  0 <= key_rank k -> traced c k = true -> is_zside (key_kind k) = false ->
  let d := dr (k_levels c) [([], k_inputs c)] in
  rows_ok false (traced c) 0 [] (k_levels c) [] (k_inputs c) k data ->
  trace_ok c zt k (hdrs k 0 d ++ data) = true.
Proof.
  intros c zt k data Hprj Hlen Hr Htr Hnz d [_ Hok]. specialize (Hok Hr).
  unfold deep_ok in Hok. cbv zeta in Hok. destruct Hok as (O1 & O2 & O3 & O4).
  set (lv := k_levels c) in *. set (e := k_inputs c) in *.
  set (r := key_rank k) in *. set (j := Z.to_nat r) in *.
  assert (Hd : (d <= length lv)%nat) by apply dr_le.
  unfold trace_ok. fold lv. fold e. fold r.
  destruct (50 <=? r) eqn:E50.
  - assert (Hdata : data = []) by (apply O4; change (0 + d <= j)%nat; unfold j; lia).
    assert (Hh : hdrs k 0 d = []).
    { unfold hdrs. fold r. assert (r <? Z.of_nat d = false) as -> by lia. rewrite andb_false_r. reflexivity. }
    rewrite Hh, Hdata. cbn [app]. rewrite (Hprj (Z.to_nat (r - 50))).
    cbn [negb orb]. rewrite andb_false_r. reflexivity.
  - cbn [negb orb]. assert ((0 <=? r) = true) as -> by lia.
    fold j. pose proof (Hprj j) as Hp. set (L := nth j lv dflt_level) in *.
    destruct (Nat.lt_ge_cases j d) as [Hjd|Hjd].
    + pose proof (proj1 (dr_space lv j [([], e)]) Hjd) as [Hsp Hjl].
      assert (Hh : hdrs k 0 d = [header (iota (S j)) j]).
      { unfold hdrs. fold r. fold j. assert ((Z.of_nat 0 <=? r) && (r <? Z.of_nat d) = true) as -> by (unfold j in *; lia).
        reflexivity. }
      rewrite Hh. cbn [app].
      assert (Hreached : match space lv j [([], e)] with [] => false | _ :: _ => Nat.ltb j (length lv) end = true).
      { destruct (space lv j [([], e)]); [congruence|]. apply Nat.ltb_lt. exact Hjl. }
      rewrite Hreached. cbn [andb]. rewrite Hp, ref_header_eq, list_eqb_refl. cbn [andb].
      assert (Hw : forallb (fun rw => Nat.eqb (length rw) (2 * S j + 1)) data = true).
      { apply forallb_forall. intros rw Hin. rewrite Forall_forall in O1. destruct (O1 _ Hin) as [_ Hl].
        apply Nat.eqb_eq. exact Hl. }
      rewrite Hw. cbn [andb]. unfold stampR in O2. rewrite O2. cbn [andb].
      assert (Hsc : addr_scope false (traced c) k = true).
      { unfold addr_scope. rewrite Htr, Hnz. cbn [negb orb andb]. apply orb_true_r. }
      assert (Hjd' : (j < 0 + dr lv [([], e)])%nat) by (change (j < 0 + d)%nat; lia).
      specialize (O3 Hsc Hjd'). unfold expect_rows in O3. fold j in O3. rewrite Nat.sub_0_r in O3.
      fold L in O3.
      destruct (key_kind k =? K_PROJ); [reflexivity|]. rewrite Hnz. cbn [andb].
      rewrite O3.
      rewrite (flat_map_ext _ (fun q => expect_at L false (key_kind k) (key_label k) [] [] (fst q) (snd q)))
        by (intros q; apply expect_at_nz; exact Hnz).
      apply rows_eqb_refl.
    + assert (Hdata : data = []) by (apply O4; change (0 + d <= j)%nat; lia).
      assert (Hh : hdrs k 0 d = []).
      { unfold hdrs. fold r. assert (r <? Z.of_nat d = false) as -> by (unfold j in *; lia).
        rewrite andb_false_r. reflexivity. }
      rewrite Hh, Hdata. cbn [app].
      assert (Hnr : match space lv j [([], e)] with [] => false | _ :: _ => Nat.ltb j (length lv) end = false).
      { destruct (space lv j [([], e)]) eqn:Es; auto. apply Nat.ltb_ge.
        destruct (Nat.lt_ge_cases j (length lv)) as [Hl|Hl]; auto. exfalso.
        assert (j < d)%nat; [|lia]. apply dr_space. split; auto. rewrite Es. discriminate. }
      rewrite Hnr. reflexivity.
Qed.

Lemma region0_pos_ok : forall c, c16_region c = 0 -> (length (k_levels c) <= 3)%nat ->
  (forall j, is_proj (nth j (k_levels c) dflt_level) = false) ->
  nest_pos_ok (traced c) 0 (k_levels c) (k_inputs c).
Proof.
  intros c Hreg Hlen Hprj k L Hn. unfold c16_region in Hreg.
  destruct (existsb (affected c) (k_keys c)) eqn:E; [discriminate|].
  assert (Hk : (k < length (k_levels c))%nat) by (apply nth_error_Some; congruence).
  assert (Haff : forall kk, traced c kk = true -> affected c kk = false).
  { intros kk Ht. apply traced_inv in Ht. destruct (affected c kk) eqn:Ea; auto.
    assert (existsb (affected c) (k_keys c) = true) by (apply existsb_exists; eauto). congruence. }
  assert (HL : nth k (k_levels c) dflt_level = L) by (apply nth_error_nth; exact Hn).
  assert (Hb : (0 <=? Z.of_nat k) && (Z.of_nat k <? 50) = true) by lia.
  unfold lvl_pos_ok. cbn [plus]. destruct (l_src L) as [x|x y] eqn:Es.
  - intros Hp Ht. specialize (Haff _ Ht). unfold affected in Haff. cbn [key_rank key_kind fst snd] in Haff.
    rewrite Nat2Z.id, HL, Es, Hb, Hp in Haff. pose proof (Hprj k) as Hq. rewrite HL in Hq. rewrite Hq in Haff.
    change (K_POP =? K_INT) with false in Haff. change (K_POP =? K_POP) with true in Haff.
    cbn [andb negb] in Haff. destruct (l_ufmt L); [left; reflexivity|right]. cbn [negb andb] in Haff. exact Haff.
  - cbv zeta. intros Hneed.
    assert (Hcase : forall l, affected c (Z.of_nat k, K_INT, l) = false ->
              l_ufmt L = true \/ (noemp (nth x (k_inputs c) (Node [])) /\ noemp (nth y (k_inputs c) (Node [])))).
    { intros l Ha. unfold affected in Ha. cbn [key_rank key_kind fst snd] in Ha.
      rewrite Nat2Z.id, HL, Es, Hb, Z.eqb_refl in Ha. cbn [andb] in Ha.
      destruct (l_ufmt L); [left; reflexivity|right]. cbn [negb andb] in Ha. apply orb_false_iff in Ha. exact Ha. }
    destruct Hneed as [H0|H1]; [eapply Hcase|eapply Hcase]; apply Haff; eauto.
Qed.

Theorem pnest_top : forall n tr zshape m lv keys m0 e zt,
  pnest lv = true -> depth_ok (n_pop lv) zt = true -> env_ok e -> nest_pos_ok tr 0 lv e ->
  let evs := fst (run tr zshape (n_pop lv) m lv 0 [] e {| th_z := Some zt; th_lab := lab0 |}) in
  let st' := exec n (init_state keys true m0) evs in
  let d := dr lv [([], e)] in
  m_lo st' = iota d
  /\ forall kk, In kk keys -> exists data,
       content st' kk = Some (hdrs kk 0 d ++ data) /\ rows_ok false tr 0 [] lv [] e kk data.
Proof.
  intros n tr zshape m lv keys m0 e zt Hpn Hdz He Hpo evs st' d.
  assert (Hsh : shape 0 0 [] [] (init_state keys true m0)).
  { unfold shape. cbn. repeat split; auto. }
  assert (Hzt : zty (n_pop lv) {| th_z := Some zt; th_lab := lab0 |}) by (exists zt; split; auto).
  destruct (pnest_spec_gen n tr zshape m lv Hpn (n_pop lv) 0 [] e {| th_z := Some zt; th_lab := lab0 |}
              eq_refl eq_refl (labinv0 (Some zt)) Hzt He Hpo 0%nat [] _ Hsh) as (S1 & _ & E1).
  cbn [Nat.max plus] in S1, E1. fold evs in S1, E1. fold st' in S1. fold d in S1, E1.
  split; [apply S1|]. intros kk Hin. destruct (E1 kk) as (data & Ed & Od). exists data.
  split; auto. unfold st'. rewrite content_is_emits by auto. rewrite Ed. reflexivity.
Qed.

Lemma pnest_eager : forall lv, pnest lv = true -> n_pop lv = O -> forallb eager_level lv = true.
Proof.
  intros lv H Hn. destruct lv as [|L lv]; auto. cbn [pnest n_pop] in *.
  apply andb_true_iff in H. destruct H as [_ H]. destruct (l_pop L); [discriminate|exact H].
Qed.

End WithZZ.

(* the whole oracle for nests with a populate prefix, when no destination-side trace is registered *)
Theorem model_meets_spec_pnest : forall c,
  c16_wf c = true -> c16_region c = 0 -> pnest (k_levels c) = true ->
  forallb (fun k => negb (is_zside (key_kind k))) (k_keys c) = true ->
  c16_holds c (c16_model c) = true.
Proof.
  intros c Hwf Hreg Hpn Hnz.
  pose (zz := {| zz_in := Node []; zz_out := Node [] |}).
  destruct (n_pop (k_levels c)) as [|np] eqn:Enp.
  { apply model_meets_spec_eager; auto. apply pnest_eager; auto. }
  pose proof (wf_env_ok c Hwf) as Henv.
  assert (Hfacts : (length (k_levels c) <= 3)%nat
                   /\ forallb (fun k => 0 <=? key_rank k) (k_keys c) = true
                   /\ k_thresholds c <> [] /\ depth_ok (S np) (k_z c) = true).
  { unfold c16_wf in Hwf. pose proof Hwf as H. rewrite Enp in H. cbv beta iota zeta in H.
    repeat (apply andb_true_iff in H; destruct H as [H ?]).
    repeat split.
    - match goal with Hl : Nat.leb (length (k_levels c)) 3 = true |- _ => apply Nat.leb_le in Hl; exact Hl end.
    - assumption.
    - intros E. match goal with Hn : negb (Nat.eqb (length (k_thresholds c)) 0) = true |- _ =>
        rewrite E in Hn; discriminate end.
    - match goal with Hx : depth_ok (S np) (k_z c) && _ && _ = true |- _ =>
        apply andb_true_iff in Hx; destruct Hx as [Hx _]; apply andb_true_iff in Hx; apply Hx end. }
  destruct Hfacts as (Hlen & Hranks & Hths & Hdz).
  pose proof (pnest_nth (k_levels c)) as Hprj.
  rewrite model_flush_consumable. unfold c16_holds. rewrite Hwf. cbn [andb].
  set (st := exec 0 (init_state (k_keys c) true false) (fst (c16_events c))).
  set (B := files_of c st).
  destruct (k_thresholds c) as [|t0 ths] eqn:Et; [congruence|]. cbn [map].
  assert (HB : files_wf B = true) by apply files_wf_files_of.
  assert (HBB : V_eqb B B = true) by apply V_eqb_refl.
  cbn [forallb]. rewrite !HB, (forallb_const files_wf B ths HB). cbn [andb].
  cbn [length]. rewrite map_length, Nat.eqb_refl. cbn [andb].
  rewrite (forallb_const (V_eqb B) B ths HBB), HBB. rewrite !andb_true_r.
  unfold B, files_of, Vl. cbn [V_list]. rewrite all_ok_map. apply forallb_forall. intros k Hk.
  rewrite forallb_forall in Hranks, Hnz. specialize (Hranks k Hk). specialize (Hnz k Hk).
  destruct (pnest_top 0 (traced c) (k_zshape c) (k_skip c) (k_levels c) (k_keys c) false (k_inputs c) (k_z c)
              Hpn ltac:(rewrite Enp; exact Hdz) Henv
              (region0_pos_ok c Hreg Hlen (fun j => Hprj j Hpn))) as [_ Hall].
  destruct (Hall k Hk) as (data & Hc & Hok).
  assert (Est : exec 0 (init_state (k_keys c) true false)
                  (fst (run (traced c) (k_zshape c) (n_pop (k_levels c)) (k_skip c) (k_levels c) 0 []
                            (k_inputs c) {| th_z := Some (k_z c); th_lab := lab0 |})) = st).
  { unfold st, c16_events, z_in. rewrite Enp. reflexivity. }
  rewrite Est in Hc.
  rewrite (files_of_alt c st k). fold (content st k). rewrite Hc, rows_of_V_rows.
  apply trace_ok_of_spec2; auto; try lia; try (apply traced_in; auto);
    try (intros j; apply Hprj; exact Hpn);
    try (destruct (is_zside (key_kind k)); [discriminate|reflexivity]).
Qed.

(* ------------------------------------------------------------------ destination side included:
   nests whose populate prefix is the first level only, root traversal not inserting *)
Lemma tree_of_V_tree16 : forall t, tree_of_V (V_tree t) = t.
Proof.
  induction t as [v|es IH] using tree_ind'; [reflexivity|].
  cbn [V_tree tree_of_V]. rewrite map_map. f_equal.
  induction es as [|[a t] es IHes]; [reflexivity|]. inversion IH; subst. cbn [map fst snd].
  cbn [snd] in H1. rewrite H1. f_equal. apply IHes. exact H2.
Qed.

Lemma filter_all : forall {A} (f : A -> bool) l, (forall a, f a = true) -> filter f l = l.
Proof. intros A f l H. induction l as [|a l IH]; cbn; auto. rewrite H, IH. reflexivity. Qed.

Lemma space_0 : forall lv pe, space lv 0 pe = pe.
Proof. intros lv pe. destruct lv; reflexivity. Qed.

Section Z1.
Context {zz : ZZ}.

Lemma trace_ok_of_spec_z : forall c k data,
  (forall j, is_proj (nth j (k_levels c) dflt_level) = false) -> (length (k_levels c) <= 3)%nat ->
  0 <= key_rank k -> traced c k = true ->
  zz_in = k_z c ->
  (forall j, (0 < j)%nat -> l_pop (nth j (k_levels c) dflt_level) = false) ->
  (l_pop (nth 0 (k_levels c) dflt_level) = true ->
   appending (nth 0 (k_levels c) dflt_level) (zdesc (k_z c) []) (k_inputs c) = true) ->
  let d := dr (k_levels c) [([], k_inputs c)] in
  rows_ok true (traced c) 0 [] (k_levels c) [] (k_inputs c) k data ->
  trace_ok c zz_out k (hdrs k 0 d ++ data) = true.
Proof.
  intros c k data Hprj Hlen Hr Htr Hzi Hdeep Happ d [_ Hok]. specialize (Hok Hr).
  unfold deep_ok in Hok. cbv zeta in Hok. destruct Hok as (O1 & O2 & O3 & O4).
  set (lv := k_levels c) in *. set (e := k_inputs c) in *.
  set (r := key_rank k) in *. set (j := Z.to_nat r) in *.
  assert (Hd : (d <= length lv)%nat) by apply dr_le.
  unfold trace_ok. fold lv. fold e. fold r.
  destruct (50 <=? r) eqn:E50.
  - assert (Hdata : data = []) by (apply O4; change (0 + d <= j)%nat; unfold j; lia).
    assert (Hh : hdrs k 0 d = []).
    { unfold hdrs. fold r. assert (r <? Z.of_nat d = false) as -> by lia. rewrite andb_false_r. reflexivity. }
    rewrite Hh, Hdata. cbn [app]. rewrite (Hprj (Z.to_nat (r - 50))).
    cbn [negb orb]. rewrite andb_false_r. reflexivity.
  - cbn [negb orb]. assert ((0 <=? r) = true) as -> by lia.
    fold j. pose proof (Hprj j) as Hp. set (L := nth j lv dflt_level) in *.
    destruct (Nat.lt_ge_cases j d) as [Hjd|Hjd].
    + pose proof (proj1 (dr_space lv j [([], e)]) Hjd) as [Hsp Hjl].
      assert (Hh : hdrs k 0 d = [header (iota (S j)) j]).
      { unfold hdrs. fold r. fold j. assert ((Z.of_nat 0 <=? r) && (r <? Z.of_nat d) = true) as -> by (unfold j in *; lia).
        reflexivity. }
      rewrite Hh. cbn [app].
      assert (Hreached : match space lv j [([], e)] with [] => false | _ :: _ => Nat.ltb j (length lv) end = true).
      { destruct (space lv j [([], e)]); [congruence|]. apply Nat.ltb_lt. exact Hjl. }
      rewrite Hreached. cbn [andb]. rewrite Hp, ref_header_eq, list_eqb_refl. cbn [andb].
      assert (Hw : forallb (fun rw => Nat.eqb (length rw) (2 * S j + 1)) data = true).
      { apply forallb_forall. intros rw Hin. rewrite Forall_forall in O1. destruct (O1 _ Hin) as [_ Hl].
        apply Nat.eqb_eq. exact Hl. }
      rewrite Hw. cbn [andb]. unfold stampR in O2. rewrite O2. cbn [andb].
      assert (Hsc : addr_scope true (traced c) k = true).
      { unfold addr_scope. rewrite Htr, orb_true_r. reflexivity. }
      assert (Hjd' : (j < 0 + dr lv [([], e)])%nat) by (change (j < 0 + d)%nat; lia).
      specialize (O3 Hsc Hjd'). unfold expect_rows in O3. fold j in O3. rewrite Nat.sub_0_r in O3.
      fold L in O3.
      destruct (key_kind k =? K_PROJ); [reflexivity|].
      destruct (is_zside (key_kind k)) eqn:Ez; cbn [andb negb].
      * destruct (l_pop L) eqn:Hpop.
        { (* the populate level: the root *)
          assert (Hj0 : j = O).
          { destruct j as [|j']; [reflexivity|]. exfalso.
            assert (l_pop L = false) by (apply Hdeep; lia). congruence. }
          rewrite O3. clear O3. change (Z.to_nat (key_rank k)) with j. revert Hpop. unfold L. rewrite Hj0. clear L Hp. intros Hpop.
          specialize (Happ Hpop). fold lv e in Happ.
          rewrite !space_0. cbn [flat_map app fst snd firstn]. rewrite ?app_nil_r. rewrite Hzi.
          apply andb_true_iff. split.
          - apply forallb_forall. intros rw _. reflexivity.
          - cbn [forallb]. rewrite andb_true_r. cbn [fst snd]. rewrite Happ.
            rewrite filter_all by (intros; reflexivity). apply rows_eqb_refl. }
        assert (Hexp : forall zi zf q, expect_at L false (key_kind k) (key_label k) zi zf (fst q) (snd q) = []).
        { intros. apply expect_zside_nopop; auto. }
        rewrite (flat_map_nil _ _ (fun q => Hexp (zdesc zz_in (fst q)) (zdesc zz_out (fst q)) q)) in O3.
        rewrite O3. cbn [forallb andb].
        apply forallb_forall. intros q _. rewrite Hexp. cbn [filter rows_eqb].
        destruct (appending L _ _); [reflexivity|]. unfold read_covered. rewrite Hpop, andb_false_r. reflexivity.
      * rewrite O3.
        rewrite (flat_map_ext _ (fun q => expect_at L false (key_kind k) (key_label k) [] [] (fst q) (snd q)))
          by (intros q; apply expect_at_nz; exact Ez).
        apply rows_eqb_refl.
    + assert (Hdata : data = []) by (apply O4; change (0 + d <= j)%nat; lia).
      assert (Hh : hdrs k 0 d = []).
      { unfold hdrs. fold r. assert (r <? Z.of_nat d = false) as -> by (unfold j in *; lia).
        rewrite andb_false_r. reflexivity. }
      rewrite Hh, Hdata. cbn [app].
      assert (Hnr : match space lv j [([], e)] with [] => false | _ :: _ => Nat.ltb j (length lv) end = false).
      { destruct (space lv j [([], e)]) eqn:Es; auto. apply Nat.ltb_ge.
        destruct (Nat.lt_ge_cases j (length lv)) as [Hl|Hl]; auto. exfalso.
        assert (j < d)%nat; [|lia]. apply dr_space. split; auto. rewrite Es. discriminate. }
      rewrite Hnr. reflexivity.
Qed.

End Z1.

(* the root traversal of a case with a populated tensor does not insert *)
Definition root_appending (c : c16_case) : bool :=
  match k_levels c with
  | L :: _ => appending L (zdesc (k_z c) []) (k_inputs c)
  | [] => true
  end.

(* the whole oracle - destination-side traces included - for nests whose populate prefix is at most
   the first level, when the root traversal does not insert *)
Theorem model_meets_spec_pop1 : forall c,
  c16_wf c = true -> c16_region c = 0 -> pnest (k_levels c) = true ->
  (n_pop (k_levels c) <= 1)%nat -> root_appending c = true ->
  c16_holds c (c16_model c) = true.
Proof.
  intros c Hwf Hreg Hpn Hn1 Hra.
  destruct (n_pop (k_levels c)) as [|np] eqn:Enp.
  { apply model_meets_spec_eager; auto. apply pnest_eager; auto. }
  assert (np = O) by lia. subst np.
  pose proof (wf_env_ok c Hwf) as Henv.
  assert (Hfacts : (length (k_levels c) <= 3)%nat
                   /\ forallb (fun k => 0 <=? key_rank k) (k_keys c) = true
                   /\ k_thresholds c <> [] /\ depth_ok 1 (k_z c) = true /\ sorted_t (k_z c) = true).
  { unfold c16_wf in Hwf. pose proof Hwf as H. rewrite Enp in H. cbv beta iota zeta in H.
    repeat (apply andb_true_iff in H; destruct H as [H ?]).
    repeat split.
    - match goal with Hl : Nat.leb (length (k_levels c)) 3 = true |- _ => apply Nat.leb_le in Hl; exact Hl end.
    - assumption.
    - intros E. match goal with Hn : negb (Nat.eqb (length (k_thresholds c)) 0) = true |- _ =>
        rewrite E in Hn; discriminate end.
    - match goal with Hx : depth_ok 1 (k_z c) && _ && _ = true |- _ =>
        apply andb_true_iff in Hx; destruct Hx as [Hx _]; apply andb_true_iff in Hx; apply Hx end.
    - match goal with Hx : depth_ok 1 (k_z c) && _ && _ = true |- _ =>
        apply andb_true_iff in Hx; destruct Hx as [Hx _]; apply andb_true_iff in Hx; apply Hx end. }
  destruct Hfacts as (Hlen & Hranks & Hths & Hdz & Hsz).
  pose proof (pnest_nth (k_levels c)) as Hprj.
  destruct (depth_node _ _ Hdz) as (zes & Ezt & Hft).
  destruct (k_levels c) as [|L lv] eqn:Elv; [discriminate|].
  cbn [n_pop] in Enp. destruct (l_pop L) eqn:EP; [|discriminate]. injection Enp as Enp.
  cbn [pnest] in Hpn. rewrite EP in Hpn. apply andb_true_iff in Hpn. destruct Hpn as [Hok Hpn'].
  assert (Heg : forallb eager_level lv = true) by (apply pnest_eager; auto).
  assert (Hj : l_proj L = None).
  { unfold lvl_ok in Hok. destruct (l_proj L); [discriminate|reflexivity]. }
  unfold root_appending in Hra. rewrite Elv in Hra.
  (* the final tree *)
  set (z0 := {| th_z := Some (Node zes); th_lab := lab0 |}).
  set (res := run (traced c) (k_zshape c) 1 (k_skip c) (L :: lv) 0 [] (k_inputs c) z0).
  assert (Hev : c16_events c = (fst res, th_z (snd res))).
  { unfold c16_events, z_in. rewrite Elv. cbn [n_pop]. rewrite EP, Enp, Ezt. reflexivity. }
  assert (Hpn2 : pnest (L :: lv) = true) by (cbn [pnest]; rewrite EP, Hok, Hpn'; reflexivity).
  destruct (pnest_inv (traced c) (k_zshape c) (k_skip c) (L :: lv) Hpn2 1%nat 0%nat [] (k_inputs c) z0)
    as [_ (tf & Htf & Hdf)].
  { cbn [n_pop]. rewrite EP, Enp. reflexivity. }
  { apply labinv0. }
  { cbn [n_pop]. rewrite EP, Enp. exists (Node zes). split; [reflexivity|]. rewrite <- Ezt. exact Hdz. }
  cbn [n_pop] in Hdf. rewrite EP, Enp in Hdf. destruct (depth_node _ _ Hdf) as (zf & -> & _).
  fold res in Htf.
  pose (zz := {| zz_in := k_z c; zz_out := Node zf |}).
  assert (HZ : true = true -> zside_ok (traced c) (k_zshape c) 1 0 L
                 (fun c0 e' z' => run (traced c) (k_zshape c) 1 (k_skip c) lv 1 ([] ++ [c0]) e' z') [] (k_inputs c) z0 zes).
  { intros _. unfold zside_ok. cbn [zz_in zz_out zz]. rewrite Ezt. cbn [zdesc]. split; [reflexivity|].
    split; [exact Htf|]. split; [rewrite Ezt in Hra; exact Hra|]. split.
    - rewrite Ezt in Hsz. cbn [sorted_t] in Hsz. apply andb_true_iff in Hsz. apply ssorted_f_of. apply Hsz.
    - apply asc_src_ok; auto. }
  assert (Hpo : nest_pos_ok (traced c) 0 (L :: lv) (k_inputs c)).
  { rewrite <- Elv. apply region0_pos_ok; auto; rewrite Elv; auto; intros j; apply Hprj; exact Hpn2. }
  pose proof (pop1_spec true 0 (traced c) (k_zshape c) (k_skip c) L lv (k_inputs c) zes Hok EP Heg Hft Henv Hpo HZ) as Hspec.
  fold z0 in Hspec. fold res in Hspec.
  rewrite model_flush_consumable. unfold c16_holds. rewrite Hwf. cbn [andb].
  set (st := exec 0 (init_state (k_keys c) true false) (fst (c16_events c))).
  set (B := files_of c st).
  destruct (k_thresholds c) as [|t0 ths] eqn:Et; [congruence|]. cbn [map].
  assert (HB : files_wf B = true) by apply files_wf_files_of.
  assert (HBB : V_eqb B B = true) by apply V_eqb_refl.
  cbn [forallb]. rewrite !HB, (forallb_const files_wf B ths HB). cbn [andb].
  cbn [length]. rewrite map_length, Nat.eqb_refl. cbn [andb].
  rewrite (forallb_const (V_eqb B) B ths HBB), HBB. rewrite !andb_true_r.
  unfold B, files_of, Vl. cbn [V_list]. rewrite all_ok_map. apply forallb_forall. intros k Hk.
  rewrite forallb_forall in Hranks. specialize (Hranks k Hk).
  assert (Hsh : shape 0 0 [] [] (init_state (k_keys c) true false)).
  { unfold shape. cbn. repeat split; auto. }
  destruct (Hspec 0%nat [] _ Hsh) as (_ & _ & E1).
  destruct (E1 k) as (data & Ed & Od). cbn [Nat.max plus] in Ed.
  assert (Est : exec 0 (init_state (k_keys c) true false) (fst res) = st).
  { unfold st. rewrite Hev. reflexivity. }
  rewrite (files_of_alt c st k). fold (content st k). rewrite <- Est.
  rewrite content_is_emits by auto. rewrite Ed, rows_of_V_rows.
  rewrite Hev. cbn [snd]. rewrite Htf. rewrite tree_of_V_tree16.
  change (Node zf) with (@zz_out zz). rewrite <- Elv.
  apply (trace_ok_of_spec_z c k data).
  - intros j. rewrite Elv. apply Hprj. exact Hpn2.
  - rewrite Elv. exact Hlen.
  - apply Z.leb_le. exact Hranks.
  - apply traced_in. exact Hk.
  - reflexivity.
  - intros j Hj0. rewrite Elv. destruct j as [|j]; [inversion Hj0|]. cbn [nth]. apply (eager_nth lv j Heg).
  - rewrite Elv. cbn [nth]. intros _. exact Hra.
  - rewrite Elv. exact Od.
Qed.
