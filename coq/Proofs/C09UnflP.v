(* C09UnflP.v — the flattened fiber is in the domain of unflattenRanks: unfl_ok from wfl. *)
From Coq Require Import ZArith List Bool Lia Permutation PeanoNat.
From FT Require Import Model.Base Model.Obs Model.C09Transform Model.C09Check
                       Proofs.C09OrderP Proofs.C09FlattenP Proofs.C09BelowP Proofs.C09CheckP
                       Proofs.C09SwizzleP Proofs.C09WfP Proofs.C09SwapP.
Import ListNotations.
Open Scope Z_scope.

(* blocks with strictly ascending heads, none empty *)
Fixpoint blocks_ok (a : Z) (B : list (Z * cfib)) : Prop :=
  match B with
  | [] => True
  | (a1, g1) :: B' => a < a1 /\ g1 <> [] /\ blocks_ok a1 B'
  end.

Lemma unfl_go_blocks : forall B g a cur, blocks_ok a B ->
  unfl_go a cur (map (fun cp => (a :: fst cp, snd cp)) g ++ ungroup B) = (a, cur ++ g) :: B.
Proof.
  induction B as [|[a1 g1] B IH]; intros g a cur Hb.
  - unfold ungroup. simpl. rewrite app_nil_r. revert cur.
    induction g as [|[c0 p] g IHg]; intros cur; simpl; [rewrite app_nil_r; reflexivity|].
    replace (a >? a) with false by lia. rewrite IHg, <- app_assoc. reflexivity.
  - destruct Hb as [Hlt [Hne Hb]]. revert cur.
    induction g as [|[c0 p] g IHg]; intros cur.
    + destruct g1 as [|[c1 p1] g1']; [congruence|].
      unfold ungroup. cbn [map app flat_map fst snd]. fold (ungroup B).
      cbn [unfl_go hd tl]. replace (a1 >? a) with true by lia.
      rewrite app_nil_r. f_equal. apply (IH g1' a1 [(c1, p1)] Hb).
    + cbn [map app fst snd unfl_go hd tl]. replace (a >? a) with false by lia.
      rewrite IHg, <- app_assoc. reflexivity.
Qed.

Definition blk (d : Z) (cp : coord * ct) : Z * cfib := (hd 0 (fst cp), cpresent d (sub (snd cp))).
Definition nonnil (g : Z * cfib) : bool := match snd g with [] => false | _ => true end.

Lemma merge_items_ungroup : forall style sh d cur, tp style ->
  forallb (fun cp => is_single (fst cp)) cur = true ->
  merge_items style sh d cur = ungroup (map (blk d) cur).
Proof.
  intros style sh d cur Hs Hsg. unfold merge_items, ungroup. rewrite flat_map_map.
  apply flat_map_ext_in. intros [c1 p1] Hin. rewrite forallb_forall in Hsg. specialize (Hsg _ Hin).
  simpl in Hsg. destruct c1 as [|a [|? ?]]; try discriminate. simpl.
  apply map_ext. intros [c0 p0]. simpl. rewrite flatten_coords_tp by exact Hs. reflexivity.
Qed.

Lemma ungroup_filter : forall B, ungroup (filter nonnil B) = ungroup B.
Proof.
  intros B. unfold ungroup. apply flat_map_filter_nil. intros [a g] H. unfold nonnil in H. simpl in *.
  destruct g; [reflexivity|discriminate].
Qed.

Lemma blocks_ok_filter : forall d cur a,
  pw ccmp (map fst cur) -> forallb (fun cp => is_single (fst cp)) cur = true ->
  Forall (fun cp => ccmp [a] (fst cp) = Lt) cur ->
  blocks_ok a (filter nonnil (map (blk d) cur)).
Proof.
  intros d. induction cur as [|[c1 p1] cur IH]; intros a Hpw Hsg Ha; [exact I|].
  simpl in Hpw. destruct Hpw as [Hc Hpw]. simpl in Hsg. apply andb_true_iff in Hsg. destruct Hsg as [H1 Hsg].
  inversion Ha as [|? ? Ha1 Harest]; subst. simpl in Ha1, H1.
  destruct c1 as [|a1 [|? ?]]; try discriminate.
  assert (Hlt : a < a1).
  { apply ccmp_single in Ha1. rewrite Z.compare_lt_iff in Ha1. exact Ha1. }
  assert (Hnext : Forall (fun cp : coord * ct => ccmp [a1] (fst cp) = Lt) cur).
  { apply Forall_forall. intros cp Hin. rewrite Forall_forall in Hc. apply Hc. apply in_map. exact Hin. }
  cbn [map filter]. unfold nonnil at 1. cbn [blk fst snd hd].
  destruct (cpresent d (sub p1)) eqn:Eg.
  - apply IH; auto.
  - cbn [blocks_ok]. split; [exact Hlt|]. split; [simpl; rewrite Eg; discriminate|]. simpl hd. apply IH; auto.
Qed.

(* one level: the flattened fiber is in the domain of one more unflattening step, given the
   lower groups are in the domain of the remaining steps *)
Lemma level_unfl_ok : forall l style sh d cur, tp style ->
  pw ccmp (map fst cur) -> forallb (fun cp => is_single (fst cp)) cur = true ->
  pw ccmp (map fst (merge_items style sh d cur)) ->
  Forall (fun cp => let g := cpresent d (sub (snd cp)) in
                    Forall (fun cp0 : coord * ct => length (fst cp0) = S l) g
                    /\ (g <> [] -> unfl_ok l g)) cur ->
  let r := merge_items style sh d cur in
  Forall (fun cp : coord * ct => cempty d (snd cp) = false) r
  /\ Forall (fun cp : coord * ct => length (fst cp) = S (S l)) r
  /\ (r <> [] -> unfl_ok (S l) r).
Proof.
  intros l style sh d cur Hs Hpw Hsg Hkpw Hlow r.
  assert (E1 : Forall (fun cp : coord * ct => cempty d (snd cp) = false) r).
  { apply Forall_forall. intros [k p] Hin. unfold r, merge_items in Hin.
    apply in_flat_map in Hin. destruct Hin as [cp [_ Hin]].
    apply in_map_iff in Hin. destruct Hin as [[c0 p0] [E Hp0]]. inversion E; subst. simpl.
    unfold cpresent in Hp0. apply filter_In in Hp0. destruct Hp0 as [_ H]. simpl in H.
    apply negb_true_iff in H. exact H. }
  assert (E2 : Forall (fun cp : coord * ct => length (fst cp) = S (S l)) r).
  { apply Forall_forall. intros [k p] Hin. unfold r, merge_items in Hin.
    apply in_flat_map in Hin. destruct Hin as [[c1 p1] [Hcp Hin]].
    apply in_map_iff in Hin. destruct Hin as [[c0 p0] [E Hp0]]. inversion E; subst. simpl.
    rewrite forallb_forall in Hsg. pose proof (Hsg _ Hcp) as H1. simpl in H1.
    destruct c1 as [|a [|? ?]]; try discriminate. rewrite flatten_coords_tp by exact Hs.
    rewrite Forall_forall in Hlow. destruct (Hlow _ Hcp) as [Hlen _]. simpl in Hlen.
    rewrite Forall_forall in Hlen. specialize (Hlen _ Hp0). simpl in *. lia. }
  split; [exact E1|]. split; [exact E2|]. intros Hne.
  assert (Er : r = ungroup (filter nonnil (map (blk d) cur))).
  { unfold r. rewrite merge_items_ungroup by assumption. symmetry. apply ungroup_filter. }
  remember (filter nonnil (map (blk d) cur)) as B eqn:EB0.
  assert (HB : Forall (fun g : Z * cfib => snd g <> [] /\ unfl_ok l (snd g)) B).
  { apply Forall_forall. intros g Hg. rewrite EB0 in Hg. apply filter_In in Hg. destruct Hg as [Hg Hnn].
    assert (Hne' : snd g <> []) by (unfold nonnil in Hnn; destruct (snd g); [discriminate|discriminate]).
    split; [exact Hne'|].
    apply in_map_iff in Hg. destruct Hg as [cp [<- Hcp]]. rewrite Forall_forall in Hlow.
    destruct (Hlow _ Hcp) as [_ H]. apply H. exact Hne'. }
  destruct B as [|[a1 g1] B']; [exfalso; apply Hne; rewrite Er; reflexivity|].
  symmetry in EB0. rename EB0 into EB.
  assert (Hblocks : blocks_ok a1 B').
  { (* the heads of the blocks are strictly ascending *)
    assert (Hall : forall a, Forall (fun cp : coord * ct => ccmp [a] (fst cp) = Lt) cur ->
                   blocks_ok a (filter nonnil (map (blk d) cur))) by (intros; apply blocks_ok_filter; auto).
    clear -EB Hpw Hsg.
    revert a1 g1 B' EB. induction cur as [|[c1 p1] cur IH]; intros a1 g1 B' EB; [discriminate|].
    simpl in Hpw. destruct Hpw as [Hc Hpw]. simpl in Hsg. apply andb_true_iff in Hsg. destruct Hsg as [H1 Hsg].
    simpl in H1. destruct c1 as [|a [|? ?]]; try discriminate.
    cbn [map filter] in EB. unfold nonnil at 1 in EB. cbn [blk fst snd hd] in EB.
    destruct (cpresent d (sub p1)) eqn:Eg.
    - apply (IH Hpw Hsg a1 g1 B' EB).
    - inversion EB; subst. apply blocks_ok_filter; auto.
      apply Forall_forall. intros cp Hin. rewrite Forall_forall in Hc. apply Hc. apply in_map. exact Hin. }
  inversion HB as [|? ? [Hg1 _] _]; subst. simpl in Hg1.
  destruct g1 as [|[c0 p0] g1']; [congruence|].
  rewrite Er. unfold ungroup. cbn [flat_map map fst snd app]. fold (ungroup B').
  assert (Hc0 : length c0 = S l).
  { rewrite Forall_forall in E2. assert (Hin : In (a1 :: c0, p0) r).
    { rewrite Er. unfold ungroup. cbn [flat_map map fst snd app]. left. reflexivity. }
    specialize (E2 _ Hin). simpl in E2. lia. }
  destruct c0 as [|b c0']; [simpl in Hc0; lia|].
  cbn [unfl_ok]. split.
  - apply (pw_heads_ok _ a1 (b :: c0') p0).
    + assert (Hkpw' : pw ccmp (map fst r)) by exact Hkpw.
      rewrite Er in Hkpw'. unfold ungroup in Hkpw'. cbn [flat_map map fst snd app] in Hkpw'. exact Hkpw'.
    + assert (Hr2 : Forall (fun cp : coord * ct => fst cp <> []) r).
      { eapply Forall_impl; [|exact E2]. intros cp H E. simpl in H. rewrite E in H. discriminate. }
      rewrite Er in Hr2. unfold ungroup in Hr2. cbn [flat_map map fst snd app] in Hr2.
      inversion Hr2; assumption.
  - rewrite (unfl_go_blocks B' g1' a1 [(b :: c0', p0)] Hblocks). cbn [app].
    eapply Forall_impl; [|exact HB]. intros g [_ H]. exact H.
Qed.

Lemma cpresent_all : forall d r, Forall (fun cp : coord * ct => cempty d (snd cp) = false) r -> cpresent d r = r.
Proof.
  intros d r H. unfold cpresent. induction r as [|cp r IH]; [reflexivity|].
  inversion H as [|? ? H1 H2]; subst. simpl. rewrite H1. simpl. f_equal. auto.
Qed.

Definition R3 (l : nat) style raise fuel (shapes : list Z) (d : Z) (cp cp' : coord * ct) : Prop :=
  fst cp' = fst cp /\
  exists s ri, snd cp = CN s /\ snd cp' = CN ri
               /\ merge_helper (S l) style raise fuel (tl shapes) d s = Some ri
               /\ wfl (S l) s /\ pw ccmp (map fst ri).

Lemma R3_facts : forall l style raise fuel shapes d es cur,
  Forall2 (R3 l style raise fuel shapes d) es cur ->
  map fst cur = map fst es /\ all_fibers cur = true
  /\ Forall (fun cp => pw ccmp (map fst (sub (snd cp)))) cur.
Proof.
  intros l style raise fuel shapes d es cur H.
  induction H as [|[c p] [c' p'] es cur [Hc [s [ri [Es [Er [_ [_ Hpw]]]]]]] _ IH].
  - repeat split; constructor.
  - destruct IH as [I1 [I2 I3]]. simpl in Hc, Es, Er. subst. repeat split.
    + simpl. f_equal. exact I1.
    + exact I2.
    + constructor; [exact Hpw|exact I3].
Qed.

Theorem flatten_unfl_facts : forall l style raise fuel shapes d es r, tp style -> wfl (S l) es ->
  merge_helper (S l) style raise fuel shapes d es = Some r ->
  Forall (fun cp : coord * ct => cempty d (snd cp) = false) r
  /\ Forall (fun cp : coord * ct => length (fst cp) = S (S l)) r
  /\ (r <> [] -> unfl_ok (S l) r).
Proof.
  induction l as [|l IH]; intros style raise fuel shapes d es r Hs Hwf Hr.
  - pose proof Hwf as [Hpw [Hsg Hsub]].
    assert (Hf : all_fibers es = true).
    { unfold all_fibers. apply forallb_forall. intros cp Hin. rewrite Forall_forall in Hsub.
      destruct (Hsub _ Hin) as [s [E _]]. rewrite E. reflexivity. }
    assert (Hk : pw ccmp (map fst (merge_items style (prodZ (firstn 1 (tl shapes))) d es))).
    { apply merge_items_pw; auto. eapply Forall_impl; [|exact Hsub].
      intros cp [s [E Hw]]. rewrite E. simpl. eapply wfl_pw. exact Hw. }
    rewrite merge_helper_1 in Hr by assumption. inversion Hr; subst r.
    apply (level_unfl_ok 0); auto.
    apply Forall_forall. intros cp Hin. rewrite Forall_forall in Hsub.
    destruct (Hsub _ Hin) as [s [E [_ [Hsg0 _]]]]. rewrite E. simpl. split; [|intros _; exact I].
    apply Forall_forall. intros cp0 H0. unfold cpresent in H0. apply filter_In in H0. destruct H0 as [H0 _].
    rewrite forallb_forall in Hsg0. specialize (Hsg0 _ H0). simpl in Hsg0.
    destruct (fst cp0) as [|? [|? ?]]; try discriminate. reflexivity.
  - pose proof Hwf as [Hpw [Hsg Hsub]].
    destruct (all_some_Forall2 (lowF l style raise fuel shapes d) (R3 l style raise fuel shapes d) es) as [cur [Ecur Rcur]].
    { intros [c p] Hin. rewrite Forall_forall in Hsub. destruct (Hsub _ Hin) as [s [E Hw]]. simpl in E. subst p.
      destruct (flatten_levels l style raise fuel (tl shapes) d s Hs Hw) as [ri [Eri [_ Hp]]].
      exists (c, CN ri). unfold lowF. cbn [snd fst]. rewrite Eri. cbn [option_map]. split; [reflexivity|].
      split; [reflexivity|]. exists s, ri. auto. }
    destruct (R3_facts _ _ _ _ _ _ _ _ Rcur) as [F1 [F2 F3]].
    assert (Hsg' : forallb (fun cp => is_single (fst cp)) cur = true) by (eapply forallb_single_map; eauto).
    assert (Hk : pw ccmp (map fst (merge_items style (prodZ (firstn (S (S l)) (tl shapes))) d cur))).
    { apply merge_items_pw; auto. rewrite F1. exact Hpw. }
    rewrite merge_helper_step, Ecur in Hr. rewrite existsb_leaf_false in Hr by exact F2.
    rewrite group_items_asc in Hr by exact Hk. rewrite merge_singles in Hr. inversion Hr; subst r.
    apply (level_unfl_ok (S l)); auto; [rewrite F1; exact Hpw|].
    clear -Rcur IH Hs. induction Rcur as [|[c p] [c' p'] es cur [_ [s [ri [Es [Er [Eri [Hw _]]]]]]] _ IHR]; [constructor|].
    constructor; [|exact IHR]. simpl in Er. subst p'. cbn [snd sub].
    destruct (IH style raise fuel (tl shapes) d s ri Hs Hw Eri) as [E1 [E2 E3]].
    rewrite (cpresent_all d ri E1). split; [exact E2|exact E3].
Qed.

(* unflattenRanks(flattenRanks(f)) restores the content of f — no further hypothesis *)
Theorem unflatten_flatten_full : forall l style raise fuel shapes d es, tp style -> wfl (S l) es ->
  exists r, merge_helper (S l) style raise fuel shapes d es = Some r /\
    (r <> [] -> exists r', unflatten (S l) r = Some r' /\ ccontent d (CN r') = ccontent d (CN es)) /\
    (r = [] -> ccontent d (CN es) = []).
Proof.
  intros l style raise fuel shapes d es Hs Hwf.
  destruct (flatten_levels l style raise fuel shapes d es Hs Hwf) as [r [Er [Hc _]]].
  exists r. split; [exact Er|]. split.
  - intros Hne. destruct (flatten_unfl_facts l style raise fuel shapes d es r Hs Hwf Er) as [_ [_ E3]].
    apply (unflatten_flatten_content l style raise fuel shapes d es r Hs Hwf Er (E3 Hne)).
  - intros ->. change (ccontent d (CN [])) with (@nil (list coord * Z)) in Hc.
    symmetry in Hc. apply map_eq_nil in Hc. exact Hc.
Qed.
