(* C17CheckP.v — the model's observation against the oracle (filter and combine components),
   the per-binding decomposition of the buffet run, and the refutation witness for the cache
   under equal next-use stamps. *)
From Coq Require Import ZArith List Bool Lia PeanoNat.
From FT Require Import Model.Base Model.Obs Model.C17Traffic Model.C17Check
                       Proofs.ObsP Proofs.C17TrafficP.
Import ListNotations.
Open Scope Z_scope.

(* ------------------------------------------------------------------ wf projections *)
Lemma wf_binds c : c17_wf c = true -> forallb (bind_ok c) (k_binds c) = true.
Proof.
  unfold c17_wf. intros H. repeat (apply andb_true_iff in H; destruct H as [H ?]).
  assumption.
Qed.

Lemma wf_filter c : c17_wf c = true -> filter_ok (k_fin c) = true.
Proof.
  unfold c17_wf. intros H. apply andb_true_iff in H. tauto.
Qed.

Lemma bind_ok_traces c b : bind_ok c b = true ->
  sorted_by lex_le (map r_stamp (opt_rows (k_read b))) = true
  /\ sorted_by lex_le (map r_stamp (opt_rows (k_write b))) = true.
Proof.
  unfold bind_ok, trace_ok. intros H.
  repeat (apply andb_true_iff in H; destruct H as [H ?]).
  repeat match goal with X : _ && _ = true |- _ => apply andb_true_iff in X; destruct X end.
  split; assumption.
Qed.

Lemma model_comb_meets c : c17_wf c = true -> model_comb c = spec_comb_V c.
Proof.
  intros W. unfold model_comb, spec_comb_V, Vl. f_equal. apply map_ext_in. intros b Hb.
  pose proof (wf_binds c W) as F. rewrite forallb_forall in F.
  destruct (bind_ok_traces c b (F b Hb)) as [Hr Hw].
  rewrite (combine_is_sort _ _ Hr Hw). reflexivity.
Qed.

Lemma forallb_len_eq n inp :
  forallb (fun r : row => Nat.eqb (length (r_point r)) n) inp = true ->
  forall r, In r inp -> length (r_point r) = n.
Proof. intros H r Hr. rewrite forallb_forall in H. apply Nat.eqb_eq. apply H. exact Hr. Qed.

Lemma model_filter_meets c : c17_wf c = true -> model_filter c = spec_filter_V c.
Proof.
  intros W. pose proof (wf_filter c W) as F. unfold model_filter, spec_filter_V.
  destruct (k_fin c) as [[inp fil]|]; [|reflexivity].
  cbn [filter_ok] in F. destruct inp as [|r0 inp].
  - destruct fil; reflexivity.
  - repeat (apply andb_true_iff in F; destruct F as [F ?]).
    set (n := length (r_point r0)) in *.
    rewrite (filter_is_spec n); auto.
    intros r [<-|Hr]; [reflexivity|]. apply (forallb_len_eq n inp); assumption.
Qed.

Lemma model_meets_filter_combine c : c17_wf c = true ->
  V_eqb (vnth 0 (c17_model c)) (spec_filter_V c) && V_eqb (vnth 1 (c17_model c)) (spec_comb_V c) = true.
Proof.
  intros W. unfold c17_model, vnth. cbn [vl nth].
  rewrite (model_filter_meets c W), (model_comb_meets c W), !V_eqb_refl. reflexivity.
Qed.

(* ------------------------------------------------------------------ buffet: every binding runs
   its own state machine, whatever the interleaving *)
Definition proj (i : nat) (sched : list (nat * access)) : list access :=
  map snd (filter (fun x => Nat.eqb (fst x) i) sched).

Definition bstep (e : nat) (line : Z) (s : bst) (a : access) : bst :=
  fst (fst (buffet_step e line a s)).

Lemma nth_upd {A} (f : A -> A) d : forall (l : list A) i j, (j < length l)%nat ->
  nth i (upd j f l) d = if Nat.eqb i j then f (nth j l d) else nth i l d.
Proof.
  induction l as [|x l IH]; intros i j Hj; [cbn in Hj; lia|].
  destruct j as [|j]; destruct i as [|i]; cbn [upd nth Nat.eqb]; auto.
  apply IH. cbn in Hj. lia.
Qed.

Lemma upd_length {A} (f : A -> A) : forall (l : list A) j, length (upd j f l) = length l.
Proof. induction l as [|x l IH]; intros [|j]; cbn; auto. Qed.

Lemma buffet_binding es cap line i : forall sched g,
  (forall x, In x sched -> (fst x < length (g_b g))%nat) ->
  nth i (g_b (fold_left (buffet_global es cap line) sched g)) bst0
  = fold_left (bstep (nth i es O) line) (proj i sched) (nth i (g_b g) bst0).
Proof.
  induction sched as [|[j a] sched IH]; intros g Hlt; [reflexivity|].
  cbn [fold_left]. rewrite IH.
  - unfold buffet_global. cbn [fst snd].
    destruct (buffet_step (nth j es O) line a (nth j (g_b g) bst0)) as [[s' dl] added] eqn:E.
    cbn [g_b]. rewrite nth_upd by (apply (Hlt (j, a)); left; reflexivity).
    unfold proj. cbn [filter fst].
    destruct (Nat.eqb_spec j i) as [->|Hne].
    + rewrite Nat.eqb_refl. cbn [map fold_left snd]. f_equal. unfold bstep. rewrite E. reflexivity.
    + destruct (Nat.eqb_spec i j); [congruence|]. reflexivity.
  - intros x Hx. unfold buffet_global.
    destruct (buffet_step _ _ _ _) as [[s' dl] added]. cbn [g_b fst snd].
    rewrite upd_length. apply Hlt. right. exact Hx.
Qed.

(* ------------------------------------------------------------------ the cache with two resident
   lines of one binding that are used next in the same iteration step *)
Definition tie_witness : c17_case :=
  {| k_tensors := [{| t_ranks := [0%nat]; t_shape := [10] |}];
     k_binds := [{| k_t := 0; k_r := 0; k_type := 1; k_foot := 32; k_evict := None;
                    k_read := Some [([1], [3], 3); ([2], [3], 3)];
                    k_write := Some [([0], [5], 5); ([2], [5], 5)] |}];
     k_line := 32; k_bcap := 1000; k_caps := [64]; k_fin := None |}.

Lemma cache_tie_refuted :
  exists c, c17_wf c = true /\ c17_region c = 1
            /\ vnth 3 (c17_model c) = VL [Verr 1]
            /\ c17_holds c (c17_model c) = false.
Proof. exists tie_witness. vm_compute. repeat split. Qed.

(* ------------------------------------------------------------------ the cache with staging pins:
   more capacity can cost more fills.  At capacity 0 the line of binding 0 is brought in by its
   staging write and pinned; with room for one line it is brought in by the read, stays
   replaceable, and is given up when binding 1 pins its staging line *)
Definition pin_witness : c17_case :=
  {| k_tensors := [{| t_ranks := [0%nat]; t_shape := [3] |}; {| t_ranks := [0%nat]; t_shape := [3] |}];
     k_binds := [{| k_t := 1; k_r := 0; k_type := 0; k_foot := 32; k_evict := None;
                    k_read := Some [([1], [3], 2); ([5], [5], 2)];
                    k_write := Some [([1], [3], 3)] |};
                 {| k_t := 1; k_r := 0; k_type := 1; k_foot := 16; k_evict := None;
                    k_read := None;
                    k_write := Some [([2], [4], 3); ([5], [5], 0)] |}];
     k_line := 64; k_bcap := 64; k_caps := [0; 64]; k_fin := None |}.

Lemma cache_pins_not_monotone :
  exists c, c17_wf c = true /\ c17_region c = 2
            /\ map total_reads (vl (vnth 3 (c17_model c))) = [64 - 7; 128 - 7]
            /\ c17_holds c (c17_model c) = false.
Proof. exists pin_witness. vm_compute. repeat split. Qed.
