(* C09CheckP.v — what the oracle means; the observation pipeline is lossless; composition
   unflatten . flatten on contents; the extraction / sorting half of swizzleRanks. *)
From Coq Require Import ZArith List Bool Lia Permutation.
From FT Require Import Model.Base Model.Obs Model.C09Transform Model.C09Check
                       Proofs.ObsP Proofs.C09OrderP Proofs.C09FlattenP Proofs.C09BelowP.
Import ListNotations.
Open Scope Z_scope.

(* ------------------------------------------------------------------ points of a wfl fiber *)
Lemma wfl_points : forall n d es, wfl n es ->
  forall pv, In pv (ccontent d (CN es)) ->
  (n < length (fst pv))%nat /\ Forall (fun c => is_single c = true) (firstn (S n) (fst pv)).
Proof.
  induction n as [|n IH]; intros d es [Hpw [Hsg Hsub]] pv Hin;
    rewrite content_CN in Hin; apply in_flat_map in Hin; destruct Hin as [[c p] [Hcp Hin]];
    apply in_map_iff in Hin; destruct Hin as [[q v] [<- Hq]]; simpl;
    rewrite forallb_forall in Hsg; pose proof (Hsg _ Hcp) as Hc; simpl in Hc.
  - split; [lia|]. constructor; [exact Hc|constructor].
  - rewrite Forall_forall in Hsub. destruct (Hsub _ Hcp) as [s [Es Hw]]. simpl in Es. subst p.
    destruct (IH d s Hw _ Hq) as [Hl Hf]. simpl in Hl, Hf. split; [lia|].
    constructor; [exact Hc|exact Hf].
Qed.

(* unflattenRanks(flattenRanks(f)) has the content of f *)
Theorem unflatten_flatten_content : forall l style raise fuel shapes d es r,
  tp style -> wfl (S l) es ->
  merge_helper (S l) style raise fuel shapes d es = Some r -> unfl_ok (S l) r ->
  exists r', unflatten (S l) r = Some r' /\ ccontent d (CN r') = ccontent d (CN es).
Proof.
  intros l style raise fuel shapes d es r Hs Hwf Hr Hok.
  destruct (flatten_levels l style raise fuel shapes d es Hs Hwf) as [r0 [Er0 [Hc _]]].
  rewrite Hr in Er0. inversion Er0; subst r0.
  destruct (unflatten_content (S l) d r Hok) as [r' [Er' Hc']].
  exists r'. split; [exact Er'|]. rewrite Hc', Hc, map_map.
  rewrite <- (map_id (ccontent d (CN es))) at 2. apply map_ext_in. intros [q v] Hin.
  destruct (wfl_points _ d _ Hwf _ Hin) as [Hl Hf]. unfold on_pt. cbn [fst snd] in *.
  rewrite imgunfl_imgflat; auto.
Qed.

(* ------------------------------------------------------------------ the oracle *)
Lemma pt_eqb_eq : forall p q, pt_eqb p q = true <-> p = q.
Proof.
  intros p q. unfold pt_eqb. split; intros H.
  - apply kcmp_eq. destruct (kcmp p q); try discriminate; reflexivity.
  - subst. rewrite kcmp_refl. reflexivity.
Qed.

Theorem content_ok_sound : forall d img src out, content_ok d img src out = true ->
  (forall q v, In (q, v) out ->
     (exists p w, In (p, w) src /\ img p = q) /\ v = sums_to img src q)
  /\ (forall p w, In (p, w) src ->
        sums_to img src (img p) = d \/ exists v, In (img p, v) out).
Proof.
  intros d img src out H. unfold content_ok in H. apply andb_true_iff in H. destruct H as [H1 H2].
  rewrite forallb_forall in H1, H2. split.
  - intros q v Hin. specialize (H1 _ Hin). simpl in H1. apply andb_true_iff in H1. destruct H1 as [Ha Hb].
    apply existsb_exists in Ha. destruct Ha as [[p w] [Hp He]]. simpl in He. apply pt_eqb_eq in He.
    split; [exists p, w; auto|]. apply Z.eqb_eq. exact Hb.
  - intros p w Hin. specialize (H2 _ Hin). simpl in H2. apply orb_true_iff in H2. destruct H2 as [Ha|Hb].
    + left. apply Z.eqb_eq. exact Ha.
    + right. apply existsb_exists in Hb. destruct Hb as [[q v] [Hq He]]. simpl in He.
      apply pt_eqb_eq in He. subst q. exists v. exact Hq.
Qed.

(* ------------------------------------------------------------------ encode / decode *)
Lemma flat_nest : forall l, flat_coord (nest l) = l.
Proof.
  induction l as [|a l IH]; [reflexivity|].
  destruct l as [|b l']; [reflexivity|]. destruct l' as [|c l'']; [reflexivity|].
  change (nest (a :: b :: c :: l'')) with (VL [VZ a; nest (b :: c :: l'')]).
  change (flat_coord (VL [VZ a; nest (b :: c :: l'')]))
    with ([a] ++ flat_coord (nest (b :: c :: l'')) ++ []).
  rewrite IH, app_nil_r. reflexivity.
Qed.

Lemma flat_tuple : forall l, flat_map flat_coord (map VZ l) = l.
Proof. induction l as [|a l IH]; simpl; [reflexivity|]. rewrite IH. reflexivity. Qed.

Lemma dec_enc_coord : forall pair c, dec_coord pair (enc_coord pair c) = Some c.
Proof.
  intros pair c. unfold dec_coord.
  assert (E : flat_coord (enc_coord pair c) = c).
  { unfold enc_coord. destruct c as [|z [|z' c']]; [destruct pair; reflexivity|reflexivity|].
    destruct pair; [apply flat_nest|]. apply (flat_tuple (z :: z' :: c')). }
  rewrite E, V_eqb_refl. reflexivity.
Qed.

Definition dec_list (pair : bool) : list V -> option cfib :=
  fix go (l : list V) : option cfib :=
    match l with
    | [] => Some []
    | e :: l' =>
      match e with
      | VL [cv; sv] =>
        match dec_coord pair cv, dec_ct pair sv, go l' with
        | Some c, Some s, Some r => Some ((c, s) :: r)
        | _, _, _ => None
        end
      | _ => None
      end
    end.

Lemma dec_enc_ct : forall pair t, dec_ct pair (enc_ct pair t) = Some t.
Proof.
  intros pair t. induction t as [v|es IH] using ct_ind'; [reflexivity|].
  change (dec_ct pair (enc_ct pair (CN es)))
    with (option_map CN (dec_list pair (map (fun cp => VL [enc_coord pair (fst cp); enc_ct pair (snd cp)]) es))).
  assert (E : dec_list pair (map (fun cp => VL [enc_coord pair (fst cp); enc_ct pair (snd cp)]) es) = Some es).
  { induction es as [|[c p] es IHes]; [reflexivity|].
    inversion IH as [|? ? Hp Hrest]; subst. simpl in Hp.
    cbn [map fst snd dec_list]. rewrite dec_enc_coord, Hp.
    fold (dec_list pair). rewrite (IHes Hrest). reflexivity. }
  rewrite E. reflexivity.
Qed.

Lemma dec_counts_map : forall l, dec_counts (map VZ l) = Some l.
Proof. induction l as [|z l IH]; simpl; [reflexivity|]. rewrite IH. reflexivity. Qed.

(* the oracle applied to the model's observation is the oracle applied to the model's tree *)
Theorem c09_pipeline : forall c,
  c09_holds c (c09_model c)
  = c09_wf c &&
    match c09_run c with
    | None => false
    | Some es =>
      out_wf c (CN es) (map (fun k => clevel_count k (CN es)) (seq 0 (out_depth c)))
      && content_okg (op_mfn c) (k_d c) (op_img c) (ccontent (k_d c) (inj (k_tree c))) (ccontent (k_d c) (CN es))
    end.
Proof.
  intros c. unfold c09_holds, c09_model, enc_res. f_equal.
  destruct (c09_run c) as [es|]; [|reflexivity].
  rewrite dec_enc_ct. rewrite <- map_map with (f := fun k => clevel_count k (CN es)) (g := VZ).
  rewrite dec_counts_map. reflexivity.
Qed.

(* ------------------------------------------------------------------ swizzle: extraction and sorting *)
Fixpoint fibers_to (n : nat) (t : ct) : Prop :=
  match n with
  | O => True
  | S n' => match t with CN es => Forall (fun cp => fibers_to n' (snd cp)) es | CL _ => False end
  end.

Definition keyed (d : Z) (kvs : list (list coord * ct)) : list (list coord * Z) :=
  flat_map (fun kp => map (on_pt (app (fst kp))) (ccontent d (snd kp))) kvs.

Lemma extract_content : forall n d t, fibers_to n t -> ccontent d t = keyed d (extract n t).
Proof.
  induction n as [|n IH]; intros d t H.
  - unfold keyed. simpl. rewrite app_nil_r. rewrite <- (map_id (ccontent d t)) at 1.
    apply map_ext. intros [q v]. reflexivity.
  - destruct t as [v|es]; [destruct H|]. simpl in H. unfold keyed in *.
    change (extract (S n) (CN es))
      with (flat_map (fun cp => map (fun kp => (fst cp :: fst kp, snd kp)) (extract n (snd cp))) es).
    rewrite content_CN, flat_map_flat_map. apply flat_map_ext_in. intros [c p] Hin. simpl.
    rewrite Forall_forall in H. rewrite (IH d p (H _ Hin)).
    rewrite flat_map_map, map_flat_map. apply flat_map_ext_in. intros [k s] _. simpl.
    rewrite map_map. apply map_ext. intros [q v]. reflexivity.
Qed.

Lemma ins_by_perm : forall {A K} (cmp : K -> K -> comparison) (key : A -> K) x l,
  Permutation (ins_by cmp key x l) (x :: l).
Proof.
  induction l as [|y l IH]; simpl; [apply Permutation_refl|].
  destruct (is_lt (cmp (key x) (key y))); [apply Permutation_refl|].
  eapply Permutation_trans; [apply perm_skip; exact IH|apply perm_swap].
Qed.

Lemma sort_by_perm : forall {A K} (cmp : K -> K -> comparison) (key : A -> K) l,
  Permutation (sort_by cmp key l) l.
Proof.
  induction l as [|x l IH]; simpl; [apply Permutation_refl|].
  eapply Permutation_trans; [apply ins_by_perm|apply perm_skip; exact IH].
Qed.

Lemma keyed_map_key : forall d (g : list coord -> list coord) (kvs : list (list coord * ct)),
  keyed d (map (fun kp => (g (fst kp), snd kp)) kvs)
  = flat_map (fun kp => map (on_pt (app (g (fst kp)))) (ccontent d (snd kp))) kvs.
Proof. intros. unfold keyed. rewrite flat_map_map. reflexivity. Qed.

(* the list handed to the rebuild loop carries exactly the operand's points with the first
   [sl] coordinates permuted *)
Theorem swizzle_sorted_items : forall d sl g t, fibers_to sl t ->
  Permutation
    (keyed d (sort_by kcmp fst (map (fun kp => (permute_key g (fst kp), snd kp)) (rev (extract sl t)))))
    (flat_map (fun kp => map (on_pt (app (permute_key g (fst kp)))) (ccontent d (snd kp))) (extract sl t)).
Proof.
  intros d sl g t H. unfold keyed at 1.
  eapply Permutation_trans; [apply Permutation_flat_map; apply sort_by_perm|].
  rewrite flat_map_map. apply Permutation_flat_map. apply Permutation_sym, Permutation_rev.
Qed.
