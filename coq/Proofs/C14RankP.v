(* C14RankP.v — Tensor._addFiber / Rank.append: after a fiber tree has joined a tensor, the
   shape of every rank that has one bounds the coordinates of all of the rank's fibers. *)
From Coq Require Import ZArith List Bool Lia PeanoNat.
From FT Require Import Model.Base Model.Obs Model.C14Attrs Model.C14Build Model.C14Check
                       Proofs.ObsP Proofs.C14BuildP Proofs.C14AttrsP Proofs.C14FlatP Proofs.C14ShapeP.
Import ListNotations.
Open Scope Z_scope.

Definition r0 : rk := (None, true).
Definition nthr (rs : list rk) (i : nat) : rk := nth i rs r0.
Definition coords (f : atree) : list Z := map fst (a_es f).

(* what the caller guarantees about one fiber, B being the bound imposed on its level *)
Definition FF (B : option Z) (f : atree) : Prop :=
  match f with
  | ALeaf _ => True
  | ANode own act es =>
    ssorted (map fst es) = true
    /\ (forall c, In c (map fst es) -> 0 <= c)
    /\ (forall s, own = Some s -> 0 < s /\ exists b, B = Some b /\ b <= s)
    /\ (forall b, B = Some b -> forall c, In c (map fst es) -> c < b)
  end.

(* a rank that stopped estimating took an own shape, which is at least the level bound;
   shapes are positive *)
Definition Inv (B : option Z) (r : rk) : Prop :=
  (snd r = false -> exists s b, fst r = Some s /\ B = Some b /\ b <= s)
  /\ (forall s, fst r = Some s -> 0 < s).

Definition le_rk (r r' : rk) : Prop :=
  forall s, fst r = Some s -> exists s', fst r' = Some s' /\ s <= s'.

Definition covers (r : rk) (f : atree) : Prop :=
  (fst r = None -> coords f = []) /\ (forall s, fst r = Some s -> forall c, In c (coords f) -> c < s).

Lemma le_rk_refl r : le_rk r r.
Proof. intros s H. exists s. split; [exact H|lia]. Qed.

Lemma le_rk_trans a b c : le_rk a b -> le_rk b c -> le_rk a c.
Proof.
  intros H1 H2 s Hs. destruct (H1 s Hs) as [s1 [E1 L1]]. destruct (H2 s1 E1) as [s2 [E2 L2]].
  exists s2. split; [exact E2|lia].
Qed.

Lemma covers_mono r r' f : covers r f -> le_rk r r' -> covers r' f.
Proof.
  intros [HN HS] Hle. split.
  - intros E. destruct (fst r) as [s|] eqn:Er; [|apply HN; reflexivity].
    destruct (Hle s Er) as [s' [E' _]]. congruence.
  - intros s' E' c Hc. destruct (fst r) as [s|] eqn:Er.
    + destruct (Hle s Er) as [s2 [E2 L2]]. rewrite E' in E2. inversion E2; subst s2.
      specialize (HS s eq_refl c Hc). lia.
    + rewrite (HN eq_refl) in Hc. contradiction.
Qed.

(* ---- Rank.append / _addFiber for one fiber, in two steps *)
Definition step1 (own : option Z) (r : rk) : rk :=
  match own with
  | Some fs =>
    if Z.eqb fs 0 then r
    else match fst r with
         | Some rs => if Z.eqb rs 0 then (Some fs, false) else (Some (Z.max fs rs), snd r)
         | None => (Some fs, false)
         end
  | None => r
  end.

Definition step2 (new : Z) (r1 : rk) : rk :=
  if snd r1 then
    match fst r1 with
    | None => if Z.eqb new 0 then r1 else (Some new, true)
    | Some old => if Z.eqb new 0 then r1 else (Some (Z.max old new), true)
    end
  else r1.

Lemma add_step_steps own es r :
  add_step own es r = step2 (match own with Some s => s | None => est1 es end) (step1 own r).
Proof.
  destruct r as [rshape est]. unfold add_step, step1, step2. cbn [fst snd].
  destruct own as [fs|]; [|reflexivity].
  destruct (Z.eqb fs 0); [reflexivity|].
  destruct rshape as [rs|]; [|reflexivity].
  destruct (Z.eqb rs 0); reflexivity.
Qed.

Lemma step1_inv B own act es r :
  FF B (ANode own act es) -> Inv B r ->
  le_rk r (step1 own r) /\ Inv B (step1 own r).
Proof.
  intros [_ [_ [Hown _]]] [Hfalse Hpos]. unfold step1.
  destruct own as [fs|]; [|split; [apply le_rk_refl|split; assumption]].
  destruct (Hown fs eq_refl) as [Hfs [b [HB Hb]]].
  destruct (Z.eqb fs 0) eqn:E0; [apply Z.eqb_eq in E0; lia|].
  destruct r as [[rs|] est]; cbn [fst snd] in *.
  - pose proof (Hpos rs eq_refl) as Hrs.
    destruct (Z.eqb rs 0) eqn:E1; [apply Z.eqb_eq in E1; lia|].
    split.
    + intros s E. inversion E; subst s. exists (Z.max fs rs). split; [reflexivity|lia].
    + split.
      * intros Hest. cbn [snd] in Hest. destruct (Hfalse Hest) as [s [b' [Es [HB' Hb']]]].
        inversion Es; subst s. rewrite HB in HB'. inversion HB'; subst b'.
        exists (Z.max fs rs), b. repeat split; [exact HB|lia].
      * intros s E. cbn [fst] in E. inversion E; subst s. lia.
  - split.
    + intros s E. discriminate.
    + split.
      * intros _. exists fs, b. repeat split; [exact HB|exact Hb].
      * intros s E. cbn [fst] in E. inversion E; subst s. exact Hfs.
Qed.

Lemma step2_inv B new r1 f :
  Inv B r1 -> snd r1 = true ->
  (forall c, In c (coords f) -> 0 <= c) ->
  (forall c, In c (coords f) -> c < new) -> 0 <= new ->
  le_rk r1 (step2 new r1) /\ Inv B (step2 new r1) /\ covers (step2 new r1) f.
Proof.
  intros [Hfalse Hpos] Hest Hnn Hnew H0. unfold step2. rewrite Hest.
  assert (Hempty : new = 0 -> coords f = []).
  { intros E. destruct (coords f) as [|c cs]; [reflexivity|].
    specialize (Hnn c (or_introl eq_refl)). specialize (Hnew c (or_introl eq_refl)). lia. }
  destruct r1 as [[old|] est]; cbn [fst snd] in *; subst est.
  - pose proof (Hpos old eq_refl) as Hold.
    destruct (Z.eqb new 0) eqn:E.
    + apply Z.eqb_eq in E. split; [apply le_rk_refl|]. split; [split; assumption|].
      split; [discriminate|]. intros s Es c Hc. rewrite (Hempty E) in Hc. contradiction.
    + apply Z.eqb_neq in E. split.
      * intros s Es. inversion Es; subst s. exists (Z.max old new). split; [reflexivity|lia].
      * split.
        -- split; [discriminate|]. intros s Es. cbn [fst] in Es. inversion Es; subst s. lia.
        -- split; [discriminate|]. intros s Es c Hc. cbn [fst] in Es. inversion Es; subst s.
           specialize (Hnew c Hc). lia.
  - destruct (Z.eqb new 0) eqn:E.
    + apply Z.eqb_eq in E. split; [apply le_rk_refl|]. split; [split; assumption|].
      split; [intros _; apply Hempty; exact E|discriminate].
    + apply Z.eqb_neq in E. split; [intros s Es; discriminate|]. split.
      * split; [discriminate|]. intros s Es. cbn [fst] in Es. inversion Es; subst s. lia.
      * split; [discriminate|]. intros s Es c Hc. cbn [fst] in Es. inversion Es; subst s.
        apply Hnew. exact Hc.
Qed.

Lemma est1_nonneg es : (forall c, In c (map fst es) -> 0 <= c) -> ssorted (map fst es) = true ->
  0 <= est1 es.
Proof.
  intros Hnn Hs. destruct es as [|[c p] es]; [unfold est1; simpl; lia|].
  pose proof (est1_bound ((c, p) :: es) c Hs (or_introl eq_refl)) as H.
  specialize (Hnn c (or_introl eq_refl)). lia.
Qed.

Lemma add_step_inv B own act es r :
  FF B (ANode own act es) -> Inv B r ->
  le_rk r (add_step own es r) /\ Inv B (add_step own es r)
  /\ covers (add_step own es r) (ANode own act es).
Proof.
  intros HFF HI. rewrite add_step_steps.
  destruct (step1_inv B own act es r HFF HI) as [Hle1 HI1].
  destruct HFF as [Hs [Hnn [Hown Hb]]].
  set (r1 := step1 own r) in *. set (new := match own with Some s => s | None => est1 es end).
  destruct (snd r1) eqn:Est.
  - assert (Hnew : forall c, In c (coords (ANode own act es)) -> c < new).
    { intros c Hc. unfold coords in Hc. cbn [a_es] in Hc. unfold new. destruct own as [fs|].
      - destruct (Hown fs eq_refl) as [_ [b [HB Hbfs]]]. specialize (Hb b HB c Hc). lia.
      - apply est1_bound; assumption. }
    assert (H0 : 0 <= new).
    { unfold new. destruct own as [fs|]; [destruct (Hown fs eq_refl); lia|apply est1_nonneg; assumption]. }
    destruct (step2_inv B new r1 (ANode own act es) HI1 Est Hnn Hnew H0) as [Hle2 [HI2 HC]].
    split; [eapply le_rk_trans; eassumption|]. split; assumption.
  - (* the rank has stopped estimating: its shape is at least the level bound *)
    unfold step2. rewrite Est.
    split; [exact Hle1|]. split; [exact HI1|].
    destruct HI1 as [Hfalse _]. destruct (Hfalse Est) as [s [b [Es [HB Hbs]]]].
    split; [intros E; congruence|].
    intros s' Es' c Hc. rewrite Es in Es'. inversion Es'; subst s'.
    unfold coords in Hc. cbn [a_es] in Hc. specialize (Hb b HB c Hc). lia.
Qed.

(* ---- upd_rk *)
Lemma upd_rk_length : forall l f rs, length (upd_rk l f rs) = length rs.
Proof.
  induction l as [|l IH]; intros f [|r rs]; try reflexivity.
  change (length (r :: upd_rk l f rs) = length (r :: rs)). simpl. f_equal. apply IH.
Qed.

Lemma nth_upd_rk : forall l f rs i d, (l < length rs)%nat ->
  nth i (upd_rk l f rs) d = if Nat.eqb i l then f (nth l rs d) else nth i rs d.
Proof.
  induction l as [|l IH]; intros f [|r rs] i d H; simpl in H; try lia.
  - destruct i; reflexivity.
  - change (upd_rk (S l) f (r :: rs)) with (r :: upd_rk l f rs).
    destruct i as [|i]; [reflexivity|].
    change (nth (S i) (r :: upd_rk l f rs) d) with (nth i (upd_rk l f rs) d).
    rewrite IH by lia. reflexivity.
Qed.

Lemma upd_rk_out : forall l f rs, (length rs <= l)%nat -> upd_rk l f rs = rs.
Proof.
  induction l as [|l IH]; intros f [|r rs] H; simpl in H; try reflexivity; try lia.
  change (r :: upd_rk l f rs = r :: rs). f_equal. apply IH. lia.
Qed.

(* ---- the walk *)
Fixpoint af_go (lvl : nat) (es : list (Z * atree)) (rs : list rk) : list rk :=
  match es with
  | [] => rs
  | (_, p) :: es' => af_go lvl es' (add_fiber (S lvl) p rs)
  end.

Lemma add_fiber_node lvl own act es rs :
  add_fiber lvl (ANode own act es) rs = af_go lvl es (upd_rk lvl (add_step own es) rs).
Proof.
  cbn [add_fiber]. generalize (upd_rk lvl (add_step own es) rs).
  induction es as [|[c p] es IH]; intros rs0; [reflexivity|]. cbn [af_go]. rewrite <- IH. reflexivity.
Qed.

Definition WalkOK (Bs : list (option Z)) (lvl : nat) (t : atree) (rs rs' : list rk) : Prop :=
  length rs' = length rs
  /\ (forall i, le_rk (nthr rs i) (nthr rs' i))
  /\ (forall i, Inv (nth i Bs None) (nthr rs' i))
  /\ (forall l f, In f (alevel l t) -> (lvl + l < length rs)%nat -> covers (nthr rs' (lvl + l)) f).

Lemma add_fiber_inv : forall t lvl rs Bs,
  (forall l f, In f (alevel l t) -> FF (nth (lvl + l) Bs None) f) ->
  (forall i, Inv (nth i Bs None) (nthr rs i)) ->
  WalkOK Bs lvl t rs (add_fiber lvl t rs).
Proof.
  induction t as [v|own act es IH] using atree_ind'; intros lvl rs Bs HFF HI.
  - cbn [add_fiber]. split; [reflexivity|]. split; [intros; apply le_rk_refl|]. split; [exact HI|].
    intros l f Hf. destruct l; contradiction.
  - rewrite add_fiber_node.
    set (rs1 := upd_rk lvl (add_step own es) rs).
    assert (Hself : FF (nth lvl Bs None) (ANode own act es)).
    { specialize (HFF O (ANode own act es) (or_introl eq_refl)). rewrite Nat.add_0_r in HFF. exact HFF. }
    assert (H1 : length rs1 = length rs
                 /\ (forall i, le_rk (nthr rs i) (nthr rs1 i))
                 /\ (forall i, Inv (nth i Bs None) (nthr rs1 i))
                 /\ ((lvl < length rs)%nat -> covers (nthr rs1 lvl) (ANode own act es))).
    { split; [apply upd_rk_length|].
      destruct (Nat.lt_ge_cases lvl (length rs)) as [Hlt|Hge].
      - destruct (add_step_inv _ own act es (nthr rs lvl) Hself (HI lvl)) as [Hle [HI' HC]].
        split; [|split].
        + intros i. unfold nthr, rs1. rewrite nth_upd_rk by exact Hlt.
          destruct (Nat.eqb i lvl) eqn:E; [apply Nat.eqb_eq in E; subst i; exact Hle|apply le_rk_refl].
        + intros i. unfold nthr, rs1. rewrite nth_upd_rk by exact Hlt.
          destruct (Nat.eqb i lvl) eqn:E; [apply Nat.eqb_eq in E; subst i; exact HI'|apply HI].
        + intros _. unfold nthr, rs1. rewrite nth_upd_rk by exact Hlt. rewrite Nat.eqb_refl. exact HC.
      - unfold rs1. rewrite upd_rk_out by exact Hge.
        split; [intros; apply le_rk_refl|]. split; [exact HI|lia]. }
    destruct H1 as [HL1 [Hle1 [HI1 HC1]]].
    (* the children *)
    assert (Hgo : forall es0 rs0,
               Forall (fun ct => forall lvl rs Bs,
                         (forall l f, In f (alevel l (snd ct)) -> FF (nth (lvl + l) Bs None) f) ->
                         (forall i, Inv (nth i Bs None) (nthr rs i)) ->
                         WalkOK Bs lvl (snd ct) rs (add_fiber lvl (snd ct) rs)) es0 ->
               (forall ct, In ct es0 -> forall l f, In f (alevel l (snd ct)) ->
                         FF (nth (S lvl + l) Bs None) f) ->
               (forall i, Inv (nth i Bs None) (nthr rs0 i)) ->
               length (af_go lvl es0 rs0) = length rs0
               /\ (forall i, le_rk (nthr rs0 i) (nthr (af_go lvl es0 rs0) i))
               /\ (forall i, Inv (nth i Bs None) (nthr (af_go lvl es0 rs0) i))
               /\ (forall ct, In ct es0 -> forall l f, In f (alevel l (snd ct)) ->
                     (S lvl + l < length rs0)%nat -> covers (nthr (af_go lvl es0 rs0) (S lvl + l)) f)).
    { induction es0 as [|[c p] es0 IHes]; intros rs0 HF HFF0 HI0.
      - cbn [af_go]. split; [reflexivity|]. split; [intros; apply le_rk_refl|]. split; [exact HI0|].
        intros ct [].
      - inversion HF as [|? ? Hp HF']; subst. cbn [snd] in Hp. cbn [af_go].
        destruct (Hp (S lvl) rs0 Bs (HFF0 (c, p) (or_introl eq_refl)) HI0) as [HLp [Hlep [HIp HCp]]].
        destruct (IHes (add_fiber (S lvl) p rs0) HF'
                    (fun ct Hct => HFF0 ct (or_intror Hct)) HIp) as [HLr [Hler [HIr HCr]]].
        split; [lia|]. split; [intros i; eapply le_rk_trans; [apply Hlep|apply Hler]|].
        split; [exact HIr|].
        intros ct [<-|Hct] l f Hf Hlt.
        + cbn [snd] in Hf. eapply covers_mono; [apply (HCp l f Hf Hlt)|apply Hler].
        + apply (HCr ct Hct l f Hf). lia. }
    assert (HFFc : forall ct, In ct es -> forall l f, In f (alevel l (snd ct)) ->
                     FF (nth (S lvl + l) Bs None) f).
    { intros ct Hct l f Hf. replace (S lvl + l)%nat with (lvl + S l)%nat by lia.
      apply HFF. cbn [alevel]. apply in_flat_map. exists ct. split; assumption. }
    destruct (Hgo es rs1 IH HFFc HI1) as [HLr [Hler [HIr HCr]]].
    split; [lia|]. split; [intros i; eapply le_rk_trans; [apply Hle1|apply Hler]|].
    split; [exact HIr|].
    intros l f Hf Hlt. destruct l as [|l].
    + destruct Hf as [<-|[]]. rewrite Nat.add_0_r in *.
      eapply covers_mono; [apply HC1; exact Hlt|apply Hler].
    + cbn [alevel] in Hf. apply in_flat_map in Hf. destruct Hf as [ct [Hct Hf]].
      replace (lvl + S l)%nat with (S lvl + l)%nat by lia.
      apply (HCr ct Hct l f Hf). lia.
Qed.
