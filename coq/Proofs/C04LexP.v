(* C04LexP.v — Python's tuple order on [coord] is a decidable strict total order; the boolean
   sortedness test of the checker coincides with [ksorted]. *)
From Coq Require Import ZArith List Bool Lia Sorted.
From FT Require Import Model.Base Model.Obs Model.C04Coiter Model.C04Check Proofs.C04CoiterP.
Import ListNotations.
Open Scope Z_scope.

Lemma lex_eqb_spec : forall x y, lex_eqb x y = true <-> x = y.
Proof.
  induction x as [|a x IH]; intros [|b y]; simpl; try (split; [discriminate|congruence]).
  - split; reflexivity.
  - rewrite andb_true_iff, Z.eqb_eq, IH. split; [intros [-> ->]; reflexivity|].
    intros E. inversion E. split; reflexivity.
Qed.

Lemma lex_eqb_refl x : lex_eqb x x = true.
Proof. apply lex_eqb_spec. reflexivity. Qed.

Lemma lex_eqb_sym x y : lex_eqb x y = lex_eqb y x.
Proof.
  destruct (lex_eqb x y) eqn:E.
  - apply lex_eqb_spec in E. subst. symmetry. apply lex_eqb_refl.
  - destruct (lex_eqb y x) eqn:E'; [|reflexivity].
    apply lex_eqb_spec in E'. subst. rewrite lex_eqb_refl in E. discriminate.
Qed.

Lemma lex_ltb_irrefl : forall x, lex_ltb x x = false.
Proof. induction x as [|a x IH]; simpl; [reflexivity|]. rewrite Z.eqb_refl. exact IH. Qed.

Lemma lex_ltb_trans : forall x y z,
  lex_ltb x y = true -> lex_ltb y z = true -> lex_ltb x z = true.
Proof.
  induction x as [|a x IH]; intros [|b y] [|c z]; simpl; try discriminate; try reflexivity.
  destruct (Z.eqb_spec a b) as [->|Nab]; destruct (Z.eqb_spec b c) as [->|Nbc].
  - apply IH.
  - destruct (Z.eqb_spec b c); [contradiction|]. intros _ H2. exact H2.
  - destruct (Z.eqb_spec a c); [contradiction|]. intros H1 _. exact H1.
  - intros H1 H2. apply Z.ltb_lt in H1. apply Z.ltb_lt in H2.
    destruct (Z.eqb_spec a c); [lia|]. apply Z.ltb_lt. lia.
Qed.

Lemma lex_ltb_total : forall x y,
  lex_eqb x y = false -> lex_ltb x y = false -> lex_ltb y x = true.
Proof.
  induction x as [|a x IH]; intros [|b y]; simpl; try discriminate; try reflexivity.
  destruct (Z.eqb_spec a b) as [->|Nab].
  - rewrite Z.eqb_refl. simpl. apply IH.
  - intros _ H2. destruct (Z.eqb_spec b a); [congruence|].
    apply Z.ltb_lt. apply Z.ltb_ge in H2. lia.
Qed.

Definition lsorted {P} (l : list (coord * P)) : Prop := ksorted lex_ltb l.
Definition llookup {P} (c : coord) (l : list (coord * P)) : option P := alookup lex_eqb c l.

Lemma lex_sorted_Forall x l :
  lex_sorted (x :: l) = true -> Forall (clt lex_ltb x) l.
Proof.
  revert x. induction l as [|y l IH]; intros x H; [constructor|].
  change (lex_sorted (x :: y :: l)) with (lex_ltb x y && lex_sorted (y :: l)) in H.
  apply andb_true_iff in H. destruct H as [Hxy Hs].
  constructor; [exact Hxy|].
  eapply Forall_clt_trans; [exact lex_ltb_trans|exact Hxy|]. apply IH. exact Hs.
Qed.

Lemma lex_sorted_tl x l : lex_sorted (x :: l) = true -> lex_sorted l = true.
Proof.
  destruct l as [|y l]; [reflexivity|]. intros H.
  change (lex_sorted (x :: y :: l)) with (lex_ltb x y && lex_sorted (y :: l)) in H.
  apply andb_true_iff in H. tauto.
Qed.

Lemma lex_sorted_SS l : lex_sorted l = true -> StronglySorted (clt lex_ltb) l.
Proof.
  induction l as [|x l IH]; intros H; [constructor|].
  constructor; [apply IH; eapply lex_sorted_tl; exact H | apply lex_sorted_Forall; exact H].
Qed.

Lemma SS_lex_sorted l : StronglySorted (clt lex_ltb) l -> lex_sorted l = true.
Proof.
  induction l as [|x l IH]; intros H; [reflexivity|].
  apply StronglySorted_inv in H. destruct H as [Hs HF].
  destruct l as [|y l]; [reflexivity|].
  change (lex_sorted (x :: y :: l)) with (lex_ltb x y && lex_sorted (y :: l)).
  inversion HF; subst. rewrite (IH Hs), andb_true_r. assumption.
Qed.

Lemma lex_sorted_lsorted {P} (l : list (coord * P)) :
  lex_sorted (map fst l) = true <-> lsorted l.
Proof. split; [apply lex_sorted_SS|apply SS_lex_sorted]. Qed.
