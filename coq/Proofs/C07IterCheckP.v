(* C07IterCheckP.v — the faithful model's observation meets the property oracle. *)
From Coq Require Import ZArith List Bool Lia ZifyBool.
From FT Require Import Model.Base Model.Obs Model.C07Iter Model.C07IterCheck
                       Proofs.ObsP Proofs.C07IterP.
Import ListNotations.
Open Scope Z_scope.

Definition strip1 (x : V) : V :=
  match x with
  | VL [r; p; _] => VL [r; p]
  | _ => x
  end.

Lemma strip_saved_Vl {A} (g : A -> V) l : strip_saved (Vl g l) = VL (map strip1 (map g l)).
Proof. reflexivity. Qed.

Lemma m_single_spec f r saved ys :
  r = Some ys ->
  strip1 (m_single f r saved) = s_obs [Vl V_y ys] [f_es f].
Proof. intros ->. reflexivity. Qed.

Lemma m_lazy_spec f r saved ys :
  r = Some ys ->
  ssorted (map ycoord ys) = true ->
  Forall (fun y => sorted_t (ypay y) = true /\ is_empty (f_d f) (ypay y) = false) ys ->
  strip1 (m_lazy f r saved) = s_lazy f ys.
Proof.
  intros -> Hs Hfit. unfold m_lazy, s_lazy, s_obs, m_fromlazy. cbn [strip1 V_res option_map].
  unfold V_content.
  destruct (from_lazy_spec (f_d f) (dflt (f_d f) (f_es f)) ys Hs Hfit) as [_ Hc].
  rewrite Hc. reflexivity.
Qed.

Lemma m_shape_spec f cs ref :
  ssorted (map fst (f_es f)) = true ->
  strip1 (m_shape f cs ref)
  = if ref then s_obs [Vl V_y (spec_shape_ref (f_d f) (f_es f) cs)] [spec_post (f_d f) (f_es f) cs]
    else s_obs [Vl V_y (spec_shape (f_d f) (f_es f) cs)] [f_es f].
Proof.
  intros Hs. unfold m_shape. destruct ref.
  - cbn zeta. rewrite shape_ref_loop_post. rewrite shape_ref_loop_yields by exact Hs. reflexivity.
  - rewrite shape_loop_spec by exact Hs. reflexivity.
Qed.

Lemma m_co_spec f others cs ref :
  all_sorted (f_es f :: others) ->
  strip1 (m_co f others cs ref)
  = let d := f_d f in
    let fs := f_es f :: others in
    if ref then s_obs [Vl V_co (spec_co_ref d fs cs); Vl V_co (spec_co_ref d fs cs)]
                      (map (fun es => spec_post d es cs) fs)
    else s_obs [Vl V_co (spec_co d fs cs); Vl V_co (spec_co d fs cs)] fs.
Proof.
  intros Hs. unfold m_co. cbn zeta. destruct ref.
  - rewrite (co_ref_second (f_d f) cs _ Hs).
    destruct (co_ref_spec (f_d f) cs _ Hs) as [Hpost Hy]. cbn zeta in Hpost, Hy.
    rewrite Hy, Hpost. reflexivity.
  - rewrite co_loop_spec by exact Hs. reflexivity.
Qed.

Lemma model_op1_spec f others o :
  ssorted (map fst (f_es f)) = true ->
  pay_sorted (f_es f) ->
  all_sorted others ->
  wf_op1 f o = true ->
  strip1 (model_op1 f others o) = spec_op1 f others o.
Proof.
  intros Hs Hps Ho Hwf.
  assert (Hall : all_sorted (f_es f :: others)) by (constructor; assumption).
  destruct o as [sp|lo hi sp|sp|ref|ref|lo hi step ref|sp|ref|ref|lo hi step ref|k b iv sp|p sp|k b iv lo hi|lo hi step o'];
    cbn [model_op1 spec_op1].
  - apply m_single_spec. unfold iter_occupancy. apply iter_range_spec; assumption.
  - apply m_single_spec. apply iter_range_spec; assumption.
  - apply m_single_spec. unfold iter_active. apply iter_range_spec; assumption.
  - apply m_shape_spec. exact Hs.
  - apply m_shape_spec. exact Hs.
  - apply m_shape_spec. exact Hs.
  - apply m_single_spec. apply iter_dispatch_spec; assumption.
  - apply (m_co_spec f others _ ref Hall).
  - apply (m_co_spec f others _ ref Hall).
  - apply (m_co_spec f others _ ref Hall).
  - apply m_lazy_spec.
    + apply project_spec; assumption.
    + apply spec_project_sorted; [exact Hs|].
      cbn [wf_op1] in Hwf. apply andb_true_iff in Hwf. destruct Hwf as [Hk _]. lia.
    + apply spec_project_fit. exact Hps.
  - apply m_lazy_spec.
    + cbn [wf_op1] in Hwf. apply andb_true_iff in Hwf. destruct Hwf as [_ Hsp].
      apply prune_spec; assumption.
    + apply spec_prune_sorted. exact Hs.
    + apply spec_prune_fit. exact Hps.
  - apply m_single_spec. apply project_window_spec; [exact Hs|]. cbn [wf_op1] in Hwf. lia.
  - discriminate.
Qed.

Lemma model_op_spec o : forall f others,
  ssorted (map fst (f_es f)) = true ->
  pay_sorted (f_es f) ->
  all_sorted others ->
  wf_op f o = true ->
  strip1 (model_op f others o) = spec_op f others o.
Proof.
  induction o as [| | | | | | | | | | | | |lo hi step o' IH]; intros f others Hs Hps Ho Hwf;
    try (apply model_op1_spec; assumption).
  cbn [model_op spec_op wf_op] in *.
  apply andb_true_iff in Hwf. destruct Hwf as [Hwf Hwf'].
  rewrite shape_ref_loop_post. apply IH; cbn [set_es f_es f_d]; auto.
  - unfold spec_post. fold (post_of (dflt (f_d f) (f_es f)) (f_es f) (zrange lo hi step)).
    apply post_of_sorted. exact Hs.
  - unfold spec_post. fold (post_of (dflt (f_d f) (f_es f)) (f_es f) (zrange lo hi step)).
    apply post_of_pay_sorted; [apply dflt_sorted|exact Hps].
Qed.

Lemma forallb_all_sorted fs :
  forallb (fun es => ssorted (map fst es)) fs = true -> all_sorted fs.
Proof.
  unfold all_sorted. intros H. apply Forall_forall. intros es Hin.
  rewrite forallb_forall in H. auto.
Qed.

Lemma c07_model_holds c :
  c07_wf c = true -> holds c07_checker c (model c07_checker c) = true.
Proof.
  intros Hwf. unfold c07_wf in Hwf.
  apply andb_true_iff in Hwf. destruct Hwf as [Hwf Hops].
  apply andb_true_iff in Hwf. destruct Hwf as [Hs Ho].
  apply andb_true_iff in Hs. destruct Hs as [Hs Hps].
  assert (Hps' : pay_sorted (f_es (k_fiber c))).
  { unfold pay_sorted. apply Forall_forall. intros ct Hin. rewrite forallb_forall in Hps. auto. }
  apply forallb_all_sorted in Ho.
  cbn [holds model c07_checker]. unfold c07_holds. apply V_eqb_spec.
  unfold c07_model, c07_spec. rewrite strip_saved_Vl. unfold Vl. f_equal.
  rewrite map_map. apply map_ext_in. intros o Hin. symmetry.
  rewrite forallb_forall in Hops.
  apply (model_op_spec o); auto.
Qed.
