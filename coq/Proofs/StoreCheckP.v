(* StoreCheckP.v — the observation of a model state decodes to that state; the C01 oracle
   holds of the model's observation for every history (C01_model_meets_spec). *)
From Coq Require Import ZArith List Bool Lia PeanoNat.
From FT Require Import Model.Base Model.Obs Model.Store Model.StoreCheck
                       Proofs.ObsP Proofs.StoreWF.
Import ListNotations.
Open Scope Z_scope.

(* ---------- decode . encode = id ---------- *)
Lemma V_to_tree_V_tree : forall t, V_to_tree (V_tree t) = Some t.
Proof.
  induction t as [v|es IH] using tree_ind'; [reflexivity|].
  cbn [V_tree V_to_tree].
  assert (H : (fix go (l : list V) : option (list (Z * tree)) :=
                 match l with
                 | [] => Some []
                 | VL [VZ c; sub] :: l' =>
                   match V_to_tree sub, go l' with
                   | Some t, Some r => Some ((c, t) :: r)
                   | _, _ => None
                   end
                 | _ => None
                 end) (map (fun ct : Z * tree => VL [VZ (fst ct); V_tree (snd ct)]) es) = Some es).
  { induction es as [|[c t] es IHes]; [reflexivity|].
    inversion IH as [|? ? Ht Hes]; subst. cbn [map fst snd].
    cbn [snd] in Ht. rewrite Ht, (IHes Hes). reflexivity. }
  rewrite H. reflexivity.
Qed.

Lemma V_to_path_V_path p : V_to_path (V_path p) = Some p.
Proof.
  unfold V_path, Vl, V_to_path.
  induction p as [|z p IH]; [reflexivity|]. cbn [map]. rewrite IH. reflexivity.
Qed.

Lemma V_to_entry_Vo e : V_to_entry (Vo V_path e) = Some e.
Proof.
  destruct e as [p|]; [|reflexivity]. cbn [Vo V_to_entry]. rewrite V_to_path_V_path. reflexivity.
Qed.

Lemma all_some_map_some {A B} (f : A -> option B) (g : A -> B) l :
  (forall x, f x = Some (g x)) -> all_some (map f l) = Some (map g l).
Proof.
  intros H. induction l as [|x l IH]; [reflexivity|]. cbn [map all_some].
  rewrite H, IH. reflexivity.
Qed.

Lemma V_to_state_V_state s :
  V_to_state (V_state s)
  = Some {| o_tree := erase (s_root s); o_ranks := rank_paths s;
            o_owners := owners_ok O (s_root s) |}.
Proof.
  unfold V_state, V_to_state. rewrite V_to_tree_V_tree.
  unfold Vl at 1. rewrite map_map.
  rewrite (all_some_map_some _ (fun r => r)).
  - rewrite map_id. unfold Vb. destruct (owners_ok 0 (s_root s)); reflexivity.
  - intros r. unfold Vl. rewrite map_map.
    rewrite (all_some_map_some _ (fun e => e)); [rewrite map_id; reflexivity|].
    intros e. apply V_to_entry_Vo.
Qed.

(* ---------- erase and well-formedness ---------- *)
Lemma forallb_map_ext {A B} (f : B -> bool) (g : A -> bool) (h : A -> B) l :
  (forall x, In x l -> f (h x) = g x) -> forallb f (map h l) = forallb g l.
Proof.
  induction l as [|x l IH]; intros H; [reflexivity|]. cbn [map forallb].
  rewrite (H x (or_introl eq_refl)), IH; [reflexivity|]. intros y Hy. apply H. right. exact Hy.
Qed.

Lemma wf_tree_leaf k v : wf_tree k (Leaf v) = Nat.eqb k O.
Proof. destruct k; reflexivity. Qed.

Lemma wf_i_erase n : forall t lvl, (lvl <= n)%nat ->
  wf_i n lvl t = wf_tree (n - lvl)%nat (erase t).
Proof.
  induction t as [v|id ow es IH] using itree_ind'; intros lvl Hl.
  - cbn [wf_i erase]. rewrite wf_tree_leaf.
    destruct (Nat.eqb_spec lvl n) as [E|E], (Nat.eqb_spec (n - lvl)%nat O) as [F|F];
      try reflexivity; exfalso; lia.
  - cbn [wf_i erase].
    destruct (Nat.ltb_spec lvl n) as [Hlt|Hge].
    + replace (n - lvl)%nat with (S (n - S lvl)) by lia. cbn [wf_tree].
      rewrite map_map. cbn [fst andb]. f_equal.
      symmetry. apply forallb_map_ext. intros [c t] Hin. cbn [snd].
      rewrite Forall_forall in IH. symmetry. apply (IH _ Hin). lia.
    + replace (n - lvl)%nat with O by lia. reflexivity.
Qed.

(* ---------- loading a plain tree ---------- *)
Definition load_list (lvl : nat) :=
  fix go (l : fib) (nx : nat) (rk : list (list nat)) {struct l}
    : ifib * nat * list (list nat) :=
    match l with
    | [] => ([], nx, rk)
    | (c, t') :: l' =>
      let '(t'', nx1, rk1) := load (S lvl) t' nx rk in
      let '(l'', nx2, rk2) := go l' nx1 rk1 in
      ((c, t'') :: l'', nx2, rk2)
    end.

Lemma load_node lvl es nx rk :
  load lvl (Node es) nx rk =
  let '(es', nx', rk') := load_list lvl es (S nx) (app_rank lvl nx rk) in
  (INode nx (Some lvl) es', nx', rk').
Proof. reflexivity. Qed.

Lemma load_erase_len : forall t lvl nx rk,
  erase (fst (fst (load lvl t nx rk))) = t
  /\ length (snd (load lvl t nx rk)) = length rk.
Proof.
  induction t as [v|es IH] using tree_ind'; intros lvl nx rk; [split; reflexivity|].
  rewrite load_node.
  assert (H : forall nx rk,
             map (fun ct => (fst ct, erase (snd ct))) (fst (fst (load_list lvl es nx rk))) = es
             /\ length (snd (load_list lvl es nx rk)) = length rk).
  { clear nx rk. induction es as [|[c t] es IHes]; intros nx rk; [split; reflexivity|].
    inversion IH as [|? ? Ht Hes]; subst. cbn [snd] in Ht.
    cbn [load_list]. destruct (Ht (S lvl) nx rk) as [He Hl].
    destruct (load (S lvl) t nx rk) as [[t'' nx1] rk1]. cbn [fst snd] in He, Hl.
    destruct (IHes Hes nx1 rk1) as [He2 Hl2].
    destruct (load_list lvl es nx1 rk1) as [[l'' nx2] rk2]. cbn [fst snd] in *.
    split; [|congruence]. cbn [map fst snd]. rewrite He, He2. reflexivity. }
  destruct (H (S nx) (app_rank lvl nx rk)) as [He Hl].
  destruct (load_list lvl es (S nx) (app_rank lvl nx rk)) as [[es' nx'] rk'].
  cbn [fst snd] in *. split.
  - cbn [erase]. rewrite He. reflexivity.
  - rewrite Hl. apply app_rank_length.
Qed.

Definition wf_case (c : hist_case) : bool :=
  Nat.ltb O (h_n c) && wf_tree (h_n c) (h_tree c).

Lemma init_wf c : wf_case c = true -> wf_st (init (h_n c) (h_d c) (h_tree c))
                                       /\ nranks (init (h_n c) (h_d c) (h_tree c)) = h_n c.
Proof.
  unfold wf_case. intros H. apply andb_true_iff in H. destruct H as [Hn Hw].
  apply Nat.ltb_lt in Hn. unfold init.
  destruct (load_erase_len (h_tree c) O O (repeat [] (h_n c))) as [He Hl].
  destruct (load 0 (h_tree c) 0 (repeat [] (h_n c))) as [[r nx] rk] eqn:Hload.
  cbn [fst snd] in *. rewrite repeat_length in Hl.
  assert (Hnr : nranks {| s_root := r; s_ranks := rk; s_next := nx; s_d := h_d c |} = h_n c)
    by (unfold nranks; cbn [s_ranks]; exact Hl).
  split; [|exact Hnr].
  destruct (h_tree c) as [v|es] eqn:Ht.
  - destruct (h_n c); [lia|]. cbn in Hw. discriminate.
  - rewrite load_node in Hload.
    destruct (load_list 0 es 1 (app_rank 0 0 (repeat [] (h_n c)))) as [[es' nx'] rk'].
    inversion Hload; subst r nx rk. exists O, (Some O), es'. rewrite Hnr.
    split; [reflexivity|]. split; [exact Hn|].
    pose proof (wf_i_erase (h_n c) (INode 0 (Some 0%nat) es') O (Nat.le_0_l _)) as Hwe.
    rewrite Nat.sub_0_r, He, Hw in Hwe. rewrite wf_i_node in Hwe.
    apply andb_true_iff in Hwe. destruct Hwe as [_ Hwe]. exact Hwe.
Qed.

(* ---------- C01 oracle holds of the model's observation ---------- *)
Lemma wf_st_tree s : wf_st s -> wf_tree (nranks s) (erase (s_root s)) = true.
Proof.
  intros (id & ow & es & Hr & Hn & Hw). rewrite Hr.
  pose proof (wf_i_erase (nranks s) (INode id ow es) O (Nat.le_0_l _)) as Hwe.
  rewrite Nat.sub_0_r in Hwe. rewrite <- Hwe, wf_i_node, Hw.
  apply Nat.ltb_lt in Hn. rewrite Hn. reflexivity.
Qed.

Lemma local_nranks s path f : wf_st s -> nranks (fst (local s path f)) = nranks s.
Proof.
  intros Hs. unfold local. destruct (path_ok path (root_es s)); [|reflexivity].
  destruct (at_path path f O (root_es s)); [|reflexivity]. cbn [fst].
  destruct Hs as (id & ow & es & Hr & _). unfold with_root. rewrite Hr. reflexivity.
Qed.

Lemma at_path_st_nranks s path f r :
  wf_st s ->
  (forall lvl e nx rk, length (snd (f lvl e nx rk)) = length rk) ->
  at_path_st path f O (root_es s) (s_next s) (s_ranks s) = Some r ->
  nranks (with_root s (fst (fst r)) (snd (fst r)) (snd r)) = nranks s.
Proof.
  intros Hs Hlen Hat.
  pose proof (at_path_st_rk_length f Hlen _ _ _ _ _ _ Hat) as Hl.
  destruct Hs as (id & ow & es & Hr & _). unfold with_root. rewrite Hr. unfold nranks. exact Hl.
Qed.

Lemma step0_nranks s o : wf_st s -> nranks (fst (Store.step0 s o)) = nranks s.
Proof.
  intros Hs. destruct o; cbn [Store.step0].
  - destruct (Nat.leb (length pt) (nranks s) && negb (Nat.eqb (length pt) 0)); [|reflexivity].
    pose proof (get_ref_rk_length (nranks s) (s_d s) w pt O (root_es s) (s_next s) (s_ranks s)) as H2.
    destruct (get_ref (nranks s) (s_d s) w O pt (root_es s) (s_next s) (s_ranks s))
      as [[[es' nx] rk] r]. cbn [fst snd] in *.
    destruct Hs as (id & ow & es & Hr & _). unfold with_root. rewrite Hr. unfold nranks. exact H2.
  - destruct (Nat.leb (length pt) (nranks s) && negb (Nat.eqb (length pt) 0)); reflexivity.
  - destruct (Nat.eqb (S (length path)) (nranks s)); [|reflexivity]. apply local_nranks. exact Hs.
  - destruct (Nat.eqb (S (length path)) (nranks s)
              || Nat.ltb (length path) (nranks s) && match ov with None => true | Some _ => false end);
      [|reflexivity]. apply local_nranks. exact Hs.
  - destruct (Nat.ltb (length path) (nranks s)); [|reflexivity].
    destruct (fiber_at path (root_es s)) as [es|]; [|reflexivity].
    pose proof (local_nranks s path (fun _ => do_clear) Hs) as Hl.
    destruct (local s path (fun _ : nat => do_clear)) as [s' out]. cbn [fst] in *.
    destruct out; cbn [fst]; try exact Hl.
    unfold nranks in *. cbn [s_ranks]. rewrite map_length. exact Hl.
  - destruct (Nat.ltb (length path + depth) (nranks s) && ((sg =? 1) || (sg =? -1))); [|reflexivity].
    apply local_nranks. exact Hs.
  - destruct (Nat.ltb (length path + depth) (nranks s)); [|reflexivity].
    destruct (fiber_at path (root_es s)) as [es0|]; [|reflexivity].
    destruct (distinct_below depth (tbl_fn tbl off) es0); [|reflexivity].
    apply local_nranks. exact Hs.
  - destruct (Nat.eqb (S (length path + depth)) (nranks s)); [|reflexivity].
    apply local_nranks. exact Hs.
  - destruct (Nat.ltb (length path) (nranks s) && (0 <? step) && (0 <=? lo)); [|reflexivity].
    destruct (at_path_st path _ O (root_es s) (s_next s) (s_ranks s)) as [[[es' nx] rk]|] eqn:Hat;
      [|reflexivity]. cbn [fst].
    refine (at_path_st_nranks s path _ (es', nx, rk) Hs _ Hat).
    intros lvl e nx0 rk0. apply shape_ref_rk_length.
  - destruct (Nat.ltb (length path) (nranks s)); [|reflexivity].
    destruct (fiber_at path (root_es s)) as [es|]; [|reflexivity].
    destruct (sp_in_range (norm_sp sp es) es); reflexivity.
  - destruct (Nat.ltb (length path) (nranks s)); [|reflexivity].
    destruct (fiber_at path (root_es s)) as [es|]; [|reflexivity].
    destruct (sp_in_range (norm_sp sp es) es); [|reflexivity].
    destruct (coord_exists c (map fst es) (coord2pos c (map fst es) (norm_sp sp es))
              || negb (coord_exists c (map fst es) (bisect c (map fst es)))); [|reflexivity].
    destruct (at_path_st path _ O (root_es s) (s_next s) (s_ranks s)) as [[[es' nx] rk]|] eqn:Hat;
      [|reflexivity]. cbn [fst].
    refine (at_path_st_nranks s path _ (es', nx, rk) Hs _ Hat). apply get_ref_single_len.
  - destruct (Nat.ltb (length path) (nranks s)); [|reflexivity].
    destruct (fiber_at path (root_es s)) as [es|]; [|reflexivity].
    destruct (sp_in_range (norm_sp sp es) es); [|reflexivity].
    destruct (sp_assert c (norm_sp sp es) es); reflexivity.
  - destruct (Nat.ltb (length path) (nranks s)); [|reflexivity].
    destruct (fiber_at path (root_es s)) as [es|]; [|reflexivity].
    destruct (sp_in_range (norm_sp sp es) es); [|reflexivity].
    destruct (coord_exists c (map fst es) (coord2pos c (map fst es) (norm_sp sp es))
              || negb (coord_exists c (map fst es) (bisect c (map fst es)))); [|reflexivity].
    destruct (at_path_st path _ O (root_es s) (s_next s) (s_ranks s)) as [[[es' nx] rk]|] eqn:Hat;
      [|reflexivity]. cbn [fst].
    refine (at_path_st_nranks s path _ (es', nx, rk) Hs _ Hat). apply get_ref_single_len.
  - destruct (Nat.leb (length pt) (nranks s) && negb (Nat.eqb (length pt) 0)); reflexivity.
  - destruct (Nat.ltb (S (length path)) (nranks s) && plain_wf (nranks s - S (length path)) t);
      [|reflexivity].
    destruct (fiber_at path (root_es s)) as [e|]; [|reflexivity].
    destruct (match last_coord e with Some m => m <? c | None => true end); [|reflexivity].
    destruct (at_path_st path _ O (root_es s) (s_next s) (s_ranks s)) as [[[es' nx] rk]|] eqn:Hat;
      [|reflexivity]. cbn [fst].
    refine (at_path_st_nranks s path _ (es', nx, rk) Hs _ Hat). intros. apply append_fib_len.
  - destruct t as [v|l]; [reflexivity|].
    destruct (Nat.ltb (length path) (nranks s) && plain_wf (nranks s - length path) (Node l));
      [|reflexivity].
    destruct (fiber_at path (root_es s)) as [e|]; [|reflexivity].
    destruct (is_empty (s_d s) (Node l)); [reflexivity|].
    destruct (match last_coord e, l with Some m, (c0, _) :: _ => m <? c0 | _, _ => true end);
      [|reflexivity].
    destruct (at_path_st path _ O (root_es s) (s_next s) (s_ranks s)) as [[[es' nx] rk]|] eqn:Hat;
      [|reflexivity]. cbn [fst].
    refine (at_path_st_nranks s path _ (es', nx, rk) Hs _ Hat). intros. apply extend_fib_len.
  - destruct (Nat.ltb (S (length path)) (nranks s) && plain_wf (nranks s - S (length path)) t);
      [|reflexivity].
    destruct (fiber_at path (root_es s)) as [e|]; [|reflexivity]. cbv zeta.
    destruct (((if pos <? 0 then pos + Z.of_nat (length e) else pos) <? 0)
              || (Z.of_nat (length e) <=? (if pos <? 0 then pos + Z.of_nat (length e) else pos)));
      [reflexivity|].
    destruct (at_path_st path _ O (root_es s) (s_next s) (s_ranks s)) as [[[es' nx] rk]|] eqn:Hat;
      [|reflexivity]. cbn [fst].
    refine (at_path_st_nranks s path _ (es', nx, rk) Hs _ Hat). intros. apply setitem_fib_len.
  - destruct (prune (s_d s) t) as [v|l]; [reflexivity|].
    destruct (Nat.ltb (length path) (nranks s) && plain_wf (nranks s - length path) t);
      [|reflexivity].
    destruct (at_path_st path _ O (root_es s) (s_next s) (s_ranks s)) as [[[es' nx] rk]|] eqn:Hat;
      [|reflexivity]. cbn [fst].
    refine (at_path_st_nranks s path _ (es', nx, rk) Hs _ Hat). intros. apply assign_fib_len.
  - reflexivity.
Qed.

(* OSetItemCF = the coordinate-only assignment, then the fiber-only assignment (step_decomp) *)
Lemma step_nranks s o : wf_st s -> nranks (fst (Store.step s o)) = nranks s.
Proof.
  intros Hs.
  destruct (step_decomp s o) as [E|(path & pos & c & t & _ & [[E _]|(s1 & r1 & _ & E1 & E2)])].
  - rewrite E. apply step0_nranks. exact Hs.
  - rewrite E. reflexivity.
  - pose proof (step0_wf s (OSetItem path pos (Some c) None) Hs) as Hs1.
    pose proof (step0_nranks s (OSetItem path pos (Some c) None) Hs) as Hn1.
    rewrite E1 in Hs1, Hn1. cbn [fst] in Hs1, Hn1.
    rewrite E2, <- Hn1. apply step0_nranks. exact Hs1.
Qed.

Lemma outcome_code_V o :
  outcome_code (V_outcome o) = match o with Done _ => 0 | Rejected => 1 | BadAddress => 2 end.
Proof. destruct o; reflexivity. Qed.

Lemma c01_steps_run n : forall ops s,
  wf_st s -> nranks s = n -> c01_steps n (V_state s) (run_obs s ops) = true.
Proof.
  induction ops as [|o ops IH]; intros s Hs Hn; [reflexivity|].
  cbn [run_obs].
  pose proof (step_wf s o Hs) as Hs'.
  pose proof (step_nranks s o Hs) as Hn'.
  pose proof (step_rejected_unchanged s o) as Hrej.
  destruct (Store.step s o) as [s' out]. cbn [fst snd] in *.
  cbn [c01_steps split_step]. rewrite V_to_state_V_state. cbn [o_tree].
  rewrite <- Hn, <- Hn'. rewrite (wf_st_tree s' Hs'). cbn [andb].
  rewrite outcome_code_V.
  assert (Hsame : out = Rejected \/ out = BadAddress -> V_eqb (V_state s') (V_state s) = true).
  { intros H. rewrite (Hrej H). apply V_eqb_refl. }
  rewrite Hn'. rewrite Hn.
  destruct out; cbn [Z.eqb Pos.eqb andb].
  - apply IH; [exact Hs'|congruence].
  - rewrite Hsame by (left; reflexivity). cbn [andb]. apply IH; [exact Hs'|congruence].
  - rewrite Hsame by (right; reflexivity). cbn [andb]. apply IH; [exact Hs'|congruence].
Qed.

Theorem c01_model_holds c :
  wf_case c = true -> holds c01_checker c (model c01_checker c) = true.
Proof.
  intros Hc. cbn [holds model c01_checker]. unfold hist_model, c01_holds.
  destruct (init_wf c Hc) as [Hs Hn].
  rewrite V_to_state_V_state. cbn [o_tree].
  rewrite <- Hn at 1. rewrite (wf_st_tree _ Hs). cbn [andb].
  apply c01_steps_run; assumption.
Qed.

(* every prefix of every history keeps the invariant *)
Theorem run_wf : forall ops s, wf_st s -> wf_st (run s ops).
Proof.
  induction ops as [|o ops IH]; intros s Hs; [exact Hs|].
  cbn [run fold_left]. apply IH. apply step_wf. exact Hs.
Qed.

(* ---------- what the boolean predicates mean ---------- *)
From Coq Require Import Sorted.

Lemma ssorted_spec l : ssorted l = true <-> StronglySorted Z.lt l.
Proof.
  induction l as [|x l IH].
  - split; [constructor|reflexivity].
  - rewrite ssorted_cons, andb_true_iff. split.
    + intros [Hh Hs]. constructor; [apply IH; exact Hs|]. apply ssorted_all_gt; assumption.
    + intros H. inversion H as [|? ? Hs Hall]; subst. split; [|apply IH; exact Hs].
      destruct l as [|y l']; [reflexivity|]. inversion Hall; subst. simpl. lia.
Qed.

(* leaves exactly at depth n, every fiber strictly increasing (hence duplicate-free) *)
Inductive WFt : nat -> tree -> Prop :=
| WF_leaf v : WFt O (Leaf v)
| WF_node n es : StronglySorted Z.lt (map fst es) ->
                 Forall (fun ct => WFt n (snd ct)) es -> WFt (S n) (Node es).

Lemma wf_tree_spec : forall t n, wf_tree n t = true <-> WFt n t.
Proof.
  induction t as [v|es IH] using tree_ind'; intros n.
  - destruct n; cbn; split; intros H; try constructor; try discriminate; inversion H.
  - destruct n as [|n]; cbn [wf_tree].
    + split; [discriminate|]. intros H; inversion H.
    + rewrite andb_true_iff, ssorted_spec, forallb_forall. split.
      * intros [Hs Hk]. constructor; [exact Hs|]. apply Forall_forall. intros ct Hin.
        rewrite Forall_forall in IH. apply (IH ct Hin). apply Hk. exact Hin.
      * intros H. inversion H as [|? ? Hs Hk]; subst. split; [exact Hs|].
        intros ct Hin. rewrite Forall_forall in IH, Hk. apply (IH ct Hin). apply Hk. exact Hin.
Qed.

Lemma wf_st_WFt s : wf_st s -> WFt (nranks s) (erase (s_root s)).
Proof. intros H. apply wf_tree_spec. apply wf_st_tree. exact H. Qed.

Lemma run_prefix_wf ops s k : wf_st s -> wf_st (run s (firstn k ops)).
Proof. intros H. apply run_wf. exact H. Qed.
