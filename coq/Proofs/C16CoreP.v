(* C16CoreP.v — (1) the rows a trace file holds are an append-only function [emits] of the event
   list and of the counter part (loop_order, iteration, point, saved copies) of the state;
   (2) how each Metrics call acts on a state of the shape a loop nest keeps it in. *)
From Coq Require Import ZArith List Bool Lia.
From FT Require Import Model.Base Model.Obs Model.C16Metrics Proofs.C16MetricsP.
Import ListNotations.
Open Scope Z_scope.

Lemma key_eqb_eq : forall a b, key_eqb a b = true <-> a = b.
Proof.
  intros [[r k] l] [[r' k'] l']. cbn. rewrite !andb_true_iff, !Z.eqb_eq. split.
  - intros [[-> ->] ->]. reflexivity.
  - intros H. inversion H. auto.
Qed.

Lemma key_eqb_refl : forall a, key_eqb a a = true.
Proof. intros a. apply key_eqb_eq. reflexivity. Qed.

Definition content (st : mstate) (k : tkey) : option (list row) :=
  option_map (fun kt : tkey * tstate => file_content (snd kt))
             (find (fun kt => key_eqb k (fst kt)) (m_tr st)).

Definition use_row (i : nat) (stamp pt : list Z) (c pos : Z) : row :=
  firstn (S i) stamp ++ firstn i (upd i (fun _ => c) pt) ++ [c] ++ [pos].

(* rows one Metrics call appends to the file of trace k *)
Definition emit (st : mstate) (e : mev) (k : tkey) : list row :=
  match e with
  | EReg r =>
    match index_of r (m_lo st), lookup_rm r (m_rm st) with
    | None, None => if key_rank k =? r then [header (m_lo st ++ [r]) (length (m_lo st))] else []
    | _, _ => []
    end
  | EStartM src r =>
    match index_of r (m_lo st), index_of src (m_lo st), lookup_rm src (m_rm st) with
    | Some i, None, None => if key_rank k =? src then [header (m_lo st) i] else []
    | _, _, _ => []
    end
  | EUseM r c pos kind label =>
    match aidx st r with
    | None => []
    | Some i => if key_eqb (r, kind, label) k
                then [firstn (S i) (m_it st) ++ firstn i (m_pt st) ++ [c] ++ [pos]] else []
    end
  | EUseSM r c pos kind label s =>
    match aidx st r with
    | None => []
    | Some i => if key_eqb (r, kind, label) k
                then [firstn (S i) (lookup_saved s (m_saved st)) ++ firstn i (m_pt st) ++ [c] ++ [pos]]
                else []
    end
  | EUse r c pos kind label =>
    match index_of r (m_lo st) with
    | None => []
    | Some i => if key_eqb (r, kind, label) k then [use_row i (m_it st) (m_pt st) c pos] else []
    end
  | EUseS r c pos kind label s =>
    match index_of r (m_lo st) with
    | None => []
    | Some i => if key_eqb (r, kind, label) k
                then [use_row i (lookup_saved s (m_saved st)) (m_pt st) c pos] else []
    end
  | _ => []
  end.

Fixpoint emits (n : Z) (st : mstate) (evs : list mev) (k : tkey) : list row :=
  match evs with
  | [] => []
  | e :: evs' => emit st e k ++ emits n (step n st e) evs' k
  end.

Lemma emits_app : forall n a b st k,
  emits n st (a ++ b) k = emits n st a k ++ emits n (exec n st a) b k.
Proof.
  induction a as [|e a IH]; intros b st k; cbn; auto. rewrite IH, app_assoc. reflexivity.
Qed.

Lemma exec_app : forall n a b st, exec n st (a ++ b) = exec n (exec n st a) b.
Proof. intros. unfold exec. apply fold_left_app. Qed.

Definition good (m : bool) (st : mstate) : Prop := minv st /\ finv true m st.

Lemma good_step : forall m n e st, good m st -> good m (step n st e).
Proof. intros m n e st [H1 H2]. split; [apply step_minv|apply step_finv]; auto. Qed.

Lemma find_map_key : forall P f k tr,
  find (fun kt : tkey * tstate => key_eqb k (fst kt)) (map_key P f tr)
  = option_map (fun kt => if P (fst kt) then (fst kt, f (snd kt)) else kt)
               (find (fun kt => key_eqb k (fst kt)) tr).
Proof.
  intros P f k tr. induction tr as [|a tr IH]; cbn; auto.
  destruct (P (fst a)) eqn:EP; cbn [fst]; destruct (key_eqb k (fst a)) eqn:E; cbn; auto;
    rewrite EP; reflexivity.
Qed.

Lemma content_push : forall m st key d k n,
  good m st -> (~ unknown st (key_rank key)) ->
  option_map (fun kt : tkey * tstate => file_content (snd kt))
    (find (fun kt => key_eqb k (fst kt)) (map_key (key_eqb key) (push_row n d) (m_tr st)))
  = option_map (fun rows => rows ++ (if key_eqb key k then [d] else [])) (content st k).
Proof.
  intros m st key d k n [Hm Hf] Hk. unfold content. rewrite find_map_key.
  destruct (find (fun kt => key_eqb k (fst kt)) (m_tr st)) as [[k' t]|] eqn:E; cbn [option_map]; auto.
  apply find_some in E. destruct E as [Hin Hk']. cbn [fst] in Hk'. apply key_eqb_eq in Hk'. subst k'.
  unfold finv in Hf. rewrite Forall_forall in Hf. destruct (Hf _ Hin) as [Ff _]. cbn [snd] in Ff.
  cbn [fst snd]. destruct (key_eqb key k); cbn [snd].
  - rewrite push_content, Ff. reflexivity.
  - rewrite app_nil_r. reflexivity.
Qed.

Lemma content_start : forall m st r h k,
  good m st -> unknown st r ->
  option_map (fun kt : tkey * tstate => file_content (snd kt))
    (find (fun kt => key_eqb k (fst kt)) (map_key (fun k => key_rank k =? r) (start_trace h) (m_tr st)))
  = option_map (fun rows => rows ++ (if key_rank k =? r then [h] else [])) (content st k).
Proof.
  intros m st r h k [Hm Hf] Hu. unfold content. rewrite find_map_key.
  destruct (find (fun kt => key_eqb k (fst kt)) (m_tr st)) as [[k' t]|] eqn:E; cbn [option_map]; auto.
  apply find_some in E. destruct E as [Hin Hk']. cbn [fst] in Hk'. apply key_eqb_eq in Hk'. subst k'.
  unfold finv in Hf. rewrite Forall_forall in Hf. destruct (Hf _ Hin) as [Ff _]. cbn [snd] in Ff.
  unfold minv in Hm. rewrite Forall_forall in Hm. destruct (Hm _ Hin) as [Ti _].
  cbn [fst snd]. destruct (key_rank k =? r) eqn:Er; cbn [snd].
  - apply Z.eqb_eq in Er. assert (Et : empty_t t). { apply Ti. cbn [fst]. rewrite Er. exact Hu. }
    destruct (start_content h _ Et) as [Ca _].
    rewrite Ca, Ff. destruct Et as (Hp & Hw & _). unfold file_content. rewrite Hp, Hw. reflexivity.
  - rewrite app_nil_r. reflexivity.
Qed.

Lemma content_step : forall m n e st k, good m st ->
  content (step n st e) k = option_map (fun rows => rows ++ emit st e k) (content st k).
Proof.
  intros m n e st k G.
  assert (Same : forall st', m_tr st' = m_tr st ->
            content st' k = option_map (fun rows => rows ++ []) (content st k)).
  { intros st' E. unfold content. rewrite E.
    destruct (find (fun kt => key_eqb k (fst kt)) (m_tr st)); cbn; auto. rewrite app_nil_r. auto. }
  destruct e; cbn [step emit]; unfold add_use, add_use_m.
  - destruct (index_of r (m_lo st)) eqn:E1; [apply Same; reflexivity|].
    destruct (lookup_rm r (m_rm st)) eqn:E2; [apply Same; reflexivity|].
    unfold content at 1. cbn [m_tr]. apply (content_start m); auto. split; auto.
  - destruct (index_of r (m_lo st)) eqn:Ei; [|apply Same; reflexivity].
    unfold content at 1. cbn [m_tr]. erewrite (content_push m); eauto.
    intros [H _]. cbn in H. congruence.
  - destruct (index_of r (m_lo st)); apply Same; reflexivity.
  - destruct (index_of r (m_lo st)); apply Same; reflexivity.
  - apply Same; reflexivity.
  - destruct (index_of r (m_lo st)); apply Same; reflexivity.
  - destruct (index_of r (m_lo st)) eqn:Ei; [|apply Same; reflexivity].
    unfold content at 1. cbn [m_tr]. erewrite (content_push m); eauto.
    intros [H _]. cbn in H. congruence.
  - destruct (index_of r (m_lo st)) eqn:E0; [|apply Same; reflexivity].
    destruct (index_of src (m_lo st)) eqn:E1; [apply Same; reflexivity|].
    destruct (lookup_rm src (m_rm st)) eqn:E2; [apply Same; reflexivity|].
    unfold content at 1. cbn [m_tr]. apply (content_start m); auto. split; auto.
  - destruct (aidx st r) eqn:Ei; [|apply Same; reflexivity].
    unfold content at 1. cbn [m_tr with_tr]. erewrite (content_push m); eauto.
    intros [_ H]. cbn in H. unfold aidx in Ei. rewrite H in Ei. discriminate.
  - destruct (aidx st r) eqn:Ei; [|apply Same; reflexivity].
    unfold content at 1. cbn [m_tr with_tr]. erewrite (content_push m); eauto.
    intros [_ H]. cbn in H. unfold aidx in Ei. rewrite H in Ei. discriminate.
  - destruct (aidx st r); apply Same; reflexivity.
  - destruct (aidx st r); apply Same; reflexivity.
Qed.

Lemma content_exec : forall m n evs st k, good m st ->
  content (exec n st evs) k = option_map (fun rows => rows ++ emits n st evs k) (content st k).
Proof.
  induction evs as [|e evs IH]; intros st k G; cbn [exec fold_left emits].
  - destruct (content st k); cbn; auto. rewrite app_nil_r. reflexivity.
  - change (fold_left (step n) evs (step n st e)) with (exec n (step n st e) evs).
    rewrite (IH _ _ (good_step m n e st G)), (content_step m n e st k G).
    destruct (content st k); cbn; auto. rewrite app_assoc. reflexivity.
Qed.

Lemma good_init : forall keys m, good m (init_state keys true m).
Proof. intros. split; [apply init_minv|apply init_finv]. Qed.

Lemma content_init : forall keys f m k, In k keys -> content (init_state keys f m) k = Some [].
Proof.
  intros keys f m k Hin. unfold content. cbn [m_tr init_state].
  induction keys as [|a keys IH]; [destruct Hin|]. cbn.
  destruct (key_eqb k a) eqn:E; cbn; auto.
  destruct Hin as [->|Hin]; auto. rewrite key_eqb_refl in E. discriminate.
Qed.

(* the file of every registered trace holds exactly the emitted rows *)
Theorem content_is_emits : forall keys m n evs k, In k keys ->
  content (exec n (init_state keys true m) evs) k = Some (emits n (init_state keys true m) evs k).
Proof.
  intros. rewrite (content_exec m) by apply good_init. rewrite content_init by auto. reflexivity.
Qed.

(* ------------------------------------------------------------------ list helpers *)
Lemma iota_S : forall k, iota (S k) = iota k ++ [Z.of_nat k].
Proof. intros k. unfold iota. rewrite seq_S, map_app. reflexivity. Qed.

Lemma iota_length : forall k, length (iota k) = k.
Proof. intros. unfold iota. rewrite map_length, seq_length. reflexivity. Qed.

Lemma index_of_seq : forall k a j, (a <= j < a + k)%nat ->
  index_of (Z.of_nat j) (map Z.of_nat (seq a k)) = Some (j - a)%nat.
Proof.
  induction k as [|k IH]; intros a j H; [lia|]. cbn.
  destruct (Z.of_nat a =? Z.of_nat j) eqn:E.
  - apply Z.eqb_eq in E. replace (j - a)%nat with O by lia. reflexivity.
  - apply Z.eqb_neq in E. rewrite (IH (S a) j) by lia. cbn. f_equal. lia.
Qed.

Lemma index_of_seq_none : forall k a j, (j < a \/ a + k <= j)%nat ->
  index_of (Z.of_nat j) (map Z.of_nat (seq a k)) = None.
Proof.
  induction k as [|k IH]; intros a j H; cbn; auto.
  destruct (Z.of_nat a =? Z.of_nat j) eqn:E. { apply Z.eqb_eq in E. lia. }
  rewrite (IH (S a) j) by lia. reflexivity.
Qed.

Lemma index_of_iota : forall k j, (j < k)%nat -> index_of (Z.of_nat j) (iota k) = Some j.
Proof. intros. unfold iota. rewrite index_of_seq by lia. f_equal. lia. Qed.

Lemma index_of_iota_none : forall k j, (k <= j)%nat -> index_of (Z.of_nat j) (iota k) = None.
Proof. intros. unfold iota. apply index_of_seq_none. lia. Qed.

Lemma upd_app : forall (P : list Z) f v t, upd (length P) f (P ++ v :: t) = P ++ f v :: t.
Proof. induction P as [|x P IH]; intros; cbn; auto. rewrite IH. reflexivity. Qed.

Lemma firstn_upd : forall i f l, firstn i (upd i f l) = firstn i l.
Proof.
  induction i as [|i IH]; intros f l; cbn; auto. destruct l as [|x l]; cbn; auto. rewrite IH. auto.
Qed.

Lemma upd_length : forall i f l, length (upd i f l) = length l.
Proof.
  induction i as [|i IH]; intros f l; destruct l as [|x l]; cbn; auto.
Qed.

Lemma firstn_S_upd : forall i c l, (i < length l)%nat ->
  firstn (S i) (upd i (fun _ => c) l) = firstn i l ++ [c].
Proof.
  induction i as [|i IH]; intros c l H; destruct l as [|x l]; cbn in *; try lia; auto.
  rewrite IH by lia. reflexivity.
Qed.

Lemma firstn_app_exact : forall (P t : list Z), firstn (length P) (P ++ t) = P.
Proof. intros. rewrite firstn_app, firstn_all, Nat.sub_diag. cbn. apply app_nil_r. Qed.

Lemma firstn_S_app : forall (P : list Z) v t, firstn (S (length P)) (P ++ v :: t) = P ++ [v].
Proof.
  intros. rewrite firstn_app, firstn_all2 by lia.
  replace (S (length P) - length P)%nat with 1%nat by lia. reflexivity.
Qed.

(* ------------------------------------------------------------------ shapes *)
Definition shape (i k : nat) (P pt : list Z) (st : mstate) : Prop :=
  m_lo st = iota k /\ (i <= k)%nat /\ length P = i /\ length pt = i
  /\ m_it st = P ++ repeat 0 (k - i) /\ length (m_pt st) = k /\ firstn i (m_pt st) = pt
  /\ m_rm st = [].

(* inside the loop of level i: own counter v *)
Definition lshape (i k : nat) (P : list Z) (v : Z) (pt : list Z) (st : mstate) : Prop :=
  m_lo st = iota k /\ (i < k)%nat /\ length P = i /\ length pt = i
  /\ m_it st = P ++ v :: repeat 0 (k - S i) /\ length (m_pt st) = k /\ firstn i (m_pt st) = pt
  /\ m_rm st = [].

Definition slot (i : nat) (st : mstate) : list Z := lookup_saved (Z.of_nat i) (m_saved st).

Lemma step_reg : forall n i k P pt st, shape i k P pt st ->
  lshape i (Nat.max k (S i)) P 0 pt (step n st (EReg (Z.of_nat i)))
  /\ m_saved (step n st (EReg (Z.of_nat i))) = m_saved st
  /\ forall kk, emit st (EReg (Z.of_nat i)) kk
       = if (Nat.eqb k i) && (key_rank kk =? Z.of_nat i) then [header (iota (S i)) i] else [].
Proof.
  intros n i k P pt st (Hlo & Hik & HP & Hpt & Hit & Hlp & Hfp & Hrm). cbn [step emit]. rewrite Hlo, Hrm.
  cbn [lookup_rm].
  destruct (Nat.eqb k i) eqn:E.
  - apply Nat.eqb_eq in E. revert Hlo Hik Hit Hlp. rewrite E. clear E k. intros Hlo Hik Hit Hlp.
    rewrite index_of_iota_none by lia.
    replace (Nat.max i (S i)) with (S i) by lia. split; [|split]; auto.
    + unfold lshape. cbn [m_lo m_it m_pt m_rm]. rewrite Hit, Nat.sub_diag, <- iota_S.
      replace (S i - S i)%nat with O by lia. cbn [repeat]. rewrite app_nil_r.
      repeat split; auto; try lia.
      * rewrite app_length. cbn. lia.
      * rewrite firstn_app, Hlp, Nat.sub_diag. cbn. rewrite app_nil_r. exact Hfp.
    + intros kk. rewrite iota_length, <- iota_S. cbn [andb]. reflexivity.
  - apply Nat.eqb_neq in E. rewrite index_of_iota by lia.
    replace (Nat.max k (S i)) with k by lia. split; [|split]; auto.
    unfold lshape. repeat split; auto; try lia.
    rewrite Hit. replace (k - i)%nat with (S (k - S i)) by lia. reflexivity.
Qed.

Lemma step_use : forall n i k P v pt st c pos kind label, lshape i k P v pt st ->
  let st' := step n st (EUse (Z.of_nat i) c pos kind label) in
  lshape i k P v pt st' /\ firstn (S i) (m_pt st') = pt ++ [c] /\ m_saved st' = m_saved st
  /\ forall kk, emit st (EUse (Z.of_nat i) c pos kind label) kk
       = if key_eqb (Z.of_nat i, kind, label) kk then [P ++ [v] ++ pt ++ [c] ++ [pos]] else [].
Proof.
  intros n i k P v pt st c pos kind label (Hlo & Hik & HP & Hpt & Hit & Hlp & Hfp & Hrm) st'.
  subst st'. cbn [step emit]. unfold add_use. rewrite Hlo, index_of_iota by lia.
  cbn [m_lo m_it m_pt m_saved]. split; [|split; [|split]]; auto.
  - unfold lshape. cbn [m_lo m_it m_pt m_rm]. repeat split; auto.
    + rewrite upd_length. auto.
    + rewrite firstn_upd. auto.
  - rewrite firstn_S_upd by lia. rewrite Hfp. reflexivity.
  - intros kk. destruct (key_eqb (Z.of_nat i, kind, label) kk); auto.
    unfold use_row. rewrite Hit, <- HP, firstn_S_app, firstn_upd, HP, Hfp, <- app_assoc. reflexivity.
Qed.

Lemma step_inc : forall n i k P v pt st, lshape i k P v pt st ->
  lshape i k P (v + 1) pt (step n st (EInc (Z.of_nat i)))
  /\ m_saved (step n st (EInc (Z.of_nat i))) = m_saved st
  /\ m_pt (step n st (EInc (Z.of_nat i))) = m_pt st.
Proof.
  intros n i k P v pt st (Hlo & Hik & HP & Hpt & Hit & Hlp & Hfp & Hrm). cbn [step].
  rewrite Hlo, index_of_iota by lia. cbn [m_saved m_pt]. split; [|split]; auto.
  unfold lshape. cbn [m_lo m_it m_pt m_rm]. repeat split; auto.
  rewrite Hit, <- HP, upd_app. reflexivity.
Qed.

Lemma step_end : forall n i k P v pt st, lshape i k P v pt st ->
  shape i k P pt (step n st (EEnd (Z.of_nat i)))
  /\ m_saved (step n st (EEnd (Z.of_nat i))) = m_saved st.
Proof.
  intros n i k P v pt st (Hlo & Hik & HP & Hpt & Hit & Hlp & Hfp & Hrm). cbn [step].
  rewrite Hlo, index_of_iota by lia. cbn [m_saved]. split; auto.
  unfold shape. cbn [m_lo m_it m_pt m_rm]. repeat split; auto; try lia.
  rewrite Hit, <- HP, upd_app. replace (k - length P)%nat with (S (k - S (length P))) by lia.
  reflexivity.
Qed.

(* entering / leaving the body of level i *)
Lemma lshape_down : forall i k P v pt c st, lshape i k P v pt st ->
  firstn (S i) (m_pt st) = pt ++ [c] -> shape (S i) k (P ++ [v]) (pt ++ [c]) st.
Proof.
  intros i k P v pt c st (Hlo & Hik & HP & Hpt & Hit & Hlp & Hfp & Hrm) Hc.
  unfold shape. repeat split; auto; try lia.
  - rewrite app_length. cbn. lia.
  - rewrite app_length. cbn. lia.
  - rewrite Hit, <- app_assoc. reflexivity.
Qed.

Lemma lshape_up : forall i k P v pt c st, shape (S i) k (P ++ [v]) (pt ++ [c]) st ->
  length P = i -> length pt = i ->
  lshape i k P v pt st /\ firstn (S i) (m_pt st) = pt ++ [c].
Proof.
  intros i k P v pt c st (Hlo & Hik & HP & Hpt & Hit & Hlp & Hfp & Hrm) LP Lpt.
  split; auto. unfold lshape. repeat split; auto; try lia.
  - rewrite Hit, <- app_assoc. reflexivity.
  - assert (firstn i (firstn (S i) (m_pt st)) = firstn i (pt ++ [c])) by (rewrite Hfp; auto).
    rewrite firstn_firstn in H. replace (Nat.min i (S i)) with i in H by lia.
    rewrite H, <- Lpt. apply firstn_app_exact.
Qed.

(* ------------------------------------------------------------------ saved copies *)
Lemma lookup_saved_cons : forall s v m j,
  lookup_saved j ((s, v) :: m) = if j =? s then v else lookup_saved j m.
Proof. reflexivity. Qed.

Lemma step_save : forall n i k P v pt st, lshape i k P v pt st ->
  let st' := step n st (ESave (Z.of_nat i)) in
  lshape i k P v pt st' /\ m_pt st' = m_pt st
  /\ firstn (S i) (slot i st') = P ++ [v]
  /\ forall j, j <> i -> slot j st' = slot j st.
Proof.
  intros n i k P v pt st H st'. pose proof H as (Hlo & Hik & HP & Hpt & Hit & Hlp & Hfp & Hrm).
  subst st'. cbn [step]. split; [|split; [|split]]; auto.
  - unfold slot. cbn [m_saved]. rewrite lookup_saved_cons, Z.eqb_refl, Hit, <- HP.
    apply firstn_S_app.
  - intros j Hj. unfold slot. cbn [m_saved]. rewrite lookup_saved_cons.
    destruct (Z.of_nat j =? Z.of_nat i) eqn:E; auto. apply Z.eqb_eq in E. lia.
Qed.

Lemma firstn_S_upd_gen : forall (P : list Z) s f l,
  firstn (S (length P)) l = P ++ [s] -> firstn (S (length P)) (upd (length P) f l) = P ++ [f s].
Proof.
  induction P as [|x P IH]; intros s f l H; destruct l as [|y l]; cbn in *; try discriminate.
  - inversion H. reflexivity.
  - inversion H. subst. f_equal. apply IH. assumption.
Qed.

Lemma step_bump : forall n i k P v pt st s, lshape i k P v pt st ->
  firstn (S i) (slot i st) = P ++ [s] ->
  let st' := step n st (EBump (Z.of_nat i) (Z.of_nat i)) in
  lshape i k P v pt st' /\ m_pt st' = m_pt st
  /\ firstn (S i) (slot i st') = P ++ [s + 1]
  /\ forall j, j <> i -> slot j st' = slot j st.
Proof.
  intros n i k P v pt st s H Hs st'. pose proof H as (Hlo & Hik & HP & Hpt & Hit & Hlp & Hfp & Hrm).
  subst st'. cbn [step]. rewrite Hlo, index_of_iota by lia.
  split; [unfold lshape; cbn [m_lo m_it m_pt m_rm]; repeat split; auto|split; [reflexivity|split]].
  - unfold slot in *. cbn [m_saved]. rewrite lookup_saved_cons, Z.eqb_refl. subst i.
    apply (firstn_S_upd_gen P s (fun x => x + 1)). exact Hs.
  - intros j Hj. unfold slot. cbn [m_saved]. rewrite lookup_saved_cons.
    destruct (Z.of_nat j =? Z.of_nat i) eqn:E; auto. apply Z.eqb_eq in E. lia.
Qed.

Lemma step_bump_any : forall n i k P v pt st, lshape i k P v pt st ->
  let st' := step n st (EBump (Z.of_nat i) (Z.of_nat i)) in
  lshape i k P v pt st' /\ m_pt st' = m_pt st /\ forall j, j <> i -> slot j st' = slot j st.
Proof.
  intros n i k P v pt st H st'. pose proof H as (Hlo & Hik & HP & Hpt & Hit & Hlp & Hfp & Hrm).
  subst st'. cbn [step]. rewrite Hlo, index_of_iota by lia.
  split; [unfold lshape; cbn [m_lo m_it m_pt m_rm]; repeat split; auto|split; [reflexivity|]].
  intros j Hj. unfold slot. cbn [m_saved]. rewrite lookup_saved_cons.
  destruct (Z.of_nat j =? Z.of_nat i) eqn:E; auto. apply Z.eqb_eq in E. lia.
Qed.

Lemma step_useS : forall n i k P v pt st c pos kind label, lshape i k P v pt st ->
  let e := EUseS (Z.of_nat i) c pos kind label (Z.of_nat i) in
  let st' := step n st e in
  lshape i k P v pt st' /\ firstn (S i) (m_pt st') = pt ++ [c] /\ m_saved st' = m_saved st
  /\ forall kk, emit st e kk
       = if key_eqb (Z.of_nat i, kind, label) kk
         then [firstn (S i) (slot i st) ++ pt ++ [c] ++ [pos]] else [].
Proof.
  intros n i k P v pt st c pos kind label (Hlo & Hik & HP & Hpt & Hit & Hlp & Hfp & Hrm) e st'.
  subst e st'. cbn [step emit]. unfold add_use. rewrite Hlo, index_of_iota by lia.
  cbn [m_lo m_it m_pt m_saved]. split; [|split; [|split]]; auto.
  - unfold lshape. cbn [m_lo m_it m_pt m_rm]. repeat split; auto.
    + rewrite upd_length. auto.
    + rewrite firstn_upd. auto.
  - rewrite firstn_S_upd by lia. rewrite Hfp. reflexivity.
  - intros kk. destruct (key_eqb (Z.of_nat i, kind, label) kk); auto.
    unfold use_row, slot. rewrite firstn_upd, Hfp. reflexivity.
Qed.
