(* Proofs about Model/C13Convert.v *)
From Coq Require Import ZArith List Bool Lia ZifyBool.
From FT Require Import Model.Base Model.C13Convert.
Import ListNotations.
Open Scope Z_scope.

(* ------------------------------------------------------------------ mk_elems *)

(* what mk_elems stores for one list element *)
Definition elem_of (mk : nest -> option tree) (d : Z) (x : nest) : option tree :=
  match x with
  | NLeaf v => if Z.eqb v d then None else Some (Leaf v)
  | NList _ => mk x
  end.

Lemma mk_elems_cons mk d c x l :
  mk_elems mk d c (x :: l)
  = match elem_of mk d x with
    | Some t => (c, t) :: mk_elems mk d (c + 1) l
    | None => mk_elems mk d (c + 1) l
    end.
Proof.
  destruct x as [v|lx]; cbn [mk_elems elem_of].
  - destruct (Z.eqb v d); reflexivity.
  - destruct (mk (NList lx)); reflexivity.
Qed.

Lemma mk_elems_bounds mk d l : forall c a t,
  In (a, t) (mk_elems mk d c l) -> c <= a < c + Z.of_nat (length l).
Proof.
  induction l as [|x l IH]; intros c a t Hin.
  - destruct Hin.
  - rewrite mk_elems_cons in Hin. cbn [length]. rewrite Nat2Z.inj_succ.
    destruct (elem_of mk d x).
    + destruct Hin as [E|Hin].
      * inversion E; subst. lia.
      * apply IH in Hin. lia.
    + apply IH in Hin. lia.
Qed.

Lemma lookup_notin c es :
  (forall a t, In (a, t) es -> a <> c) -> lookup c es = None.
Proof.
  induction es as [|[a t] es IH]; intros H; [reflexivity|].
  cbn [lookup]. destruct (Z.eqb c a) eqn:E.
  - exfalso. apply (H a t); [left; reflexivity|lia].
  - apply IH. intros a' t' Hin. apply (H a' t'). right. exact Hin.
Qed.

Lemma mk_elems_lookup mk d l : forall c k,
  lookup (c + Z.of_nat k) (mk_elems mk d c l)
  = match nth_error l k with Some x => elem_of mk d x | None => None end.
Proof.
  induction l as [|x l IH]; intros c k.
  - destruct k; reflexivity.
  - rewrite mk_elems_cons. destruct k as [|k].
    + cbn [nth_error]. replace (c + Z.of_nat 0) with c by lia.
      destruct (elem_of mk d x) as [t|].
      * cbn [lookup]. rewrite Z.eqb_refl. reflexivity.
      * apply lookup_notin. intros a t Hin. apply mk_elems_bounds in Hin. lia.
    + cbn [nth_error]. replace (c + Z.of_nat (S k)) with ((c + 1) + Z.of_nat k) by lia.
      destruct (elem_of mk d x) as [t|].
      * cbn [lookup]. replace (Z.eqb (c + 1 + Z.of_nat k) c) with false by lia. apply IH.
      * apply IH.
Qed.

Lemma make_fiber_list d l :
  make_fiber d (NList l)
  = match mk_elems (make_fiber d) d 0 l with [] => None | es => Some (Node es) end.
Proof. reflexivity. Qed.

(* ------------------------------------------------------------------ content, pointwise *)

Lemma tree_get_absent d p : p <> [] -> tree_get d (Node []) p = Some d.
Proof. destruct p; [congruence|reflexivity]. Qed.

Definition pointwise_ok (d : Z) (n : nest) : Prop :=
  (forall t, make_fiber d n = Some t ->
             forall p v, nest_get n p = Some v -> tree_get d t p = Some v)
  /\ (make_fiber d n = None -> forall p v, nest_get n p = Some v -> p <> [] -> v = d).

Lemma make_fiber_pointwise d n : pointwise_ok d n.
Proof.
  induction n as [v|l IH] using nest_ind'.
  - split; [discriminate|]. intros _ p v' H Hp. destruct p; [congruence|discriminate].
  - assert (Hel : forall c p' v x, nth_error l (Z.to_nat c) = Some x -> 0 <= c ->
                    nest_get x p' = Some v ->
                    match lookup c (mk_elems (make_fiber d) d 0 l) with
                    | Some t' => tree_get d t' p' = Some v
                    | None => v = d
                    end).
    { intros c p' v x Hnth Hc Hget.
      pose proof (mk_elems_lookup (make_fiber d) d l 0 (Z.to_nat c)) as HL.
      replace (0 + Z.of_nat (Z.to_nat c)) with c in HL by lia.
      rewrite HL, Hnth.
      assert (Hx : pointwise_ok d x).
      { rewrite Forall_forall in IH. apply IH. eapply nth_error_In; eauto. }
      destruct x as [vx|lx]; cbn [elem_of].
      - destruct p'; [|discriminate]. cbn in Hget. inversion Hget; subst.
        destruct (Z.eqb v d) eqn:E; [lia|reflexivity].
      - destruct Hx as [Hs Hn].
        destruct (make_fiber d (NList lx)) as [t'|] eqn:E.
        + apply Hs; [reflexivity|exact Hget].
        + apply (Hn eq_refl p' v Hget). destruct p'; [discriminate|congruence]. }
    split.
    + intros t Ht p v Hget. rewrite make_fiber_list in Ht.
      destruct (mk_elems (make_fiber d) d 0 l) as [|e es] eqn:Ees; [discriminate|].
      inversion Ht; subst t. destruct p as [|c p']; [discriminate|].
      cbn [nest_get] in Hget. destruct (Z.ltb c 0) eqn:Ec; [discriminate|].
      destruct (nth_error l (Z.to_nat c)) as [x|] eqn:Enth; [|discriminate].
      cbn [tree_get]. specialize (Hel c p' v x Enth ltac:(lia) Hget).
      destruct (lookup c (e :: es)); [exact Hel|congruence].
    + intros Hnone p v Hget _. rewrite make_fiber_list in Hnone.
      destruct (mk_elems (make_fiber d) d 0 l) as [|e es] eqn:Ees; [|discriminate].
      destruct p as [|c p']; [discriminate|].
      cbn [nest_get] in Hget. destruct (Z.ltb c 0) eqn:Ec; [discriminate|].
      destruct (nth_error l (Z.to_nat c)) as [x|] eqn:Enth; [|discriminate].
      specialize (Hel c p' v x Enth ltac:(lia) Hget). cbn [lookup] in Hel. exact Hel.
Qed.

Theorem from_uncompressed_pointwise d n p v :
  nest_get n p = Some v -> p <> [] -> tree_get d (from_uncompressed d n) p = Some v.
Proof.
  intros Hget Hp. unfold from_uncompressed.
  destruct (make_fiber_pointwise d n) as [Hs Hn].
  destruct (make_fiber d n) as [t|] eqn:E.
  - apply (Hs t eq_refl p v Hget).
  - rewrite tree_get_absent by exact Hp. f_equal. symmetry. apply (Hn eq_refl p v Hget Hp).
Qed.

(* ------------------------------------------------------------------ canonical, sorted, inside *)

Definition not_nil_node (t : tree) : bool :=
  negb (match t with Node [] => true | _ => false end).

Lemma canonical_node d es :
  canonical d (Node es) = forallb (fun ct => canonical d (snd ct) && not_nil_node (snd ct)) es.
Proof. reflexivity. Qed.

Lemma mk_elems_forall (Q : tree -> Prop) mk d l :
  (forall x t, In x l -> elem_of mk d x = Some t -> Q t) ->
  forall c a t, In (a, t) (mk_elems mk d c l) -> Q t.
Proof.
  induction l as [|x l IH]; intros H c a t Hin.
  - destruct Hin.
  - rewrite mk_elems_cons in Hin.
    assert (IH' := IH (fun x' t' Hx => H x' t' (or_intror Hx))).
    destruct (elem_of mk d x) as [tx|] eqn:E.
    + destruct Hin as [Eq|Hin].
      * inversion Eq; subst. apply (H x t); [left; reflexivity|exact E].
      * apply (IH' _ _ _ Hin).
    + apply (IH' _ _ _ Hin).
Qed.

Lemma make_fiber_canonical d n t :
  make_fiber d n = Some t -> canonical d t = true /\ not_nil_node t = true.
Proof.
  revert t. induction n as [v|l IH] using nest_ind'; intros t Ht; [discriminate|].
  rewrite make_fiber_list in Ht.
  destruct (mk_elems (make_fiber d) d 0 l) as [|e es] eqn:Ees; [discriminate|].
  inversion Ht; subst t. split; [|reflexivity].
  rewrite canonical_node, forallb_forall. intros [a t'] Hin. cbn [snd].
  rewrite <- Ees in Hin.
  apply (mk_elems_forall (fun t => canonical d t && not_nil_node t = true)
                         (make_fiber d) d l) with (c := 0) (a := a); [|exact Hin].
  intros x tx Hx Hel. destruct x as [vx|lx]; cbn [elem_of] in Hel.
  - destruct (Z.eqb vx d) eqn:E; [discriminate|]. inversion Hel; subst.
    cbn [canonical not_nil_node]. rewrite E. reflexivity.
  - rewrite Forall_forall in IH. destruct (IH _ Hx tx Hel) as [H1 H2].
    rewrite H1, H2. reflexivity.
Qed.

Lemma canonical_nonempty d t :
  canonical d t = true -> not_nil_node t = true -> is_empty d t = false.
Proof.
  induction t as [v|es IH] using tree_ind'; intros Hc Hn.
  - cbn in *. destruct (Z.eqb v d); [discriminate|reflexivity].
  - destruct es as [|[a t'] es]; [discriminate|].
    rewrite canonical_node in Hc. cbn [forallb snd] in Hc.
    cbn [is_empty forallb snd]. inversion IH as [|? ? Ht' _]; subst. cbn [snd] in Ht'.
    apply andb_true_iff in Hc. destruct Hc as [Hc _]. apply andb_true_iff in Hc.
    destruct Hc as [Hc1 Hc2]. rewrite (Ht' Hc1 Hc2). reflexivity.
Qed.

Lemma from_uncompressed_canonical d n : canonical_top d (from_uncompressed d n) = true.
Proof.
  unfold from_uncompressed. destruct (make_fiber d n) as [t|] eqn:E; [|reflexivity].
  destruct (make_fiber_canonical d n t E) as [Hc _].
  destruct n as [v|l]; [discriminate|]. rewrite make_fiber_list in E.
  destruct (mk_elems (make_fiber d) d 0 l); [discriminate|]. inversion E; subst. exact Hc.
Qed.

Lemma ssorted_cons x l :
  (forall y, In y l -> x < y) -> ssorted l = true -> ssorted (x :: l) = true.
Proof.
  intros H Hs. destruct l as [|y l]; [reflexivity|].
  change (ssorted (x :: y :: l)) with (Z.ltb x y && ssorted (y :: l)).
  rewrite Hs. specialize (H y (or_introl eq_refl)). lia.
Qed.

Lemma mk_elems_sorted mk d l : forall c, ssorted (map fst (mk_elems mk d c l)) = true.
Proof.
  induction l as [|x l IH]; intros c; [reflexivity|].
  rewrite mk_elems_cons. destruct (elem_of mk d x); [|apply IH].
  cbn [map fst]. apply ssorted_cons; [|apply IH].
  intros y Hy. apply in_map_iff in Hy. destruct Hy as [[a t'] [E Hin]]. cbn in E. subst.
  apply mk_elems_bounds in Hin. lia.
Qed.

Lemma make_fiber_sorted d n t : make_fiber d n = Some t -> sorted_t t = true.
Proof.
  revert t. induction n as [v|l IH] using nest_ind'; intros t Ht; [discriminate|].
  rewrite make_fiber_list in Ht.
  destruct (mk_elems (make_fiber d) d 0 l) as [|e es] eqn:Ees; [discriminate|].
  inversion Ht; subst t. cbn [sorted_t]. rewrite <- Ees, mk_elems_sorted. cbn [andb].
  rewrite forallb_forall. intros [a t'] Hin. cbn [snd].
  apply (mk_elems_forall (fun t => sorted_t t = true) (make_fiber d) d l)
    with (c := 0) (a := a); [|exact Hin].
  intros x tx Hx Hel. destruct x as [vx|lx]; cbn [elem_of] in Hel.
  - destruct (Z.eqb vx d); [discriminate|]. inversion Hel; subst. reflexivity.
  - rewrite Forall_forall in IH. apply (IH _ Hx tx Hel).
Qed.

Lemma from_uncompressed_sorted d n : sorted_t (from_uncompressed d n) = true.
Proof.
  unfold from_uncompressed. destruct (make_fiber d n) as [t|] eqn:E; [|reflexivity].
  apply (make_fiber_sorted d n t E).
Qed.

Lemma make_fiber_in_shape d n : forall dims t,
  rect dims n = true -> make_fiber d n = Some t -> in_shape dims t = true.
Proof.
  induction n as [v|l IH] using nest_ind'; intros dims t Hr Ht; [discriminate|].
  destruct dims as [|s dims']; [discriminate|]. cbn [rect] in Hr.
  apply andb_true_iff in Hr. destruct Hr as [Hlen Hall].
  rewrite make_fiber_list in Ht.
  destruct (mk_elems (make_fiber d) d 0 l) as [|e es] eqn:Ees; [discriminate|].
  inversion Ht; subst t. cbn [in_shape]. rewrite forallb_forall. intros [a t'] Hin.
  cbn [fst snd]. rewrite <- Ees in Hin.
  pose proof (mk_elems_bounds _ _ _ _ _ _ Hin) as Hb.
  assert (Hsub : in_shape dims' t' = true).
  { apply (mk_elems_forall (fun t => in_shape dims' t = true) (make_fiber d) d l)
      with (c := 0) (a := a); [|exact Hin].
    intros x tx Hx Hel. destruct x as [vx|lx]; cbn [elem_of] in Hel.
    - destruct (Z.eqb vx d); [discriminate|]. inversion Hel; subst. reflexivity.
    - rewrite Forall_forall in IH. rewrite forallb_forall in Hall.
      apply (IH _ Hx dims' tx (Hall _ Hx) Hel). }
  rewrite Hsub. lia.
Qed.

Lemma from_uncompressed_in_shape d dims n :
  rect dims n = true -> in_shape dims (from_uncompressed d n) = true.
Proof.
  intros Hr. unfold from_uncompressed. destruct (make_fiber d n) as [t|] eqn:E.
  - apply (make_fiber_in_shape d n dims t Hr E).
  - destruct dims; reflexivity.
Qed.

(* ------------------------------------------------------------------ shapes *)

Lemma zipmax_nil_r a : zipmax a [] = a.
Proof. destruct a; reflexivity. Qed.

Lemma zipmax_same a : zipmax a a = a.
Proof. induction a as [|x a IH]; [reflexivity|]. cbn [zipmax]. rewrite IH, Z.max_id. reflexivity. Qed.

Lemma zipmax_trunc_same a : zipmax_trunc a a = a.
Proof. induction a as [|x a IH]; [reflexivity|]. cbn [zipmax_trunc]. rewrite IH, Z.max_id. reflexivity. Qed.

Lemma fold_zipmax_stable dims L : forall acc,
  (acc = [] \/ acc = dims) ->
  Forall (fun s => s = [] \/ s = dims) L ->
  fold_left zipmax L acc = [] \/ fold_left zipmax L acc = dims.
Proof.
  induction L as [|s L IH]; intros acc Hacc HL; [exact Hacc|].
  inversion HL as [|? ? Hs HL']; subst. cbn [fold_left]. apply IH; [|exact HL'].
  destruct Hacc as [->| ->]; destruct Hs as [->| ->]; cbn [zipmax];
    rewrite ?zipmax_nil_r, ?zipmax_same; auto.
Qed.

Lemma fold_zipmax_hit dims L : forall acc,
  (acc = [] \/ acc = dims) ->
  Forall (fun s => s = [] \/ s = dims) L ->
  (acc = dims \/ In dims L) ->
  fold_left zipmax L acc = dims.
Proof.
  induction L as [|s L IH]; intros acc Hacc HL Hhit.
  - destruct Hhit as [H|[]]. exact H.
  - inversion HL as [|? ? Hs HL']; subst. cbn [fold_left]. apply IH; [| exact HL' |].
    + destruct Hacc as [->| ->]; destruct Hs as [->| ->]; cbn [zipmax];
        rewrite ?zipmax_nil_r, ?zipmax_same; auto.
    + destruct Hhit as [->|[->|Hin]].
      * left. destruct Hs as [->| ->]; rewrite ?zipmax_nil_r, ?zipmax_same; reflexivity.
      * left. destruct Hacc as [->| ->]; cbn [zipmax]; rewrite ?zipmax_same; reflexivity.
      * right. exact Hin.
Qed.

Lemma stored_list d l :
  stored d (NList l) = true ->
  exists x t, In x l /\ elem_of (make_fiber d) d x = Some t.
Proof.
  unfold stored. rewrite make_fiber_list.
  destruct (mk_elems (make_fiber d) d 0 l) as [|[a t] es] eqn:Ees; [discriminate|]. intros _.
  assert (Hin : In (a, t) (mk_elems (make_fiber d) d 0 l)) by (rewrite Ees; left; reflexivity).
  clear Ees. revert Hin. generalize 0. induction l as [|x l IH]; intros c Hin; [destruct Hin|].
  rewrite mk_elems_cons in Hin. destruct (elem_of (make_fiber d) d x) as [tx|] eqn:E.
  - destruct Hin as [Eq|Hin].
    + inversion Eq; subst. exists x, t. split; [left; reflexivity|exact E].
    + destruct (IH _ Hin) as [x' [t' [H1 H2]]]. exists x', t'. split; [right; exact H1|exact H2].
  - destruct (IH _ Hin) as [x' [t' [H1 H2]]]. exists x', t'. split; [right; exact H1|exact H2].
Qed.

(* a stored nest has its full dimensions as fiber shape; any nest at least the top one *)
Lemma fiber_shape_rect d n : forall dims,
  rect dims n = true ->
  (stored d n = true -> fiber_shape d n = dims)
  /\ (fiber_shape d n = dims \/ fiber_shape d n = firstn 1 dims).
Proof.
  induction n as [v|l IH] using nest_ind'; intros dims Hr.
  - destruct dims; [|discriminate]. split; [reflexivity|left; reflexivity].
  - destruct dims as [|s dims']; [discriminate|]. cbn [rect] in Hr.
    apply andb_true_iff in Hr. destruct Hr as [Hlen Hall]. rewrite forallb_forall in Hall.
    rewrite Forall_forall in IH. cbn [fiber_shape].
    replace (Z.of_nat (length l)) with s by lia.
    set (L := map (fun x => if stored d x then fiber_shape d x else []) l).
    assert (HL : Forall (fun sh => sh = [] \/ sh = dims') L).
    { unfold L. rewrite Forall_forall. intros sh Hsh. apply in_map_iff in Hsh.
      destruct Hsh as [x [E Hx]]. destruct (stored d x) eqn:Es; [|left; congruence].
      right. rewrite <- E. apply (IH x Hx dims' (Hall x Hx)). exact Es. }
    split.
    + intros Hst. f_equal. apply fold_zipmax_hit; [left; reflexivity|exact HL|].
      destruct (stored_list d l Hst) as [x [t [Hx Hel]]].
      destruct x as [vx|lx].
      * (* leaf level: dims' = [] *)
        specialize (Hall _ Hx). destruct dims'; [|discriminate]. left. reflexivity.
      * right. unfold L. apply in_map_iff. exists (NList lx). split; [|exact Hx].
        cbn [elem_of] in Hel. unfold stored at 1. rewrite Hel.
        apply (IH _ Hx dims' (Hall _ Hx)). unfold stored. rewrite Hel. reflexivity.
    + destruct (fold_zipmax_stable dims' L [] (or_introl eq_refl) HL) as [E|E]; rewrite E.
      * right. reflexivity.
      * left. reflexivity.
Qed.

Lemma calc_shape_rect n : forall dims,
  rect dims n = true -> forallb (fun s => 0 <? s) dims = true -> calc_shape n = dims.
Proof.
  induction n as [v|l IH] using nest_ind'; intros dims Hr Hpos.
  - destruct dims; [reflexivity|discriminate].
  - destruct dims as [|s dims']; [discriminate|]. cbn [rect] in Hr.
    apply andb_true_iff in Hr. destruct Hr as [Hlen Hall]. rewrite forallb_forall in Hall.
    cbn [forallb] in Hpos. apply andb_true_iff in Hpos. destruct Hpos as [Hs Hpos'].
    rewrite Forall_forall in IH. cbn [calc_shape]. f_equal; [lia|].
    assert (Hne : l <> []) by (destruct l; [cbn [length] in Hlen; lia|discriminate]).
    clear Hlen Hs. induction l as [|x l IHl]; [congruence|].
    cbn [calc_rest].
    assert (Hx : rect dims' x = true) by (apply Hall; left; reflexivity).
    destruct x as [vx|lx].
    + destruct dims'; [reflexivity|discriminate].
    + assert (Ex : calc_shape (NList lx) = dims').
      { apply IH; [left; reflexivity|exact Hx|exact Hpos']. }
      destruct l as [|y l']; [exact Ex|].
      rewrite Ex, IHl; [apply zipmax_trunc_same| | |discriminate].
      * intros z Hz. apply IH. right. exact Hz.
      * intros z Hz. apply Hall. right. exact Hz.
Qed.

(* ------------------------------------------------------------------ uncompress o fromUncompressed *)

Lemma unc_elems_cons_ne d unc fill a t es c n :
  is_empty d t = false ->
  unc_elems d unc fill ((a, t) :: es) c (S n)
  = if Z.eqb a c then unc t :: unc_elems d unc fill es (c + 1) n
    else if Z.ltb a c then unc_elems d unc fill es c (S n)
    else fill :: unc_elems d unc fill ((a, t) :: es) (c + 1) n.
Proof. intros H. unfold unc_elems. simpl. rewrite H. reflexivity. Qed.

Definition head_gt (d c : Z) (es : fib) : Prop :=
  match es with [] => True | (a, t) :: _ => c < a /\ is_empty d t = false end.

Lemma unc_elems_skip d unc fill es c n :
  head_gt d c es ->
  unc_elems d unc fill es c (S n) = fill :: unc_elems d unc fill es (c + 1) n.
Proof.
  destruct es as [|[a t] es]; [reflexivity|]. intros [Hlt He].
  rewrite unc_elems_cons_ne by exact He.
  replace (Z.eqb a c) with false by lia. replace (Z.ltb a c) with false by lia. reflexivity.
Qed.

Lemma elem_nonempty d x t : elem_of (make_fiber d) d x = Some t -> is_empty d t = false.
Proof.
  destruct x as [v|l]; cbn [elem_of]; intros H.
  - destruct (Z.eqb v d) eqn:E; [discriminate|]. inversion H; subst. exact E.
  - destruct (make_fiber_canonical d _ _ H) as [H1 H2]. apply canonical_nonempty; assumption.
Qed.

Lemma mk_elems_head d l c c' : c' < c -> head_gt d c' (mk_elems (make_fiber d) d c l).
Proof.
  intros Hlt. destruct (mk_elems (make_fiber d) d c l) as [|[a t] es] eqn:E; [exact I|].
  assert (Hin : In (a, t) (mk_elems (make_fiber d) d c l)) by (rewrite E; left; reflexivity).
  split.
  - apply mk_elems_bounds in Hin. lia.
  - apply (mk_elems_forall (fun t => is_empty d t = false) (make_fiber d) d l) with (c := c) (a := a);
      [|exact Hin].
    intros x tx _ Hel. apply (elem_nonempty d x tx Hel).
Qed.

Lemma unc_mk_elems d unc fill l : forall c,
  (forall x, In x l -> match elem_of (make_fiber d) d x with
                       | Some t => unc t = x
                       | None => x = fill
                       end) ->
  unc_elems d unc fill (mk_elems (make_fiber d) d c l) c (length l) = l.
Proof.
  induction l as [|x l IH]; intros c H; [reflexivity|].
  rewrite mk_elems_cons. cbn [length].
  pose proof (H x (or_introl eq_refl)) as Hx.
  assert (IH' := IH (c + 1) (fun x' Hx' => H x' (or_intror Hx'))).
  destruct (elem_of (make_fiber d) d x) as [t|] eqn:E.
  - rewrite unc_elems_cons_ne by (apply (elem_nonempty d x t E)).
    rewrite Z.eqb_refl, Hx, IH'. reflexivity.
  - rewrite unc_elems_skip by (apply mk_elems_head; lia). rewrite IH', Hx. reflexivity.
Qed.

Definition rt_ok (d : Z) (x : nest) : Prop :=
  forall dims, rect dims x = true -> forallb (fun s => 0 <? s) dims = true ->
    match elem_of (make_fiber d) d x with
    | Some t => uncompress d dims t = x
    | None => x = fill_empty d dims
    end.

Lemma roundtrip_elem d x : rt_ok d x.
Proof.
  induction x as [v|l IH] using nest_ind'; intros dims Hr Hpos.
  - destruct dims; [|discriminate]. cbn [elem_of]. destruct (Z.eqb v d) eqn:E.
    + cbn [fill_empty]. f_equal. lia.
    + reflexivity.
  - destruct dims as [|s dims']; [discriminate|]. cbn [rect] in Hr.
    apply andb_true_iff in Hr. destruct Hr as [Hlen Hall]. rewrite forallb_forall in Hall.
    cbn [forallb] in Hpos. apply andb_true_iff in Hpos. destruct Hpos as [Hs Hpos'].
    rewrite Forall_forall in IH.
    assert (Hn : Z.to_nat s = length l) by lia.
    assert (Key : unc_elems d (uncompress d dims') (fill_empty d dims')
                            (mk_elems (make_fiber d) d 0 l) 0 (length l) = l).
    { apply unc_mk_elems. intros x Hx. apply (IH x Hx dims' (Hall x Hx) Hpos'). }
    cbn [elem_of]. rewrite make_fiber_list.
    destruct (mk_elems (make_fiber d) d 0 l) as [|e es] eqn:Ees.
    + cbn [fill_empty]. rewrite Hn. f_equal. symmetry. exact Key.
    + cbn [uncompress]. rewrite Hn, Key. reflexivity.
Qed.

Theorem uncompress_from_uncompressed d dims n :
  dims_ok dims = true -> rect dims n = true ->
  uncompress d dims (from_uncompressed d n) = n.
Proof.
  unfold dims_ok. intros Hd Hr. apply andb_true_iff in Hd. destruct Hd as [Hne Hpos].
  destruct n as [v|l]; [destruct dims; discriminate|].
  pose proof (roundtrip_elem d (NList l) dims Hr Hpos) as H. cbn [elem_of] in H.
  unfold from_uncompressed. destruct (make_fiber d (NList l)) as [t|]; [exact H|].
  destruct dims as [|s dims']; [discriminate|]. rewrite H. reflexivity.
Qed.

(* ------------------------------------------------------------------ dictionary form *)

Lemma all_some_map {A B} (f : A -> option B) (g : A -> B) l :
  Forall (fun x => f x = Some (g x)) l -> all_some (map f l) = Some (map g l).
Proof.
  induction 1 as [|x l Hx _ IH]; [reflexivity|]. cbn [map all_some]. rewrite Hx, IH. reflexivity.
Qed.

Lemma combine_fst_snd {A B} (l : list (A * B)) : combine (map fst l) (map snd l) = l.
Proof. induction l as [|[a b] l IH]; [reflexivity|]. cbn. rewrite IH. reflexivity. Qed.

Theorem dict_roundtrip t : dict2fiber (fiber2dict t) = Some t.
Proof.
  induction t as [v|es IH] using tree_ind'; [reflexivity|].
  cbn [fiber2dict dict2fiber]. rewrite map_map.
  rewrite (all_some_map (fun ct : Z * tree => dict2fiber (fiber2dict (snd ct))) snd es) by exact IH.
  rewrite !map_length, Nat.eqb_refl, combine_fst_snd. reflexivity.
Qed.

Definition tens_ok (T : tens) : Prop :=
  match t_root T with Leaf _ => t_ids T = [] | Node _ => True end.

Theorem yaml_roundtrip T : tens_ok T -> from_yaml (tensor2dict T) = Some T.
Proof.
  destruct T as [ids sh nm root]. unfold tens_ok, from_yaml, tensor2dict. cbn.
  rewrite dict_roundtrip. destruct root; intros H; [rewrite H|]; reflexivity.
Qed.

(* ------------------------------------------------------------------ fromRandom *)

(* one step of the loop, as an equation *)
Lemma rand_loop_S sub den interval d n c draws :
  rand_loop sub den interval d (S n) c draws
  = let (u, draws1) := pop draws in
    if Z.ltb (u mod 1000) den
    then match sub with
         | None =>
           let (r, draws2) := pop draws1 in
           let (rest, draws3) := rand_loop sub den interval d n (c + 1) draws2 in
           if Z.eqb (1 + r mod interval) d then (rest, draws3)
           else ((c, Leaf (1 + r mod interval)) :: rest, draws3)
         | Some below =>
           let (sb, draws2) := below draws1 in
           let (rest, draws3) := rand_loop sub den interval d n (c + 1) draws2 in
           if is_empty d (Node sb) then (rest, draws3) else ((c, Node sb) :: rest, draws3)
         end
    else let (rest, draws3) := rand_loop sub den interval d n (c + 1) draws1 in
         if Z.eqb d 0 then (rest, draws3) else ((c, Leaf 0) :: rest, draws3).
Proof. reflexivity. Qed.

Lemma rand_loop_inv (Q : tree -> Prop) sub den interval d :
  (forall v, Q (Leaf v)) ->
  (forall below dr, sub = Some below -> Q (Node (fst (below dr)))) ->
  forall n c draws a t,
    In (a, t) (fst (rand_loop sub den interval d n c draws)) ->
    c <= a < c + Z.of_nat n /\ Q t.
Proof.
  intros HQl HQs. induction n as [|n IH]; intros c draws a t Hin; [destruct Hin|].
  rewrite rand_loop_S in Hin. rewrite Nat2Z.inj_succ.
  destruct (pop draws) as [u draws1].
  assert (Hrest : forall dr, In (a, t) (fst (rand_loop sub den interval d n (c + 1) dr)) ->
                             c <= a < c + Z.succ (Z.of_nat n) /\ Q t).
  { intros dr H. destruct (IH _ _ _ _ H) as [H1 H2]. split; [lia|exact H2]. }
  destruct (Z.ltb (u mod 1000) den).
  - destruct sub as [below|] eqn:Esub.
    + pose proof (HQs below draws1 eq_refl) as Hsb.
      destruct (below draws1) as [sb draws2]. cbn [fst] in Hsb.
      specialize (Hrest draws2).
      destruct (rand_loop _ den interval d n (c + 1) draws2) as [rest draws3].
      cbn [fst] in Hrest. destruct (is_empty d (Node sb)); cbn [fst] in Hin.
      * apply Hrest, Hin.
      * destruct Hin as [E|Hin]; [inversion E; subst; split; [lia|exact Hsb]|apply Hrest, Hin].
    + destruct (pop draws1) as [r draws2]. specialize (Hrest draws2).
      destruct (rand_loop _ den interval d n (c + 1) draws2) as [rest draws3].
      cbn [fst] in Hrest. destruct (Z.eqb (1 + r mod interval) d); cbn [fst] in Hin.
      * apply Hrest, Hin.
      * destruct Hin as [E|Hin]; [inversion E; subst; split; [lia|apply HQl]|apply Hrest, Hin].
  - specialize (Hrest draws1).
    destruct (rand_loop _ den interval d n (c + 1) draws1) as [rest draws3].
    cbn [fst] in Hrest. destruct (Z.eqb d 0); cbn [fst] in Hin.
    + apply Hrest, Hin.
    + destruct Hin as [E|Hin]; [inversion E; subst; split; [lia|apply HQl]|apply Hrest, Hin].
Qed.

Lemma rand_loop_sorted sub den interval d : forall n c draws,
  ssorted (map fst (fst (rand_loop sub den interval d n c draws))) = true.
Proof.
  induction n as [|n IH]; intros c draws; [reflexivity|].
  assert (Hc : forall dr rest, rest = fst (rand_loop sub den interval d n (c + 1) dr) ->
                               forall t, ssorted (map fst ((c, t) :: rest)) = true).
  { intros dr rest E t. cbn [map fst]. apply ssorted_cons; [|subst; apply IH].
    intros y Hy. apply in_map_iff in Hy. destruct Hy as [[a t'] [Ey Hin]]. cbn in Ey. subst.
    apply (rand_loop_inv (fun _ => True)) in Hin; [lia|auto|auto]. }
  rewrite rand_loop_S. destruct (pop draws) as [u draws1].
  destruct (Z.ltb (u mod 1000) den).
  - destruct sub as [below|] eqn:Esub.
    + destruct (below draws1) as [sb draws2].
      pose proof (IH (c + 1) draws2) as H1. pose proof (Hc draws2 _ eq_refl) as H2.
      destruct (rand_loop _ den interval d n (c + 1) draws2) as [rest draws3].
      cbn [fst] in *. destruct (is_empty d (Node sb)); cbn [fst]; [exact H1|apply H2].
    + destruct (pop draws1) as [r draws2].
      pose proof (IH (c + 1) draws2) as H1. pose proof (Hc draws2 _ eq_refl) as H2.
      destruct (rand_loop _ den interval d n (c + 1) draws2) as [rest draws3].
      cbn [fst] in *. destruct (Z.eqb (1 + r mod interval) d); cbn [fst]; [exact H1|apply H2].
  - pose proof (IH (c + 1) draws1) as H1. pose proof (Hc draws1 _ eq_refl) as H2.
    destruct (rand_loop _ den interval d n (c + 1) draws1) as [rest draws3].
    cbn [fst] in *. destruct (Z.eqb d 0); cbn [fst]; [exact H1|apply H2].
Qed.

Theorem from_random_inside interval d : forall shape dens draws,
  in_shape shape (Node (fst (from_random shape dens interval d draws))) = true
  /\ sorted_t (Node (fst (from_random shape dens interval d draws))) = true.
Proof.
  induction shape as [|s shape' IH]; intros dens draws; [split; reflexivity|].
  cbn [from_random].
  set (sub := match shape' with [] => None | _ => Some (from_random shape' (tl dens) interval d) end).
  assert (Hinv : forall a t, In (a, t) (fst (rand_loop sub (hd 0 dens) interval d (Z.to_nat s) 0 draws)) ->
                 0 <= a < 0 + Z.of_nat (Z.to_nat s)
                 /\ (in_shape shape' t = true /\ sorted_t t = true)).
  { apply rand_loop_inv.
    - intros v. split; reflexivity.
    - intros below dr E. unfold sub in E. destruct shape'; [discriminate|]. inversion E; subst.
      apply IH. }
  split.
  - cbn [in_shape]. rewrite forallb_forall. intros [a t] Hin. cbn [fst snd].
    destruct (Hinv a t Hin) as [Hb [H1 _]]. rewrite H1. lia.
  - cbn [sorted_t]. rewrite rand_loop_sorted. cbn [andb]. rewrite forallb_forall.
    intros [a t] Hin. cbn [snd]. apply (Hinv a t Hin).
Qed.

Lemma zlist_eqb_refl l : zlist_eqb l l = true.
Proof. induction l as [|x l IH]; [reflexivity|]. cbn [zlist_eqb]. rewrite Z.eqb_refl, IH. reflexivity. Qed.

Lemma full_nonempty d t : forall shape,
  full_box d shape t = true -> forallb (fun s => 0 <? s) shape = true -> is_empty d t = false.
Proof.
  induction t as [v|es IH] using tree_ind'; intros shape Hf Hpos.
  - destruct shape; [|discriminate]. cbn in *. destruct (Z.eqb v d); [discriminate|reflexivity].
  - destruct shape as [|s shape']; [discriminate|]. cbn [full_box] in Hf.
    apply andb_true_iff in Hf. destruct Hf as [Hco Hall].
    cbn [forallb] in Hpos. apply andb_true_iff in Hpos. destruct Hpos as [Hs Hpos'].
    destruct es as [|[a t'] es].
    + exfalso. unfold iota in Hco. destruct (Z.to_nat s) eqn:E; [lia|discriminate].
    + cbn [is_empty forallb snd]. inversion IH as [|? ? Ht' _]; subst. cbn [snd] in Ht'.
      cbn [forallb snd] in Hall. apply andb_true_iff in Hall. destruct Hall as [Hf' _].
      rewrite (Ht' shape' Hf' Hpos'). reflexivity.
Qed.

Lemma rand_loop_full (R : tree -> Prop) sub den interval d :
  1000 <= den -> 1 <= interval -> ~ (1 <= d <= interval) ->
  (sub = None -> forall v, v <> d -> R (Leaf v)) ->
  (forall below dr, sub = Some below ->
                    R (Node (fst (below dr))) /\ is_empty d (Node (fst (below dr))) = false) ->
  forall n c0 draws,
    map fst (fst (rand_loop sub den interval d n (Z.of_nat c0) draws)) = map Z.of_nat (seq c0 n)
    /\ Forall (fun ct => R (snd ct)) (fst (rand_loop sub den interval d n (Z.of_nat c0) draws)).
Proof.
  intros Hden Hint Hd HRl HRs. induction n as [|n IH]; intros c0 draws; [split; [reflexivity|constructor]|].
  rewrite rand_loop_S. destruct (pop draws) as [u draws1].
  assert (Hu : Z.ltb (u mod 1000) den = true).
  { pose proof (Z.mod_pos_bound u 1000 ltac:(lia)). lia. }
  rewrite Hu. replace (Z.of_nat c0 + 1) with (Z.of_nat (S c0)) by lia.
  destruct sub as [below|] eqn:Esub.
  - destruct (HRs below draws1 eq_refl) as [HR He].
    destruct (below draws1) as [sb draws2]. cbn [fst] in HR, He.
    destruct (IH (S c0) draws2) as [H1 H2].
    destruct (rand_loop _ den interval d n (Z.of_nat (S c0)) draws2) as [rest draws3].
    cbn [fst] in H1, H2. rewrite He. cbn [fst map seq]. rewrite H1. split; [reflexivity|].
    constructor; [exact HR|exact H2].
  - destruct (pop draws1) as [r draws2].
    destruct (IH (S c0) draws2) as [H1 H2].
    destruct (rand_loop _ den interval d n (Z.of_nat (S c0)) draws2) as [rest draws3].
    cbn [fst] in H1, H2.
    pose proof (Z.mod_pos_bound r interval ltac:(lia)) as Hr.
    replace (Z.eqb (1 + r mod interval) d) with false by lia.
    cbn [fst map seq]. rewrite H1. split; [reflexivity|].
    constructor; [apply (HRl eq_refl); lia|exact H2].
Qed.

Theorem from_random_full interval d : forall shape dens draws,
  length dens = length shape ->
  forallb (fun x => 1000 <=? x) dens = true ->
  forallb (fun s => 0 <? s) shape = true ->
  shape <> [] ->
  1 <= interval -> ~ (1 <= d <= interval) ->
  full_box d shape (Node (fst (from_random shape dens interval d draws))) = true.
Proof.
  induction shape as [|s shape' IH]; intros dens draws Hlen Hdens Hpos Hne Hint Hd; [congruence|].
  destruct dens as [|den dens']; [discriminate|]. cbn [length] in Hlen.
  cbn [forallb] in Hdens, Hpos. apply andb_true_iff in Hdens. destruct Hdens as [Hden Hdens'].
  apply andb_true_iff in Hpos. destruct Hpos as [Hs Hpos'].
  cbn [from_random hd tl].
  set (sub := match shape' with [] => None | _ => Some (from_random shape' dens' interval d) end).
  destruct (rand_loop_full (fun t => full_box d shape' t = true) sub den interval d
              ltac:(lia) Hint Hd) with (n := Z.to_nat s) (c0 := O) (draws := draws) as [H1 H2].
  - intros E v Hv. unfold sub in E. destruct shape'; [|discriminate]. cbn. lia.
  - intros below dr E. unfold sub in E. destruct shape' as [|s' sh'] eqn:Esh; [discriminate|].
    inversion E; subst below.
    assert (Hf : full_box d (s' :: sh') (Node (fst (from_random (s' :: sh') dens' interval d dr))) = true).
    { apply IH; try assumption; [lia|discriminate]. }
    split; [exact Hf|]. apply (full_nonempty d _ (s' :: sh') Hf Hpos').
  - change (Z.of_nat 0) with 0 in H1, H2. cbn [full_box]. rewrite H1. unfold iota.
    rewrite zlist_eqb_refl. cbn [andb]. rewrite forallb_forall. rewrite Forall_forall in H2.
    intros ct Hin. apply (H2 ct Hin).
Qed.
