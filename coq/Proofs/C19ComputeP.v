(* Proofs about Model/C19Compute.v: merges, merge rounds and whole tensors with an integer latency
   (closed form), payload independence, and the head-insertion loop of latency "N" against the
   register-bag reference. *)
From Coq Require Import ZArith List Bool Lia PeanoNat Permutation ZifyBool.
From FT Require Import Model.Base Model.C19Compute.
Import ListNotations.
Open Scope Z_scope.

Lemma ins_z_length x l : length (ins_z x l) = S (length l).
Proof. induction l as [|y l IH]; [reflexivity|]. cbn [ins_z]. destruct (x <=? y); cbn [length]; [reflexivity|]. rewrite IH. reflexivity. Qed.

Lemma sort_z_length l : length (sort_z l) = length l.
Proof. induction l as [|x l IH]; [reflexivity|]. cbn [sort_z fold_right]. fold (sort_z l). rewrite ins_z_length, IH. reflexivity. Qed.

Lemma merge_int_charge lat group :
  fst (merge_int lat group)
  = lat * (Z.of_nat (length group) + sumZ (map (fun l => Z.of_nat (length l)) group))
  /\ length (snd (merge_int lat group)) = length (concat group).
Proof.
  unfold merge_int. cbn [fst snd]. rewrite sort_z_length. split; [|reflexivity].
  f_equal. f_equal. induction group as [|l g IH]; [reflexivity|].
  cbn [concat map sumZ fold_right]. rewrite app_length, Nat2Z.inj_add, IH. reflexivity.
Qed.

(* ---- the while loop of _numSwapsTree with an integer latency = the closed form *)
Lemma chunks_f_nil {A} fuel r : @chunks_f A fuel r [] = [].
Proof. destruct fuel; reflexivity. Qed.

Lemma chunks_f_concat {A} : forall fuel r (l : list A), (0 < r)%nat -> (length l <= fuel)%nat ->
  concat (chunks_f fuel r l) = l.
Proof.
  induction fuel as [|fuel IH]; intros r l Hr Hl.
  - destruct l; [reflexivity|cbn in Hl; lia].
  - destruct l as [|x l]; [reflexivity|].
    cbn [chunks_f concat]. rewrite IH; [apply firstn_skipn|exact Hr|].
    rewrite skipn_length. cbn [length] in *. lia.
Qed.

Lemma chunks_f_length {A} : forall fuel r (l : list A), (0 < r)%nat -> (length l <= fuel)%nat ->
  Z.of_nat (length (chunks_f fuel r l))
  = (Z.of_nat (length l) + Z.of_nat r - 1) / Z.of_nat r.
Proof.
  induction fuel as [|fuel IH]; intros r l Hr Hl.
  - destruct l; [|cbn in Hl; lia]. cbn [chunks_f length]. symmetry. apply Z.div_small. lia.
  - destruct l as [|x l].
    + cbn [chunks_f length]. symmetry. apply Z.div_small. lia.
    + change (length (chunks_f (S fuel) r (x :: l)))
        with (S (length (chunks_f fuel r (skipn r (x :: l))))).
      assert (Hn : (1 <= length (x :: l))%nat) by (cbn [length]; lia).
      set (n := length (x :: l)) in *.
      rewrite Nat2Z.inj_succ, IH; [|exact Hr|rewrite skipn_length; fold n; lia].
      rewrite skipn_length. fold n.
      destruct (Nat.le_gt_cases n r) as [Hle|Hgt].
      * replace (n - r)%nat with O by lia.
        rewrite (Z.div_small (Z.of_nat 0 + Z.of_nat r - 1)) by lia.
        apply Z.div_unique with (r := Z.of_nat n - 1); lia.
      * rewrite Nat2Z.inj_sub by lia.
        replace (Z.of_nat n + Z.of_nat r - 1) with ((Z.of_nat n - Z.of_nat r + Z.of_nat r - 1) + 1 * Z.of_nat r) by lia.
        rewrite Z.div_add by lia. lia.
Qed.

Lemma all_some_map {A B} (f : A -> B) l : all_some (map (fun x => Some (f x)) l) = Some (map f l).
Proof. induction l as [|x l IH]; [reflexivity|]. cbn [map all_some]. rewrite IH. reflexivity. Qed.

Lemma concat_length_sum (g : list (list Z)) :
  Z.of_nat (length (concat g)) = sumZ (map (fun l => Z.of_nat (length l)) g).
Proof.
  induction g as [|l g IH]; [reflexivity|].
  cbn [concat map sumZ fold_right]. rewrite app_length, Nat2Z.inj_add, IH. reflexivity.
Qed.

Lemma merged_elems lat (cs : list (list (list Z))) :
  Z.of_nat (length (concat (map snd (map (merge_int lat) cs))))
  = Z.of_nat (length (concat (concat cs))).
Proof.
  induction cs as [|g cs IH]; [reflexivity|].
  cbn [map concat]. rewrite concat_app, !app_length, !Nat2Z.inj_add, IH.
  rewrite (proj2 (merge_int_charge lat g)). reflexivity.
Qed.

Lemma merged_cost lat (cs : list (list (list Z))) :
  sumZ (map fst (map (merge_int lat) cs))
  = lat * (Z.of_nat (length (concat cs)) + Z.of_nat (length (concat (concat cs)))).
Proof.
  induction cs as [|g cs IH]; [cbn; lia|].
  cbn [map concat sumZ fold_right]. fold (sumZ (map fst (map (merge_int lat) cs))). rewrite IH.
  rewrite (proj1 (merge_int_charge lat g)), <- concat_length_sum.
  rewrite concat_app, !app_length, !Nat2Z.inj_add. lia.
Qed.

Definition radix_ok (radix : option Z) : Prop :=
  match radix with None => True | Some r => 2 <= r end.

Lemma rounds_int : forall fuel radix lat coords swaps,
  radix_ok radix -> (length coords <= fuel)%nat ->
  rounds fuel radix (Some lat) coords swaps
  = Some (swaps + lat * round_cost fuel radix (Z.of_nat (length coords))
                                   (Z.of_nat (length (concat coords)))).
Proof.
  induction fuel as [|fuel IH]; intros radix lat coords swaps Hr Hl.
  - destruct coords; [|cbn in Hl; lia]. cbn. f_equal; lia.
  - cbn [rounds round_cost].
    destruct (Nat.leb_spec (length coords) 1) as [Hle|Hgt].
    + destruct (Z.leb_spec (Z.of_nat (length coords)) 1); [|lia]. f_equal; lia.
    + destruct (Z.leb_spec (Z.of_nat (length coords)) 1); [lia|].
      set (n := Z.of_nat (length coords)) in *.
      set (r := match radix with None => n | Some r => if r >? n then n else r end).
      assert (Er : match radix with None => n | Some r0 => Z.min r0 n end = r).
      { unfold r. destruct radix as [r0|]; [|reflexivity]. destruct (Z.gtb_spec r0 n); lia. }
      rewrite Er.
      assert (Hr2 : 2 <= r <= n).
      { unfold r. destruct radix as [r0|]; cbn [radix_ok] in Hr; [destruct (Z.gtb_spec r0 n)|]; lia. }
      destruct (Z.ltb_spec r 2); [lia|].
      unfold merge_group.
      rewrite (all_some_map (merge_int lat)).
      unfold chunks.
      assert (Hrn : (0 < Z.to_nat r)%nat) by lia.
      pose proof (chunks_f_concat (length coords) (Z.to_nat r) coords Hrn (le_n _)) as Hc.
      pose proof (chunks_f_length (length coords) (Z.to_nat r) coords Hrn (le_n _)) as Hlen.
      rewrite Z2Nat.id in Hlen by lia. fold n in Hlen.
      set (cs := chunks_f (length coords) (Z.to_nat r) coords) in *.
      assert (Hdiv : (n + r - 1) / r <= n - 1).
      { assert ((n + r - 1) / r < n) by (apply Z.div_lt_upper_bound; nia). lia. }
      rewrite IH.
      * rewrite !map_length, merged_elems, merged_cost, Hc, Hlen. fold n. f_equal; lia.
      * exact (proj1 Hr2).
      * rewrite !map_length. lia.
Qed.

(* ---------------------------------------------------------------- whole tensors *)
Lemma all_some_map_in {A B} (f : A -> option B) (g : A -> B) l :
  (forall x, In x l -> f x = Some (g x)) -> all_some (map f l) = Some (map g l).
Proof.
  induction l as [|x l IH]; intros H; [reflexivity|].
  cbn [map all_some]. rewrite (H x (or_introl eq_refl)), IH; [reflexivity|].
  intros y Hy. apply H. right. exact Hy.
Qed.

Lemma present_in d es ct : In ct (present d es) -> In ct es.
Proof. unfold present. intros H. apply filter_In in H. tauto. Qed.

Definition kid_coords (ct : Z * tree) : list Z :=
  match snd ct with Node es' => map fst es' | Leaf _ => [] end.

Lemma leaf_lists_map l :
  Forall (fun ct : Z * tree => exists es', snd ct = Node es') l ->
  flat_map (fun ct => match snd ct with Node es' => [map fst es'] | Leaf _ => [] end) l
  = map kid_coords l.
Proof.
  induction 1 as [|ct l [es' He] _ IH]; [reflexivity|].
  cbn [flat_map map]. rewrite IH. unfold kid_coords at 2. rewrite He. reflexivity.
Qed.

Lemma depth1_node t n : depth_ok (S n) t = true -> exists es', t = Node es'.
Proof. destruct t as [v|es']; [discriminate|]. eexists; reflexivity. Qed.

Lemma concat_sorted_length (cs : list (list Z)) :
  length (concat (map (fun l => sort_z (map Z.opp l)) cs)) = length (concat cs).
Proof.
  induction cs as [|l cs IH]; [reflexivity|].
  cbn [map concat]. rewrite !app_length, IH, sort_z_length, map_length. reflexivity.
Qed.

Lemma swaps_tree_int : forall depth radix lat t,
  radix_ok radix -> depth_ok (depth + 2) t = true ->
  swaps_tree depth radix (Some lat) t = Some (swaps_spec_int depth radix lat t).
Proof.
  induction depth as [|d IH]; intros radix lat [v|es] Hr Hd; try discriminate.
  - cbn [swaps_tree swaps_spec_int]. cbn [Nat.add depth_ok] in Hd.
    rewrite forallb_forall in Hd.
    assert (Hk : Forall (fun ct : Z * tree => exists es', snd ct = Node es') (present 0 es)).
    { rewrite Forall_forall. intros ct Hin. apply (depth1_node _ 0). apply Hd.
      exact (present_in _ _ _ Hin). }
    rewrite (all_some_map_in (fun ct => coords_of (snd ct)) kid_coords).
    + unfold leaf_lists. rewrite (leaf_lists_map _ Hk).
      rewrite rounds_int; [|exact Hr|apply le_n].
      rewrite !map_length, concat_sorted_length. f_equal; lia.
    + intros ct Hin. rewrite Forall_forall in Hk. destruct (Hk ct Hin) as [es' He].
      unfold kid_coords. rewrite He. reflexivity.
  - cbn [swaps_tree swaps_spec_int]. cbn [Nat.add depth_ok] in Hd.
    rewrite forallb_forall in Hd.
    rewrite (all_some_map_in (fun ct => swaps_tree d radix (Some lat) (snd ct))
                             (fun ct => swaps_spec_int d radix lat (snd ct))).
    + reflexivity.
    + intros ct Hin. apply IH; [exact Hr|]. apply Hd. exact (present_in _ _ _ Hin).
Qed.

(* ---- payload independence *)
Definition shape_rel (ct cu : Z * tree) : Prop :=
  fst ct = fst cu /\ same_shape (snd ct) (snd cu) = true.

Lemma same_shape_node es fs : same_shape (Node es) (Node fs) = true -> Forall2 shape_rel es fs.
Proof.
  revert fs. induction es as [|[c t'] es IH]; intros [|[c' u'] fs] H; cbn in H; try discriminate.
  - constructor.
  - apply andb_true_iff in H. destruct H as [H H3]. apply andb_true_iff in H. destruct H as [H1 H2].
    constructor; [split; [apply Z.eqb_eq; exact H1|exact H2]|]. apply IH. exact H3.
Qed.

Lemma same_shape_empty : forall t u, same_shape t u = true -> is_empty 0 t = is_empty 0 u.
Proof.
  induction t as [v|es IHes] using tree_ind'; intros [w|fs] H; try discriminate.
  - cbn in *. destruct (v =? 0), (w =? 0); try reflexivity; discriminate.
  - apply same_shape_node in H. cbn [is_empty].
    induction H as [|ct cu es fs [_ Hs] _ IH2]; [reflexivity|].
    inversion IHes as [|? ? Hct Hes]; subst. cbn [forallb].
    rewrite (Hct _ Hs), (IH2 Hes). reflexivity.
Qed.

Lemma present_rel es fs : Forall2 shape_rel es fs -> Forall2 shape_rel (present 0 es) (present 0 fs).
Proof.
  induction 1 as [|ct cu es fs [Hc Hs] _ IH]; [constructor|].
  unfold present in *. cbn [filter]. rewrite (same_shape_empty _ _ Hs).
  destruct (negb (is_empty 0 (snd cu))); [constructor; [split; assumption|exact IH]|exact IH].
Qed.

Lemma map_rel {B} (f : Z * tree -> B) l l' :
  Forall2 shape_rel l l' -> (forall ct cu, shape_rel ct cu -> f ct = f cu) -> map f l = map f l'.
Proof.
  intros H Hf. induction H as [|ct cu l l' Hr _ IH]; [reflexivity|].
  cbn [map]. rewrite (Hf _ _ Hr), IH. reflexivity.
Qed.

Lemma coords_rel ct cu : shape_rel ct cu -> coords_of (snd ct) = coords_of (snd cu).
Proof.
  intros [_ Hs]. destruct (snd ct) as [v|es], (snd cu) as [w|fs]; try discriminate; [reflexivity|].
  apply same_shape_node in Hs. cbn [coords_of]. f_equal.
  induction Hs as [|x y es fs [Hc _] _ IH]; [reflexivity|]. cbn [map]. rewrite Hc, IH. reflexivity.
Qed.

Lemma swaps_tree_values : forall depth radix lat t u,
  same_shape t u = true -> swaps_tree depth radix lat t = swaps_tree depth radix lat u.
Proof.
  induction depth as [|d IH]; intros radix lat [v|es] [w|fs] H; try discriminate; try reflexivity.
  - pose proof (present_rel _ _ (same_shape_node _ _ H)) as Hp. cbn [swaps_tree].
    rewrite (map_rel (fun ct => coords_of (snd ct)) _ _ Hp coords_rel). reflexivity.
  - pose proof (present_rel _ _ (same_shape_node _ _ H)) as Hp. cbn [swaps_tree].
    rewrite (map_rel (fun ct => swaps_tree d radix lat (snd ct)) _ _ Hp
               (fun ct cu Hr => IH radix lat _ _ (proj2 Hr))). reflexivity.
Qed.

(* ---------------------------------------------------------------- latency "N" *)
(* ---- the order on (value, index) tuples *)
Lemma tup_leb_refl p : tup_leb p p = true.
Proof. unfold tup_leb. destruct p as [a b]. cbn [fst snd]. lia. Qed.

Lemma tup_leb_total p q : tup_leb p q = false -> tup_leb q p = true.
Proof. unfold tup_leb. destruct p as [a b], q as [c d]. cbn [fst snd]. lia. Qed.

Lemma tup_leb_trans p q r : tup_leb p q = true -> tup_leb q r = true -> tup_leb p r = true.
Proof. unfold tup_leb. destruct p as [a b], q as [c d], r as [e f]. cbn [fst snd]. lia. Qed.

Lemma tup_leb_antisym p q : tup_leb p q = true -> tup_leb q p = true -> p = q.
Proof.
  unfold tup_leb. destruct p as [a b], q as [c d]. cbn [fst snd]. intros H1 H2.
  assert (a = c /\ b = d) as [-> ->] by lia. reflexivity.
Qed.

Lemma tup_eqb_eq p q : tup_eqb p q = true <-> p = q.
Proof.
  unfold tup_eqb. destruct p as [a b], q as [c d]. cbn [fst snd]. split.
  - intros H. assert (a = c /\ b = d) as [-> ->] by lia. reflexivity.
  - intros H. inversion H. subst. lia.
Qed.

(* ---- sorted register, insertion *)
Fixpoint sortedT (l : list tup) : Prop :=
  match l with
  | [] => True
  | h :: t => Forall (fun z => tup_leb h z = true) t /\ sortedT t
  end.

Fixpoint ins_tup (e : tup) (l : list tup) : list tup :=
  match l with
  | [] => [e]
  | h :: t => if tup_leb h e then h :: ins_tup e t else e :: h :: t
  end.

Lemma insert_bisect e l : insert_at (bisect_right l e) e l = ins_tup e l.
Proof.
  induction l as [|h t IH]; [reflexivity|].
  cbn [bisect_right ins_tup]. destruct (tup_leb h e); [|reflexivity].
  unfold insert_at in *. cbn [firstn skipn app]. rewrite IH. reflexivity.
Qed.

Lemma Forall_ins (Q : tup -> Prop) e l : Q e -> Forall Q l -> Forall Q (ins_tup e l).
Proof.
  intros He Hl. induction l as [|h t IH]; cbn [ins_tup]; [constructor; [exact He|constructor]|].
  inversion Hl as [|? ? Hh Ht]; subst.
  destruct (tup_leb h e); constructor; auto.
Qed.

Lemma ins_sorted e l : sortedT l -> sortedT (ins_tup e l).
Proof.
  induction l as [|h t IH]; intros Hs; cbn [ins_tup]; [cbn; auto|].
  destruct Hs as [Hall Hs]. destruct (tup_leb h e) eqn:E.
  - cbn [sortedT]. split; [apply Forall_ins; [exact E|exact Hall]|exact (IH Hs)].
  - cbn [sortedT]. split; [|split; [exact Hall|exact Hs]].
    pose proof (tup_leb_total _ _ E) as Eh. constructor; [exact Eh|].
    eapply Forall_impl; [|exact Hall]. intros z Hz. cbn beta in *. eapply tup_leb_trans; eassumption.
Qed.

Lemma ins_perm e l : Permutation (ins_tup e l) (e :: l).
Proof.
  induction l as [|h t IH]; cbn [ins_tup]; [apply Permutation_refl|].
  destruct (tup_leb h e); [|apply Permutation_refl].
  eapply perm_trans; [apply perm_skip, IH|apply perm_swap].
Qed.

Lemma filter_all {A} (f : A -> bool) l : Forall (fun z => f z = true) l -> filter f l = l.
Proof.
  induction 1 as [|x l Hx Hl IH]; [reflexivity|]. cbn [filter]. rewrite Hx, IH. reflexivity.
Qed.

Lemma bisect_cost e l : sortedT l ->
  Z.of_nat (length l) - Z.of_nat (bisect_right l e) = greater_count e l.
Proof.
  unfold greater_count. induction l as [|h t IH]; intros Hs; [reflexivity|].
  destruct Hs as [Hall Hs]. cbn [bisect_right filter]. unfold tup_ltb at 1.
  destruct (tup_leb h e) eqn:E; cbn [negb].
  - specialize (IH Hs). cbn [length]. lia.
  - rewrite filter_all; [cbn [length]; lia|].
    eapply Forall_impl; [|exact Hall]. intros z Hz. cbn beta in *. unfold tup_ltb.
    destruct (tup_leb z e) eqn:Ez; [|reflexivity].
    rewrite (tup_leb_trans _ _ _ Hz Ez) in E. discriminate.
Qed.

Lemma filter_perm_length {A} (f : A -> bool) l l' :
  Permutation l l' -> length (filter f l) = length (filter f l').
Proof.
  induction 1 as [|x l l' _ IH|x y l|l l' l'' _ IH1 _ IH2]; cbn [filter].
  - reflexivity.
  - destruct (f x); cbn [length]; lia.
  - destruct (f x), (f y); reflexivity.
  - lia.
Qed.

Lemma greater_count_perm e l l' : Permutation l l' -> greater_count e l = greater_count e l'.
Proof. intros H. unfold greater_count. rewrite (filter_perm_length _ _ _ H). reflexivity. Qed.

(* ---- selecting and removing the maximum *)
Lemma max_tup_spec : forall l m,
  In (max_tup m l) (m :: l) /\ tup_leb m (max_tup m l) = true
  /\ Forall (fun z => tup_leb z (max_tup m l) = true) l.
Proof.
  induction l as [|h t IH]; intros m; cbn [max_tup].
  - split; [left; reflexivity|]. split; [apply tup_leb_refl|constructor].
  - destruct (tup_leb m h) eqn:E.
    + destruct (IH h) as (I1 & I2 & I3). split; [right; exact I1|].
      split; [eapply tup_leb_trans; eassumption|]. constructor; assumption.
    + destruct (IH m) as (I1 & I2 & I3). split.
      * destruct I1 as [I1|I1]; [left; exact I1|right; right; exact I1].
      * split; [exact I2|]. constructor; [|exact I3].
        eapply tup_leb_trans; [apply tup_leb_total; exact E|exact I2].
Qed.

Lemma max_tup_is M h l : In M (h :: l) -> Forall (fun z => tup_leb z M = true) (h :: l) ->
  max_tup h l = M.
Proof.
  intros Hin Hall. destruct (max_tup_spec l h) as (I1 & I2 & I3).
  apply tup_leb_antisym.
  - rewrite Forall_forall in Hall. apply Hall. exact I1.
  - destruct Hin as [<-|Hin]; [exact I2|]. rewrite Forall_forall in I3. apply I3. exact Hin.
Qed.

Lemma remove_one_perm m l : In m l -> Permutation l (m :: remove_one m l).
Proof.
  induction l as [|h t IH]; intros Hin; [destruct Hin|].
  cbn [remove_one]. destruct (tup_eqb h m) eqn:E.
  - apply tup_eqb_eq in E. subst h. apply Permutation_refl.
  - destruct Hin as [->|Hin].
    + rewrite (proj2 (tup_eqb_eq m m) eq_refl) in E. discriminate.
    + eapply perm_trans; [apply perm_skip, (IH Hin)|apply perm_swap].
Qed.

Lemma sortedT_snoc l e : sortedT (l ++ [e]) ->
  sortedT l /\ Forall (fun z => tup_leb z e = true) (l ++ [e]).
Proof.
  induction l as [|h t IH]; intros Hs.
  - split; [exact I|]. constructor; [apply tup_leb_refl|constructor].
  - cbn [app sortedT] in Hs. destruct Hs as [Hall Hs]. destruct (IH Hs) as [I1 I2].
    apply Forall_app in Hall. destruct Hall as [Ht He].
    split; [split; assumption|].
    cbn [app]. constructor; [|exact I2]. inversion He; subst. assumption.
Qed.

(* ---- the model's head-insertion loop against the reference *)
Definition rel (a : option (list (list Z) * list tup * Z)) (b : option (list (list Z) * list tup * Z)) : Prop :=
  match a, b with
  | Some (l1, h1, c1), Some (l2, r2, c2) => l1 = l2 /\ c1 = c2 /\ sortedT h1 /\ Permutation h1 r2
  | None, None => True
  | _, _ => False
  end.

Lemma push_enter lists i head reg c : sortedT head -> Permutation head reg ->
  rel (push lists i head c) (enter lists i reg c).
Proof.
  intros Hs Hp. unfold push, enter. destruct (nth i lists []) as [|x rest]; [exact I|].
  cbn [rel]. split; [reflexivity|]. split.
  - rewrite <- (greater_count_perm _ _ _ Hp), <- (bisect_cost _ _ Hs). lia.
  - rewrite insert_bisect. split; [apply ins_sorted, Hs|].
    eapply perm_trans; [apply ins_perm|apply perm_skip, Hp].
Qed.

Lemma fill_enter_all : forall n i lists head reg c, sortedT head -> Permutation head reg ->
  rel (fill n i lists head c) (enter_all n i lists reg c).
Proof.
  induction n as [|n IH]; intros i lists head reg c Hs Hp.
  - cbn [fill enter_all rel]. repeat split; assumption.
  - cbn [fill enter_all]. pose proof (push_enter lists i head reg c Hs Hp) as R.
    destruct (push lists i head c) as [[[l1 h1] c1]|], (enter lists i reg c) as [[[l2 r2] c2]|];
      cbn [rel] in R; try contradiction; [|exact I].
    destruct R as (-> & -> & Hs1 & Hp1). apply IH; assumption.
Qed.

Lemma drain_leave : forall fuel lists head reg c out, sortedT head -> Permutation head reg ->
  drain fuel lists head c out = leave_all fuel lists reg c out.
Proof.
  induction fuel as [|fuel IH]; intros lists head reg c out Hs Hp; [reflexivity|].
  cbn [drain leave_all].
  destruct (rev head) as [|e rhead] eqn:Er.
  - assert (head = []) as -> by (rewrite <- (rev_involutive head), Er; reflexivity).
    apply Permutation_nil in Hp. subst reg. reflexivity.
  - assert (Eh : head = rev rhead ++ [e]) by (rewrite <- (rev_involutive head), Er; reflexivity).
    subst head. destruct (sortedT_snoc _ _ Hs) as [Hs' Hle].
    destruct reg as [|h reg0].
    { apply Permutation_sym, Permutation_nil in Hp. destruct (rev rhead); discriminate. }
    assert (Hin : In e (h :: reg0)).
    { eapply Permutation_in; [exact Hp|]. apply in_or_app. right. left. reflexivity. }
    assert (Hall : Forall (fun z => tup_leb z e = true) (h :: reg0)).
    { eapply Permutation_Forall; [exact Hp|exact Hle]. }
    rewrite (max_tup_is e h reg0 Hin Hall).
    assert (Hp' : Permutation (rev rhead) (remove_one e (h :: reg0))).
    { apply (Permutation_cons_inv (a := e)).
      eapply perm_trans; [apply Permutation_cons_append|].
      eapply perm_trans; [exact Hp|]. apply remove_one_perm. exact Hin. }
    destruct (nth (Z.to_nat (snd e)) lists []) as [|x rest] eqn:En.
    + apply IH; assumption.
    + pose proof (push_enter lists (Z.to_nat (snd e)) (rev rhead) (remove_one e (h :: reg0)) c Hs' Hp') as R.
      destruct (push lists (Z.to_nat (snd e)) (rev rhead) c) as [[[l1 h1] c1]|],
               (enter lists (Z.to_nat (snd e)) (remove_one e (h :: reg0)) c) as [[[l2 r2] c2]|];
        cbn [rel] in R; try contradiction; [|reflexivity].
      destruct R as (-> & -> & Hs1 & Hp1). apply IH; assumption.
Qed.

Lemma merge_N_ref_eq group : merge_N group = merge_N_ref group.
Proof.
  unfold merge_N, merge_N_ref.
  pose proof (fill_enter_all (length group) O (map (@rev Z) group) [] [] 0 I (Permutation_refl _)) as R.
  destruct (fill (length group) 0 (map (@rev Z) group) [] 0) as [[[l1 h1] c1]|],
           (enter_all (length group) 0 (map (@rev Z) group) [] 0) as [[[l2 r2] c2]|];
    cbn [rel] in R; try contradiction; [|reflexivity].
  destruct R as (-> & -> & Hs1 & Hp1). rewrite (drain_leave _ _ _ _ _ _ Hs1 Hp1). reflexivity.
Qed.

Lemma rounds_ref_eq : forall fuel radix coords swaps,
  rounds fuel radix None coords swaps = rounds_ref fuel radix coords swaps.
Proof.
  induction fuel as [|fuel IH]; intros radix coords swaps; cbn [rounds rounds_ref].
  - reflexivity.
  - destruct (Nat.leb (length coords) 1); [reflexivity|].
    set (n := Z.of_nat (length coords)).
    assert (Er : match radix with None => n | Some r => if r >? n then n else r end
                 = match radix with None => n | Some r => Z.min r n end).
    { destruct radix as [r|]; [|reflexivity]. destruct (Z.gtb_spec r n); lia. }
    rewrite Er. destruct (Z.ltb _ 2); [reflexivity|].
    unfold merge_group. rewrite (map_ext merge_N merge_N_ref merge_N_ref_eq).
    destruct (all_some _) as [res|]; [apply IH|reflexivity].
Qed.

Lemma swaps_ref_N_eq : forall depth radix t,
  swaps_tree depth radix None t = swaps_ref_N depth radix t.
Proof.
  induction depth as [|d IH]; intros radix [v|es]; cbn [swaps_tree swaps_ref_N]; try reflexivity.
  - destruct (all_some _) as [cs|]; [apply rounds_ref_eq|reflexivity].
  - rewrite (map_ext (fun ct => swaps_tree d radix None (snd ct))
                     (fun ct => swaps_ref_N d radix (snd ct)) (fun ct => IH radix (snd ct))).
    reflexivity.
Qed.

(* ---------------------------------------------------------------- the reference is total *)
Definition nonempty (l : list Z) : Prop := l <> [].

Lemma nth_split_eq {A} (d : A) : forall (l : list A) i, (i < length l)%nat ->
  l = firstn i l ++ nth i l d :: skipn (S i) l.
Proof.
  induction l as [|x l IH]; intros i Hi; [cbn in Hi; lia|].
  destruct i as [|i]; [reflexivity|]. cbn [firstn nth skipn app]. f_equal. apply IH. cbn in Hi. lia.
Qed.

Lemma nth_nonnil_lt (lists : list (list Z)) i : nth i lists [] <> [] -> (i < length lists)%nat.
Proof.
  intros H. destruct (Nat.lt_ge_cases i (length lists)) as [Hl|Hl]; [exact Hl|].
  rewrite nth_overflow in H by exact Hl. contradiction.
Qed.

Lemma upd_total (lists : list (list Z)) i x rest : nth i lists [] = x :: rest ->
  S (length (concat (firstn i lists ++ rest :: skipn (S i) lists))) = length (concat lists).
Proof.
  intros Hn. assert (Hi : (i < length lists)%nat) by (apply nth_nonnil_lt; rewrite Hn; discriminate).
  rewrite (nth_split_eq [] lists i Hi) at 3. rewrite Hn.
  rewrite !concat_app. cbn [concat]. rewrite !app_length. cbn [length]. lia.
Qed.

Lemma upd_other (lists : list (list Z)) i rest k : k <> i -> (i < length lists)%nat ->
  nth k (firstn i lists ++ rest :: skipn (S i) lists) [] = nth k lists [].
Proof.
  intros Hk Hi. rewrite (nth_split_eq [] lists i Hi) at 3.
  assert (Hf : length (firstn i lists) = i) by (rewrite firstn_length; lia).
  destruct (Nat.lt_ge_cases k i) as [Hlt|Hge].
  - rewrite !app_nth1 by lia. reflexivity.
  - rewrite !app_nth2 by lia. rewrite Hf. destruct (k - i)%nat as [|q] eqn:E; [lia|]. reflexivity.
Qed.

Lemma enter_some lists i reg c x rest : nth i lists [] = x :: rest ->
  enter lists i reg c
  = Some (firstn i lists ++ rest :: skipn (S i) lists, (x, Z.of_nat i) :: reg,
          c + (1 + greater_count (x, Z.of_nat i) reg)).
Proof. intros H. unfold enter. rewrite H. reflexivity. Qed.

Lemma enter_all_total : forall n i lists reg c,
  (forall k, (i <= k < i + n)%nat -> nth k lists [] <> []) ->
  exists lists' reg' c', enter_all n i lists reg c = Some (lists', reg', c')
    /\ length reg' = (length reg + n)%nat
    /\ (length (concat lists') + n)%nat = length (concat lists).
Proof.
  induction n as [|n IH]; intros i lists reg c H.
  - exists lists, reg, c. cbn [enter_all]. repeat split; lia.
  - cbn [enter_all]. destruct (nth i lists []) as [|x rest] eqn:En.
    { exfalso. apply (H i); [lia|exact En]. }
    rewrite (enter_some _ _ _ _ _ _ En).
    assert (Hi : (i < length lists)%nat) by (apply nth_nonnil_lt; rewrite En; discriminate).
    destruct (IH (S i) (firstn i lists ++ rest :: skipn (S i) lists) ((x, Z.of_nat i) :: reg)
                 (c + (1 + greater_count (x, Z.of_nat i) reg))) as (l' & r' & c' & E & Hr & Hl).
    { intros k Hk. rewrite upd_other by lia. apply H. lia. }
    exists l', r', c'. split; [exact E|]. cbn [length] in Hr.
    pose proof (upd_total _ _ _ _ En). split; lia.
Qed.

Lemma remove_one_len m l : In m l -> S (length (remove_one m l)) = length l.
Proof.
  induction l as [|h t IH]; intros Hin; [destruct Hin|].
  cbn [remove_one]. destruct (tup_eqb h m) eqn:E; [reflexivity|].
  destruct Hin as [->|Hin]; [rewrite (proj2 (tup_eqb_eq m m) eq_refl) in E; discriminate|].
  cbn [length]. rewrite (IH Hin). reflexivity.
Qed.

Lemma leave_all_total : forall fuel lists reg c out,
  (length reg + length (concat lists) < fuel)%nat ->
  exists c' out', leave_all fuel lists reg c out = Some (c', out')
    /\ (length out + length reg <= length out')%nat.
Proof.
  induction fuel as [|fuel IH]; intros lists reg c out Hf; [lia|].
  cbn [leave_all]. destruct reg as [|h reg0]; [exists c, out; split; [reflexivity|cbn; lia]|].
  set (m := max_tup h reg0).
  assert (Hin : In m (h :: reg0)) by (apply max_tup_spec).
  pose proof (remove_one_len m _ Hin) as Hrl.
  destruct (nth (Z.to_nat (snd m)) lists []) as [|x rest] eqn:En.
  - destruct (IH lists (remove_one m (h :: reg0)) c (out ++ [fst m])) as (c' & o' & E & Hl); [lia|].
    exists c', o'. split; [exact E|]. rewrite app_length in Hl. cbn [length] in *. lia.
  - rewrite (enter_some _ _ _ _ _ _ En). pose proof (upd_total _ _ _ _ En) as Hu.
    destruct (IH (firstn (Z.to_nat (snd m)) lists ++ rest :: skipn (S (Z.to_nat (snd m))) lists)
                 ((x, Z.of_nat (Z.to_nat (snd m))) :: remove_one m (h :: reg0))
                 (c + (1 + greater_count (x, Z.of_nat (Z.to_nat (snd m))) (remove_one m (h :: reg0))))
                 (out ++ [fst m])) as (c' & o' & E & Hl); [cbn [length] in *; lia|].
    exists c', o'. split; [exact E|]. rewrite app_length in Hl. cbn [length] in *. lia.
Qed.

Lemma concat_rev_length (g : list (list Z)) : length (concat (map (@rev Z) g)) = length (concat g).
Proof.
  induction g as [|l g IH]; [reflexivity|]. cbn [map concat]. rewrite !app_length, rev_length, IH. reflexivity.
Qed.

Lemma merge_N_ref_total group : Forall nonempty group ->
  exists c out, merge_N_ref group = Some (c, out) /\ (group <> [] -> nonempty out).
Proof.
  intros Hne. unfold merge_N_ref.
  destruct (enter_all_total (length group) O (map (@rev Z) group) [] 0) as (l' & r' & c' & E & Hr & Hl).
  { intros k Hk. change (@nil Z) with (rev (@nil Z)). rewrite map_nth. intros Hrev.
    rewrite Forall_forall in Hne. apply (Hne (nth k group [])); [apply nth_In; lia|].
    apply (f_equal (@rev Z)) in Hrev. rewrite rev_involutive in Hrev. exact Hrev. }
  rewrite E. rewrite concat_rev_length in Hl. cbn [length] in Hr.
  destruct (leave_all_total (S (length (concat group))) l' r' c' []) as (c2 & o2 & E2 & Hlen); [lia|].
  rewrite E2. exists c2, (sort_z o2). split; [reflexivity|].
  intros Hg. unfold nonempty. intros Hs. apply (f_equal (@length Z)) in Hs.
  rewrite sort_z_length in Hs. cbn [length] in Hs, Hlen. destruct group; [contradiction|cbn [length] in Hr; lia].
Qed.

Lemma chunks_f_props {A} (Q : A -> Prop) : forall fuel r (l : list A), (0 < r)%nat -> Forall Q l ->
  Forall (fun g => g <> [] /\ Forall Q g) (chunks_f fuel r l).
Proof.
  induction fuel as [|fuel IH]; intros r l Hr Hl; [constructor|].
  destruct l as [|x l]; [constructor|]. cbn [chunks_f]. constructor.
  - split; [destruct r; [lia|discriminate]|].
    rewrite <- (firstn_skipn r (x :: l)) in Hl. apply Forall_app in Hl. tauto.
  - apply IH; [exact Hr|]. rewrite <- (firstn_skipn r (x :: l)) in Hl. apply Forall_app in Hl. tauto.
Qed.

Lemma all_merge_total cs : Forall (fun g => g <> [] /\ Forall nonempty g) cs ->
  exists res, all_some (map merge_N_ref cs) = Some res /\ length res = length cs
              /\ Forall nonempty (map snd res).
Proof.
  induction 1 as [|g cs [Hg Hne] _ (res & E & Hl & Hn)]; [exists []; repeat split; constructor|].
  destruct (merge_N_ref_total g Hne) as (c & out & Em & Ho).
  exists ((c, out) :: res). cbn [map all_some]. rewrite Em, E. split; [reflexivity|].
  split; [cbn [length]; lia|]. cbn [map snd]. constructor; [exact (Ho Hg)|exact Hn].
Qed.

Lemma rounds_ref_total : forall fuel radix coords cost,
  radix_ok radix -> Forall nonempty coords -> (length coords <= fuel)%nat ->
  exists v, rounds_ref fuel radix coords cost = Some v.
Proof.
  induction fuel as [|fuel IH]; intros radix coords cost Hr Hne Hl.
  - destruct coords; [|cbn in Hl; lia]. exists cost. reflexivity.
  - cbn [rounds_ref]. destruct (Nat.leb_spec (length coords) 1) as [Hle|Hgt]; [exists cost; reflexivity|].
    set (n := Z.of_nat (length coords)).
    set (r := match radix with None => n | Some r => Z.min r n end).
    assert (Hr2 : 2 <= r <= n).
    { unfold r. destruct radix as [r0|]; cbn [radix_ok] in Hr; lia. }
    destruct (Z.ltb_spec r 2); [lia|].
    assert (Hrn : (0 < Z.to_nat r)%nat) by lia.
    unfold chunks.
    pose proof (chunks_f_length (length coords) (Z.to_nat r) coords Hrn (le_n _)) as Hlen.
    rewrite Z2Nat.id in Hlen by lia. fold n in Hlen.
    destruct (all_merge_total _ (chunks_f_props nonempty (length coords) (Z.to_nat r) coords Hrn Hne))
      as (res & E & Hrl & Hrn2).
    rewrite E. apply IH; [exact (proj1 Hr2)|exact Hrn2|].
    rewrite map_length, Hrl.
    assert ((n + r - 1) / r < n) by (apply Z.div_lt_upper_bound; nia). lia.
Qed.

Lemma all_some_exists {A B} (f : A -> option B) l :
  (forall x, In x l -> exists v, f x = Some v) -> exists vs, all_some (map f l) = Some vs.
Proof.
  induction l as [|x l IH]; intros H; [exists []; reflexivity|].
  destruct (H x (or_introl eq_refl)) as [v Ev]. destruct IH as [vs Evs]; [intros y Hy; apply H; right; exact Hy|].
  exists (v :: vs). cbn [map all_some]. rewrite Ev, Evs. reflexivity.
Qed.

Lemma swaps_ref_N_total : forall depth radix t,
  radix_ok radix -> depth_ok (depth + 2) t = true -> exists v, swaps_ref_N depth radix t = Some v.
Proof.
  induction depth as [|d IH]; intros radix [v|es] Hr Hd; try discriminate.
  - cbn [swaps_ref_N]. cbn [Nat.add depth_ok] in Hd. rewrite forallb_forall in Hd.
    assert (Hk : forall ct, In ct (present 0 es) ->
              coords_of (snd ct) = Some (kid_coords ct) /\ nonempty (kid_coords ct)).
    { intros ct Hin. pose proof (present_in _ _ _ Hin) as Hin'.
      destruct (depth1_node _ 0 (Hd ct Hin')) as [es' He].
      unfold kid_coords. rewrite He. split; [reflexivity|].
      unfold present in Hin. apply filter_In in Hin. destruct Hin as [_ Hne]. rewrite He in Hne.
      destruct es'; [discriminate|]. discriminate. }
    rewrite (all_some_map_in (fun ct => coords_of (snd ct)) kid_coords) by (intros ct Hin; apply Hk, Hin).
    apply rounds_ref_total; [exact Hr| |apply le_n].
    rewrite Forall_forall. intros l Hl. apply in_map_iff in Hl. destruct Hl as (l0 & <- & Hl0).
    apply in_map_iff in Hl0. destruct Hl0 as (ct & <- & Hct). destruct (Hk ct Hct) as [_ Hne].
    unfold nonempty in *. intros Hs. apply (f_equal (@length Z)) in Hs.
    rewrite sort_z_length, map_length in Hs. destruct (kid_coords ct); [contradiction|discriminate].
  - cbn [swaps_ref_N]. cbn [Nat.add depth_ok] in Hd. rewrite forallb_forall in Hd.
    destruct (all_some_exists (fun ct => swaps_ref_N d radix (snd ct)) (present 0 es)) as [vs E].
    + intros ct Hin. apply IH; [exact Hr|]. apply Hd. exact (present_in _ _ _ Hin).
    + rewrite E. eexists. reflexivity.
Qed.
