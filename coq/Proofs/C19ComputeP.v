(* Proofs about Model/C19Compute.v: merges and merge rounds with an integer latency. *)
From Coq Require Import ZArith List Bool Lia PeanoNat.
From FT Require Import Model.Base Model.C19Compute.
Import ListNotations.
Open Scope Z_scope.

Lemma ins_z_length x l : length (ins_z x l) = S (length l).
Proof. induction l as [|y l IH]; [reflexivity|]. cbn [ins_z]. destruct (x <=? y); cbn [length]; [reflexivity|]. rewrite IH. reflexivity. Qed.

Lemma sort_z_length l : length (sort_z l) = length l.
Proof. induction l as [|x l IH]; [reflexivity|]. cbn [sort_z fold_right]. fold (sort_z l). rewrite ins_z_length, IH. reflexivity. Qed.

Lemma merge_int_charge lat group :
  fst (merge_int lat group)
  = lat * (Z.of_nat (length group) + sumZ (map (fun l => Z.of_nat (length l)) group))
  /\ length (snd (merge_int lat group)) = length (concat group).
Proof.
  unfold merge_int. cbn [fst snd]. rewrite sort_z_length. split; [|reflexivity].
  f_equal. f_equal. induction group as [|l g IH]; [reflexivity|].
  cbn [concat map sumZ fold_right]. rewrite app_length, Nat2Z.inj_add, IH. reflexivity.
Qed.

(* ---- the while loop of _numSwapsTree with an integer latency = the closed form *)
Lemma chunks_f_nil {A} fuel r : @chunks_f A fuel r [] = [].
Proof. destruct fuel; reflexivity. Qed.

Lemma chunks_f_concat {A} : forall fuel r (l : list A), (0 < r)%nat -> (length l <= fuel)%nat ->
  concat (chunks_f fuel r l) = l.
Proof.
  induction fuel as [|fuel IH]; intros r l Hr Hl.
  - destruct l; [reflexivity|cbn in Hl; lia].
  - destruct l as [|x l]; [reflexivity|].
    cbn [chunks_f concat]. rewrite IH; [apply firstn_skipn|exact Hr|].
    rewrite skipn_length. cbn [length] in *. lia.
Qed.

Lemma chunks_f_length {A} : forall fuel r (l : list A), (0 < r)%nat -> (length l <= fuel)%nat ->
  Z.of_nat (length (chunks_f fuel r l))
  = (Z.of_nat (length l) + Z.of_nat r - 1) / Z.of_nat r.
Proof.
  induction fuel as [|fuel IH]; intros r l Hr Hl.
  - destruct l; [|cbn in Hl; lia]. cbn [chunks_f length]. symmetry. apply Z.div_small. lia.
  - destruct l as [|x l].
    + cbn [chunks_f length]. symmetry. apply Z.div_small. lia.
    + change (length (chunks_f (S fuel) r (x :: l)))
        with (S (length (chunks_f fuel r (skipn r (x :: l))))).
      assert (Hn : (1 <= length (x :: l))%nat) by (cbn [length]; lia).
      set (n := length (x :: l)) in *.
      rewrite Nat2Z.inj_succ, IH; [|exact Hr|rewrite skipn_length; fold n; lia].
      rewrite skipn_length. fold n.
      destruct (Nat.le_gt_cases n r) as [Hle|Hgt].
      * replace (n - r)%nat with O by lia.
        rewrite (Z.div_small (Z.of_nat 0 + Z.of_nat r - 1)) by lia.
        apply Z.div_unique with (r := Z.of_nat n - 1); lia.
      * rewrite Nat2Z.inj_sub by lia.
        replace (Z.of_nat n + Z.of_nat r - 1) with ((Z.of_nat n - Z.of_nat r + Z.of_nat r - 1) + 1 * Z.of_nat r) by lia.
        rewrite Z.div_add by lia. lia.
Qed.

Lemma all_some_map {A B} (f : A -> B) l : all_some (map (fun x => Some (f x)) l) = Some (map f l).
Proof. induction l as [|x l IH]; [reflexivity|]. cbn [map all_some]. rewrite IH. reflexivity. Qed.

Lemma concat_length_sum (g : list (list Z)) :
  Z.of_nat (length (concat g)) = sumZ (map (fun l => Z.of_nat (length l)) g).
Proof.
  induction g as [|l g IH]; [reflexivity|].
  cbn [concat map sumZ fold_right]. rewrite app_length, Nat2Z.inj_add, IH. reflexivity.
Qed.

Lemma merged_elems lat (cs : list (list (list Z))) :
  Z.of_nat (length (concat (map snd (map (merge_int lat) cs))))
  = Z.of_nat (length (concat (concat cs))).
Proof.
  induction cs as [|g cs IH]; [reflexivity|].
  cbn [map concat]. rewrite concat_app, !app_length, !Nat2Z.inj_add, IH.
  rewrite (proj2 (merge_int_charge lat g)). reflexivity.
Qed.

Lemma merged_cost lat (cs : list (list (list Z))) :
  sumZ (map fst (map (merge_int lat) cs))
  = lat * (Z.of_nat (length (concat cs)) + Z.of_nat (length (concat (concat cs)))).
Proof.
  induction cs as [|g cs IH]; [cbn; lia|].
  cbn [map concat sumZ fold_right]. fold (sumZ (map fst (map (merge_int lat) cs))). rewrite IH.
  rewrite (proj1 (merge_int_charge lat g)), <- concat_length_sum.
  rewrite concat_app, !app_length, !Nat2Z.inj_add. lia.
Qed.

Definition radix_ok (radix : option Z) : Prop :=
  match radix with None => True | Some r => 2 <= r end.

Lemma rounds_int : forall fuel radix lat coords swaps,
  radix_ok radix -> (length coords <= fuel)%nat ->
  rounds fuel radix (Some lat) coords swaps
  = Some (swaps + lat * round_cost fuel radix (Z.of_nat (length coords))
                                   (Z.of_nat (length (concat coords)))).
Proof.
  induction fuel as [|fuel IH]; intros radix lat coords swaps Hr Hl.
  - destruct coords; [|cbn in Hl; lia]. cbn. f_equal; lia.
  - cbn [rounds round_cost].
    destruct (Nat.leb_spec (length coords) 1) as [Hle|Hgt].
    + destruct (Z.leb_spec (Z.of_nat (length coords)) 1); [|lia]. f_equal; lia.
    + destruct (Z.leb_spec (Z.of_nat (length coords)) 1); [lia|].
      set (n := Z.of_nat (length coords)) in *.
      set (r := match radix with None => n | Some r => if r >? n then n else r end).
      assert (Er : match radix with None => n | Some r0 => Z.min r0 n end = r).
      { unfold r. destruct radix as [r0|]; [|reflexivity]. destruct (Z.gtb_spec r0 n); lia. }
      rewrite Er.
      assert (Hr2 : 2 <= r <= n).
      { unfold r. destruct radix as [r0|]; cbn [radix_ok] in Hr; [destruct (Z.gtb_spec r0 n)|]; lia. }
      destruct (Z.ltb_spec r 2); [lia|].
      unfold merge_group.
      rewrite (all_some_map (merge_int lat)).
      unfold chunks.
      assert (Hrn : (0 < Z.to_nat r)%nat) by lia.
      pose proof (chunks_f_concat (length coords) (Z.to_nat r) coords Hrn (le_n _)) as Hc.
      pose proof (chunks_f_length (length coords) (Z.to_nat r) coords Hrn (le_n _)) as Hlen.
      rewrite Z2Nat.id in Hlen by lia. fold n in Hlen.
      set (cs := chunks_f (length coords) (Z.to_nat r) coords) in *.
      assert (Hdiv : (n + r - 1) / r <= n - 1).
      { assert ((n + r - 1) / r < n) by (apply Z.div_lt_upper_bound; nia). lia. }
      rewrite IH.
      * rewrite !map_length, merged_elems, merged_cost, Hc, Hlen. fold n. f_equal; lia.
      * exact (proj1 Hr2).
      * rewrite !map_length. lia.
Qed.
