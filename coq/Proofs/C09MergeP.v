(* C09MergeP.v — mergeRanks with the default merge_fn (sum), leaf default 0: the content of the
   result is the image of the operand's content with colliding points added up.  "Added up" is the
   relation [sq]: equal up to permutation, joining two entries of the same point by + and
   dropping zero entries; [sq] implies equal point sums, which is the oracle's content clause. *)
From Coq Require Import ZArith List Bool Lia Permutation PeanoNat.
From FT Require Import Model.Base Model.Obs Model.C09Transform Model.C09Check
                       Proofs.C09OrderP Proofs.C09FlattenP Proofs.C09BelowP Proofs.C09CheckP
                       Proofs.C09SwizzleP Proofs.C09WfP Proofs.C09RebuildP Proofs.C09SwapP Proofs.C09LinearP Proofs.C09RefP Proofs.C09SpecP.
Import ListNotations.
Open Scope Z_scope.

Definition pvl := list (point * Z).

Inductive sq : pvl -> pvl -> Prop :=
| sq_perm : forall l l', Permutation l l' -> sq l l'
| sq_trans : forall l1 l2 l3, sq l1 l2 -> sq l2 l3 -> sq l1 l3
| sq_sym : forall l l', sq l l' -> sq l' l
| sq_app : forall l1 l1' l2 l2', sq l1 l1' -> sq l2 l2' -> sq (l1 ++ l2) (l1' ++ l2')
| sq_add : forall p v1 v2, sq [(p, v1); (p, v2)] [(p, v1 + v2)]
| sq_zero : forall p, sq [(p, 0)] [].

Lemma sq_refl : forall l, sq l l.
Proof. intros. apply sq_perm. apply Permutation_refl. Qed.

Lemma sq_map : forall (g : point -> point) l l', sq l l' -> sq (map (on_pt g) l) (map (on_pt g) l').
Proof.
  intros g l l' H. induction H.
  - apply sq_perm. apply Permutation_map. assumption.
  - eapply sq_trans; eassumption.
  - apply sq_sym. assumption.
  - rewrite !map_app. apply sq_app; assumption.
  - apply sq_add.
  - apply sq_zero.
Qed.

Lemma sq_flat_map : forall {A} (f g : A -> pvl) l, (forall x, In x l -> sq (f x) (g x)) ->
  sq (flat_map f l) (flat_map g l).
Proof.
  induction l as [|x l IH]; intros H; [apply sq_refl|]. simpl. apply sq_app.
  - apply H. left. reflexivity.
  - apply IH. intros y Hy. apply H. right. exact Hy.
Qed.

(* point sums *)
Definition fsum (l : pvl) (q : point) : Z := sumZ (map snd (filter (fun pv => pt_eqb (fst pv) q) l)).

Lemma fsum_app : forall l1 l2 q, fsum (l1 ++ l2) q = fsum l1 q + fsum l2 q.
Proof.
  intros. unfold fsum. rewrite filter_app, map_app. induction (map snd (filter (fun pv : point * Z => pt_eqb (fst pv) q) l1));
    simpl; lia.
Qed.

Lemma fsum_perm : forall l l' q, Permutation l l' -> fsum l q = fsum l' q.
Proof.
  intros l l' q H. induction H.
  - reflexivity.
  - change (x :: l) with ([x] ++ l). change (x :: l') with ([x] ++ l'). rewrite !fsum_app. lia.
  - change (y :: x :: l) with ([y] ++ [x] ++ l). change (x :: y :: l) with ([x] ++ [y] ++ l).
    rewrite !fsum_app. lia.
  - lia.
Qed.

Theorem sq_fsum : forall l l', sq l l' -> forall q, fsum l q = fsum l' q.
Proof.
  intros l l' H. induction H; intros q.
  - apply fsum_perm. assumption.
  - rewrite IHsq1. apply IHsq2.
  - symmetry. apply IHsq.
  - rewrite !fsum_app, IHsq1, IHsq2. reflexivity.
  - unfold fsum. simpl. destruct (pt_eqb p q); simpl; lia.
  - unfold fsum. simpl. destruct (pt_eqb p q); simpl; lia.
Qed.

(* ------------------------------------------------------------------ leaves *)
Lemma leaf_add : forall v s, sq (ccontent 0 (CL v) ++ ccontent 0 (CL s)) (ccontent 0 (CL (v + s))).
Proof.
  intros v s. simpl. destruct (v =? 0) eqn:Ev; destruct (s =? 0) eqn:Es;
    try apply Z.eqb_eq in Ev; try apply Z.eqb_eq in Es; subst; simpl.
  - apply sq_refl.
  - rewrite Es. apply sq_refl.
  - replace (v + 0) with v by lia. rewrite Ev. apply sq_refl.
  - eapply sq_trans; [apply sq_add|]. destruct (v + s =? 0) eqn:E; [|apply sq_refl].
    apply Z.eqb_eq in E. rewrite E. apply sq_zero.
Qed.

Lemma leaves_sum : forall ps, Forall (fun p => is_leaf p = true) ps ->
  sq (flat_map (ccontent 0) ps) (ccontent 0 (CL (sumZ (map (leaf_val 0) ps)))).
Proof.
  induction ps as [|p ps IH]; intros H; [simpl; apply sq_refl|].
  inversion H as [|? ? Hp Hps]; subst. destruct p as [v|es]; [|discriminate].
  cbn [flat_map map leaf_val sumZ fold_right].
  eapply sq_trans; [apply sq_app; [apply sq_refl|apply IH; exact Hps]|]. apply leaf_add.
Qed.

(* ------------------------------------------------------------------ the grouping loop, any keys *)
Definition ungroups (gs : list (coord * list ct)) : list (coord * ct) :=
  flat_map (fun g => map (pair (fst g)) (snd g)) gs.

Lemma ins_group_perm : forall k p acc, Permutation (ungroups (ins_group k p acc)) ((k, p) :: ungroups acc).
Proof.
  induction acc as [|[k' ps] acc IH]; [apply Permutation_refl|].
  simpl ins_group. destruct (ccmp k' k) eqn:E.
  - apply ccmp_eq in E. subst k'. unfold ungroups. simpl. rewrite map_app. simpl.
    rewrite <- app_assoc. simpl. apply Permutation_sym. apply Permutation_middle.
  - unfold ungroups in *. simpl. eapply Permutation_trans; [apply Permutation_app_head; exact IH|].
    apply Permutation_sym. apply Permutation_middle.
  - apply Permutation_refl.
Qed.

Theorem group_items_perm : forall items, Permutation (ungroups (group_items items)) items.
Proof.
  intros items. unfold group_items.
  assert (G : forall items acc, Permutation (ungroups (fold_left (fun acc kp => ins_group (fst kp) (snd kp) acc) items acc))
                                            (ungroups acc ++ items)).
  { induction items0 as [|[k p] items0 IH]; intros acc; simpl; [rewrite app_nil_r; apply Permutation_refl|].
    eapply Permutation_trans; [apply IH|].
    eapply Permutation_trans; [apply Permutation_app_tail; apply ins_group_perm|].
    simpl. apply Permutation_middle. }
  apply (G items []).
Qed.

Lemma group_nonempty : forall items, Forall (fun g : coord * list ct => snd g <> []) (group_items items).
Proof.
  intros items. unfold group_items.
  assert (G : forall items acc, Forall (fun g : coord * list ct => snd g <> []) acc ->
              Forall (fun g : coord * list ct => snd g <> []) (fold_left (fun acc kp => ins_group (fst kp) (snd kp) acc) items acc)).
  { induction items0 as [|[k p] items0 IH]; intros acc Hacc; [exact Hacc|]. simpl. apply IH.
    clear IH. induction acc as [|[k' ps] acc IHa]; simpl; [constructor; [discriminate|constructor]|].
    inversion Hacc; subst. destruct (ccmp k' k); constructor; auto; simpl.
    - destruct ps; discriminate.
    - discriminate. }
  apply G. constructor.
Qed.

(* ------------------------------------------------------------------ the coordinates of the union *)
Lemma ins_coord_in : forall k l x, In x (ins_coord k l) <-> x = k \/ In x l.
Proof.
  induction l as [|k' l IH]; intros x; simpl; [intuition|].
  destruct (ccmp k' k) eqn:E; simpl.
  - apply ccmp_eq in E. subst k'. intuition (subst; auto).
  - rewrite IH. intuition.
  - intuition.
Qed.

Lemma ins_coord_pw : forall k l, pw ccmp l -> pw ccmp (ins_coord k l).
Proof.
  induction l as [|k' l IH]; intros H; simpl; [split; [constructor|exact I]|].
  destruct H as [Hk' Hl]. destruct (ccmp k' k) eqn:E.
  - split; assumption.
  - split; [|apply IH; exact Hl]. apply Forall_forall. intros y Hy. apply ins_coord_in in Hy.
    destruct Hy as [->|Hy]; [exact E|]. rewrite Forall_forall in Hk'. auto.
  - assert (Hlt : ccmp k k' = Lt) by (rewrite (ccmp_anti k' k), E; reflexivity).
    split; [|split; assumption]. constructor; [exact Hlt|].
    eapply Forall_impl; [|exact Hk']. intros y Hy. eapply ccmp_trans; eassumption.
Qed.

Lemma fold_ins_facts : forall (ks : list coord) acc, pw ccmp acc ->
  pw ccmp (fold_left (fun a k => ins_coord k a) ks acc)
  /\ (forall x, In x (fold_left (fun a k => ins_coord k a) ks acc) <-> In x ks \/ In x acc).
Proof.
  induction ks as [|k ks IH]; intros acc H; simpl; [split; [exact H|intuition]|].
  destruct (IH (ins_coord k acc) (ins_coord_pw k acc H)) as [I1 I2]. split; [exact I1|].
  intros x. rewrite I2, ins_coord_in. intuition.
Qed.

Lemma fold_left_fst : forall (l : cfib) acc,
  fold_left (fun acc cp => ins_coord (fst cp) acc) l acc = fold_left (fun a k => ins_coord k a) (map fst l) acc.
Proof. induction l as [|cp l IH]; intros acc; [reflexivity|]. simpl. apply IH. Qed.

Lemma union_coords_facts : forall d fs,
  pw ccmp (union_coords d fs)
  /\ (forall f cp, In f fs -> In cp (cpresent d f) -> In (fst cp) (union_coords d fs)).
Proof.
  intros d fs. unfold union_coords.
  assert (G : forall fs acc, pw ccmp acc ->
     let r := fold_left (fun acc f => fold_left (fun acc cp => ins_coord (fst cp) acc) (cpresent d f) acc) fs acc in
     pw ccmp r /\ (forall x, In x acc -> In x r)
     /\ (forall f cp, In f fs -> In cp (cpresent d f) -> In (fst cp) r)).
  { induction fs0 as [|f fs0 IH]; intros acc H; simpl.
    - split; [exact H|]. split; [auto|]. intros f cp [].
    - rewrite fold_left_fst. destruct (fold_ins_facts (map fst (cpresent d f)) acc H) as [F1 F2].
      destruct (IH _ F1) as [I1 [I2 I3]]. split; [exact I1|]. split.
      + intros x Hx. apply I2. apply F2. right. exact Hx.
      + intros f' cp [<-|Hf] Hcp.
        * apply I2. apply F2. left. apply in_map. exact Hcp.
        * apply (I3 f' cp Hf Hcp). }
  destruct (G fs [] I) as [G1 [_ G3]]. split; assumption.
Qed.

(* ------------------------------------------------------------------ transposing the union *)
Lemma perm_flat_map_ext : forall {A B} (f g : A -> list B) l,
  (forall x, In x l -> Permutation (f x) (g x)) -> Permutation (flat_map f l) (flat_map g l).
Proof.
  induction l as [|x l IH]; intros H; [apply Permutation_refl|]. simpl. apply Permutation_app.
  - apply H. left. reflexivity.
  - apply IH. intros y Hy. apply H. right. exact Hy.
Qed.

Lemma flat_map_app_perm : forall {A B} (f g : A -> list B) l,
  Permutation (flat_map (fun x => f x ++ g x) l) (flat_map f l ++ flat_map g l).
Proof.
  induction l as [|x l IH]; [apply Permutation_refl|]. simpl.
  eapply Permutation_trans; [apply Permutation_app_head; exact IH|].
  rewrite <- !app_assoc. apply Permutation_app_head.
  rewrite !app_assoc. apply Permutation_app_tail. apply Permutation_app_comm.
Qed.

Lemma flat_map_swap : forall {A B C} (F : A -> B -> list C) (la : list A) (lb : list B),
  Permutation (flat_map (fun a => flat_map (fun b => F a b) lb) la)
              (flat_map (fun b => flat_map (fun a => F a b) la) lb).
Proof.
  induction la as [|a la IH]; intros lb; simpl.
  - induction lb as [|b lb IHb]; [apply Permutation_refl|exact IHb].
  - eapply Permutation_trans; [apply Permutation_app_head; apply IH|].
    apply Permutation_sym. apply (flat_map_app_perm (fun b => F a b) (fun b => flat_map (fun a0 => F a0 b) la)).
Qed.

Lemma clookup_head : forall k p g, clookup k ((k, p) :: g) = Some p.
Proof. intros. simpl. rewrite ccmp_refl. reflexivity. Qed.

Lemma clookup_other : forall c k p g, c <> k -> clookup c ((k, p) :: g) = clookup c g.
Proof.
  intros c k p g H. simpl. destruct (ccmp c k) eqn:E; try reflexivity. apply ccmp_eq in E. congruence.
Qed.

Lemma clookup_none : forall c g, ~ In c (map fst g) -> clookup c g = None.
Proof.
  induction g as [|[k p] g IH]; intros H; [reflexivity|]. rewrite clookup_other; [apply IH|]; intros E; apply H; simpl; auto.
Qed.

(* every coordinate of the union picks the operand's payload or a default without content *)
Lemma pick_sum : forall (dflt : ct) g cs, ccontent 0 dflt = [] ->
  NoDup cs -> NoDup (map fst g) -> incl (map fst g) cs ->
  Permutation
    (flat_map (fun c => map (pcons c) (ccontent 0 (match clookup c g with Some p => p | None => dflt end))) cs)
    (ccontent 0 (CN g)).
Proof.
  intros dflt. induction g as [|[k p] g IH]; intros cs Hd Hcs Hg Hincl.
  - change (ccontent 0 (CN [])) with (@nil (list coord * Z)).
    assert (E : forall cs0 : list coord, flat_map (fun c : coord => map (pcons c)
               (ccontent 0 (match clookup c (@nil (coord * ct)) with Some p => p | None => dflt end))) cs0 = []).
    { intros cs0. cbn [clookup]. rewrite Hd. induction cs0 as [|c cs0 IHc]; simpl; auto. }
    rewrite E. apply Permutation_refl.
  - assert (Hk : In k cs) by (apply Hincl; left; reflexivity).
    apply in_split in Hk. destruct Hk as [l1 [l2 Ecs]].
    assert (HP : Permutation cs (k :: l1 ++ l2)) by (rewrite Ecs; apply Permutation_sym, Permutation_middle).
    simpl in Hg. inversion Hg as [|? ? Hkg Hg']; subst.
    assert (Hcs' : NoDup (k :: l1 ++ l2)) by (eapply Permutation_NoDup; [exact HP|exact Hcs]).
    inversion Hcs' as [|? ? Hk' Hnd']; subst.
    eapply Permutation_trans; [apply Permutation_flat_map; exact HP|].
    cbn [flat_map]. rewrite clookup_head, content_cons. apply Permutation_app_head.
    eapply Permutation_trans; [|apply (IH (l1 ++ l2) Hd Hnd' Hg')].
    + apply Permutation_refl'. apply flat_map_ext_in. intros c Hc. rewrite clookup_other; [reflexivity|].
      intros E. subst c. apply Hk'. exact Hc.
    + intros x Hx. assert (Hx' : In x (l1 ++ k :: l2)) by (apply Hincl; right; exact Hx).
      apply (Permutation_in _ HP) in Hx'. destruct Hx' as [E|Hx']; [subst x; contradiction|exact Hx'].
Qed.

Lemma pw_fst_filter_local : forall (f : coord * ct -> bool) es, pw ccmp (map fst es) -> pw ccmp (map fst (filter f es)).
Proof.
  intros f. induction es as [|[c q] es IH]; intros Hpw; [exact I|]. simpl in Hpw. destruct Hpw as [Hc Hpw]. simpl.
  destruct (f (c, q)); simpl; [|auto]. split; [|auto].
  apply Forall_forall. intros y Hy. apply in_map_iff in Hy. destruct Hy as [[c' q'] [<- Hy]].
  apply filter_In in Hy. rewrite Forall_forall in Hc. apply Hc. apply in_map_iff. exists (c', q'). tauto.
Qed.

(* ------------------------------------------------------------------ _mergeToFibertree *)
Lemma merge_tf_fibers : forall fuel d raise es0 p1 ps',
  merge_tf (S fuel) d raise (CN es0 :: p1 :: ps')
  = let fs := map sub (CN es0 :: p1 :: ps') in
    option_map CN (all_some (map (fun c => option_map (pair c) (merge_tf fuel d raise (present_at d c fs)))
                                 (union_coords d fs))).
Proof. reflexivity. Qed.

Definition unif (m : nat) (ps : list ct) : Prop := Forall (fun p => cdepth_ok m p = true /\ csorted p = true) ps.

Lemma clookup_in : forall c g p, clookup c g = Some p -> In (c, p) g.
Proof.
  induction g as [|[k q] g IH]; intros p H; [discriminate|]. simpl in H.
  destruct (ccmp c k) eqn:E; try (right; apply IH; exact H).
  apply ccmp_eq in E. subst k. inversion H; subst. left. reflexivity.
Qed.

Lemma clookup_some : forall c g, In c (map fst g) -> exists p, clookup c g = Some p.
Proof.
  induction g as [|[k q] g IH]; intros H; [destruct H|]. simpl.
  destruct (ccmp c k) eqn:E; try (destruct H as [H|H]; [simpl in H; subst; rewrite ccmp_refl in E; discriminate|apply IH; exact H]).
  exists q. reflexivity.
Qed.

Lemma content_sub : forall d p, is_leaf p = false -> ccontent d (CN (sub p)) = ccontent d p.
Proof. intros d [v|es] H; [discriminate|reflexivity]. Qed.

(* every coordinate of the union is offered by some operand *)
Lemma union_coords_conv : forall d fs c, In c (union_coords d fs) ->
  exists f, In f fs /\ In c (map fst (cpresent d f)).
Proof.
  intros d fs c. unfold union_coords.
  assert (G : forall fs acc, pw ccmp acc ->
     In c (fold_left (fun acc f => fold_left (fun acc cp => ins_coord (fst cp) acc) (cpresent d f) acc) fs acc) ->
     In c acc \/ exists f, In f fs /\ In c (map fst (cpresent d f))).
  { induction fs0 as [|f fs0 IH]; intros acc Hacc H; simpl in H; [left; exact H|].
    rewrite fold_left_fst in H. destruct (fold_ins_facts (map fst (cpresent d f)) acc Hacc) as [F1 F2].
    destruct (IH _ F1 H) as [Hin|[f' [Hf' Hc]]].
    - apply F2 in Hin. destruct Hin as [Hin|Hin]; [right; exists f; split; [left; reflexivity|exact Hin]|left; exact Hin].
    - right. exists f'. split; [right; exact Hf'|exact Hc]. }
  intros H. destruct (G fs [] I H) as [[]|E]. exact E.
Qed.

Definition pickN (c : coord) (f : cfib) : ct :=
  match clookup c (cpresent 0 f) with Some p => p | None => CN [] end.

Lemma present_at_content : forall c fs,
  flat_map (ccontent 0) (present_at 0 c fs) = flat_map (fun f => ccontent 0 (pickN c f)) fs.
Proof.
  intros c fs. unfold present_at. rewrite flat_map_flat_map. apply flat_map_ext_in. intros f _.
  unfold pickN. destruct (clookup c (cpresent 0 f)); simpl; [apply app_nil_r|reflexivity].
Qed.

Lemma flat_map_nonnil : forall {A B} (h : A -> list B) l x, In x l -> h x <> [] -> flat_map h l <> [].
Proof.
  induction l as [|y l IH]; intros x Hin Hx; [destruct Hin|]. simpl. destruct Hin as [->|Hin].
  - destruct (h x); [congruence|discriminate].
  - intros E. apply app_eq_nil in E. destruct E as [_ E]. apply (IH x Hin Hx E).
Qed.

Theorem merge_tf_content : forall fuel m ps, (m < fuel)%nat -> ps <> [] -> unif m ps ->
  exists t, merge_tf fuel 0 false ps = Some t /\ sq (ccontent 0 t) (flat_map (ccontent 0) ps)
            /\ cdepth_ok m t = true /\ csorted t = true.
Proof.
  induction fuel as [|fuel IH]; intros m ps Hm Hne Hu; [lia|].
  destruct ps as [|p0 [|p1 ps']]; [congruence| |].
  - exists p0. split; [reflexivity|]. split; [simpl; rewrite app_nil_r; apply sq_refl|].
    inversion Hu as [|? ? [H1 H2] _]; subst. split; assumption.
  - set (ps := p0 :: p1 :: ps') in *.
    destruct p0 as [v|es0].
    + (* leaves *)
      assert (Hm0 : m = 0%nat).
      { inversion Hu as [|? ? [H _] _]; subst. destruct m; [reflexivity|discriminate]. }
      subst m.
      assert (Hleaf : Forall (fun p => is_leaf p = true) ps).
      { eapply Forall_impl; [|exact Hu]. intros p [H _]. destruct p; [reflexivity|discriminate]. }
      exists (CL (sumZ (map (leaf_val 0) ps))). split; [reflexivity|].
      split; [apply sq_sym; apply leaves_sum; exact Hleaf|split; reflexivity].
    + (* fibers *)
      destruct m as [|m']; [inversion Hu as [|? ? [H _] _]; discriminate|].
      assert (HCN : Forall (fun p => is_leaf p = false) ps).
      { eapply Forall_impl; [|exact Hu]. intros p [H _]. destruct p; [discriminate|reflexivity]. }
      unfold ps at 1. rewrite merge_tf_fibers. fold ps. cbv zeta.
      set (fs := map sub ps). set (cs := union_coords 0 fs).
      destruct (union_coords_facts 0 fs) as [Hcspw Hcsin]. fold cs in Hcspw, Hcsin.
      assert (Hcsnd : NoDup cs) by (apply (pw_NoDup ccmp); [exact ccmp_refl|exact Hcspw]).
      assert (Hfs : forall f, In f fs -> pw ccmp (map fst f)
                 /\ Forall (fun cp : coord * ct => cdepth_ok m' (snd cp) = true /\ csorted (snd cp) = true) f).
      { intros f Hf. unfold fs in Hf. apply in_map_iff in Hf. destruct Hf as [p [<- Hp]].
        unfold unif in Hu. rewrite Forall_forall in Hu, HCN. destruct (Hu _ Hp) as [Hd Hs]. specialize (HCN _ Hp).
        destruct p as [v|es]; [discriminate|]. simpl sub. apply csorted_CN in Hs. destruct Hs as [Hpw Hall].
        split; [exact Hpw|]. simpl in Hd. rewrite forallb_forall in Hd. apply Forall_forall. intros cp Hin.
        rewrite Forall_forall in Hall. split; auto. }
      assert (Hpicks : forall c, unif m' (present_at 0 c fs)).
      { intros c. apply Forall_forall. intros q Hq. unfold present_at in Hq. apply in_flat_map in Hq.
        destruct Hq as [f [Hf Hq]]. destruct (clookup c (cpresent 0 f)) as [p|] eqn:El; [|destruct Hq].
        destruct Hq as [<-|[]]. apply clookup_in in El. unfold cpresent in El. apply filter_In in El. destruct El as [El _].
        destruct (Hfs f Hf) as [_ Hall]. rewrite Forall_forall in Hall. apply (Hall _ El). }
      destruct (all_some_Forall2
                  (fun c => option_map (pair c) (merge_tf fuel 0 false (present_at 0 c fs)))
                  (fun c (cp' : coord * ct) => exists t, cp' = (c, t)
                       /\ sq (ccontent 0 t) (flat_map (ccontent 0) (present_at 0 c fs))
                       /\ cdepth_ok m' t = true /\ csorted t = true) cs) as [rs [Ers Rrs]].
      { intros c Hc. destruct (IH m' (present_at 0 c fs)) as [t [Et [Ht [Hd1 Hs1]]]]; [lia| |apply Hpicks|].
        - destruct (union_coords_conv 0 fs c Hc) as [f [Hf Hk]].
          unfold present_at. apply (flat_map_nonnil _ fs f Hf).
          destruct (clookup_some c (cpresent 0 f) Hk) as [p Ep]. rewrite Ep. discriminate.
        - exists (c, t). rewrite Et. split; [reflexivity|]. exists t. auto. }
      rewrite Ers. exists (CN rs). split; [reflexivity|].
      assert (Hwf : cdepth_ok (S m') (CN rs) = true /\ csorted (CN rs) = true).
      { assert (Hk : map fst rs = cs).
        { clear -Rrs. induction Rrs as [|c cp' cs rs [t [-> _]] _ IHR]; [reflexivity|]. simpl. f_equal. exact IHR. }
        assert (Hp : Forall (fun cp : coord * ct => cdepth_ok m' (snd cp) = true /\ csorted (snd cp) = true) rs).
        { clear -Rrs. induction Rrs as [|c cp' cs rs [t [-> [_ [H1 H2]]]] _ IHR]; constructor; auto. }
        split.
        - simpl. apply forallb_forall. intros cp Hin. rewrite Forall_forall in Hp. apply (Hp _ Hin).
        - apply csorted_CN. split; [rewrite Hk; exact Hcspw|].
          eapply Forall_impl; [|exact Hp]. intros cp [_ H]. exact H. }
      split; [|exact Hwf].
      assert (S1 : sq (ccontent 0 (CN rs))
                      (flat_map (fun c => map (pcons c) (flat_map (ccontent 0) (present_at 0 c fs))) cs)).
      { clear -Rrs. induction Rrs as [|c cp' cs rs [t [-> [Ht _]]] _ IHR]; [apply sq_refl|].
        rewrite content_cons. cbn [flat_map]. apply sq_app; [|exact IHR].
        apply (sq_map (cons c)). exact Ht. }
      eapply sq_trans; [exact S1|]. apply sq_perm.
      assert (E1 : flat_map (fun c => map (pcons c) (flat_map (ccontent 0) (present_at 0 c fs))) cs
                   = flat_map (fun c => flat_map (fun f => map (pcons c) (ccontent 0 (pickN c f))) fs) cs).
      { apply flat_map_ext_in. intros c _. rewrite present_at_content, map_flat_map. reflexivity. }
      rewrite E1. eapply Permutation_trans; [apply flat_map_swap|].
      assert (E2 : flat_map (ccontent 0) ps = flat_map (fun f => ccontent 0 (CN f)) fs).
      { unfold fs. rewrite flat_map_map. apply flat_map_ext_in. intros p Hp. rewrite Forall_forall in HCN.
        symmetry. apply content_sub. apply HCN. exact Hp. }
      rewrite E2. apply perm_flat_map_ext. intros f Hf.
      rewrite <- (content_present 0 f). unfold pickN.
      apply (pick_sum (CN []) (cpresent 0 f) cs eq_refl Hcsnd).
      * apply (pw_NoDup ccmp); [exact ccmp_refl|]. unfold cpresent. apply pw_fst_filter_local. apply (Hfs f Hf).
      * intros k Hk. apply in_map_iff in Hk. destruct Hk as [cp [<- Hcp]]. apply (Hcsin f cp Hf Hcp).
Qed.

(* the keys of the groups are strictly ascending *)
Lemma ins_group_keys : forall k p acc x, In x (map fst (ins_group k p acc)) <-> x = k \/ In x (map fst acc).
Proof.
  induction acc as [|[k' ps] acc IH]; intros x; simpl; [intuition|].
  destruct (ccmp k' k) eqn:E; simpl.
  - apply ccmp_eq in E. subst k'. intuition (subst; auto).
  - rewrite IH. intuition.
  - intuition.
Qed.

Lemma ins_group_pw : forall k p acc, pw ccmp (map fst acc) -> pw ccmp (map fst (ins_group k p acc)).
Proof.
  induction acc as [|[k' ps] acc IH]; intros H; simpl; [split; [constructor|exact I]|].
  simpl in H. destruct H as [Hk' Hl]. destruct (ccmp k' k) eqn:E; simpl.
  - split; assumption.
  - split; [|apply IH; exact Hl]. apply Forall_forall. intros y Hy. apply ins_group_keys in Hy.
    destruct Hy as [->|Hy]; [exact E|]. rewrite Forall_forall in Hk'. auto.
  - assert (Hlt : ccmp k k' = Lt) by (rewrite (ccmp_anti k' k), E; reflexivity).
    split; [|split; assumption]. constructor; [exact Hlt|].
    eapply Forall_impl; [|exact Hk']. intros y Hy. eapply ccmp_trans; eassumption.
Qed.

Lemma group_items_pw : forall items, pw ccmp (map fst (group_items items)).
Proof.
  intros items. unfold group_items.
  assert (G : forall items acc, pw ccmp (map fst acc) ->
              pw ccmp (map fst (fold_left (fun acc kp => ins_group (fst kp) (snd kp) acc) items acc))).
  { induction items0 as [|[k p] items0 IH]; intros acc H; [exact H|]. simpl. apply IH. apply ins_group_pw. exact H. }
  apply G. exact I.
Qed.

(* ------------------------------------------------------------------ one level of mergeRanks *)
Lemma content_ungroups : forall gs,
  ccontent 0 (CN (ungroups gs))
  = flat_map (fun g => map (pcons (fst g)) (flat_map (ccontent 0) (snd g))) gs.
Proof.
  intros gs. unfold ungroups. rewrite content_CN, flat_map_flat_map. apply flat_map_ext_in.
  intros [k ps] _. simpl. rewrite flat_map_map, map_flat_map. reflexivity.
Qed.

(* _mergeRanksHelper(levels = 1) with the sum merge_fn: the content of the result is the content
   of the list of (new coordinate, payload) items with colliding points added up *)
Theorem merge1_content : forall style fuel shapes es m, (m < fuel)%nat -> all_fibers es = true ->
  Forall (fun cp => Forall (fun cp0 : coord * ct => cdepth_ok m (snd cp0) = true /\ csorted (snd cp0) = true)
                           (sub (snd cp))) es ->
  exists r, merge_helper 1 style false fuel shapes 0 es = Some r
    /\ sq (ccontent 0 (CN r))
          (ccontent 0 (CN (merge_items style (prodZ (firstn 1 (tl shapes))) 0 es)))
    /\ csorted (CN r) = true /\ cdepth_ok (S m) (CN r) = true.
Proof.
  intros style fuel shapes es m Hm Hf Hlow.
  set (items := merge_items style (prodZ (firstn 1 (tl shapes))) 0 es).
  set (gs := group_items items).
  pose proof (group_items_perm items) as HP. fold gs in HP.
  pose proof (group_nonempty items) as Hne. fold gs in Hne.
  assert (Hitems : Forall (fun kp : coord * ct => cdepth_ok m (snd kp) = true /\ csorted (snd kp) = true) items).
  { apply (merge_items_payloads (fun p => cdepth_ok m p = true /\ csorted p = true)). exact Hlow. }
  destruct (all_some_Forall2
              (fun g : coord * list ct => option_map (pair (fst g)) (merge_tf fuel 0 false (snd g)))
              (fun g (cp' : coord * ct) => exists t, cp' = (fst g, t)
                   /\ sq (ccontent 0 t) (flat_map (ccontent 0) (snd g))
                   /\ cdepth_ok m t = true /\ csorted t = true) gs) as [rs [Ers Rrs]].
  { intros g Hg. rewrite Forall_forall in Hne.
    destruct (merge_tf_content fuel m (snd g) Hm (Hne _ Hg)) as [t [Et [Ht [Hd1 Hs1]]]].
    - apply Forall_forall. intros p Hp. rewrite Forall_forall in Hitems.
      apply (Hitems (fst g, p)). apply (Permutation_in _ HP). unfold ungroups. apply in_flat_map.
      exists g. split; [exact Hg|]. apply in_map. exact Hp.
    - exists (fst g, t). rewrite Et. split; [reflexivity|]. exists t. auto. }
  exists rs. split.
  - unfold merge_helper. rewrite existsb_leaf_false by exact Hf. fold items. fold gs. exact Ers.
  - assert (Hk : map fst rs = map fst gs).
    { clear -Rrs. induction Rrs as [|g cp' gs rs [t [-> _]] _ IHR]; [reflexivity|]. simpl. f_equal. exact IHR. }
    assert (Hp : Forall (fun cp : coord * ct => cdepth_ok m (snd cp) = true /\ csorted (snd cp) = true) rs).
    { clear -Rrs. induction Rrs as [|g cp' gs rs [t [-> [_ [H1 H2]]]] _ IHR]; constructor; auto. }
    split; [|split].
    + eapply sq_trans; [|apply sq_perm; apply (content_perm 0 _ _ HP)].
      rewrite content_ungroups. clear -Rrs.
      induction Rrs as [|g cp' gs rs [t [-> [Ht _]]] _ IHR]; [apply sq_refl|].
      rewrite content_cons. cbn [flat_map]. apply sq_app; [|exact IHR].
      apply (sq_map (cons (fst g))). exact Ht.
    + apply csorted_CN. split; [rewrite Hk; apply group_items_pw|].
      eapply Forall_impl; [|exact Hp]. intros cp [_ H]. exact H.
    + simpl. apply forallb_forall. intros cp Hin. rewrite Forall_forall in Hp. apply (Hp _ Hin).
Qed.

(* ... and the oracle's content clause follows from [sq]: equal point sums *)
Theorem sq_sums : forall out img src, sq out (map (on_pt img) src) ->
  forall q, fsum out q = sums_to img src q.
Proof.
  intros out img src H q. rewrite (sq_fsum _ _ H q). unfold fsum, sums_to.
  clear H. induction src as [|[p v] src IH]; [reflexivity|]. simpl. destruct (pt_eqb (img p) q); simpl; rewrite IH; reflexivity.
Qed.
