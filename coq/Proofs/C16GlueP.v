(* C16GlueP.v — from the nest specification to the oracle: for nests without populate levels the
   observation of the faithful model satisfies c16_holds (outside known-finding region 1). *)
From Coq Require Import ZArith List Bool Lia ZifyBool.
From FT Require Import Model.Base Model.Obs Model.C16Metrics Model.C16Nest Model.C16Check
                       Proofs.ObsP Proofs.C16MetricsP Proofs.C16CoreP Proofs.C16RefP Proofs.C16AndP
                       Proofs.C16NestP Proofs.C16PlainP Proofs.C16AndLevelP Proofs.C16EagerP
                       Proofs.C16CheckP.
Import ListNotations.
Open Scope Z_scope.

Section WithZZ.
Context {zz : ZZ}.

(* ------------------------------------------------------------------ parse round trips *)
Lemma rows_of_V_rows : forall rs, rows_of_V (V_rows rs) = rs.
Proof.
  intros rs. unfold rows_of_V, V_rows, Vl. cbn [V_list].
  induction rs as [|r rs IH]; cbn [map]; auto. f_equal; [|exact IH].
  cbn [V_list]. induction r as [|z r IHr]; cbn; auto. f_equal. exact IHr.
Qed.

Definition entry (c : c16_case) (st : mstate) (k : tkey) : V :=
  match find_trace st k with Some t => V_rows (file_content t) | None => VL [] end.

Lemma entry_rows : forall c st k, exists rs, entry c st k = V_rows rs.
Proof.
  intros c st k. unfold entry. destruct (find_trace st k); [eexists; reflexivity|exists []; reflexivity].
Qed.

Lemma files_wf_files_of : forall c st, files_wf (files_of c st) = true.
Proof.
  intros c st. unfold files_wf. apply V_eqb_spec. unfold files_of, parse_files, V_files, Vl.
  cbn [V_list]. f_equal. rewrite !map_map. apply map_ext. intros k.
  destruct (entry_rows c st k) as [rs E]. unfold entry in E. rewrite E, rows_of_V_rows. reflexivity.
Qed.

Lemma all_ok_map : forall (f : tkey -> list row -> bool) (g : tkey -> V) ks,
  all_ok f ks (map g ks) = forallb (fun k => f k (rows_of_V (g k))) ks.
Proof. induction ks as [|k ks IH]; cbn; auto. rewrite IH. reflexivity. Qed.

Lemma forallb_const : forall {A} (P : V -> bool) (v : V) (l : list A),
  P v = true -> forallb P (map (fun _ => v) l) = true.
Proof. induction l as [|a l IH]; cbn; auto. intros H. rewrite H, IH; auto. Qed.

(* ------------------------------------------------------------------ header *)
Lemma ref_header_eq : forall j, header (iota (S j)) j = ref_header j false.
Proof.
  intros j. unfold header, ref_header, ref_ranks.
  rewrite firstn_all2 by (rewrite iota_length; lia). rewrite iota_S. reflexivity.
Qed.

(* ------------------------------------------------------------------ levels without populate *)
Lemma eager_nth : forall lv j, forallb eager_level lv = true ->
  let L := nth j lv dflt_level in l_pop L = false /\ is_proj L = false.
Proof.
  intros lv j H L. assert (E : eager_level L = true \/ L = dflt_level).
  { destruct (nth_in_or_default j lv dflt_level) as [Hin|Hd]; [left|right; exact Hd].
    rewrite forallb_forall in H. apply H. exact Hin. }
  destruct E as [E| ->]; [|split; reflexivity].
  unfold eager_level in E. unfold is_proj. destruct (l_pop L); [discriminate|].
  destruct (l_proj L); [discriminate|]. split; reflexivity.
Qed.

Lemma expect_zside_nopop : forall L kind label zi zf p e, l_pop L = false -> is_zside kind = true ->
  expect_at L false kind label zi zf p e = [].
Proof.
  intros L kind label zi zf p e Hp Hz. unfold is_zside in Hz. unfold expect_at. rewrite Hp.
  unfold K_RD, K_WR, K_ITER, K_INT, K_POP in *.
  destruct (kind =? 0) eqn:E0; [lia|]. destruct (kind =? 1) eqn:E1; [lia|].
  destruct (kind =? 2) eqn:E2; [lia|]. cbn [andb].
  destruct (kind =? 3); [reflexivity|]. destruct (kind =? 4); reflexivity.
Qed.

Lemma flat_map_nil : forall {A B} (f : A -> list B) l, (forall a, f a = []) -> flat_map f l = [].
Proof. induction l as [|a l IH]; intros H; cbn; auto. rewrite H, IH; auto. Qed.

(* ------------------------------------------------------------------ one trace file *)
Lemma trace_ok_of_spec : forall c zt k data,
  forallb eager_level (k_levels c) = true -> (length (k_levels c) <= 3)%nat ->
  0 <= key_rank k -> traced c k = true ->
  let d := dr (k_levels c) [([], k_inputs c)] in
  rows_ok true (traced c) 0 [] (k_levels c) [] (k_inputs c) k data ->
  trace_ok c zt k (hdrs k 0 d ++ data) = true.
Proof.
  intros c zt k data Heg Hlen Hr Htr d [_ Hok]. specialize (Hok Hr).
  unfold deep_ok in Hok. cbv zeta in Hok. destruct Hok as (O1 & O2 & O3 & O4).
  set (lv := k_levels c) in *. set (e := k_inputs c) in *.
  set (r := key_rank k) in *. set (j := Z.to_nat r) in *.
  assert (Hd : (d <= length lv)%nat) by apply dr_le.
  unfold trace_ok. fold lv. fold e. fold r.
  destruct (50 <=? r) eqn:E50.
  - (* a rank name reserved for projected operands: never registered here *)
    assert (Hdata : data = []) by (apply O4; change (0 + d <= j)%nat; unfold j; lia).
    assert (Hh : hdrs k 0 d = []).
    { unfold hdrs. fold r. assert (r <? Z.of_nat d = false) as -> by lia. rewrite andb_false_r. reflexivity. }
    rewrite Hh, Hdata. cbn [app].
    destruct (eager_nth lv (Z.to_nat (r - 50)) Heg) as [_ Hp]. fold lv in Hp. rewrite Hp.
    cbn [negb orb]. rewrite andb_false_r. reflexivity.
  - cbn [negb orb]. assert ((0 <=? r) = true) as -> by lia.
    fold j. destruct (eager_nth lv j Heg) as [Hpop Hprj]. fold lv in Hpop, Hprj.
    set (L := nth j lv dflt_level) in *.
    destruct (Nat.lt_ge_cases j d) as [Hjd|Hjd].
    + (* reached *)
      pose proof (proj1 (dr_space lv j [([], e)]) Hjd) as [Hsp Hjl].
      assert (Hh : hdrs k 0 d = [header (iota (S j)) j]).
      { unfold hdrs. fold r. fold j. assert ((Z.of_nat 0 <=? r) && (r <? Z.of_nat d) = true) as -> by (unfold j in *; lia).
        reflexivity. }
      rewrite Hh. cbn [app].
      assert (Hreached : match space lv j [([], e)] with [] => false | _ :: _ => Nat.ltb j (length lv) end = true).
      { destruct (space lv j [([], e)]); [congruence|]. apply Nat.ltb_lt. exact Hjl. }
      rewrite Hreached. cbn [andb]. rewrite Hprj, ref_header_eq, list_eqb_refl. cbn [andb].
      assert (Hw : forallb (fun rw => Nat.eqb (length rw) (2 * S j + 1)) data = true).
      { apply forallb_forall. intros rw Hin. rewrite Forall_forall in O1. destruct (O1 _ Hin) as [_ Hl].
        apply Nat.eqb_eq. exact Hl. }
      rewrite Hw. cbn [andb]. unfold stampR in O2. rewrite O2. cbn [andb].
      assert (Hsc : addr_scope true (traced c) k = true).
      { unfold addr_scope. rewrite Htr, orb_true_r. reflexivity. }
      assert (Hjd' : (j < 0 + dr lv [([], e)])%nat) by (change (j < 0 + d)%nat; lia).
      specialize (O3 Hsc Hjd'). unfold expect_rows in O3. fold j in O3. rewrite Nat.sub_0_r in O3.
      fold L in O3.
      destruct (key_kind k =? K_PROJ); [reflexivity|].
      destruct (is_zside (key_kind k)) eqn:Ez; cbn [andb negb].
      * assert (Hexp : forall zi zf q, expect_at L false (key_kind k) (key_label k) zi zf (fst q) (snd q) = []).
        { intros. apply expect_zside_nopop; auto. }
        rewrite (flat_map_nil _ _ (fun q => Hexp (zdesc zz_in (fst q)) (zdesc zz_out (fst q)) q)) in O3. rewrite O3. cbn [forallb andb].
        apply forallb_forall. intros q _. rewrite Hexp. cbn [filter rows_eqb].
        destruct (appending L _ _); [reflexivity|]. unfold read_covered. rewrite Hpop, andb_false_r. reflexivity.
      * rewrite O3.
        rewrite (flat_map_ext _ (fun q => expect_at L false (key_kind k) (key_label k) [] [] (fst q) (snd q)))
          by (intros q; apply expect_at_nz; exact Ez).
        apply rows_eqb_refl.
    + (* not reached: empty, header-less file *)
      assert (Hdata : data = []) by (apply O4; change (0 + d <= j)%nat; lia).
      assert (Hh : hdrs k 0 d = []).
      { unfold hdrs. fold r. assert (r <? Z.of_nat d = false) as -> by (unfold j in *; lia).
        rewrite andb_false_r. reflexivity. }
      rewrite Hh, Hdata. cbn [app].
      assert (Hnr : match space lv j [([], e)] with [] => false | _ :: _ => Nat.ltb j (length lv) end = false).
      { destruct (space lv j [([], e)]) eqn:Es; auto. apply Nat.ltb_ge.
        destruct (Nat.lt_ge_cases j (length lv)) as [Hl|Hl]; auto. exfalso.
        assert (j < d)%nat; [|lia]. apply dr_space. split; auto. rewrite Es. discriminate. }
      rewrite Hnr. reflexivity.
Qed.

(* ------------------------------------------------------------------ the hypotheses of the nest
   theorem from c16_wf and region 0 *)
Lemma traced_in : forall c k, In k (k_keys c) -> traced c k = true.
Proof.
  intros c k H. unfold traced. apply existsb_exists. exists k. split; auto. apply key_eqb_refl.
Qed.

Lemma traced_inv : forall c k, traced c k = true -> In k (k_keys c).
Proof.
  intros c k H. unfold traced in H. apply existsb_exists in H. destruct H as (k' & Hin & E).
  apply key_eqb_eq in E. subst. exact Hin.
Qed.

Lemma region0_int_ok : forall c, c16_region c = 0 -> (length (k_levels c) <= 3)%nat ->
  nest_int_ok (traced c) 0 (k_levels c) (k_inputs c).
Proof.
  intros c Hreg Hlen k L x y Hn Hs Hneed. unfold c16_region in Hreg.
  destruct (existsb (affected c) (k_keys c)) eqn:E; [discriminate|].
  assert (Hk : (k < length (k_levels c))%nat) by (apply nth_error_Some; congruence).
  assert (Haff : forall l, traced c (Z.of_nat k, K_INT, l) = true -> affected c (Z.of_nat k, K_INT, l) = false).
  { intros l Ht. apply traced_inv in Ht.
    destruct (affected c (Z.of_nat k, K_INT, l)) eqn:Ea; auto.
    assert (existsb (affected c) (k_keys c) = true) by (apply existsb_exists; eauto). congruence. }
  assert (Hcase : forall l, affected c (Z.of_nat k, K_INT, l) = false ->
            l_ufmt L = true \/ (noemp (nth x (k_inputs c) (Node [])) /\ noemp (nth y (k_inputs c) (Node [])))).
  { intros l Ha. unfold affected in Ha. cbn [key_rank key_kind fst snd] in Ha.
    rewrite Nat2Z.id in Ha. rewrite (nth_error_nth _ _ dflt_level Hn) in Ha. rewrite Hs in Ha.
    rewrite Z.eqb_refl in Ha.
    assert ((0 <=? Z.of_nat k) && (Z.of_nat k <? 50) = true) as Hb by lia. rewrite Hb in Ha. cbn [andb] in Ha.
    destruct (l_ufmt L); [left; reflexivity|right]. cbn [negb andb] in Ha.
    apply orb_false_iff in Ha. exact Ha. }
  simpl in Hneed. destruct Hneed as [H0|H1]; [apply (Hcase 0)|apply (Hcase 1)]; apply Haff; auto.
Qed.

Lemma wf_env_ok : forall c, c16_wf c = true -> env_ok (k_inputs c).
Proof.
  intros c H. unfold c16_wf in H. repeat (apply andb_true_iff in H; destruct H as [H ?]).
  unfold env_ok. apply Forall_forall. intros t Hin.
  match goal with Hf : forallb (fun t => depth_ok _ t && sorted_t t) _ = true |- _ =>
    rewrite forallb_forall in Hf; specialize (Hf _ Hin); apply andb_true_iff in Hf; apply Hf end.
Qed.

End WithZZ.

(* C16_model_meets_spec for every nest without populate levels *)
Theorem model_meets_spec_eager : forall c,
  c16_wf c = true -> c16_region c = 0 -> forallb eager_level (k_levels c) = true ->
  c16_holds c (c16_model c) = true.
Proof.
  intros c Hwf Hreg Heg.
  pose (zz := {| zz_in := Node []; zz_out := Node [] |}).
  pose proof (wf_env_ok c Hwf) as Henv.
  assert (Hfacts : (length (k_levels c) <= 3)%nat
                   /\ forallb (fun k => 0 <=? key_rank k) (k_keys c) = true
                   /\ k_thresholds c <> []).
  { unfold c16_wf in Hwf. pose proof Hwf as H. repeat (apply andb_true_iff in H; destruct H as [H ?]).
    repeat split.
    - match goal with Hl : Nat.leb (length (k_levels c)) 3 = true |- _ => apply Nat.leb_le in Hl; exact Hl end.
    - assumption.
    - intros E. match goal with Hn : negb (Nat.eqb (length (k_thresholds c)) 0) = true |- _ =>
        rewrite E in Hn; discriminate end. }
  destruct Hfacts as (Hlen & Hranks & Hths).
  rewrite model_flush_consumable. unfold c16_holds. rewrite Hwf. cbn [andb].
  set (st := exec 0 (init_state (k_keys c) true false) (fst (c16_events c))).
  set (B := files_of c st).
  destruct (k_thresholds c) as [|t0 ths] eqn:Et; [congruence|]. cbn [map].
  assert (HB : files_wf B = true) by apply files_wf_files_of.
  assert (HBB : V_eqb B B = true) by apply V_eqb_refl.
  cbn [forallb]. rewrite !HB, (forallb_const files_wf B ths HB). cbn [andb].
  cbn [length]. rewrite map_length, Nat.eqb_refl. cbn [andb].
  rewrite (forallb_const (V_eqb B) B ths HBB), HBB. rewrite !andb_true_r.
  (* every trace file *)
  unfold B, files_of, Vl. cbn [V_list]. rewrite all_ok_map. apply forallb_forall. intros k Hk.
  rewrite forallb_forall in Hranks. specialize (Hranks k Hk).
  destruct (eager_nest_top true 0 (traced c) (k_zshape c) (n_pop (k_levels c)) (k_skip c) (k_levels c)
              (k_keys c) false (k_inputs c) (z_in c) Heg Henv (region0_int_ok c Hreg Hlen)) as [_ Hall].
  destruct (Hall k Hk) as (data & Hc & Hok).
  assert (Est : exec 0 (init_state (k_keys c) true false)
                  (fst (run (traced c) (k_zshape c) (n_pop (k_levels c)) (k_skip c) (k_levels c) 0 []
                            (k_inputs c) {| th_z := z_in c; th_lab := lab0 |})) = st).
  { unfold st, c16_events. reflexivity. }
  rewrite Est in Hc.
  rewrite (files_of_alt c st k). fold (content st k). rewrite Hc, rows_of_V_rows.
  apply trace_ok_of_spec; auto. lia. apply traced_in; auto.
Qed.
