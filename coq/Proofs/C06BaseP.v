(* C06BaseP.v — list, sum, environment and sortedness lemmas used by the C06 proofs. *)
From Coq Require Import ZArith List Bool Lia PeanoNat Permutation ZifyBool FinFun.
From FT Require Import Model.Base Model.Obs Model.C06Kernel Model.C06Check.
Import ListNotations.
Open Scope Z_scope.

(* ---------------------------------------------------------------- membership *)
Lemma memN_In x l : memN x l = true <-> In x l.
Proof.
  induction l as [|y l IH]; cbn [memN In]; [split; [discriminate|tauto]|].
  rewrite orb_true_iff, IH, Nat.eqb_eq. split; intros [H|H]; auto.
Qed.

Lemma memN_false x l : memN x l = false <-> ~ In x l.
Proof. rewrite <- memN_In. destruct (memN x l); split; congruence. Qed.

Lemma memZ_In x l : memZ x l = true <-> In x l.
Proof.
  induction l as [|y l IH]; cbn [memZ In]; [split; [discriminate|tauto]|].
  rewrite orb_true_iff, IH, Z.eqb_eq. split; intros [H|H]; auto.
Qed.

Lemma memZ_false x l : memZ x l = false <-> ~ In x l.
Proof. rewrite <- memZ_In. destruct (memZ x l); split; congruence. Qed.

Lemma nodupN_NoDup l : nodupN l = true -> NoDup l.
Proof.
  induction l as [|x l IH]; cbn [nodupN]; intros H; [constructor|].
  apply andb_true_iff in H as [H1 H2]. constructor; auto.
  apply memN_false. now destruct (memN x l).
Qed.

(* ---------------------------------------------------------------- filter *)
Lemma filter_ext_In {A} (f g : A -> bool) l :
  (forall x, In x l -> f x = g x) -> filter f l = filter g l.
Proof.
  induction l as [|a l IH]; intros H; cbn [filter]; auto.
  rewrite (H a) by (left; auto). rewrite IH by (intros; apply H; right; auto). reflexivity.
Qed.

Lemma filter_true {A} (l : list A) : filter (fun _ => true) l = l.
Proof. induction l; cbn; congruence. Qed.

Lemma filter_all_false {A} (f : A -> bool) l : (forall x, In x l -> f x = false) -> filter f l = [].
Proof.
  induction l as [|a l IH]; intros H; cbn [filter]; auto.
  rewrite (H a) by (left; auto). apply IH. intros; apply H; right; auto.
Qed.

Lemma filter_filter' {A} (f g : A -> bool) l :
  filter g (filter f l) = filter (fun x => f x && g x) l.
Proof.
  induction l as [|a l IH]; cbn [filter]; auto.
  destruct (f a); cbn [filter andb]; [destruct (g a)|]; rewrite IH; reflexivity.
Qed.

Lemma forallb_false_exists {A} (f : A -> bool) l :
  forallb f l = false -> exists x, In x l /\ f x = false.
Proof.
  induction l as [|a l IH]; cbn [forallb]; [discriminate|].
  destruct (f a) eqn:E; cbn [andb]; intros H.
  - destruct (IH H) as [x [Hx Hf]]. exists x; split; [right|]; auto.
  - exists a; split; [left|]; auto.
Qed.

(* ---------------------------------------------------------------- strict sortedness *)
Lemma ssorted_cons2 x y l : ssorted (x :: y :: l) = (Z.ltb x y && ssorted (y :: l)).
Proof. reflexivity. Qed.

Lemma ssorted_cons_inv x l :
  ssorted (x :: l) = true -> ssorted l = true /\ Forall (fun y => x < y) l.
Proof.
  revert x; induction l as [|y l IH]; intros x H; [split; auto|].
  rewrite ssorted_cons2 in H. apply andb_true_iff in H as [Hxy Hs].
  split; auto. constructor; [lia|].
  destruct (IH y Hs) as [_ Hall]. eapply Forall_impl; [|exact Hall].
  cbn beta. intros; lia.
Qed.

Lemma ssorted_intro x l :
  ssorted l = true -> Forall (fun y => x < y) l -> ssorted (x :: l) = true.
Proof.
  destruct l as [|y l]; intros Hs Hall; [reflexivity|].
  rewrite ssorted_cons2. inversion Hall; subst. apply andb_true_iff; split; [lia|auto].
Qed.

Lemma ssorted_NoDup l : ssorted l = true -> NoDup l.
Proof.
  induction l as [|x l IH]; intros H; [constructor|].
  apply ssorted_cons_inv in H as [Hs Hall]. constructor; auto.
  intros Hin. rewrite Forall_forall in Hall. specialize (Hall x Hin). lia.
Qed.

Lemma ssorted_filter P l : ssorted l = true -> ssorted (filter P l) = true.
Proof.
  induction l as [|x l IH]; intros H; [reflexivity|].
  apply ssorted_cons_inv in H as [Hs Hall]. cbn [filter].
  destruct (P x); [|auto]. apply ssorted_intro; auto.
  rewrite Forall_forall in *. intros y Hy. apply filter_In in Hy as [Hy _]. auto.
Qed.

Lemma ssorted_map_filter {B} (P : Z * B -> bool) (l : list (Z * B)) :
  ssorted (map fst l) = true -> ssorted (map fst (filter P l)) = true.
Proof.
  induction l as [|x l IH]; intros H; [reflexivity|].
  cbn [map] in H. apply ssorted_cons_inv in H as [Hs Hall]. cbn [filter].
  destruct (P x); [|auto]. cbn [map]. apply ssorted_intro; auto.
  rewrite Forall_forall in *. intros y Hy. apply in_map_iff in Hy as [z [<- Hz]].
  apply filter_In in Hz as [Hz _]. apply Hall. apply in_map. exact Hz.
Qed.

(* ---------------------------------------------------------------- iota, sums *)
Lemma In_iota x n : In x (iota n) <-> 0 <= x < Z.of_nat n.
Proof.
  unfold iota. rewrite in_map_iff. split.
  - intros [k [<- Hk]]. apply in_seq in Hk. lia.
  - intros H. exists (Z.to_nat x). split; [lia|]. apply in_seq. lia.
Qed.

Lemma NoDup_iota n : NoDup (iota n).
Proof.
  unfold iota. apply Injective_map_NoDup; [|apply seq_NoDup].
  intros a b H. lia.
Qed.

Lemma iota_S n : iota (S n) = iota n ++ [Z.of_nat n].
Proof. unfold iota. rewrite seq_S, map_app. reflexivity. Qed.

Lemma ssorted_app_last l z :
  ssorted l = true -> (forall y, In y l -> y < z) -> ssorted (l ++ [z]) = true.
Proof.
  induction l as [|x l IH]; intros Hs Hlt; [reflexivity|].
  apply ssorted_cons_inv in Hs as [Hs Hall]. cbn [app]. apply ssorted_intro.
  - apply IH; auto. intros; apply Hlt; right; auto.
  - apply Forall_app; split; auto. constructor; [|constructor]. apply Hlt; left; auto.
Qed.

Lemma ssorted_iota n : ssorted (iota n) = true.
Proof.
  induction n as [|n IH]; [reflexivity|]. rewrite iota_S. apply ssorted_app_last; auto.
  intros y Hy. apply In_iota in Hy. lia.
Qed.

Lemma sumZ_cons x l : sumZ (x :: l) = x + sumZ l.
Proof. reflexivity. Qed.

Lemma sumZ_map_ext {A} (f g : A -> Z) l :
  (forall x, In x l -> f x = g x) -> sumZ (map f l) = sumZ (map g l).
Proof.
  induction l as [|a l IH]; intros H; cbn [map]; auto. rewrite !sumZ_cons.
  rewrite (H a) by (left; auto). rewrite IH by (intros; apply H; right; auto). reflexivity.
Qed.

Lemma sumZ_map_zero {A} (f : A -> Z) l : (forall x, In x l -> f x = 0) -> sumZ (map f l) = 0.
Proof.
  induction l as [|a l IH]; intros H; cbn [map]; auto. rewrite sumZ_cons.
  rewrite (H a) by (left; auto). rewrite IH by (intros; apply H; right; auto). reflexivity.
Qed.

Lemma sumZ_map_add {A} (f g : A -> Z) l :
  sumZ (map (fun x => f x + g x) l) = sumZ (map f l) + sumZ (map g l).
Proof. induction l as [|a l IH]; cbn [map]; [reflexivity|]. rewrite !sumZ_cons. lia. Qed.

Lemma sumZ_swap {A B} (h : A -> B -> Z) la lb :
  sumZ (map (fun x => sumZ (map (fun y => h x y) lb)) la)
  = sumZ (map (fun y => sumZ (map (fun x => h x y) la)) lb).
Proof.
  induction la as [|a la IH]; cbn [map].
  - rewrite sumZ_map_zero; auto.
  - rewrite sumZ_cons, IH.
    rewrite <- sumZ_map_add. apply sumZ_map_ext. intros y _. reflexivity.
Qed.

Lemma sumZ_perm l l' : Permutation l l' -> sumZ l = sumZ l'.
Proof.
  induction 1; auto; rewrite ?sumZ_cons in *; try lia.
Qed.

Lemma sumZ_filter_split {A} (G : A -> Z) (P : A -> bool) l :
  sumZ (map G l) = sumZ (map G (filter P l)) + sumZ (map G (filter (fun x => negb (P x)) l)).
Proof.
  induction l as [|a l IH]; [reflexivity|]. cbn [map filter].
  destruct (P a); cbn [negb map]; rewrite !sumZ_cons; lia.
Qed.

(* the sum over a duplicate-free set of in-range coordinates outside of which G vanishes is
   the sum over the whole range *)
Lemma sum_support (G : Z -> Z) cs n :
  NoDup cs -> (forall c, In c cs -> 0 <= c < Z.of_nat n) ->
  (forall x, 0 <= x < Z.of_nat n -> ~ In x cs -> G x = 0) ->
  sumZ (map G cs) = sumZ (map G (iota n)).
Proof.
  intros Hnd Hin Hz.
  rewrite (sumZ_filter_split G (fun x => memZ x cs) (iota n)).
  rewrite (sumZ_map_zero G (filter (fun x => negb (memZ x cs)) (iota n))).
  2:{ intros x Hx. apply filter_In in Hx as [Hx Hm]. apply In_iota in Hx.
      apply Hz; auto. apply memZ_false. destruct (memZ x cs); [discriminate|reflexivity]. }
  rewrite Z.add_0_r. apply sumZ_perm. apply Permutation_map.
  apply NoDup_Permutation; auto.
  - apply NoDup_filter. apply NoDup_iota.
  - intros x. rewrite filter_In, In_iota, memZ_In. split; [|tauto]. intros H; split; auto.
Qed.

Lemma prodZ_cons x l : prodZ (x :: l) = x * prodZ l.
Proof. reflexivity. Qed.

Lemma prodZ_zero l : In 0 l -> prodZ l = 0.
Proof.
  induction l as [|x l IH]; intros H; [destruct H|]. rewrite prodZ_cons.
  destruct H as [->|H]; [lia|]. rewrite IH; auto. lia.
Qed.

(* ---------------------------------------------------------------- environments and dsum *)
Definition env_eq (e e' : env) : Prop := forall l, getv e l = getv e' l.
Definition respects (f : env -> Z) : Prop := forall e e', env_eq e e' -> f e = f e'.

Lemma getv_cons v x e l : getv ((v, x) :: e) l = if Nat.eqb l v then x else getv e l.
Proof. reflexivity. Qed.

Lemma getv_combine_map (g : lvar -> Z) l x : In x l -> getv (combine l (map g l)) x = g x.
Proof.
  induction l as [|y l IH]; intros H; [destruct H|]. cbn [map combine]. rewrite getv_cons.
  destruct (Nat.eqb_spec x y); [subst; auto|]. destruct H; [congruence|auto].
Qed.

Lemma map_getv_combine l : forall p, NoDup l -> length p = length l ->
  map (getv (combine l p)) l = p.
Proof.
  induction l as [|y l IH]; intros [|c p] Hnd Hlen; try discriminate; [reflexivity|].
  cbn [combine map]. rewrite getv_cons, Nat.eqb_refl. f_equal.
  inversion Hnd; subst. rewrite <- (IH p) at 2 by (auto; cbn in Hlen; lia).
  apply map_ext_in. intros a Ha. rewrite getv_cons.
  destruct (Nat.eqb_spec a y); [subst; contradiction|reflexivity].
Qed.

Lemma dsum_cons v vs sh e f :
  dsum (v :: vs) sh e f = sumZ (map (fun x => dsum vs sh ((v, x) :: e) f) (iota (sh v))).
Proof. reflexivity. Qed.

Lemma dsum_ext vs sh : forall e f g,
  (forall e', (forall l, ~ In l vs -> getv e' l = getv e l) -> f e' = g e') ->
  dsum vs sh e f = dsum vs sh e g.
Proof.
  induction vs as [|v vs IH]; intros e f g H; [apply H; auto|].
  rewrite !dsum_cons. apply sumZ_map_ext. intros x _. apply IH.
  intros e' He'. apply H. intros l Hl. rewrite He' by (intro; apply Hl; right; auto).
  rewrite getv_cons. destruct (Nat.eqb_spec l v); [subst; exfalso; apply Hl; left; auto|auto].
Qed.

(* inside the sum every summed variable is bound to a value in its range *)
Lemma dsum_ext_range vs sh : forall e f g,
  (forall e', (forall l, ~ In l vs -> getv e' l = getv e l) ->
              (forall l, In l vs -> 0 <= getv e' l < Z.of_nat (sh l)) -> f e' = g e') ->
  NoDup vs ->
  dsum vs sh e f = dsum vs sh e g.
Proof.
  induction vs as [|v vs IH]; intros e f g H Hnd; [apply H; auto; intros l []|].
  inversion Hnd; subst.
  rewrite !dsum_cons. apply sumZ_map_ext. intros x Hx. apply In_iota in Hx. apply IH; auto.
  intros e' He' Hr. apply H.
  - intros l Hl. rewrite He' by (intro; apply Hl; right; auto).
    rewrite getv_cons. destruct (Nat.eqb_spec l v); [subst; exfalso; apply Hl; left; auto|auto].
  - intros l [<-|Hl]; [|auto]. rewrite He' by auto. rewrite getv_cons, Nat.eqb_refl. exact Hx.
Qed.

Lemma dsum_const0 vs sh : forall e, dsum vs sh e (fun _ => 0) = 0.
Proof.
  induction vs as [|v vs IH]; intros e; [reflexivity|].
  rewrite dsum_cons. apply sumZ_map_zero. intros; apply IH.
Qed.

Lemma dsum_zero vs sh e f :
  (forall e', (forall l, ~ In l vs -> getv e' l = getv e l) -> f e' = 0) -> dsum vs sh e f = 0.
Proof. intros H. rewrite (dsum_ext vs sh e f (fun _ => 0)); auto. apply dsum_const0. Qed.

Lemma dsum_respects vs sh f : respects f ->
  forall e e', env_eq e e' -> dsum vs sh e f = dsum vs sh e' f.
Proof.
  intros Hf. induction vs as [|v vs IH]; intros e e' He; [apply Hf; auto|].
  rewrite !dsum_cons. apply sumZ_map_ext. intros x _. apply IH.
  intros l. rewrite !getv_cons. destruct (Nat.eqb l v); auto.
Qed.

Lemma dsum_swap v w vs sh e f : v <> w -> respects f ->
  dsum (v :: w :: vs) sh e f = dsum (w :: v :: vs) sh e f.
Proof.
  intros Hvw Hf. rewrite (dsum_cons v), (dsum_cons w).
  erewrite sumZ_map_ext. 2:{ intros x _. rewrite dsum_cons. reflexivity. }
  rewrite sumZ_swap. apply sumZ_map_ext. intros y _. rewrite dsum_cons.
  apply sumZ_map_ext. intros x _. apply dsum_respects; auto.
  intros l. rewrite !getv_cons.
  destruct (Nat.eqb_spec l w), (Nat.eqb_spec l v); auto. congruence.
Qed.

(* Fubini: the nested range sums can be taken in any order *)
Lemma dsum_perm sh f : respects f ->
  forall vs vs', Permutation vs vs' -> NoDup vs -> forall e, dsum vs sh e f = dsum vs' sh e f.
Proof.
  intros Hf vs vs' HP. induction HP as [|x l l' HP IH|x y l|l l' l'' HP1 IH1 HP2 IH2];
    intros Hnd e.
  - reflexivity.
  - inversion Hnd; subst. rewrite !dsum_cons. apply sumZ_map_ext. intros; apply IH; auto.
  - apply dsum_swap; auto. inversion Hnd; subst. intros ->. apply H1. left; auto.
  - rewrite IH1 by auto. apply IH2. eapply Permutation_NoDup; eauto.
Qed.
