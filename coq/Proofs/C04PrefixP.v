(* C04PrefixP.v — the mixed-arity path of __and__ (iterators.py:725-756): the operand with the
   shorter tuple coordinates is projected to ANY-padded coordinates and is not advanced on a
   match; the result is the longer operand's elements whose prefix is in the shorter one. *)
From Coq Require Import ZArith List Bool Lia Sorted.
From FT Require Import Model.Base Model.Obs Model.C04Coiter Model.C04Check
                       Proofs.C04CoiterP Proofs.C04LexP.
Import ListNotations.
Open Scope Z_scope.

Notation lclt := (clt lex_ltb).

(* ---------------------------------------------------------------- ANY-padded comparisons *)

Lemma pad_eqb_repeat n : forall cb, length cb = n -> pad_eqb (repeat None n) cb = true.
Proof.
  induction n as [|n IH]; intros [|y cb] H; try discriminate; [reflexivity|].
  cbn [repeat pad_eqb]. apply IH. simpl in H. lia.
Qed.

Lemma pad_ltb_repeat n : forall cb, length cb = n -> pad_ltb (repeat None n) cb = false.
Proof.
  induction n as [|n IH]; intros [|y cb] H; try discriminate; [reflexivity|].
  cbn [repeat pad_ltb]. apply IH. simpl in H. lia.
Qed.

Lemma ltb_pad_repeat n : forall ca, length ca = n -> ltb_pad ca (repeat None n) = false.
Proof.
  induction n as [|n IH]; intros [|y ca] H; try discriminate; [reflexivity|].
  cbn [repeat ltb_pad]. apply IH. simpl in H. lia.
Qed.

Lemma pad_cons n x c : pad n (x :: c) = Some x :: pad n c.
Proof. reflexivity. Qed.

(* (c + (ANY,)*n) == cb  iff  c is the prefix of cb *)
Lemma pad_eqb_pad n : forall ca cb,
  length cb = (length ca + n)%nat ->
  pad_eqb (pad n ca) cb = lex_eqb ca (firstn (length ca) cb).
Proof.
  induction ca as [|x ca IH]; intros cb H.
  - cbn [length firstn lex_eqb]. apply pad_eqb_repeat. exact H.
  - destruct cb as [|y cb]; [discriminate|].
    rewrite pad_cons. cbn [length firstn pad_eqb lex_eqb]. rewrite IH; [reflexivity|].
    simpl in H. lia.
Qed.

(* (c + (ANY,)*n) < cb  iff  c < prefix of cb *)
Lemma pad_ltb_pad n : forall ca cb,
  length cb = (length ca + n)%nat ->
  pad_ltb (pad n ca) cb = lex_ltb ca (firstn (length ca) cb).
Proof.
  induction ca as [|x ca IH]; intros cb H.
  - cbn [length firstn lex_ltb]. apply pad_ltb_repeat. exact H.
  - destruct cb as [|y cb]; [discriminate|].
    rewrite pad_cons. cbn [length firstn pad_ltb lex_ltb]. rewrite IH; [reflexivity|].
    simpl in H. lia.
Qed.

(* ca < (c + (ANY,)*n)  iff  prefix of ca < c *)
Lemma ltb_pad_pad n : forall cb ca,
  length ca = (length cb + n)%nat ->
  ltb_pad ca (pad n cb) = lex_ltb (firstn (length cb) ca) cb.
Proof.
  induction cb as [|y cb IH]; intros ca H.
  - cbn [length firstn lex_ltb]. apply ltb_pad_repeat. exact H.
  - destruct ca as [|x ca]; [discriminate|].
    rewrite pad_cons. cbn [length firstn ltb_pad lex_ltb]. rewrite IH; [reflexivity|].
    simpl in H. lia.
Qed.

(* prefixes of ascending tuples do not descend *)
Lemma lex_prefix_mono k : forall x y,
  lex_ltb x y = true -> lex_ltb (firstn k y) (firstn k x) = false.
Proof.
  induction k as [|k IH]; intros x y H; [reflexivity|].
  destruct x as [|a x], y as [|b y]; try discriminate.
  - cbn [firstn]. destruct (firstn k y); reflexivity.
  - cbn [firstn lex_ltb] in *.
    destruct (Z.eqb_spec a b) as [->|N].
    + rewrite Z.eqb_refl. apply IH. exact H.
    + destruct (Z.eqb_spec b a); [congruence|].
      apply Z.ltb_lt in H. apply Z.ltb_ge. lia.
Qed.

(* ---------------------------------------------------------------- the two loops *)

Section Prefix.
  Context {P Q : Type}.

  Definition alllen {X} (n : nat) (s : list (coord * X)) : Prop :=
    Forall (fun cp => length (fst cp) = n) s.

  (* the longer operand's element cq, if its prefix of length la is in sa *)
  Definition pmatch_l (la : nat) (sa : list (coord * P)) (cq : coord * Q)
    : list (coord * (P * Q)) :=
    match llookup (firstn la (fst cq)) sa with
    | Some p => [(fst cq, (p, snd cq))]
    | None => []
    end.

  Definition pmatch_r (lb : nat) (sb : list (coord * Q)) (cp : coord * P)
    : list (coord * (P * Q)) :=
    match llookup (firstn lb (fst cp)) sb with
    | Some q => [(fst cp, (snd cp, q))]
    | None => []
    end.

  Lemma and_merge_l_cons (ca : pcoord) (pa : P) a cb (pb : Q) b :
    and_merge_l ((ca, pa) :: a) ((cb, pb) :: b) =
    if pad_eqb ca cb then (cb, (pa, pb)) :: and_merge_l ((ca, pa) :: a) b
    else if pad_ltb ca cb then and_merge_l a ((cb, pb) :: b)
    else and_merge_l ((ca, pa) :: a) b.
  Proof. reflexivity. Qed.

  Lemma and_merge_r_cons ca (pa : P) a (cb : pcoord) (pb : Q) b :
    and_merge_r ((ca, pa) :: a) ((cb, pb) :: b) =
    if pad_eqb cb ca then (ca, (pa, pb)) :: and_merge_r a ((cb, pb) :: b)
    else if ltb_pad ca cb then and_merge_r a ((cb, pb) :: b)
    else and_merge_r ((ca, pa) :: a) b.
  Proof. reflexivity. Qed.

  Lemma flat_map_nil_all {A B} (f : A -> list B) l :
    (forall x, In x l -> f x = []) -> flat_map f l = [].
  Proof.
    induction l as [|x l IH]; intros H; [reflexivity|]. cbn [flat_map].
    rewrite (H x (or_introl eq_refl)), IH; [reflexivity|]. intros y Hy. apply H. right. exact Hy.
  Qed.

  Lemma flat_map_ext_in {A B} (f g : A -> list B) l :
    (forall x, In x l -> f x = g x) -> flat_map f l = flat_map g l.
  Proof.
    induction l as [|x l IH]; intros H; [reflexivity|]. cbn [flat_map].
    rewrite (H x (or_introl eq_refl)), IH; [reflexivity|]. intros y Hy. apply H. right. exact Hy.
  Qed.

  Lemma llookup_cons_ne {X} c c' (p : X) l :
    lex_eqb c c' = false -> llookup c ((c', p) :: l) = llookup c l.
  Proof. intros E. unfold llookup. cbn [alookup]. rewrite E. reflexivity. Qed.

  Lemma llookup_below {X} c k (l : list (coord * X)) :
    Forall (lclt k) (map fst l) -> (c = k \/ lex_ltb c k = true) -> llookup c l = None.
  Proof.
    apply (alookup_below lex_eqb lex_ltb lex_eqb_spec lex_ltb_irrefl lex_ltb_trans).
  Qed.

  (* a shorter: a & b = b's elements whose prefix is in a, with a's payload at the prefix *)
  Theorem and_merge_l_spec la n (sa : list (coord * P)) : forall (b : list (coord * Q)),
    lsorted sa -> alllen la sa -> lsorted b -> alllen (la + n) b ->
    and_merge_l (project_pad n sa) b = flat_map (pmatch_l la sa) b.
  Proof.
    induction sa as [|[ca pa] sa IHa]; intros b Ha La Hb Lb.
    - cbn [project_pad map]. rewrite flat_map_nil_all; [destruct b as [|[? ?] ?]; reflexivity|].
      intros x _. reflexivity.
    - pose proof (ksorted_hd _ _ _ _ Ha) as Fa. pose proof (ksorted_tl _ _ _ Ha) as Ha'.
      pose proof (Forall_inv La) as Lca. pose proof (Forall_inv_tail La) as La'.
      cbn [fst] in Lca. subst la.
      induction b as [|[cb pb] b IHb]; [reflexivity|].
      pose proof (ksorted_hd _ _ _ _ Hb) as Fb. pose proof (ksorted_tl _ _ _ Hb) as Hb'.
      pose proof (Forall_inv Lb) as Lcb. pose proof (Forall_inv_tail Lb) as Lb'.
      cbn [fst] in Lcb.
      cbn [project_pad map fst snd]. rewrite and_merge_l_cons.
      fold (project_pad n sa).
      change ((pad n ca, pa) :: project_pad n sa) with (project_pad n ((ca, pa) :: sa)).
      rewrite (pad_eqb_pad n ca cb Lcb), (pad_ltb_pad n ca cb Lcb).
      cbn [flat_map]. unfold pmatch_l at 1. cbn [fst snd].
      destruct (lex_eqb ca (firstn (length ca) cb)) eqn:E.
      + apply lex_eqb_spec in E. rewrite <- E. unfold llookup at 1. cbn [alookup].
        rewrite lex_eqb_refl. cbn [app]. f_equal. apply IHb; assumption.
      + destruct (lex_ltb ca (firstn (length ca) cb)) eqn:L.
        * (* ca is below every prefix of b: ca matches nothing *)
          rewrite (IHa _ Ha' La' Hb Lb).
          assert (Hne : forall cq, In cq ((cb, pb) :: b) ->
                                   lex_eqb (firstn (length ca) (fst cq)) ca = false).
          { intros cq [<-|Hin]; cbn [fst]; [rewrite lex_eqb_sym; exact E|].
            destruct (lex_eqb (firstn (length ca) (fst cq)) ca) eqn:E'; [|reflexivity].
            apply lex_eqb_spec in E'. exfalso.
            rewrite Forall_forall in Fb.
            pose proof (Fb (fst cq) (in_map fst _ _ Hin)) as Lt.
            pose proof (lex_prefix_mono (length ca) _ _ Lt) as M. rewrite E' in M.
            rewrite L in M. discriminate. }
          rewrite llookup_cons_ne by (apply (Hne (cb, pb)); left; reflexivity).
          change (match llookup (firstn (length ca) cb) sa with
                  | Some p => [(cb, (p, pb))] | None => [] end ++ flat_map (pmatch_l (length ca) ((ca, pa) :: sa)) b)
            with (pmatch_l (length ca) sa (cb, pb) ++ flat_map (pmatch_l (length ca) ((ca, pa) :: sa)) b).
          cbn [flat_map]. f_equal.
          apply flat_map_ext_in. intros cq Hin. unfold pmatch_l.
          rewrite llookup_cons_ne by (apply Hne; right; exact Hin). reflexivity.
        * (* the prefix of cb is below ca, hence below all of sa: cb matches nothing *)
          pose proof (lex_ltb_total _ _ E L) as Lt.
          rewrite llookup_cons_ne by (rewrite lex_eqb_sym; exact E).
          rewrite (llookup_below _ ca sa Fa (or_intror Lt)). cbn [app].
          apply IHb; assumption.
  Qed.

  (* b shorter: a & b = a's elements whose prefix is in b, with b's payload at the prefix *)
  Theorem and_merge_r_spec lb n (a : list (coord * P)) : forall (sb : list (coord * Q)),
    lsorted a -> alllen (lb + n) a -> lsorted sb -> alllen lb sb ->
    and_merge_r a (project_pad n sb) = flat_map (pmatch_r lb sb) a.
  Proof.
    induction a as [|[ca pa] a IHa]; intros sb Ha La Hb Lb;
      [destruct (project_pad n sb) as [|[? ?] ?]; reflexivity|].
    pose proof (ksorted_hd _ _ _ _ Ha) as Fa. pose proof (ksorted_tl _ _ _ Ha) as Ha'.
    pose proof (Forall_inv La) as Lca. pose proof (Forall_inv_tail La) as La'.
    cbn [fst] in Lca.
    induction sb as [|[cb pb] sb IHb].
    - cbn [project_pad map]. rewrite flat_map_nil_all; [reflexivity|]. intros x _. reflexivity.
    - pose proof (ksorted_hd _ _ _ _ Hb) as Fb. pose proof (ksorted_tl _ _ _ Hb) as Hb'.
      pose proof (Forall_inv Lb) as Lcb. pose proof (Forall_inv_tail Lb) as Lb'.
      cbn [fst] in Lcb. subst lb.
      cbn [project_pad map fst snd]. rewrite and_merge_r_cons.
      fold (project_pad n sb).
      change ((pad n cb, pb) :: project_pad n sb) with (project_pad n ((cb, pb) :: sb)).
      rewrite (pad_eqb_pad n cb ca Lca), (ltb_pad_pad n cb ca Lca).
      cbn [flat_map]. unfold pmatch_r at 1. cbn [fst snd].
      destruct (lex_eqb cb (firstn (length cb) ca)) eqn:E.
      + apply lex_eqb_spec in E. rewrite <- E. unfold llookup at 1. cbn [alookup].
        rewrite lex_eqb_refl. cbn [app]. f_equal. apply IHa; assumption.
      + destruct (lex_ltb (firstn (length cb) ca) cb) eqn:L.
        * (* the prefix of ca is below all of sb *)
          rewrite llookup_cons_ne by (rewrite lex_eqb_sym; exact E).
          rewrite (llookup_below _ cb sb Fb (or_intror L)). cbn [app].
          apply IHa; assumption.
        * (* cb is below the prefix of ca and of everything after it: cb matches nothing *)
          rewrite lex_eqb_sym in E. pose proof (lex_ltb_total _ _ E L) as Lt.
          rewrite (IHb Hb' Lb').
          assert (Hne : forall cp, In cp ((ca, pa) :: a) ->
                                   lex_eqb (firstn (length cb) (fst cp)) cb = false).
          { intros cp [<-|Hin]; cbn [fst]; [exact E|].
            destruct (lex_eqb (firstn (length cb) (fst cp)) cb) eqn:E'; [|reflexivity].
            apply lex_eqb_spec in E'. exfalso.
            rewrite Forall_forall in Fa.
            pose proof (Fa (fst cp) (in_map fst _ _ Hin)) as Lt'.
            pose proof (lex_prefix_mono (length cb) _ _ Lt') as M. rewrite E' in M.
            rewrite Lt in M. discriminate. }
          change (match llookup (firstn (length cb) ca) ((cb, pb) :: sb) with
                  | Some q => [(ca, (pa, q))] | None => [] end
                  ++ flat_map (pmatch_r (length cb) ((cb, pb) :: sb)) a)
            with (flat_map (pmatch_r (length cb) ((cb, pb) :: sb)) ((ca, pa) :: a)).
          apply flat_map_ext_in. intros cp Hin. unfold pmatch_r.
          rewrite llookup_cons_ne by (apply Hne; exact Hin). reflexivity.
  Qed.
End Prefix.
