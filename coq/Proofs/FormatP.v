(* Proofs about Model/Format.v (C18). *)
From Coq Require Import ZArith List Bool Lia.
From FT Require Import Model.Base Model.Format.
Import ListNotations.
Open Scope Z_scope.

Lemma sumZ_app a b : sumZ (a ++ b) = sumZ a + sumZ b.
Proof. induction a as [|x a IH]; simpl; [reflexivity|]. rewrite IH. lia. Qed.

Lemma sumZ_rev a : sumZ (rev a) = sumZ a.
Proof. induction a as [|x a IH]; simpl; [reflexivity|]. rewrite sumZ_app, IH. simpl. lia. Qed.

Lemma sumnat_app a b :
  fold_right Nat.add O (a ++ b) = (fold_right Nat.add O a + fold_right Nat.add O b)%nat.
Proof. induction a as [|x a IH]; simpl; [reflexivity|]. rewrite IH. lia. Qed.

Lemma sumnat_rev a : fold_right Nat.add O (rev a) = fold_right Nat.add O a.
Proof. induction a as [|x a IH]; simpl; [reflexivity|]. rewrite sumnat_app, IH. simpl. lia. Qed.

(* ---- fiber footprint: the formula of the property ---- *)
Lemma fiber_fp_formula s shape es :
  fiber_fp s shape es =
  fh s + (cb s + pb s) * (if isU s then shape else Z.of_nat (length es)).
Proof. unfold fiber_fp. destruct (isU s); lia. Qed.

(* ---- worklist = recursive sum ---- *)
Definition item_fp (d : Z) (it : list rk * fib) : Z := sub_fp d (fst it) (snd it).
Definition item_cnt (d : Z) (it : list rk * fib) : nat := reach_count d (fst it) (snd it).
Definition item_ok (it : list rk * fib) : Prop := fst it <> [].

Lemma kids_ok d s shape rs' es :
  Forall item_ok (map (fun f => (rs', f)) (child_fibers d s shape (is_nil rs') es)).
Proof.
  destruct rs' as [|r rs'].
  - unfold child_fibers. simpl. constructor.
  - apply Forall_forall. intros it Hin. apply in_map_iff in Hin.
    destruct Hin as [f [<- _]]. unfold item_ok. simpl. discriminate.
Qed.

Lemma reach_count_pos d rs es : (1 <= reach_count d rs es)%nat.
Proof. destruct rs as [|[s shape] rs']; simpl; lia. Qed.

Lemma subtree_loop_spec d : forall fuel stack total,
  Forall item_ok stack ->
  (fold_right Nat.add O (map (item_cnt d) stack) <= fuel)%nat ->
  subtree_loop d fuel stack total = Some (total + sumZ (map (item_fp d) stack)).
Proof.
  induction fuel as [|fuel IH]; intros stack total Hok Hfuel.
  - destruct stack as [|[rs es] rest]; simpl.
    + f_equal. lia.
    + exfalso. cbn [map fold_right] in Hfuel. unfold item_cnt in Hfuel at 1.
      cbn [fst snd] in Hfuel. pose proof (reach_count_pos d rs es). lia.
  - destruct stack as [|[rs es] rest]; simpl.
    + f_equal. lia.
    + inversion Hok as [|? ? Hit Hrest]; subst.
      destruct rs as [|[s shape] rs']; [exfalso; apply Hit; reflexivity|].
      rewrite IH.
      * f_equal. rewrite map_app, sumZ_app, map_rev, sumZ_rev.
        rewrite map_map.
        change (map (fun x : fib => item_fp d (rs', x))) with (map (sub_fp d rs')).
        cbn [map sumZ fold_right]. unfold item_fp. cbn [fst snd sub_fp]. lia.
      * apply Forall_app. split; [|assumption].
        apply Forall_rev. apply kids_ok.
      * rewrite map_app, sumnat_app, map_rev, sumnat_rev.
        rewrite map_map.
        change (map (fun x : fib => item_cnt d (rs', x))) with (map (reach_count d rs')).
        cbn [map fold_right] in Hfuel. unfold item_cnt in *.
        cbn [fst snd reach_count] in Hfuel. lia.
Qed.

Lemma get_subtree_loop d rs es :
  rs <> [] ->
  subtree_loop d (reach_count d rs es) [(rs, es)] 0 = Some (sub_fp d rs es).
Proof.
  intros Hrs. rewrite subtree_loop_spec.
  - simpl. unfold item_fp. simpl. f_equal. lia.
  - constructor; [exact Hrs|constructor].
  - simpl. unfold item_cnt. simpl. lia.
Qed.

(* ---- rank lists (level-wise) = tree sum ---- *)
Definition fibers_fp (r : rk) (fs : list fib) : Z :=
  sumZ (map (fiber_fp (fst r) (snd r)) fs).

Lemma fold_left_fp r fs total :
  fold_left (fun tot f => tot + fiber_fp (fst r) (snd r) f) fs total
  = total + fibers_fp r fs.
Proof.
  revert total; induction fs as [|f fs IH]; intros total; simpl.
  - unfold fibers_fp. simpl. lia.
  - rewrite IH. unfold fibers_fp. simpl. lia.
Qed.

Lemma rank_fp_sum k r t : rank_fp k r t = rh (fst r) + fibers_fp r (level k t).
Proof. unfold rank_fp. apply fold_left_fp. Qed.

Fixpoint lsum (k : nat) (rs : list rk) (t : tree) : Z :=
  match rs with
  | [] => 0
  | r :: rs' => fibers_fp r (level k t) + lsum (S k) rs' t
  end.

Lemma ranks_fp_lsum : forall rs k t total,
  ranks_fp k rs t total = total + sumZ (map (fun r => rh (fst r)) rs) + lsum k rs t.
Proof.
  induction rs as [|r rs IH]; intros k t total; simpl; [lia|].
  rewrite IH, rank_fp_sum. lia.
Qed.

Lemma fibers_fp_app r a b : fibers_fp r (a ++ b) = fibers_fp r a + fibers_fp r b.
Proof. unfold fibers_fp. rewrite map_app, sumZ_app. reflexivity. Qed.

Lemma fibers_fp_flat_map r (g : Z * tree -> list fib) es :
  fibers_fp r (flat_map g es) = sumZ (map (fun ct => fibers_fp r (g ct)) es).
Proof.
  induction es as [|ct es IH]; simpl; [reflexivity|].
  rewrite fibers_fp_app, IH. reflexivity.
Qed.

Lemma sumZ_map_add {A} (f g : A -> Z) l :
  sumZ (map (fun x => f x + g x) l) = sumZ (map f l) + sumZ (map g l).
Proof. induction l as [|x l IH]; simpl; [reflexivity|]. rewrite IH. lia. Qed.

Lemma lsum_leaf rs : forall k v, lsum k rs (Leaf v) = 0.
Proof.
  induction rs as [|r rs IH]; intros k v; simpl; [reflexivity|]. rewrite IH.
  destruct k; reflexivity.
Qed.

Lemma lsum_S rs : forall k es,
  lsum (S k) rs (Node es) = sumZ (map (fun ct => lsum k rs (snd ct)) es).
Proof.
  induction rs as [|r rs IH]; intros k es; simpl.
  - induction es as [|ct es IHes]; simpl; [reflexivity|]. rewrite <- IHes. reflexivity.
  - rewrite IH, fibers_fp_flat_map, <- sumZ_map_add. reflexivity.
Qed.

Lemma sumZ_map_ext_in {A} (f g : A -> Z) l :
  (forall x, In x l -> f x = g x) -> sumZ (map f l) = sumZ (map g l).
Proof. intros H. f_equal. apply map_ext_in. exact H. Qed.

Lemma lsum_all_fp : forall rs t, lsum 0 rs t = all_fp rs t.
Proof.
  induction rs as [|[s shape] rs IH]; intros t; simpl; [reflexivity|].
  destruct t as [v|es]; simpl.
  - rewrite lsum_leaf. reflexivity.
  - rewrite lsum_S. unfold fibers_fp. simpl.
    rewrite (sumZ_map_ext_in (fun ct => lsum 0 rs (snd ct)) (fun ct => all_fp rs (snd ct))).
    + lia.
    + intros ct _. apply IH.
Qed.

Lemma tensor_fp_tree_sum root rs t :
  tensor_fp root rs t = root_fp root + sumZ (map (fun r => rh (fst r)) rs) + all_fp rs t.
Proof. unfold tensor_fp. rewrite ranks_fp_lsum, lsum_all_fp. reflexivity. Qed.

(* tensor = root + sum over ranks (the statement as worded) *)
Lemma tensor_fp_ranks root rs t :
  tensor_fp root rs t
  = root_fp root + sumZ (map (fun kr => rank_fp (fst kr) (snd kr) t)
                             (combine (seq 0 (length rs)) rs)).
Proof.
  unfold tensor_fp. generalize (root_fp root) as total. generalize 0%nat as k.
  induction rs as [|r rs IH]; intros k total; simpl; [lia|].
  rewrite IH. lia.
Qed.

(* ---- canonical all-compressed trees: the sub-tree of the root is the whole tensor ---- *)
Fixpoint no_empty_sub (d : Z) (t : tree) : bool :=
  match t with
  | Leaf _ => true
  | Node es => forallb (fun ct => match snd ct with
                                  | Leaf _ => true
                                  | Node _ => negb (is_empty d (snd ct)) && no_empty_sub d (snd ct)
                                  end) es
  end.

Lemma present_all d es :
  forallb (fun ct => match snd ct with
                     | Leaf _ => true
                     | Node _ => negb (is_empty d (snd ct)) && no_empty_sub d (snd ct)
                     end) es = true ->
  flat_map (fun ct => as_fib (snd ct)) (present d es)
  = flat_map (fun ct => as_fib (snd ct)) es.
Proof.
  induction es as [|[c t] es IH]; simpl; intros H; [reflexivity|].
  apply andb_true_iff in H. destruct H as [Ht Hes]. specialize (IH Hes).
  destruct t as [v|es']; simpl in *.
  - destruct (negb (v =? d)); simpl; exact IH.
  - apply andb_true_iff in Ht. destruct Ht as [Hne _]. simpl in Hne.
    rewrite Hne. simpl. rewrite IH. reflexivity.
Qed.

Lemma sumZ_zero {A} (l : list A) : sumZ (map (fun _ => 0) l) = 0.
Proof. induction l as [|x l IH]; simpl; [reflexivity|]. rewrite IH. reflexivity. Qed.

Lemma all_fp_nil t : all_fp [] t = 0.
Proof. reflexivity. Qed.

Lemma sub_fp_all_fp d : forall rs es,
  forallb (fun r => negb (isU (fst r))) rs = true ->
  depth_ok (length rs) (Node es) = true ->
  no_empty_sub d (Node es) = true ->
  sub_fp d rs es = all_fp rs (Node es).
Proof.
  induction rs as [|[s shape] rs IH]; intros es HC Hd Hne; [reflexivity|].
  cbn [sub_fp all_fp]. f_equal.
  cbn [forallb fst] in HC. apply andb_true_iff in HC. destruct HC as [Hs HC].
  destruct rs as [|r rs'].
  - unfold child_fibers. cbn [is_nil]. cbn [map sumZ fold_right].
    symmetry. apply sumZ_zero.
  - unfold child_fibers. cbn [is_nil].
    destruct (isU s); [discriminate|].
    cbn [no_empty_sub] in Hne. rewrite (present_all d es Hne).
    cbn [length depth_ok] in Hd.
    set (rs0 := r :: rs') in *.
    assert (Hlen : length rs0 = S (length rs')) by reflexivity.
    clear Hs. induction es as [|[c t] es IHes]; [reflexivity|].
    cbn [forallb snd] in Hd, Hne.
    apply andb_true_iff in Hd. destruct Hd as [Hdt Hd].
    apply andb_true_iff in Hne. destruct Hne as [Hnt Hne].
    cbn [flat_map map snd]. rewrite map_app, sumZ_app, (IHes Hd Hne).
    cbn [sumZ fold_right]. f_equal.
    destruct t as [v|es'].
    + discriminate.
    + cbn [as_fib map sumZ fold_right]. apply andb_true_iff in Hnt.
      destruct Hnt as [_ Hnt]. rewrite (IH es' HC); [lia| |exact Hnt].
      exact Hdt.
Qed.
