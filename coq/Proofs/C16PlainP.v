(* C16PlainP.v — the nest specification instantiated for `for c, p in <eager fiber>` levels, and
   by induction for every nest made of such levels (any depth, any operand trees, including
   explicit defaults and empty sub-fibers, any set of traces). *)
From Coq Require Import ZArith List Bool Lia ZifyBool.
From FT Require Import Model.Base Model.Obs Model.C16Metrics Model.C16Nest Model.C16Check
                       Proofs.C16MetricsP Proofs.C16CoreP Proofs.C16RefP Proofs.C16NestP.
Import ListNotations.
Open Scope Z_scope.

Section WithZZ.
Context {zz : ZZ}.

Fixpoint enum_items (v : Z) (items : list item) : list (Z * Z * Z) :=
  match items with
  | [] => []
  | it :: r => (v, it_c it, it_j it) :: enum_items (v + 1) r
  end.

Lemma ltrace_simple : forall i items,
  Forall (fun it => it_pre it = [] /\ it_post it = []) items ->
  forall v s kind label,
  ltrace (v, s) (skels i items) kind label
  = (if (K_ITER =? kind) && (0 =? label) then enum_items v items else [])
  /\ lsafe (v, s) (skels i items) = true.
Proof.
  intros i items H. induction H as [|it items [Hp Hq] H IH]; intros v s kind label.
  - cbn [skels flat_map ltrace lsafe enum_items]. destruct ((K_ITER =? kind) && (0 =? label)); auto.
  - change (skels i (it :: items)) with (skel i it ++ skels i items). unfold skel. rewrite Hp, Hq.
    cbn [app ltrace lemit lstep lsafe fst snd]. destruct (IH (v + 1) s kind label) as [E1 E2].
    rewrite E1, E2. split; auto.
    destruct ((K_ITER =? kind) && (0 =? label)); reflexivity.
Qed.

Lemma chain_enum : forall items v,
  chain lex_lt (map (fun x : Z * Z * Z => [fst (fst x)]) (enum_items v items)) = true.
Proof.
  induction items as [|it items IH]; intros v; auto.
  destruct items as [|it2 items]; auto.
  change (lex_lt [v] [v + 1] && chain lex_lt (map (fun x : Z * Z * Z => [fst (fst x)])
                                                  (enum_items (v + 1) (it2 :: items))) = true).
  rewrite IH. cbn. lia.
Qed.

Lemma enum_addr : forall pt items v,
  map (fun x : Z * Z * Z => pt ++ [snd (fst x); snd x]) (enum_items v items)
  = map (fun it => pt ++ [it_c it; it_j it]) items.
Proof. induction items as [|it items IH]; intros v; cbn; auto. rewrite IH. reflexivity. Qed.

Definition noall (z : thr) : Prop := lb_all (th_lab z) = [].

(* label state between traversals: no rank matches, and the label counters of the ranks of
   level i and deeper are 0 (endIter resets them) *)
Definition cz (ls : lab) (r : Z) : Prop :=
  lookup_rm r (lb_cnt ls) = None \/ lookup_rm r (lb_cnt ls) = Some 0.
Definition labinv (i : nat) (z : thr) : Prop :=
  noall z /\ forall j, (i <= j)%nat -> cz (th_lab z) (Z.of_nat j).

Lemma iter_plain_facts : forall (Q : thr -> Prop) x e (body : body_t) pt es j z,
  (forall c e' z', Q z' -> Q (snd (body c e' z'))) -> Q z ->
  let items := fst (iter_plain true x e body es j z) in
  Forall (fun it => it_pre it = [] /\ it_post it = [] /\ Q (it_zin it)
                    /\ (exists t, In (it_c it, t) es /\ it_env it = set_nth x t e)
                    /\ it_body it = fst (body (it_c it) (it_env it) (it_zin it))) items
  /\ children pt items = map (fun ct => (pt ++ [fst ct], set_nth x (snd ct) e)) (offered es)
  /\ map (fun it => pt ++ [it_c it; it_j it]) items
     = flat_map (fun jc : Z * (Z * tree) => if is_empty 0 (snd (snd jc)) then []
                            else [addr pt (fst (snd jc)) (Some (fst jc))]) (enumZ es j)
  /\ Q (snd (iter_plain true x e body es j z)).
Proof.
  intros Q x e body pt es j z Hb. revert j z. induction es as [|[c t] es IH]; intros j z Hz.
  - cbn. repeat split; auto.
  - cbn [iter_plain enumZ flat_map fst snd andb]. unfold offered, present. cbn [filter snd].
    destruct (is_empty 0 t) eqn:E; cbn [negb].
    + destruct (IH (j + 1) z Hz) as (I1 & I2 & I3 & I4). split; [|split; [|split]]; auto.
      eapply Forall_impl; [|exact I1]. intros it (A & B & N & (t' & Hin & C) & D).
      repeat split; auto. exists t'. split; auto. right. exact Hin.
    + cbn [fst snd].
      destruct (IH (j + 1) (snd (body c (set_nth x t e) z)) (Hb _ _ _ Hz)) as (I1 & I2 & I3 & I4).
      split; [|split; [|split]]; auto.
      * constructor.
        { cbn. repeat split; auto. exists t. split; auto. }
        { eapply Forall_impl; [|exact I1]. intros it (A & B & N & (t' & Hin & C) & D).
          repeat split; auto. exists t'. split; auto. right. exact Hin. }
      * cbn [children map it_c it_env fst snd]. f_equal. exact I2.
      * cbn [map it_c it_j app]. f_equal. exact I3.
Qed.

Definition plain_level (L : level) : bool :=
  negb (l_pop L) && negb (l_ufmt L)
  && match l_src L with SFib _ => true | SAnd _ _ => false end
  && match l_proj L with None => true | Some _ => false end.

Lemma lookup_cnt_set : forall q r v m,
  lookup_rm q (cnt_set r v m) = if q =? r then Some v else lookup_rm q m.
Proof.
  intros q r v m. induction m as [|[r' v'] m IH]; cbn.
  - destruct (q =? r); reflexivity.
  - destruct (r =? r') eqn:E; cbn.
    + apply Z.eqb_eq in E. subst r'. destruct (q =? r); reflexivity.
    + rewrite IH. destruct (q =? r') eqn:E2; destruct (q =? r) eqn:E3; auto. lia.
Qed.

Lemma memZ_app : forall r l, memZ r (l ++ [r]) = true.
Proof. intros. unfold memZ. rewrite existsb_app. cbn. rewrite Z.eqb_refl, orb_true_r. reflexivity. Qed.

Lemma lab_reg_inv : forall i z, labinv i z ->
  let ls1 := snd (lab_reg (th_lab z) (Z.of_nat i)) in
  fst (lab_reg (th_lab z) (Z.of_nat i)) = []
  /\ labinv (S i) (with_lab z ls1) /\ memZ (Z.of_nat i) (lb_reg ls1) = true /\ cz ls1 (Z.of_nat i)
  /\ lb_all ls1 = [].
Proof.
  intros i z [Hn Hc]. unfold lab_reg. destruct (memZ (Z.of_nat i) (lb_reg (th_lab z))) eqn:E; cbn [fst snd].
  - split; [reflexivity|]. split; [split; [exact Hn|intros j Hj; apply Hc; lia]|].
    split; [exact E|]. split; [apply Hc; lia|exact Hn].
  - unfold noall in Hn. rewrite Hn. cbn [partners flat_map fold_left]. repeat split; auto.
    + intros j Hj. unfold cz. cbn [with_lab th_lab lb_cnt]. rewrite lookup_cnt_set.
      destruct (Z.of_nat j =? Z.of_nat i) eqn:E2; [lia|]. apply Hc. lia.
    + cbn [lb_reg]. apply memZ_app.
    + unfold cz. cbn [lb_cnt]. rewrite lookup_cnt_set, Z.eqb_refl. auto.
Qed.

Lemma lab_end_inv : forall i z', labinv (S i) z' ->
  labinv i (with_lab z' (lab_end (th_lab z') (Z.of_nat i))).
Proof.
  intros i z' [Hn Hc]. split; [exact Hn|]. intros j Hj. unfold cz. cbn [with_lab th_lab lab_end lb_cnt].
  rewrite lookup_cnt_set. destruct (Z.of_nat j =? Z.of_nat i) eqn:E; auto. apply Hc. lia.
Qed.

Lemma plain_level_spec : forall zs n tr zshape nz i x zu sh lv' pt e z (body : body_t),
  length pt = i -> labinv i z ->
  (forall c e' z', labinv (S i) z' -> labinv (S i) (snd (body c e' z'))) ->
  (forall c t z', labinv (S i) z' -> In (c, t) (sub e x) ->
     spec zs tr n (S i) lv' (pt ++ [c]) (set_nth x t e) (fst (body c (set_nth x t e) z'))) ->
  let L := {| l_pop := false; l_src := SFib x; l_ufmt := false; l_zufmt := zu; l_proj := None;
              l_shape := sh |} in
  spec zs tr n i (L :: lv') pt e (fst (run_level tr zshape nz i L body e z))
  /\ labinv i (snd (run_level tr zshape nz i L body e z)).
Proof.
  intros zs n tr zshape nz i x zu sh lv' pt e z body Lpt Hz Hbn Hbody L.
  unfold run_level. cbn [l_pop l_src l_proj l_ufmt L negb fst snd].
  destruct (lab_reg_inv i z Hz) as (R1 & Hz1 & _). rewrite R1.
  destruct (iter_plain_facts (labinv (S i)) x e body pt (sub e x) 0 _ Hbn Hz1) as (F1 & F2 & F3 & F4).
  set (res := iter_plain true x e body (sub e x) 0 (with_lab z (snd (lab_reg (th_lab z) (Z.of_nat i))))) in *.
  set (items := fst res) in *.
  split; [|apply lab_end_inv; exact F4].
  assert (Hsimple : Forall (fun it => it_pre it = [] /\ it_post it = []) items).
  { eapply Forall_impl; [|exact F1]. intros it (A & B & _). auto. }
  cbn [reg_events map].
  change (EReg (Z.of_nat i) :: nil ++ flat_items (Z.of_nat i) items ++ [] ++ [EEnd (Z.of_nat i)])
    with ([EReg (Z.of_nat i)] ++ flat_items (Z.of_nat i) items ++ [] ++ [EEnd (Z.of_nat i)]).
  apply GL; auto.
  - eapply Forall_impl; [|exact F1]. intros it (A & B & N & (t & Hin & C) & D).
    unfold item_ok. rewrite A, B, D, C. split; [constructor|split; [constructor|]].
    apply Hbody; auto.
  - unfold kids, ref_elems, ref_off, offered_f, pcoord. cbn [l_src l_ufmt l_proj L fst snd].
    rewrite F2, map_map. reflexivity.
  - rewrite app_nil_r. apply (ltrace_simple i items Hsimple 0 None 0 0).
  - rewrite app_nil_r. intros kind label. cbv zeta.
    destruct (ltrace_simple i items Hsimple 0 None kind label) as [-> _].
    split.
    + destruct ((K_ITER =? kind) && (0 =? label)) eqn:E; [|reflexivity].
      unfold stampR. assert (kind =? K_ITER = true) as -> by lia. apply chain_enum.
    + intros Hsc. unfold expect_at.
      cbn [l_pop l_src l_proj l_ufmt L andb orb negb].
      destruct (kind =? K_ITER) eqn:EK.
      * rewrite (Z.eqb_sym K_ITER), EK. cbn [andb]. rewrite (Z.eqb_sym 0).
        destruct (label =? 0); cbn [negb orb]; [|reflexivity].
        rewrite enum_addr. exact F3.
      * rewrite (Z.eqb_sym K_ITER), EK. cbn [andb map].
        destruct (kind =? K_INT); [reflexivity|]. destruct (kind =? K_POP); [reflexivity|].
        destruct (kind =? K_RD); [reflexivity|]. destruct (kind =? K_WR); reflexivity.
Qed.

(* every nest of plain `for` levels meets the specification: the counter vector keeps its shape,
   ranks are registered in order 0,1,2,..., stamps are ordered, and the rows of the iter traces
   are exactly the reference iteration space with storage positions *)
Theorem plain_nest_spec_gen : forall zs n tr zshape nz m lv, forallb plain_level lv = true ->
  forall i pt e z, length pt = i -> labinv i z ->
  spec zs tr n i lv pt e (fst (run tr zshape nz m lv i pt e z))
  /\ labinv i (snd (run tr zshape nz m lv i pt e z)).
Proof.
  intros zs n tr zshape nz m lv. induction lv as [|L lv IH]; intros Hpl i pt e z Lpt Hz.
  - cbn [run fst snd]. split.
    2:{ unfold leaf_update. destruct (th_z z) as [[v|es]|]; auto.
        destruct (skip_pt m pt); auto. }
    intros k P st Hsh. cbv zeta. cbn [dr exec fold_left emits].
    pose proof Hsh as (_ & Hik & _).
    replace (Nat.max k (i + 0)) with k by lia. split; [exact Hsh|split; [reflexivity|]].
    intros kk. exists []. rewrite hdrs_same. split; [reflexivity|]. split; [reflexivity|].
    intros Hge. unfold deep_ok. cbv zeta. cbn [dr].
    split; [constructor|split; [reflexivity|split; [|auto]]]. intros _ Hr. lia.
  - cbn [forallb] in Hpl. apply andb_true_iff in Hpl. destruct Hpl as [HL Hpl].
    destruct L as [pop s u zu pj sh]. unfold plain_level in HL. cbn [l_pop l_src l_ufmt l_proj] in HL.
    destruct pop; [discriminate|]. destruct u; [discriminate|].
    destruct s as [x|x y]; [|discriminate]. destruct pj; [discriminate|].
    cbn [run]. apply plain_level_spec; auto.
    + intros c e' z' Hz'. apply IH; auto. rewrite app_length. cbn. lia.
    + intros c t z' Hz' _. apply IH; auto. rewrite app_length. cbn. lia.
Qed.

Theorem plain_nest_spec : forall zs n tr zshape nz m lv, forallb plain_level lv = true ->
  forall i pt e z, length pt = i -> labinv i z ->
  spec zs tr n i lv pt e (fst (run tr zshape nz m lv i pt e z)).
Proof. intros. apply plain_nest_spec_gen; auto. Qed.

Lemma labinv0 : forall z, labinv 0 {| th_z := z; th_lab := lab0 |}.
Proof. intros z. split; [reflexivity|]. intros j _. left. reflexivity. Qed.

(* read at the top of a collection session: loop_order = 0..d-1 for the d levels entered, and every
   registered trace file = [header if its rank was reached] ++ rows meeting rows_ok *)
Theorem plain_nest_top : forall zs n tr zshape nz m lv keys m0 e z,
  forallb plain_level lv = true ->
  let evs := fst (run tr zshape nz m lv 0 [] e {| th_z := z; th_lab := lab0 |}) in
  let st' := exec n (init_state keys true m0) evs in
  let d := dr lv [([], e)] in
  m_lo st' = iota d
  /\ forall kk, In kk keys -> exists data,
       content st' kk = Some (hdrs kk 0 d ++ data) /\ rows_ok zs tr 0 [] lv [] e kk data.
Proof.
  intros zs n tr zshape nz m lv keys m0 e z Hpl evs st' d.
  assert (Hsh : shape 0 0 [] [] (init_state keys true m0)).
  { unfold shape. cbn. repeat split; auto. }
  destruct (plain_nest_spec zs n tr zshape nz m lv Hpl 0 [] e {| th_z := z; th_lab := lab0 |} eq_refl (labinv0 z)
              0%nat [] _ Hsh) as (S1 & _ & E1).
  cbn [Nat.max plus] in S1, E1. fold evs in S1, E1. fold st' in S1. fold d in S1, E1.
  split; [apply S1|]. intros kk Hin. destruct (E1 kk) as (data & Ed & Od). exists data.
  split; auto. unfold st'. rewrite content_is_emits by auto. rewrite Ed. reflexivity.
Qed.

End WithZZ.
