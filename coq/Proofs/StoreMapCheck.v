(* StoreMapCheck.v — C03: the replay-on-a-reference-map oracle [c03_holds] (Model/StoreCheck.v)
   accepts the model's own observation for every well-formed case and every history.

   Invariant carried along the history: the reference map m has duplicate-free keys, all full
   points, and reading any full point q from m (default d when absent) gives the value the
   tree stores at q ([lookup_i]).  [content d (erase t)] of a well-formed tree is such a map. *)
From Coq Require Import ZArith List Bool Lia PeanoNat.
From FT Require Import Model.Base Model.Obs Model.Store Model.StoreCheck
                       Proofs.ObsP Proofs.StoreWF Proofs.StoreCheckP Proofs.StoreMap.
Import ListNotations.
Open Scope Z_scope.

(* ---------- paths ---------- *)
Lemma peq_refl p : path_eqb p p = true.
Proof. induction p as [|x p IH]; [reflexivity|]. cbn [path_eqb]. rewrite Z.eqb_refl, IH. reflexivity. Qed.

Lemma peq_eq : forall a b, path_eqb a b = true -> a = b.
Proof.
  induction a as [|x a IH]; intros [|y b] H; cbn [path_eqb] in H; try discriminate; [reflexivity|].
  apply andb_true_iff in H. destruct H as [H1 H2]. apply Z.eqb_eq in H1. subst.
  f_equal. apply IH. exact H2.
Qed.

Lemma peq_neq a b : a <> b -> path_eqb a b = false.
Proof. intros H. destruct (path_eqb a b) eqn:E; [|reflexivity]. apply peq_eq in E. contradiction. Qed.

Lemma peq_app p : forall r r', path_eqb (p ++ r) (p ++ r') = path_eqb r r'.
Proof. induction p as [|x p IH]; intros r r'; [reflexivity|]. cbn [app path_eqb]. rewrite Z.eqb_refl, IH. reflexivity. Qed.

Lemma pt_eqb_path : forall a b, pt_eqb a b = path_eqb a b.
Proof. induction a as [|x a IH]; intros [|y b]; cbn [pt_eqb path_eqb]; try reflexivity. Qed.

Lemma is_prefix_app p r : is_prefix p (p ++ r) = true.
Proof. induction p as [|x p IH]; [reflexivity|]. cbn [app is_prefix]. rewrite Z.eqb_refl, IH. reflexivity. Qed.

Lemma is_prefix_split : forall p q, is_prefix p q = true -> q = p ++ skipn (length p) q.
Proof.
  induction p as [|x p IH]; intros q H; [reflexivity|].
  destruct q as [|y q]; cbn [is_prefix] in H; [discriminate|].
  apply andb_true_iff in H. destruct H as [H1 H2]. apply Z.eqb_eq in H1. subst y.
  cbn [length skipn app]. f_equal. apply IH. exact H2.
Qed.

(* ---------- reference maps ---------- *)
Definition get_or (d : Z) (q : list Z) (m : pmap) : Z :=
  match pm_get q m with Some v => v | None => d end.

Definition KeysOk (n : nat) (m : pmap) : Prop :=
  NoDup (map fst m) /\ forall q, In q (map fst m) -> length q = n.

Lemma pm_get_some : forall m p v, pm_get p m = Some v -> In (p, v) m.
Proof.
  induction m as [|[q w] m IH]; intros p v H; cbn [pm_get] in H; [discriminate|].
  destruct (path_eqb p q) eqn:E.
  - apply peq_eq in E. inversion H; subst. left. reflexivity.
  - right. apply IH. exact H.
Qed.

Lemma pm_get_notin : forall m p, ~ In p (map fst m) -> pm_get p m = None.
Proof.
  induction m as [|[q w] m IH]; intros p H; [reflexivity|]. cbn [pm_get].
  destruct (path_eqb p q) eqn:E.
  - apply peq_eq in E. subst. exfalso. apply H. left. reflexivity.
  - apply IH. intros Hin. apply H. right. exact Hin.
Qed.

Lemma pm_get_in : forall m, NoDup (map fst m) -> forall p v, In (p, v) m -> pm_get p m = Some v.
Proof.
  induction m as [|[q w] m IH]; intros Hnd p v Hin; [contradiction|].
  cbn [map fst] in Hnd. inversion Hnd as [|? ? Hnin Hnd']; subst. cbn [pm_get].
  destruct Hin as [E|Hin].
  - inversion E; subst. rewrite peq_refl. reflexivity.
  - destruct (path_eqb p q) eqn:E.
    + apply peq_eq in E. subst. exfalso. apply Hnin. apply (in_map fst) in Hin. exact Hin.
    + apply IH; assumption.
Qed.

Lemma pm_get_key m p v : pm_get p m = Some v -> In p (map fst m).
Proof. intros H. apply pm_get_some in H. apply (in_map fst) in H. exact H. Qed.

Lemma pm_incl_intro : forall a b,
  (forall p v, In (p, v) a -> pm_get p b = Some v) -> pm_incl a b = true.
Proof.
  induction a as [|[p v] a IH]; intros b H; [reflexivity|]. cbn [pm_incl].
  rewrite (H p v (or_introl eq_refl)), Z.eqb_refl. cbn [andb].
  apply IH. intros q w Hin. apply H. right. exact Hin.
Qed.

Lemma pm_same_ext a b :
  NoDup (map fst a) -> NoDup (map fst b) -> (forall p, pm_get p a = pm_get p b) ->
  pm_same a b = true.
Proof.
  intros Ha Hb H. unfold pm_same. apply andb_true_iff. split; apply pm_incl_intro; intros p v Hin.
  - rewrite <- H. apply pm_get_in; assumption.
  - rewrite H. apply pm_get_in; assumption.
Qed.

Lemma pm_get_set : forall m p v q,
  pm_get q (pm_set p v m) = if path_eqb q p then Some v else pm_get q m.
Proof.
  induction m as [|[r w] m IH]; intros p v q; cbn [pm_set pm_get]; [reflexivity|].
  destruct (path_eqb p r) eqn:Epr.
  - apply peq_eq in Epr. subst r. cbn [pm_get]. destruct (path_eqb q p); reflexivity.
  - cbn [pm_get]. rewrite IH. destruct (path_eqb q r) eqn:Eqr; [|reflexivity].
    apply peq_eq in Eqr. subst r. destruct (path_eqb q p) eqn:Eqp; [|reflexivity].
    apply peq_eq in Eqp. subst. rewrite peq_refl in Epr. discriminate.
Qed.

Lemma pm_set_keys : forall m p v x, In x (map fst (pm_set p v m)) -> x = p \/ In x (map fst m).
Proof.
  induction m as [|[r w] m IH]; intros p v x H; cbn [pm_set] in H.
  - destruct H as [H|[]]. left. symmetry. exact H.
  - destruct (path_eqb p r) eqn:E.
    + apply peq_eq in E. subst r. cbn [map fst] in *. destruct H as [H|H]; [left; symmetry; exact H|].
      right. right. exact H.
    + cbn [map fst] in *. destruct H as [H|H]; [right; left; exact H|].
      destruct (IH p v x H) as [H1|H1]; [left; exact H1|right; right; exact H1].
Qed.

Lemma pm_set_KeysOk n m p v : KeysOk n m -> length p = n -> KeysOk n (pm_set p v m).
Proof.
  intros [Hnd Hlen] Hp. split.
  - clear Hlen. induction m as [|[r w] m IH]; cbn [pm_set]; [repeat constructor; intros []|].
    cbn [map fst] in Hnd. inversion Hnd as [|? ? Hnin Hnd']; subst.
    destruct (path_eqb p r) eqn:E.
    + apply peq_eq in E. subst r. cbn [map fst]. constructor; assumption.
    + cbn [map fst]. constructor; [|apply IH; exact Hnd'].
      intros Hin. apply pm_set_keys in Hin. destruct Hin as [Hin|Hin]; [|contradiction].
      subst r. rewrite peq_refl in E. discriminate.
  - intros q Hq. apply pm_set_keys in Hq. destruct Hq as [->|Hq]; [exact Hp|apply Hlen; exact Hq].
Qed.

Lemma get_or_set d m p v q :
  get_or d q (pm_set p v m) = if path_eqb q p then v else get_or d q m.
Proof. unfold get_or. rewrite pm_get_set. destruct (path_eqb q p); reflexivity. Qed.

Lemma pm_content_keys d : forall m x, In x (map fst (pm_content d m)) -> In x (map fst m).
Proof.
  intros m x H. apply in_map_iff in H. destruct H as [[q v] [<- H]]. unfold pm_content in H.
  apply filter_In in H. destruct H as [H _]. apply (in_map fst) in H. exact H.
Qed.

Lemma pm_content_NoDup d : forall m, NoDup (map fst m) -> NoDup (map fst (pm_content d m)).
Proof.
  induction m as [|[q v] m IH]; intros Hnd; [constructor|].
  cbn [map fst] in Hnd. inversion Hnd as [|? ? Hnin Hnd']; subst.
  unfold pm_content. cbn [filter snd]. fold (pm_content d m).
  destruct (negb (v =? d)); [|apply IH; exact Hnd'].
  cbn [map fst]. constructor; [|apply IH; exact Hnd'].
  intros Hin. apply Hnin. eapply pm_content_keys. exact Hin.
Qed.

Lemma pm_get_content d : forall m q, NoDup (map fst m) ->
  pm_get q (pm_content d m)
  = match pm_get q m with Some v => if v =? d then None else Some v | None => None end.
Proof.
  induction m as [|[r w] m IH]; intros q Hnd; [reflexivity|].
  cbn [map fst] in Hnd. inversion Hnd as [|? ? Hnin Hnd']; subst.
  unfold pm_content. cbn [filter snd]. fold (pm_content d m). cbn [pm_get].
  destruct (w =? d) eqn:Ew; cbn [negb].
  - destruct (path_eqb q r) eqn:E; [|apply IH; exact Hnd'].
    apply peq_eq in E. subst r. rewrite Ew. apply pm_get_notin. intros Hin. apply Hnin.
    eapply pm_content_keys. exact Hin.
  - cbn [pm_get]. destruct (path_eqb q r); [rewrite Ew; reflexivity|apply IH; exact Hnd'].
Qed.

Lemma pm_under_nil : forall m, pm_under [] m = m.
Proof. unfold pm_under. induction m as [|[q v] m IH]; [reflexivity|]. cbn [flat_map]. rewrite IH. reflexivity. Qed.

Lemma pm_get_under p : forall m r, pm_get r (pm_under p m) = pm_get (p ++ r) m.
Proof.
  induction m as [|[q v] m IH]; intros r; [reflexivity|].
  unfold pm_under. cbn [flat_map fst snd]. fold (pm_under p m). cbn [pm_get].
  destruct (is_prefix p q) eqn:E.
  - apply is_prefix_split in E. cbn [app pm_get]. rewrite E at 2. rewrite peq_app.
    destruct (path_eqb r (skipn (length p) q)); [reflexivity|apply IH].
  - cbn [app]. rewrite IH. destruct (path_eqb (p ++ r) q) eqn:E2; [|reflexivity].
    apply peq_eq in E2. subst q. rewrite is_prefix_app in E. discriminate.
Qed.

Lemma pm_under_keys p : forall m s, In s (map fst (pm_under p m)) -> In (p ++ s) (map fst m).
Proof.
  induction m as [|[q v] m IH]; intros s H; [contradiction|].
  unfold pm_under in H. cbn [flat_map fst snd] in H. fold (pm_under p m) in H.
  rewrite map_app in H. apply in_app_or in H. cbn [map fst]. destruct H as [H|H].
  - destruct (is_prefix p q) eqn:E; [|contradiction]. destruct H as [H|[]]. cbn [fst] in H. subst s.
    left. apply is_prefix_split in E. exact E.
  - right. apply IH. exact H.
Qed.

Lemma pm_under_NoDup p : forall m, NoDup (map fst m) -> NoDup (map fst (pm_under p m)).
Proof.
  induction m as [|[q v] m IH]; intros Hnd; [constructor|].
  cbn [map fst] in Hnd. inversion Hnd as [|? ? Hnin Hnd']; subst.
  unfold pm_under. cbn [flat_map fst snd]. fold (pm_under p m).
  destruct (is_prefix p q) eqn:E; [|apply IH; exact Hnd'].
  cbn [app map fst]. constructor; [|apply IH; exact Hnd'].
  intros Hin. apply pm_under_keys in Hin. apply is_prefix_split in E. rewrite <- E in Hin. contradiction.
Qed.

(* ---------- erase / content of identity trees ---------- *)
Definition erase_f (es : ifib) : fib := map (fun ct => (fst ct, erase (snd ct))) es.

Lemma erase_node id ow es : erase (INode id ow es) = Node (erase_f es).
Proof. reflexivity. Qed.

Lemma map_fst_erase_f es : map fst (erase_f es) = map fst es.
Proof. unfold erase_f. rewrite map_map. reflexivity. Qed.

Definition cfib (d : Z) (es : ifib) : pmap :=
  flat_map (fun ct => map (fun pv => (fst ct :: fst pv, snd pv)) (content d (erase (snd ct)))) es.

Lemma content_erase_node d id ow es : content d (erase (INode id ow es)) = cfib d es.
Proof.
  rewrite erase_node. cbn [content]. unfold cfib, erase_f.
  induction es as [|ct es IH]; [reflexivity|]. cbn [map flat_map fst snd]. rewrite IH. reflexivity.
Qed.

Lemma cfib_cons d ct es :
  cfib d (ct :: es) = map (fun pv => (fst ct :: fst pv, snd pv)) (content d (erase (snd ct))) ++ cfib d es.
Proof. reflexivity. Qed.

Lemma pm_get_app : forall a b q,
  pm_get q (a ++ b) = match pm_get q a with Some v => Some v | None => pm_get q b end.
Proof.
  induction a as [|[r w] a IH]; intros b q; [reflexivity|]. cbn [app pm_get].
  destruct (path_eqb q r); [reflexivity|apply IH].
Qed.

Lemma pm_get_map_cons c0 : forall l c q,
  pm_get (c :: q) (map (fun pv : list Z * Z => (c0 :: fst pv, snd pv)) l)
  = if c =? c0 then pm_get q l else None.
Proof.
  induction l as [|[r w] l IH]; intros c q; cbn [map pm_get fst snd path_eqb].
  - destruct (c =? c0); reflexivity.
  - rewrite IH. destruct (c =? c0); cbn [andb]; reflexivity.
Qed.

Lemma pm_get_nil_map_cons c0 : forall l,
  pm_get [] (map (fun pv : list Z * Z => (c0 :: fst pv, snd pv)) l) = None.
Proof. induction l as [|[r w] l IH]; [reflexivity|]. cbn [map pm_get fst snd path_eqb]. exact IH. Qed.

Lemma cfib_keys d es q : In q (map fst (cfib d es)) ->
  exists c t q', q = c :: q' /\ In (c, t) es /\ In q' (map fst (content d (erase t))).
Proof.
  intros H. apply in_map_iff in H. destruct H as [[q0 v] [<- H]]. unfold cfib in H.
  apply in_flat_map in H. destruct H as [[c t] [Hin H]]. cbn [fst snd] in H.
  apply in_map_iff in H. destruct H as [[q' v'] [E H]]. inversion E; subst.
  exists c, t, q'. split; [reflexivity|]. split; [exact Hin|]. apply (in_map fst) in H. exact H.
Qed.

Lemma pm_get_cfib_notin d : forall es c q, ~ In c (map fst es) -> pm_get (c :: q) (cfib d es) = None.
Proof.
  intros es c q Hnin. destruct (pm_get (c :: q) (cfib d es)) as [v|] eqn:E; [|reflexivity].
  exfalso. apply pm_get_key in E. apply cfib_keys in E.
  destruct E as (c' & t & q' & E & Hin & _). inversion E; subst. apply Hnin.
  apply (in_map fst) in Hin. exact Hin.
Qed.

Lemma pm_get_cfib_nil d es : pm_get [] (cfib d es) = None.
Proof.
  destruct (pm_get [] (cfib d es)) as [v|] eqn:E; [|reflexivity].
  exfalso. apply pm_get_key in E. apply cfib_keys in E. destruct E as (c' & t & q' & E & _). discriminate.
Qed.

Lemma ndapp {A} (a b : list A) :
  NoDup a -> NoDup b -> (forall x, In x a -> In x b -> False) -> NoDup (a ++ b).
Proof.
  intros Ha. induction Ha as [|x a Hnin Ha IH]; intros Hb Hd; [exact Hb|].
  cbn [app]. constructor.
  - intros Hin. apply in_app_or in Hin. destruct Hin as [Hin|Hin]; [contradiction|].
    apply (Hd x); [left; reflexivity|exact Hin].
  - apply IH; [exact Hb|]. intros y Hy. apply Hd. right. exact Hy.
Qed.

Lemma nd_map_cons (c : Z) (l : list (list Z)) : NoDup l -> NoDup (map (cons c) l).
Proof.
  intros H. induction H as [|p l Hnin H IH]; [constructor|]. cbn [map]. constructor; [|exact IH].
  intros Hin. apply in_map_iff in Hin. destruct Hin as [q [E Hq]]. inversion E; subst. contradiction.
Qed.

Lemma cfib_NoDup d : forall es,
  NoDup (map fst es) ->
  (forall c t, In (c, t) es -> NoDup (map fst (content d (erase t)))) ->
  NoDup (map fst (cfib d es)).
Proof.
  induction es as [|[c t] es IH]; intros Hs Hch; [constructor|].
  cbn [map fst] in Hs. inversion Hs as [|? ? Hnin Hs']; subst.
  rewrite cfib_cons, map_app. cbn [fst snd]. apply ndapp.
  - rewrite map_map. cbn [fst]. rewrite <- (map_map fst (cons c)). apply nd_map_cons.
    apply (Hch c t). left. reflexivity.
  - apply IH; [exact Hs'|]. intros c2 t2 Hin. apply (Hch c2 t2). right. exact Hin.
  - intros x Hx Hy. rewrite map_map in Hx. cbn [fst] in Hx. apply in_map_iff in Hx.
    destruct Hx as [[q v] [<- _]]. cbn [fst] in Hy. apply cfib_keys in Hy.
    destruct Hy as (c' & t' & q' & E & Hin & _). inversion E; subst. apply Hnin.
    apply (in_map fst) in Hin. exact Hin.
Qed.

Lemma assoc_in : forall es c t, assoc c es = Some t -> In (c, t) es.
Proof.
  induction es as [|[c0 t0] es IH]; intros c t H; cbn [assoc] in H; [discriminate|].
  destruct (c0 =? c) eqn:E.
  - apply Z.eqb_eq in E. inversion H; subst. left. reflexivity.
  - right. apply IH. exact H.
Qed.

Lemma pm_get_cfib d : forall es c q, NoDup (map fst es) ->
  pm_get (c :: q) (cfib d es)
  = match assoc c es with Some t => pm_get q (content d (erase t)) | None => None end.
Proof.
  induction es as [|[c0 t0] es IH]; intros c q Hs; [reflexivity|].
  cbn [map fst] in Hs. inversion Hs as [|? ? Hnin Hs']; subst.
  rewrite cfib_cons, pm_get_app, pm_get_map_cons. cbn [fst snd assoc].
  rewrite (Z.eqb_sym c0 c). destruct (c =? c0) eqn:E.
  - apply Z.eqb_eq in E. subst c0. rewrite (pm_get_cfib_notin d es c q Hnin).
    destruct (pm_get q (content d (erase t0))); reflexivity.
  - apply IH. exact Hs'.
Qed.

(* value stored at the point q below the tree t (q = [] at a leaf) *)
Definition val_t (d : Z) (q : list Z) (t : itree) : Z :=
  match t with ILeaf v => v | INode _ _ es => lookup_i d q es end.

Definition filt (d v : Z) : option Z := if v =? d then None else Some v.

Lemma content_char n d : forall t lvl, wf_i n lvl t = true ->
  (forall q, In q (map fst (content d (erase t))) -> length q = (n - lvl)%nat)
  /\ NoDup (map fst (content d (erase t)))
  /\ (forall q, length q = (n - lvl)%nat -> pm_get q (content d (erase t)) = filt d (val_t d q t)).
Proof.
  induction t as [v|id ow es IH] using itree_ind'; intros lvl Hwf.
  - cbn [wf_i] in Hwf. apply Nat.eqb_eq in Hwf. subst lvl. rewrite Nat.sub_diag.
    cbn [erase content val_t]. unfold filt. destruct (v =? d) eqn:Ev.
    + split; [intros q []|]. split; [constructor|]. intros q Hq. reflexivity.
    + split; [intros q [<-|[]]; reflexivity|]. split; [repeat constructor; intros []|].
      intros q Hq. destruct q; [|discriminate]. reflexivity.
  - rewrite wf_i_node in Hwf. apply andb_true_iff in Hwf. destruct Hwf as [Hlt Hwf].
    apply Nat.ltb_lt in Hlt. unfold wf_fib in Hwf. apply andb_true_iff in Hwf.
    destruct Hwf as [Hs Hk]. rewrite content_erase_node. cbn [val_t].
    apply ssorted_NoDup in Hs. rewrite forallb_forall in Hk. rewrite Forall_forall in IH.
    assert (Hch : forall c t, In (c, t) es ->
              wf_i n (S lvl) t = true
              /\ (forall q, In q (map fst (content d (erase t))) -> length q = (n - S lvl)%nat)
              /\ NoDup (map fst (content d (erase t)))
              /\ (forall q, length q = (n - S lvl)%nat ->
                    pm_get q (content d (erase t)) = filt d (val_t d q t))).
    { intros c t Hin. split; [apply (Hk (c, t) Hin)|].
      apply (IH (c, t) Hin (S lvl)). apply (Hk (c, t) Hin). }
    split; [|split].
    + intros q Hq. apply cfib_keys in Hq. destruct Hq as (c & t & q' & -> & Hin & Hq').
      destruct (Hch c t Hin) as (_ & H1 & _). cbn [length]. rewrite (H1 q' Hq'). lia.
    + apply cfib_NoDup; [exact Hs|]. intros c t Hin. apply (Hch c t Hin).
    + intros q Hq. destruct q as [|c q']; [cbn [length] in Hq; lia|]. cbn [length] in Hq.
      rewrite (pm_get_cfib d es c q' Hs). cbn [lookup_i].
      destruct (assoc c es) as [t|] eqn:Ha.
      * destruct (Hch c t (assoc_in es c t Ha)) as (Hwt & _ & _ & H3).
        rewrite H3 by lia. destruct t as [v|id2 ow2 e2]; cbn [val_t].
        -- cbn [wf_i] in Hwt. apply Nat.eqb_eq in Hwt. destruct q'; [reflexivity|cbn [length] in Hq; lia].
        -- rewrite wf_i_node in Hwt. apply andb_true_iff in Hwt. destruct Hwt as [Hl2 _].
           apply Nat.ltb_lt in Hl2. destruct q'; [cbn [length] in Hq; lia|reflexivity].
      * unfold filt. rewrite Z.eqb_refl. reflexivity.
Qed.

(* the content of a well-formed fiber, as a reference map *)
Lemma cfib_view n d lvl id ow es :
  (lvl < n)%nat -> wf_fib n lvl es = true ->
  KeysOk (n - lvl) (content d (erase (INode id ow es)))
  /\ (forall q, length q = (n - lvl)%nat ->
        pm_get q (content d (erase (INode id ow es))) = filt d (lookup_i d q es)).
Proof.
  intros Hl Hw.
  assert (Hwi : wf_i n lvl (INode id ow es) = true).
  { rewrite wf_i_node, Hw. apply Nat.ltb_lt in Hl. rewrite Hl. reflexivity. }
  destruct (content_char n d _ lvl Hwi) as (H1 & H2 & H3).
  split; [split; assumption|]. exact H3.
Qed.

Lemma get_or_filt d q m v : pm_get q m = filt d v -> get_or d q m = v.
Proof.
  unfold get_or, filt. intros H. rewrite H. destruct (v =? d) eqn:E; [|reflexivity].
  apply Z.eqb_eq in E. symmetry. exact E.
Qed.

(* a sub-fiber's content is the reference map restricted to the points under its prefix *)
Lemma sub_view n d m es pfx id ow e1 :
  KeysOk n m -> (forall q, length q = n -> get_or d q m = lookup_i d q es) ->
  (length pfx < n)%nat -> wf_fib n (length pfx) e1 = true ->
  (forall r, r <> [] -> lookup_i d (pfx ++ r) es = lookup_i d r e1) ->
  pm_same (content d (erase (INode id ow e1))) (pm_content d (pm_under pfx m)) = true.
Proof.
  intros [Hnd Hlen] Hget Hl Hw Hsub.
  destruct (cfib_view n d (length pfx) id ow e1 Hl Hw) as [[K1 K2] K3].
  apply pm_same_ext; [exact K1|apply pm_content_NoDup, pm_under_NoDup; exact Hnd|].
  intros p. rewrite pm_get_content by (apply pm_under_NoDup; exact Hnd). rewrite pm_get_under.
  destruct (Nat.eq_dec (length p) (n - length pfx)) as [E|E].
  - rewrite (K3 p E).
    assert (Hp : p <> []) by (intros ->; cbn [length] in E; lia).
    assert (Hfull : length (pfx ++ p) = n) by (rewrite app_length; lia).
    specialize (Hget _ Hfull). rewrite (Hsub p Hp) in Hget. unfold get_or in Hget. unfold filt.
    destruct (pm_get (pfx ++ p) m) as [v|]; [rewrite Hget; reflexivity|].
    rewrite <- Hget, Z.eqb_refl. reflexivity.
  - destruct (pm_get p (content d (erase (INode id ow e1)))) as [v|] eqn:E1.
    { exfalso. apply E. apply K2. eapply pm_get_key. exact E1. }
    destruct (pm_get (pfx ++ p) m) as [v|] eqn:E2; [|reflexivity].
    exfalso. apply pm_get_key in E2. apply Hlen in E2. rewrite app_length in E2. lia.
Qed.

Lemma full_view n d m id ow es :
  KeysOk n m -> (forall q, length q = n -> get_or d q m = lookup_i d q es) ->
  (0 < n)%nat -> wf_fib n 0 es = true ->
  pm_same (content d (erase (INode id ow es))) (pm_content d m) = true.
Proof.
  intros HK Hget Hn Hw. rewrite <- (pm_under_nil m).
  apply (sub_view n d m es [] id ow es HK Hget Hn Hw). intros r _. reflexivity.
Qed.

(* ---------- the tree side: addressing by bisect = addressing by first match ---------- *)
Lemma lookup_erase_f : forall es c, lookup c (erase_f es) = option_map erase (assoc c es).
Proof.
  induction es as [|[c0 t0] es IH]; intros c; [reflexivity|].
  unfold erase_f. cbn [map fst snd lookup assoc]. fold (erase_f es).
  rewrite (Z.eqb_sym c c0). destruct (c0 =? c); [reflexivity|apply IH].
Qed.

Lemma hit_assoc (es : ifib) c c' t :
  ssorted (map fst es) = true -> nth_error es (bisect c (map fst es)) = Some (c', t) ->
  (c' =? c) = true -> assoc c es = Some t /\ c' = c.
Proof.
  intros Hs Hn Hc.
  assert (Hex : coord_exists c (map fst es) (bisect c (map fst es)) = true).
  { unfold coord_exists. rewrite nth_error_map, Hn. exact Hc. }
  destruct (bisect_assoc_hit es c Hs Hex) as [p [Hn' Ha]]. rewrite Hn in Hn'. inversion Hn'; subst.
  split; [exact Ha|reflexivity].
Qed.

Lemma wf_fib_sorted n lvl es : wf_fib n lvl es = true -> ssorted (map fst es) = true.
Proof. unfold wf_fib. intros H. apply andb_true_iff in H. apply H. Qed.

Lemma fiber_at_view n d : forall path lvl es e,
  wf_fib n lvl es = true -> fiber_at path es = Some e ->
  wf_fib n (lvl + length path) e = true
  /\ forall r, r <> [] -> lookup_i d (path ++ r) es = lookup_i d r e.
Proof.
  induction path as [|c path IH]; intros lvl es e Hwf Hf.
  - cbn [fiber_at] in Hf. inversion Hf; subst. cbn [length]. rewrite Nat.add_0_r.
    split; [exact Hwf|reflexivity].
  - cbn [fiber_at] in Hf.
    destruct (nth_error es (bisect c (map fst es))) as [[c' [v|id ow e1]]|] eqn:Hn; try discriminate.
    destruct (c' =? c) eqn:Hc; [|discriminate].
    destruct (hit_assoc es c c' _ (wf_fib_sorted _ _ _ Hwf) Hn Hc) as [Ha ->].
    destruct (wf_fib_child n lvl es _ c id ow e1 Hwf Hn) as [Hlt Hw1].
    destruct (IH (S lvl) e1 e Hw1 Hf) as [H1 H2].
    cbn [length]. replace (lvl + S (length path))%nat with (S lvl + length path)%nat by lia.
    split; [exact H1|]. intros r Hr. cbn [app lookup_i]. rewrite Ha.
    destruct (path ++ r) as [|x l] eqn:E.
    + apply app_eq_nil in E. destruct E as [_ E]. contradiction.
    + rewrite <- E. apply H2. exact Hr.
Qed.

Lemma plain_fiber_at_erase n : forall path lvl es e,
  wf_fib n lvl es = true -> fiber_at path es = Some e ->
  plain_fiber_at path (Node (erase_f es)) = Some (erase_f e).
Proof.
  induction path as [|c path IH]; intros lvl es e Hwf Hf.
  - cbn [fiber_at] in Hf. inversion Hf; subst. reflexivity.
  - cbn [fiber_at] in Hf.
    destruct (nth_error es (bisect c (map fst es))) as [[c' [v|id ow e1]]|] eqn:Hn; try discriminate.
    destruct (c' =? c) eqn:Hc; [|discriminate].
    destruct (hit_assoc es c c' _ (wf_fib_sorted _ _ _ Hwf) Hn Hc) as [Ha ->].
    destruct (wf_fib_child n lvl es _ c id ow e1 Hwf Hn) as [Hlt Hw1].
    cbn [plain_fiber_at]. rewrite lookup_erase_f, Ha. cbn [option_map]. rewrite erase_node.
    apply (IH (S lvl) e1 e Hw1 Hf).
Qed.

Lemma nth_error_set_nth {A} : forall (l : list A) i x y,
  nth_error l i = Some y -> nth_error (set_nth i x l) i = Some x.
Proof.
  induction l as [|a l IH]; intros [|i] x y H; cbn [nth_error set_nth] in *; try discriminate.
  - reflexivity.
  - eapply IH. exact H.
Qed.

(* an update below [path], seen from above: the fiber at [path] is replaced by the update's
   result; no point that does not pass through [path] is disturbed *)
Lemma at_path_st_view n d f : forall path lvl es nx rk es' nx' rk',
  wf_fib n lvl es = true ->
  at_path_st path f lvl es nx rk = Some (es', nx', rk') ->
  exists e e', fiber_at path es = Some e /\ f (lvl + length path)%nat e nx rk = (e', nx', rk')
    /\ fiber_at path es' = Some e'
    /\ forall q, is_prefix path q = false -> lookup_i d q es' = lookup_i d q es.
Proof.
  induction path as [|c path IH]; intros lvl es nx rk es' nx' rk' Hwf Hat.
  - cbn [at_path_st] in Hat. inversion Hat as [Hat']. cbn [length]. rewrite Nat.add_0_r.
    exists es, es'. split; [reflexivity|]. split; [exact Hat'|]. split; [reflexivity|].
    intros q Hq. discriminate.
  - cbn [at_path_st] in Hat. cbn [fiber_at].
    destruct (nth_error es (bisect c (map fst es))) as [[c' [v|id ow e1]]|] eqn:Hn; try discriminate.
    destruct (c' =? c) eqn:Hc; [|discriminate].
    destruct (hit_assoc es c c' _ (wf_fib_sorted _ _ _ Hwf) Hn Hc) as [Ha ->].
    destruct (at_path_st path f (S lvl) e1 nx rk) as [[[e2 nx2] rk2]|] eqn:Hrec; [|discriminate].
    inversion Hat; subst es' nx2 rk2. clear Hat.
    destruct (wf_fib_child n lvl es _ c id ow e1 Hwf Hn) as [Hlt Hw1].
    destruct (IH (S lvl) e1 nx rk e2 nx' rk' Hw1 Hrec) as (e & e' & Hf1 & Hf2 & Hf3 & Hq).
    exists e, e'. split; [exact Hf1|].
    cbn [length]. replace (lvl + S (length path))%nat with (S lvl + length path)%nat by lia.
    split; [exact Hf2|]. split.
    + rewrite (map_fst_set_nth _ c (INode id ow e2) (INode id ow e1) es Hn).
      rewrite (nth_error_set_nth es _ (c, INode id ow e2) _ Hn), Z.eqb_refl. exact Hf3.
    + intros q Hpre. destruct q as [|c2 q']; [reflexivity|]. cbn [is_prefix] in Hpre.
      cbn [lookup_i].
      rewrite (assoc_set_nth es _ c (INode id ow e1) (INode id ow e2) c2
                 (ssorted_NoDup _ (wf_fib_sorted _ _ _ Hwf)) Hn).
      destruct (c2 =? c) eqn:E; [|reflexivity].
      apply Z.eqb_eq in E. subst c2. rewrite Ha. rewrite Z.eqb_refl in Hpre. cbn [andb] in Hpre.
      destruct q' as [|c3 q'']; [reflexivity|]. apply Hq. exact Hpre.
Qed.

(* ---------- getPayloadRef with one coordinate ---------- *)
Lemma bisect_insert c : forall cs, bisect c (insert_at (bisect c cs) c cs) = bisect c cs.
Proof.
  unfold insert_at. induction cs as [|x cs IH]; cbn [bisect].
  - cbn [firstn skipn app bisect]. rewrite Z.ltb_irrefl. reflexivity.
  - destruct (x <? c) eqn:E; cbn [firstn skipn app bisect].
    + rewrite E, IH. reflexivity.
    + rewrite Z.ltb_irrefl. reflexivity.
Qed.

Lemma index_of_insert c : forall cs, index_of c (insert_at (bisect c cs) c cs) = Some (bisect c cs).
Proof.
  unfold insert_at. induction cs as [|x cs IH]; cbn [bisect].
  - cbn [firstn skipn app index_of]. rewrite Z.eqb_refl. reflexivity.
  - destruct (x <? c) eqn:E; cbn [firstn skipn app index_of].
    + assert (Hne : (x =? c) = false) by lia. rewrite Hne, IH. reflexivity.
    + rewrite Z.eqb_refl. reflexivity.
Qed.

Lemma index_of_eq c cs : index_of' c cs = index_of c cs.
Proof. induction cs as [|x cs IH]; [reflexivity|]. cbn [index_of' index_of]. rewrite IH. reflexivity. Qed.

Lemma bisect_len (es : ifib) c : (bisect c (map fst es) <= length es)%nat.
Proof. rewrite <- (map_length fst es). apply bisect_le. Qed.

Lemma get_ref_single_pos n d w L c e nx rk e' nx' rk' r :
  get_ref n d w L [c] e nx rk = (e', nx', rk', r) ->
  map fst e' = (if coord_exists c (map fst e) (bisect c (map fst e)) then map fst e
                else insert_at (bisect c (map fst e)) c (map fst e))
  /\ exists p', r = Some p' /\ nth_error e' (bisect c (map fst e')) = Some (c, p').
Proof.
  intros H. cbn [get_ref] in H. set (i := bisect c (map fst e)) in *.
  pose proof (bisect_len e c) as Hi. fold i in Hi.
  destruct (coord_exists c (map fst e) i) eqn:Hex.
  - destruct (coord_exists_nth c e i Hex) as [q Hq]. rewrite Hq in H.
    destruct q as [v|id ow e0]; inversion H; subst; clear H.
    + rewrite (map_fst_set_nth i c _ _ e Hq). split; [reflexivity|].
      eexists. split; [reflexivity|]. fold i. eapply nth_error_set_nth. exact Hq.
    + split; [reflexivity|]. eexists. split; [reflexivity|]. exact Hq.
  - destruct (Nat.eqb (S L) n).
    + rewrite (nth_error_insert_at i (c, ILeaf d) e Hi) in H. inversion H; subst; clear H.
      rewrite (map_fst_set_nth i c _ _ _ (nth_error_insert_at i (c, ILeaf d) e Hi)).
      rewrite map_fst_insert_at. split; [reflexivity|]. eexists. split; [reflexivity|].
      replace (bisect c (insert_at i c (map fst e))) with i
        by (unfold i; symmetry; apply bisect_insert).
      eapply nth_error_set_nth. apply (nth_error_insert_at i _ e Hi).
    + rewrite (nth_error_insert_at i (c, INode nx (Some (S L)) []) e Hi) in H.
      inversion H; subst; clear H. rewrite map_fst_insert_at. split; [reflexivity|].
      eexists. split; [reflexivity|].
      replace (bisect c (insert_at i c (map fst e))) with i
        by (unfold i; symmetry; apply bisect_insert).
      apply (nth_error_insert_at i _ e Hi).
Qed.

Lemma lookup_nil d q : lookup_i d q [] = d.
Proof. destruct q as [|c q]; [reflexivity|]. destruct q; reflexivity. Qed.

Lemma get_ref_single_nonleaf n d w L c e nx rk e' nx' rk' r :
  wf_fib n L e = true -> (S L < n)%nat ->
  get_ref n d w L [c] e nx rk = (e', nx', rk', r) -> forall q, lookup_i d q e' = lookup_i d q e.
Proof.
  intros Hwf Hlt H. cbn [get_ref] in H. set (i := bisect c (map fst e)) in *.
  pose proof (bisect_len e c) as Hi. fold i in Hi.
  pose proof Hwf as Hwf0. unfold wf_fib in Hwf. apply andb_true_iff in Hwf. destruct Hwf as [Hs Hk].
  destruct (coord_exists c (map fst e) i) eqn:Hex.
  - destruct (coord_exists_nth c e i Hex) as [q0 Hq]. rewrite Hq in H.
    pose proof (forallb_nth_error _ _ _ _ Hk Hq) as Hp. cbn [snd] in Hp.
    destruct q0 as [v|id ow e0].
    + cbn [wf_i] in Hp. apply Nat.eqb_eq in Hp. lia.
    + inversion H; subst. reflexivity.
  - assert (Hleaf : Nat.eqb (S L) n = false) by (apply Nat.eqb_neq; lia). rewrite Hleaf in H.
    rewrite (nth_error_insert_at i (c, INode nx (Some (S L)) []) e Hi) in H.
    inversion H; subst; clear H. intros q. destruct q as [|c2 q']; [reflexivity|].
    cbn [lookup_i]. pose proof (bisect_assoc_miss e c Hs Hex) as Hmiss.
    rewrite (assoc_insert_at e i c _ c2 Hi Hmiss).
    destruct (c2 =? c) eqn:E; [|reflexivity]. apply Z.eqb_eq in E. subst c2. rewrite Hmiss.
    destruct q' as [|c3 q'']; [reflexivity|]. apply lookup_nil.
Qed.

(* creating an absent element (or touching a present one without writing) changes no value *)
Lemma get_ref_single_same n d w L c e nx rk e' nx' rk' r0 :
  wf_fib n L e = true -> (L < n)%nat -> (w = WNone \/ (S L < n)%nat) ->
  get_ref n d w L [c] e nx rk = (e', nx', rk', r0) ->
  forall r, length r = (n - L)%nat -> lookup_i d r e' = lookup_i d r e.
Proof.
  intros Hwf Hl Hor H r Hr. destruct (Nat.eq_dec (S L) n) as [E|E].
  - destruct Hor as [->|Hor]; [|lia].
    assert (H1 : length [c] = (n - L)%nat) by (cbn [length]; lia).
    destruct (get_ref_lookup n d WNone [c] L e nx rk Hl Hwf H1) as [_ Hq].
    rewrite H in Hq. cbn [fst] in Hq. rewrite (Hq r) by (cbn [length]; lia).
    cbn [apply_wr]. destruct (pt_eqb r [c]) eqn:Ep; [|reflexivity].
    rewrite pt_eqb_path in Ep. apply peq_eq in Ep. subst r. reflexivity.
  - eapply get_ref_single_nonleaf; [exact Hwf|lia|exact H].
Qed.

(* ---------- getPayloadRef with a proper prefix of a point ---------- *)
Lemma get_ref_prefix n d w : forall pt lvl es nx rk,
  (lvl < n)%nat -> wf_fib n lvl es = true -> pt <> [] -> (length pt < n - lvl)%nat ->
  exists id ow e1,
    snd (get_ref n d w lvl pt es nx rk) = Some (INode id ow e1)
    /\ wf_fib n (lvl + length pt) e1 = true
    /\ (forall q, lookup_i d q (fst (fst (fst (get_ref n d w lvl pt es nx rk)))) = lookup_i d q es)
    /\ (forall r, r <> [] -> lookup_i d (pt ++ r) es = lookup_i d r e1).
Proof.
  induction pt as [|c pt IH]; intros lvl es nx rk Hlvl Hwf Hne Hlen; [congruence|].
  cbn [get_ref]. cbn [length] in Hlen.
  pose proof Hwf as Hwf0. unfold wf_fib in Hwf. apply andb_true_iff in Hwf. destruct Hwf as [Hs Hk].
  pose proof (ssorted_NoDup _ Hs) as Hnd.
  set (i := bisect c (map fst es)).
  pose proof (bisect_len es c) as Hi. fold i in Hi.
  assert (Hlt : (S lvl < n)%nat) by lia.
  assert (Hlv : forall k, (lvl + S k)%nat = (S lvl + k)%nat) by (intros; lia).
  destruct (coord_exists c (map fst es) i) eqn:Hex.
  - destruct (bisect_assoc_hit es c Hs Hex) as [p [Hn Ha]]. fold i in Hn. rewrite Hn.
    pose proof (forallb_nth_error _ _ _ _ Hk Hn) as Hp. cbn [snd] in Hp.
    destruct p as [v|id ow e0]; [cbn [wf_i] in Hp; apply Nat.eqb_eq in Hp; lia|].
    rewrite wf_i_node in Hp. apply andb_true_iff in Hp. destruct Hp as [_ Hw1].
    destruct pt as [|c2 pt'].
    + cbn [fst snd]. exists id, ow, e0. split; [reflexivity|]. cbn [length]. rewrite Hlv, Nat.add_0_r.
      split; [exact Hw1|]. split; [reflexivity|].
      intros r Hr. cbn [app lookup_i]. rewrite Ha. destruct r; [congruence|reflexivity].
    + destruct (IH (S lvl) e0 nx rk Hlt Hw1) as (id' & ow' & e1 & Hr & Hwe & Hsame & Hsub);
        [discriminate|cbn [length] in *; lia|].
      destruct (get_ref n d w (S lvl) (c2 :: pt') e0 nx rk) as [[[e2 nx2] rk2] r2].
      cbn [fst snd] in *. exists id', ow', e1. split; [exact Hr|].
      cbn [length] in Hwe |- *. rewrite Hlv. split; [exact Hwe|]. split.
      * intros q. destruct q as [|c3 q']; [reflexivity|]. cbn [lookup_i].
        rewrite (assoc_set_nth es i c (INode id ow e0) _ c3 Hnd Hn).
        destruct (c3 =? c) eqn:E; [|reflexivity]. apply Z.eqb_eq in E. subst c3. rewrite Ha.
        destruct q' as [|c4 q'']; [reflexivity|]. apply Hsame.
      * intros r Hr0. cbn [app lookup_i]. rewrite Ha. apply (Hsub r Hr0).
  - pose proof (bisect_assoc_miss es c Hs Hex) as Hmiss.
    assert (Hleaf : Nat.eqb (S lvl) n = false) by (apply Nat.eqb_neq; lia). rewrite Hleaf.
    rewrite (nth_error_insert_at i (c, INode nx (Some (S lvl)) []) es Hi).
    destruct pt as [|c2 pt'].
    + cbn [fst snd]. exists nx, (Some (S lvl)), []. split; [reflexivity|]. split; [reflexivity|]. split.
      * intros q. destruct q as [|c3 q']; [reflexivity|]. cbn [lookup_i].
        rewrite (assoc_insert_at es i c _ c3 Hi Hmiss).
        destruct (c3 =? c) eqn:E; [|reflexivity]. apply Z.eqb_eq in E. subst c3. rewrite Hmiss.
        destruct q' as [|c4 q'']; [reflexivity|]. apply lookup_nil.
      * intros r Hr. cbn [app lookup_i]. rewrite Hmiss. rewrite lookup_nil. destruct r; reflexivity.
    + destruct (IH (S lvl) [] (S nx) (app_rank (S lvl) nx rk) Hlt eq_refl)
        as (id' & ow' & e1 & Hr & Hwe & Hsame & Hsub); [discriminate|cbn [length] in *; lia|].
      destruct (get_ref n d w (S lvl) (c2 :: pt') [] (S nx) (app_rank (S lvl) nx rk))
        as [[[e2 nx2] rk2] r2].
      cbn [fst snd] in *. exists id', ow', e1. split; [exact Hr|].
      cbn [length] in Hwe |- *. rewrite Hlv. split; [exact Hwe|]. split.
      * intros q. destruct q as [|c3 q']; [reflexivity|]. cbn [lookup_i].
        assert (Hnd' : NoDup (map fst (insert_at i (c, INode nx (Some (S lvl)) []) es))).
        { apply ssorted_NoDup. rewrite map_fst_insert_at. apply insert_sorted; assumption. }
        rewrite (assoc_set_nth _ i c (INode nx (Some (S lvl)) []) _ c3 Hnd'
                   (nth_error_insert_at i _ es Hi)).
        destruct (c3 =? c) eqn:E.
        -- apply Z.eqb_eq in E. subst c3. rewrite Hmiss.
           destruct q' as [|c4 q'']; [reflexivity|]. rewrite Hsame. apply lookup_nil.
        -- rewrite (assoc_insert_at es i c _ c3 Hi Hmiss), E. reflexivity.
      * intros r Hr0. cbn [app lookup_i]. rewrite Hmiss. rewrite <- (Hsub r Hr0).
        rewrite lookup_nil. destruct (pt' ++ r); reflexivity.
Qed.

(* ---------- getPayload returns well-formed sub-trees ---------- *)
Lemma get_pay_wf n d : forall pt lvl es t,
  (lvl < n)%nat -> wf_fib n lvl es = true -> get_pay n d lvl pt es = Some t ->
  wf_i n (lvl + length pt) t = true.
Proof.
  induction pt as [|c pt IH]; intros lvl es t Hlvl Hwf H; [discriminate|].
  cbn [get_pay] in H.
  set (p := if coord_exists c (map fst es) (bisect c (map fst es))
            then match nth_error es (bisect c (map fst es)) with Some (_, p) => p | None => ILeaf d end
            else if Nat.eqb (S lvl) n then ILeaf d else INode 0 (Some (S lvl)) []) in *.
  assert (Hp : wf_i n (S lvl) p = true).
  { unfold p. destruct (coord_exists c (map fst es) (bisect c (map fst es))) eqn:Hex.
    - destruct (coord_exists_nth c es _ Hex) as [q Hq]. rewrite Hq.
      unfold wf_fib in Hwf. apply andb_true_iff in Hwf. destruct Hwf as [_ Hk].
      exact (forallb_nth_error _ _ _ _ Hk Hq).
    - destruct (Nat.eqb (S lvl) n) eqn:E; [exact E|].
      apply Nat.eqb_neq in E. rewrite wf_i_node.
      assert (Hl : Nat.ltb (S lvl) n = true) by (apply Nat.ltb_lt; lia). rewrite Hl. reflexivity. }
  cbn [length]. replace (lvl + S (length pt))%nat with (S lvl + length pt)%nat by lia.
  destruct pt as [|c2 pt'].
  - inversion H; subst. cbn [length]. rewrite Nat.add_0_r. exact Hp.
  - destruct p as [v|id ow e0]; [discriminate|].
    rewrite wf_i_node in Hp. apply andb_true_iff in Hp. destruct Hp as [Hl Hw1].
    apply Nat.ltb_lt in Hl. apply (IH (S lvl) e0 t Hl Hw1 H).
Qed.

(* ---------- start positions ---------- *)
Lemma sp_le_bisect c : forall cs p x,
  ssorted cs = true -> nth_error cs p = Some x -> x <= c -> (p <= bisect c cs)%nat.
Proof.
  induction cs as [|y cs IH]; intros p x Hs Hn Hx; [destruct p; discriminate|].
  destruct p as [|p]; [lia|]. cbn [nth_error] in Hn.
  rewrite ssorted_cons in Hs. apply andb_true_iff in Hs. destruct Hs as [Hh Hs].
  pose proof (ssorted_all_gt y cs Hh Hs) as Hall. rewrite Forall_forall in Hall.
  pose proof (Hall x (nth_error_In _ _ Hn)) as Hyx.
  cbn [bisect]. assert (Hyc : (y <? c) = true) by lia. rewrite Hyc.
  apply le_n_S. eapply IH; eassumption.
Qed.

Lemma legal_pos c sp (e : ifib) :
  ssorted (map fst e) = true -> legal_sp c sp (map fst e) = true ->
  coord2pos c (map fst e) (norm_sp sp e) = bisect c (map fst e).
Proof.
  intros Hs Hl. destruct sp as [k|]; [|reflexivity]. unfold legal_sp in Hl. unfold norm_sp.
  rewrite map_length in Hl. destruct (length e) eqn:El; [reflexivity|].
  apply start_pos_invisible; [exact Hs|]. apply Nat.leb_le. exact Hl.
Qed.

Lemma accept_assert c sp (e : ifib) : accept_sp c sp (map fst e) = sp_assert c (norm_sp sp e) e.
Proof.
  destruct sp as [k|]; [|reflexivity]. unfold accept_sp, norm_sp, sp_assert. rewrite map_length.
  destruct (length e) eqn:El; [reflexivity|]. destruct (Nat.modulo k (S n)); reflexivity.
Qed.

Lemma accept_legal c sp (e : ifib) :
  ssorted (map fst e) = true -> accept_sp c sp (map fst e) = true -> legal_sp c sp (map fst e) = true.
Proof.
  intros Hs Ha. destruct sp as [k|]; [|reflexivity]. unfold accept_sp in Ha. unfold legal_sp.
  destruct (length (map fst e)) eqn:El; [reflexivity|].
  destruct (Nat.modulo k (S n)) as [|p] eqn:Em; [reflexivity|].
  destruct (nth_error (map fst e) (S p)) as [x|] eqn:Hn; [|discriminate].
  apply Nat.leb_le. eapply sp_le_bisect; [exact Hs|exact Hn|lia].
Qed.

(* ---------- getPayload with a caller default ---------- *)
Lemma get_pay_d_plain n dflt : forall pt lvl es,
  wf_fib n lvl es = true ->
  option_map erase (get_pay_d dflt pt es) = plain_get_d dflt pt (Node (erase_f es)).
Proof.
  induction pt as [|c pt IH]; intros lvl es Hwf; [reflexivity|].
  cbn [get_pay_d plain_get_d]. rewrite lookup_erase_f.
  pose proof (wf_fib_sorted _ _ _ Hwf) as Hs.
  destruct (coord_exists c (map fst es) (bisect c (map fst es))) eqn:Hex.
  - destruct (bisect_assoc_hit es c Hs Hex) as [p [Hn Ha]]. rewrite Hn, Ha. cbn [option_map].
    destruct pt as [|c2 pt']; [destruct p; reflexivity|].
    destruct p as [v|id ow e0]; [reflexivity|]. rewrite erase_node.
    destruct (wf_fib_child n lvl es _ c id ow e0 Hwf Hn) as [_ Hw1].
    apply (IH (S lvl) e0 Hw1).
  - rewrite (bisect_assoc_miss es c Hs Hex). reflexivity.
Qed.

(* ---------- the leaf default never changes ---------- *)
Lemma with_root_d s es nx rk : s_d (with_root s es nx rk) = s_d s.
Proof. unfold with_root. destruct (s_root s); reflexivity. Qed.

Lemma local_d s path f : s_d (fst (local s path f)) = s_d s.
Proof.
  unfold local. destruct (path_ok path (root_es s)); [|reflexivity].
  destruct (at_path path f O (root_es s)); [apply with_root_d|reflexivity].
Qed.

Lemma step0_d s o : s_d (fst (Store.step0 s o)) = s_d s.
Proof.
  destruct o; cbn [Store.step0].
  - destruct (Nat.leb (length pt) (nranks s) && negb (Nat.eqb (length pt) 0)); [|reflexivity].
    destruct (get_ref (nranks s) (s_d s) w O pt (root_es s) (s_next s) (s_ranks s))
      as [[[es' nx] rk] r]. apply with_root_d.
  - destruct (Nat.leb (length pt) (nranks s) && negb (Nat.eqb (length pt) 0)); reflexivity.
  - destruct (Nat.eqb (S (length path)) (nranks s)); [apply local_d|reflexivity].
  - destruct (Nat.eqb (S (length path)) (nranks s)
              || Nat.ltb (length path) (nranks s) && match ov with None => true | Some _ => false end);
      [apply local_d|reflexivity].
  - destruct (Nat.ltb (length path) (nranks s)); [|reflexivity].
    destruct (fiber_at path (root_es s)) as [es|]; [|reflexivity].
    pose proof (local_d s path (fun _ => do_clear)) as Hl.
    destruct (local s path (fun _ : nat => do_clear)) as [s' out]. cbn [fst] in *.
    destruct out; exact Hl.
  - destruct (Nat.ltb (length path + depth) (nranks s) && ((sg =? 1) || (sg =? -1)));
      [apply local_d|reflexivity].
  - destruct (Nat.ltb (length path + depth) (nranks s)); [|reflexivity].
    destruct (fiber_at path (root_es s)) as [es0|]; [|reflexivity].
    destruct (distinct_below depth (tbl_fn tbl off) es0); [apply local_d|reflexivity].
  - destruct (Nat.eqb (S (length path + depth)) (nranks s)); [apply local_d|reflexivity].
  - destruct (Nat.ltb (length path) (nranks s) && (0 <? step) && (0 <=? lo)); [|reflexivity].
    destruct (at_path_st path _ O (root_es s) (s_next s) (s_ranks s)) as [[[es' nx] rk]|];
      [apply with_root_d|reflexivity].
  - destruct (Nat.ltb (length path) (nranks s)); [|reflexivity].
    destruct (fiber_at path (root_es s)) as [es|]; [|reflexivity].
    destruct (sp_in_range (norm_sp sp es) es); reflexivity.
  - destruct (Nat.ltb (length path) (nranks s)); [|reflexivity].
    destruct (fiber_at path (root_es s)) as [es|]; [|reflexivity].
    destruct (sp_in_range (norm_sp sp es) es); [|reflexivity].
    destruct (coord_exists c (map fst es) (coord2pos c (map fst es) (norm_sp sp es))
              || negb (coord_exists c (map fst es) (bisect c (map fst es)))); [|reflexivity].
    destruct (at_path_st path _ O (root_es s) (s_next s) (s_ranks s)) as [[[es' nx] rk]|];
      [apply with_root_d|reflexivity].
  - destruct (Nat.ltb (length path) (nranks s)); [|reflexivity].
    destruct (fiber_at path (root_es s)) as [es|]; [|reflexivity].
    destruct (sp_in_range (norm_sp sp es) es); [|reflexivity].
    destruct (sp_assert c (norm_sp sp es) es); reflexivity.
  - destruct (Nat.ltb (length path) (nranks s)); [|reflexivity].
    destruct (fiber_at path (root_es s)) as [es|]; [|reflexivity].
    destruct (sp_in_range (norm_sp sp es) es); [|reflexivity].
    destruct (coord_exists c (map fst es) (coord2pos c (map fst es) (norm_sp sp es))
              || negb (coord_exists c (map fst es) (bisect c (map fst es)))); [|reflexivity].
    destruct (at_path_st path _ O (root_es s) (s_next s) (s_ranks s)) as [[[es' nx] rk]|];
      [apply with_root_d|reflexivity].
  - destruct (Nat.leb (length pt) (nranks s) && negb (Nat.eqb (length pt) 0)); reflexivity.
  - destruct (Nat.ltb (S (length path)) (nranks s) && plain_wf (nranks s - S (length path)) t);
      [|reflexivity].
    destruct (fiber_at path (root_es s)) as [e|]; [|reflexivity].
    destruct (match last_coord e with Some m => m <? c | None => true end); [|reflexivity].
    destruct (at_path_st path _ O (root_es s) (s_next s) (s_ranks s)) as [[[es' nx] rk]|];
      [apply with_root_d|reflexivity].
  - destruct t as [v|l]; [reflexivity|].
    destruct (Nat.ltb (length path) (nranks s) && plain_wf (nranks s - length path) (Node l));
      [|reflexivity].
    destruct (fiber_at path (root_es s)) as [e|]; [|reflexivity].
    destruct (is_empty (s_d s) (Node l)); [reflexivity|].
    destruct (match last_coord e, l with Some m, (c0, _) :: _ => m <? c0 | _, _ => true end);
      [|reflexivity].
    destruct (at_path_st path _ O (root_es s) (s_next s) (s_ranks s)) as [[[es' nx] rk]|];
      [apply with_root_d|reflexivity].
  - destruct (Nat.ltb (S (length path)) (nranks s) && plain_wf (nranks s - S (length path)) t);
      [|reflexivity].
    destruct (fiber_at path (root_es s)) as [e|]; [|reflexivity]. cbv zeta.
    destruct (((if pos <? 0 then pos + Z.of_nat (length e) else pos) <? 0)
              || (Z.of_nat (length e) <=? (if pos <? 0 then pos + Z.of_nat (length e) else pos)));
      [reflexivity|].
    destruct (at_path_st path _ O (root_es s) (s_next s) (s_ranks s)) as [[[es' nx] rk]|];
      [apply with_root_d|reflexivity].
  - destruct (prune (s_d s) t) as [v|l]; [reflexivity|].
    destruct (Nat.ltb (length path) (nranks s) && plain_wf (nranks s - length path) t);
      [|reflexivity].
    destruct (at_path_st path _ O (root_es s) (s_next s) (s_ranks s)) as [[[es' nx] rk]|];
      [apply with_root_d|reflexivity].
  - reflexivity.
Qed.

(* OSetItemCF = the coordinate-only assignment, then the fiber-only assignment (step_decomp) *)
Lemma step_d s o : s_d (fst (Store.step s o)) = s_d s.
Proof.
  destruct (step_decomp s o) as [E|(path & pos & c & t & _ & [[E _]|(s1 & r1 & _ & E1 & E2)])].
  - rewrite E. apply step0_d.
  - rewrite E. reflexivity.
  - pose proof (step0_d s (OSetItem path pos (Some c) None)) as Hd1. rewrite E1 in Hd1. cbn [fst] in Hd1.
    rewrite E2, <- Hd1. apply step0_d.
Qed.

(* ---------- evaluating the oracle's step on the shapes the model produces ---------- *)
Lemma tos s : tree_of_state (V_state s) = Some (erase (s_root s)).
Proof. unfold tree_of_state. rewrite V_to_state_V_state. reflexivity. Qed.

Definition resync_op (o : op) : Prop :=
  match o with
  | OAppend _ _ _ | OSetItem _ _ _ _ | OClear _ | OUpdCoords _ _ _ _ | OUpdCoordsTbl _ _ _ _
  | OUpdPayloads _ _ _ | OShapeRef _ _ _ _
  | OAppendFib _ _ _ | OExtend _ _ | OSetItemFib _ _ _ | OAssignFib _ _
  | OSetItemCF _ _ _ _ => True
  | _ => False
  end.

Lemma ev_resync n d m o out sb sa :
  resync_op o ->
  c03_step n d m o out (V_state sb) (V_state sa) = (true, content d (erase (s_root sa))).
Proof. destruct o; intros H; try contradiction; unfold c03_step; rewrite !tos; reflexivity. Qed.

Lemma ev_OGet_full n d m pt v sb :
  length pt = n -> v = get_or d pt m ->
  c03_step n d m (OGet pt) (V_outcome (Done (RPay (ILeaf v)))) (V_state sb) (V_state sb) = (true, m).
Proof.
  intros E ->. unfold c03_step. rewrite <- E, Nat.eqb_refl, V_eqb_refl.
  cbn [andb V_outcome V_res erase V_tree]. unfold get_or. rewrite V_eqb_refl. reflexivity.
Qed.

Lemma ev_OGet_prefix n d m pt t sb :
  length pt <> n -> pm_same (content d (erase t)) (pm_content d (pm_under pt m)) = true ->
  c03_step n d m (OGet pt) (V_outcome (Done (RPay t))) (V_state sb) (V_state sb) = (true, m).
Proof.
  intros E H. unfold c03_step. apply Nat.eqb_neq in E. rewrite E, V_eqb_refl.
  cbn [andb V_outcome V_res]. rewrite V_to_tree_V_tree, H. reflexivity.
Qed.

Lemma ev_OGetRef_full n d m pt w sb sa :
  length pt = n ->
  pm_same (content d (erase (s_root sa)))
          (pm_content d (pm_set pt (apply_wr w (get_or d pt m)) m)) = true ->
  c03_step n d m (OGetRef pt w) (V_outcome (Done (RPay (ILeaf (apply_wr w (get_or d pt m))))))
           (V_state sb) (V_state sa)
  = (true, pm_set pt (apply_wr w (get_or d pt m)) m).
Proof.
  intros E H. unfold c03_step. rewrite !tos. rewrite <- E, Nat.eqb_refl.
  cbn [V_outcome V_res erase V_tree]. unfold get_or in *. rewrite V_eqb_refl, H. reflexivity.
Qed.

Lemma ev_OGetRef_prefix n d m pt w t sb sa :
  length pt <> n ->
  pm_same (content d (erase (s_root sa))) (pm_content d m) = true ->
  pm_same (content d (erase t)) (pm_content d (pm_under pt m)) = true ->
  c03_step n d m (OGetRef pt w) (V_outcome (Done (RPay t))) (V_state sb) (V_state sa) = (true, m).
Proof.
  intros E H1 H2. unfold c03_step. rewrite !tos. apply Nat.eqb_neq in E. rewrite E, H1.
  cbn [andb V_outcome V_res]. rewrite V_to_tree_V_tree, H2. reflexivity.
Qed.

Lemma ev_OGetPos n d m path c sp p sb es :
  plain_fiber_at path (erase (s_root sb)) = Some es ->
  (legal_sp c sp (map fst es) = true -> p = index_of c (map fst es)) ->
  c03_step n d m (OGetPos path c sp) (V_outcome (Done (RPos p))) (V_state sb) (V_state sb) = (true, m).
Proof.
  intros Hp Hl. unfold c03_step. rewrite !tos, Hp, V_eqb_refl.
  destruct (legal_sp c sp (map fst es)); [|reflexivity].
  rewrite (Hl eq_refl). cbn [andb V_outcome V_res]. rewrite V_eqb_refl. reflexivity.
Qed.

Lemma ev_OGetSP_rej n d m path c sp sb es :
  plain_fiber_at path (erase (s_root sb)) = Some es ->
  accept_sp c sp (map fst es) = false ->
  c03_step n d m (OGetSP path c sp) (V_outcome Rejected) (V_state sb) (V_state sb) = (true, m).
Proof. intros Hp Ha. unfold c03_step. rewrite !tos, Hp, Ha, V_eqb_refl. reflexivity. Qed.

Lemma ev_OGetSP_leaf n d m path c sp v sb es :
  plain_fiber_at path (erase (s_root sb)) = Some es ->
  S (length path) = n ->
  (accept_sp c sp (map fst es) = true -> v = get_or d (path ++ [c]) m) ->
  c03_step n d m (OGetSP path c sp) (V_outcome (Done (RPay (ILeaf v)))) (V_state sb) (V_state sb)
  = (true, m).
Proof.
  intros Hp E Ha. unfold c03_step. rewrite !tos, Hp, V_eqb_refl.
  destruct (accept_sp c sp (map fst es)); [|reflexivity].
  rewrite <- E, Nat.eqb_refl, (Ha eq_refl). cbn [andb V_outcome V_res erase V_tree].
  unfold get_or. rewrite V_eqb_refl. reflexivity.
Qed.

Lemma ev_OGetSP_sub n d m path c sp t sb es :
  plain_fiber_at path (erase (s_root sb)) = Some es ->
  S (length path) <> n ->
  (accept_sp c sp (map fst es) = true ->
   pm_same (content d (erase t)) (pm_content d (pm_under (path ++ [c]) m)) = true) ->
  c03_step n d m (OGetSP path c sp) (V_outcome (Done (RPay t))) (V_state sb) (V_state sb) = (true, m).
Proof.
  intros Hp E Ha. unfold c03_step. rewrite !tos, Hp, V_eqb_refl.
  destruct (accept_sp c sp (map fst es)); [|reflexivity].
  apply Nat.eqb_neq in E. rewrite E. cbn [andb V_outcome V_res].
  rewrite V_to_tree_V_tree, (Ha eq_refl). reflexivity.
Qed.

Lemma ev_OGetPosRef n d m path c sp i sb sa eb ea :
  pm_same (content d (erase (s_root sa))) (pm_content d m) = true ->
  plain_fiber_at path (erase (s_root sb)) = Some eb ->
  plain_fiber_at path (erase (s_root sa)) = Some ea ->
  (legal_sp c sp (map fst eb) = true -> index_of c (map fst ea) = Some i) ->
  c03_step n d m (OGetPosRef path c sp) (V_outcome (Done (RPos (Some i)))) (V_state sb) (V_state sa)
  = (true, m).
Proof.
  intros H1 Hb Ha Hl. unfold c03_step. rewrite !tos, H1, Hb, Ha.
  destruct (legal_sp c sp (map fst eb)); [|reflexivity].
  rewrite (Hl eq_refl). cbn [andb V_outcome V_res]. rewrite V_eqb_refl. reflexivity.
Qed.

Lemma ev_OGetRefSP_leaf n d m path c sp w sb sa :
  S (length path) = n ->
  pm_same (content d (erase (s_root sa)))
          (pm_content d (pm_set (path ++ [c]) (apply_wr w (get_or d (path ++ [c]) m)) m)) = true ->
  c03_step n d m (OGetRefSP path c sp w)
           (V_outcome (Done (RPay (ILeaf (apply_wr w (get_or d (path ++ [c]) m))))))
           (V_state sb) (V_state sa)
  = (true, pm_set (path ++ [c]) (apply_wr w (get_or d (path ++ [c]) m)) m).
Proof.
  intros E H. unfold c03_step. rewrite !tos. rewrite <- E, Nat.eqb_refl.
  cbn [V_outcome V_res erase V_tree]. unfold get_or in *. rewrite V_eqb_refl, H. reflexivity.
Qed.

Lemma ev_OGetRefSP_sub n d m path c sp w out sb sa :
  S (length path) <> n ->
  pm_same (content d (erase (s_root sa))) (pm_content d m) = true ->
  c03_step n d m (OGetRefSP path c sp w) out (V_state sb) (V_state sa) = (true, m).
Proof.
  intros E H. unfold c03_step. rewrite !tos. apply Nat.eqb_neq in E. rewrite E, H. reflexivity.
Qed.

Lemma ev_OGetD n d m pt dflt r sb :
  option_map erase r = plain_get_d dflt pt (erase (s_root sb)) ->
  c03_step n d m (OGetD pt dflt) (V_outcome (Done (res_of r))) (V_state sb) (V_state sb) = (true, m).
Proof.
  intros H. unfold c03_step. rewrite !tos, V_eqb_refl, <- H.
  destruct r as [t|]; cbn [option_map res_of V_outcome V_res andb]; rewrite V_eqb_refl; reflexivity.
Qed.

(* ---------- the invariant ---------- *)
Definition INV (n : nat) (d : Z) (m : pmap) (es : ifib) : Prop :=
  KeysOk n m /\ forall q, length q = n -> get_or d q m = lookup_i d q es.

Lemma INV_same n d m es es' :
  INV n d m es -> (forall q, length q = n -> lookup_i d q es' = lookup_i d q es) -> INV n d m es'.
Proof. intros [HK HI] H. split; [exact HK|]. intros q Hq. rewrite (H q Hq). apply HI. exact Hq. Qed.

Lemma INV_set n d m es es' pt new :
  INV n d m es -> length pt = n ->
  (forall q, length q = n -> lookup_i d q es' = if path_eqb q pt then new else lookup_i d q es) ->
  INV n d (pm_set pt new m) es'.
Proof.
  intros [HK HI] Hp H. split; [apply pm_set_KeysOk; assumption|].
  intros q Hq. rewrite get_or_set, (H q Hq), (HI q Hq). reflexivity.
Qed.

Lemma INV_view n d m id ow es :
  INV n d m es -> (0 < n)%nat -> wf_fib n 0 es = true ->
  pm_same (content d (erase (INode id ow es))) (pm_content d m) = true.
Proof. intros [HK HI] Hn Hw. apply (full_view n d m id ow es HK HI Hn Hw). Qed.

Lemma INV_resync s :
  wf_st s -> INV (nranks s) (s_d s) (content (s_d s) (erase (s_root s))) (root_es s).
Proof.
  intros (rid & ow & es & Hr & Hn & Hw). rewrite (root_es_of s rid ow es Hr), Hr.
  destruct (cfib_view (nranks s) (s_d s) 0 rid ow es Hn Hw) as [HK H3].
  rewrite Nat.sub_0_r in HK, H3. split; [exact HK|].
  intros q Hq. apply get_or_filt. apply H3. exact Hq.
Qed.

Definition step_ok (s : st) (o : op) (m : pmap) : Prop :=
  exists m',
    c03_step (nranks s) (s_d s) m o (V_outcome (snd (Store.step s o)))
             (V_state s) (V_state (fst (Store.step s o))) = (true, m')
    /\ INV (nranks s) (s_d s) m' (root_es (fst (Store.step s o))).

Lemma with_root_root s rid ow es es' nx rk :
  s_root s = INode rid ow es ->
  s_root (with_root s es' nx rk) = INode rid ow es' /\ root_es (with_root s es' nx rk) = es'.
Proof. intros Hr. unfold root_es, with_root. rewrite Hr. cbn [s_root]. split; reflexivity. Qed.

(* every full point either avoids [path] or passes through the fiber at [path] *)
Lemma path_lookup n d path es es' e e' :
  wf_fib n 0 es = true -> wf_fib n 0 es' = true ->
  fiber_at path es = Some e -> fiber_at path es' = Some e' ->
  (forall q, is_prefix path q = false -> lookup_i d q es' = lookup_i d q es) ->
  (length path < n)%nat ->
  forall q, length q = n ->
    (is_prefix path q = false /\ lookup_i d q es' = lookup_i d q es)
    \/ (exists r, q = path ++ r /\ length r = (n - length path)%nat
                  /\ lookup_i d q es' = lookup_i d r e' /\ lookup_i d q es = lookup_i d r e).
Proof.
  intros Hw Hw' Hf Hf' Hq Hl q Hlen. destruct (is_prefix path q) eqn:E.
  - right. apply is_prefix_split in E. exists (skipn (length path) q).
    assert (Hr : length (skipn (length path) q) = (n - length path)%nat) by (rewrite skipn_length; lia).
    assert (Hne : skipn (length path) q <> []).
    { intros H0. rewrite H0 in Hr. cbn [length] in Hr. lia. }
    destruct (fiber_at_view n d path 0 es e Hw Hf) as [_ H1].
    destruct (fiber_at_view n d path 0 es' e' Hw' Hf') as [_ H2].
    split; [exact E|]. split; [exact Hr|]. split.
    + rewrite E at 1. apply H2. exact Hne.
    + rewrite E at 1. apply H1. exact Hne.
  - left. split; [reflexivity|]. apply Hq. exact E.
Qed.

(* ---------- the operations judged by the oracle ---------- *)
Lemma ok_OGet s m pt :
  wf_st s -> INV (nranks s) (s_d s) m (root_es s) ->
  snd (Store.step s (OGet pt)) <> BadAddress -> step_ok s (OGet pt) m.
Proof.
  intros (rid & ow & es & Hr & Hn & Hw) HI Hnb.
  pose proof (root_es_of s rid ow es Hr) as Hre. rewrite Hre in HI.
  unfold step_ok. cbn [Store.step Store.step0] in *.
  destruct (Nat.leb (length pt) (nranks s) && negb (Nat.eqb (length pt) 0)) eqn:Hg;
    [|exfalso; apply Hnb; reflexivity].
  cbn [fst snd]. clear Hnb. apply andb_true_iff in Hg. destruct Hg as [Hle Hnz].
  apply Nat.leb_le in Hle. apply negb_true_iff in Hnz. apply Nat.eqb_neq in Hnz.
  rewrite Hre. exists m. split; [|exact HI]. destruct HI as [HK HI].
  destruct (Nat.eq_dec (length pt) (nranks s)) as [E|E].
  - rewrite (get_pay_lookup (nranks s) (s_d s) pt 0 es Hn Hw) by lia. cbn [res_of].
    apply ev_OGet_full; [exact E|]. symmetry. apply HI. exact E.
  - assert (Hne : pt <> []) by (intros ->; apply Hnz; reflexivity).
    destruct (get_pay_prefix (nranks s) (s_d s) pt 0 es Hn Hw Hne) as (id' & ow' & e' & Hg & Hl); [lia|].
    pose proof (get_pay_wf _ _ _ _ _ _ Hn Hw Hg) as Hwt. cbn [plus] in Hwt.
    rewrite wf_i_node in Hwt. apply andb_true_iff in Hwt. destruct Hwt as [_ Hwt].
    rewrite Hg. cbn [res_of]. apply ev_OGet_prefix; [exact E|].
    apply (sub_view (nranks s) (s_d s) m es pt id' ow' e' HK HI); [lia|exact Hwt|exact Hl].
Qed.

Lemma ok_OGetRef s m pt w :
  wf_st s -> INV (nranks s) (s_d s) m (root_es s) ->
  snd (Store.step s (OGetRef pt w)) <> BadAddress -> step_ok s (OGetRef pt w) m.
Proof.
  intros (rid & ow & es & Hr & Hn & Hw) HI Hnb.
  pose proof (root_es_of s rid ow es Hr) as Hre. rewrite Hre in HI.
  unfold step_ok. cbn [Store.step Store.step0] in *.
  destruct (Nat.leb (length pt) (nranks s) && negb (Nat.eqb (length pt) 0)) eqn:Hg;
    [|exfalso; apply Hnb; reflexivity].
  clear Hnb. apply andb_true_iff in Hg. destruct Hg as [Hle Hnz].
  apply Nat.leb_le in Hle. apply negb_true_iff in Hnz. apply Nat.eqb_neq in Hnz.
  rewrite Hre.
  pose proof (get_ref_wf (nranks s) (s_d s) w pt 0 es (s_next s) (s_ranks s) Hn Hw) as Hw'.
  destruct (Nat.eq_dec (length pt) (nranks s)) as [E|E].
  - destruct (get_ref_lookup (nranks s) (s_d s) w pt 0 es (s_next s) (s_ranks s) Hn Hw) as [Hres Hq];
      [lia|].
    destruct (get_ref (nranks s) (s_d s) w 0 pt es (s_next s) (s_ranks s)) as [[[es' nx] rk] r].
    cbn [fst snd] in *. destruct (with_root_root s rid ow es es' nx rk Hr) as [Hr' Hre'].
    rewrite Hre', Hres. cbn [res_of].
    assert (Hold : lookup_i (s_d s) pt es = get_or (s_d s) pt m) by (symmetry; apply HI; exact E).
    rewrite Hold in *.
    assert (HI' : INV (nranks s) (s_d s) (pm_set pt (apply_wr w (get_or (s_d s) pt m)) m) es').
    { apply (INV_set _ _ m es es' pt _ HI E). intros q Hlq. rewrite (Hq q) by lia.
      rewrite pt_eqb_path. reflexivity. }
    eexists. split; [|exact HI'].
    apply ev_OGetRef_full; [exact E|]. rewrite Hr'. apply (INV_view _ _ _ rid ow es' HI' Hn Hw').
  - assert (Hne : pt <> []) by (intros ->; apply Hnz; reflexivity).
    destruct (get_ref_prefix (nranks s) (s_d s) w pt 0 es (s_next s) (s_ranks s) Hn Hw Hne)
      as (id' & ow' & e1 & Hres & Hwe & Hsame & Hsub); [lia|].
    destruct (get_ref (nranks s) (s_d s) w 0 pt es (s_next s) (s_ranks s)) as [[[es' nx] rk] r].
    cbn [fst snd plus] in *. destruct (with_root_root s rid ow es es' nx rk Hr) as [Hr' Hre'].
    rewrite Hre', Hres. cbn [res_of].
    assert (HI' : INV (nranks s) (s_d s) m es') by (apply (INV_same _ _ m es es' HI); intros q _; apply Hsame).
    exists m. split; [|exact HI'].
    apply ev_OGetRef_prefix; [exact E| |].
    + rewrite Hr'. apply (INV_view _ _ _ rid ow es' HI' Hn Hw').
    + destruct HI as [HK HI]. apply (sub_view (nranks s) (s_d s) m es pt id' ow' e1 HK HI); [lia|exact Hwe|exact Hsub].
Qed.

Lemma ok_OGetPos s m path c sp :
  wf_st s -> INV (nranks s) (s_d s) m (root_es s) ->
  snd (Store.step s (OGetPos path c sp)) <> BadAddress -> step_ok s (OGetPos path c sp) m.
Proof.
  intros (rid & ow & es & Hr & Hn & Hw) HI Hnb.
  pose proof (root_es_of s rid ow es Hr) as Hre.
  unfold step_ok. cbn [Store.step Store.step0] in *.
  destruct (Nat.ltb (length path) (nranks s)) eqn:Hlt; [|exfalso; apply Hnb; reflexivity].
  destruct (fiber_at path (root_es s)) as [e|] eqn:Hf; [|exfalso; apply Hnb; reflexivity].
  destruct (sp_in_range (norm_sp sp e) e); [|exfalso; apply Hnb; reflexivity].
  cbn [fst snd]. exists m. split; [|exact HI]. rewrite Hre in Hf.
  destruct (fiber_at_view (nranks s) (s_d s) path 0 es e Hw Hf) as [Hwe _].
  pose proof (wf_fib_sorted _ _ _ Hwe) as Hse.
  apply (ev_OGetPos _ _ _ _ _ _ _ _ (erase_f e)).
  - rewrite Hr, erase_node. apply (plain_fiber_at_erase (nranks s) path 0 es e Hw Hf).
  - rewrite map_fst_erase_f. intros Hl. rewrite (legal_pos c sp e Hse Hl).
    rewrite (bisect_index_of c _ Hse). apply index_of_eq.
Qed.

Lemma ok_OGetSP s m path c sp :
  wf_st s -> INV (nranks s) (s_d s) m (root_es s) ->
  snd (Store.step s (OGetSP path c sp)) <> BadAddress -> step_ok s (OGetSP path c sp) m.
Proof.
  intros (rid & ow & es & Hr & Hn & Hw) HI Hnb.
  pose proof (root_es_of s rid ow es Hr) as Hre.
  unfold step_ok. cbn [Store.step Store.step0] in *.
  destruct (Nat.ltb (length path) (nranks s)) eqn:Hlt; [|exfalso; apply Hnb; reflexivity].
  destruct (fiber_at path (root_es s)) as [e|] eqn:Hf; [|exfalso; apply Hnb; reflexivity].
  destruct (sp_in_range (norm_sp sp e) e); [|exfalso; apply Hnb; reflexivity].
  apply Nat.ltb_lt in Hlt. rewrite Hre in Hf, HI.
  destruct (fiber_at_view (nranks s) (s_d s) path 0 es e Hw Hf) as [Hwe Hsub].
  cbn [plus] in Hwe. pose proof (wf_fib_sorted _ _ _ Hwe) as Hse.
  assert (Hp : plain_fiber_at path (erase (s_root s)) = Some (erase_f e)).
  { rewrite Hr, erase_node. apply (plain_fiber_at_erase (nranks s) path 0 es e Hw Hf). }
  destruct (sp_assert c (norm_sp sp e) e) eqn:Ha; cbn [fst snd]; (exists m; split; [|rewrite Hre; exact HI]).
  - (* accepted *)
    assert (Hacc : accept_sp c sp (map fst e) = true) by (rewrite accept_assert; exact Ha).
    rewrite (legal_pos c sp e Hse (accept_legal c sp e Hse Hacc)).
    match goal with |- context [RPay ?X] => set (P := X) end.
    assert (Hgp : get_pay (nranks s) (s_d s) (length path) [c] e = Some P) by reflexivity.
    destruct HI as [HK HI].
    destruct (Nat.eq_dec (S (length path)) (nranks s)) as [E|E].
    + rewrite (get_pay_lookup (nranks s) (s_d s) [c] (length path) e Hlt Hwe) in Hgp
        by (cbn [length]; lia).
      inversion Hgp as [HP]. 
      apply (ev_OGetSP_leaf _ _ _ _ _ _ _ _ (erase_f e) Hp E). intros _.
      rewrite HI by (rewrite app_length; cbn [length]; lia).
      symmetry. apply Hsub. discriminate.
    + destruct (get_pay_prefix (nranks s) (s_d s) [c] (length path) e Hlt Hwe) as (id' & ow' & e' & Hg & Hl);
        [discriminate|cbn [length]; lia|].
      pose proof (get_pay_wf _ _ _ _ _ _ Hlt Hwe Hg) as Hwt. cbn [length] in Hwt.
      rewrite wf_i_node in Hwt. apply andb_true_iff in Hwt. destruct Hwt as [_ Hwt].
      rewrite Hg in Hgp. inversion Hgp as [HP].
      apply (ev_OGetSP_sub _ _ _ _ _ _ _ _ (erase_f e) Hp E). intros _.
      apply (sub_view (nranks s) (s_d s) m es (path ++ [c]) id' ow' e' HK HI).
      * rewrite app_length. cbn [length]. lia.
      * rewrite app_length. cbn [length]. exact Hwt.
      * intros r Hr0. rewrite <- app_assoc. rewrite Hsub by discriminate. apply Hl. exact Hr0.
  - (* refused by the assertion *)
    apply (ev_OGetSP_rej _ _ _ _ _ _ _ (erase_f e) Hp). rewrite map_fst_erase_f, accept_assert. exact Ha.
Qed.

(* common part of getPositionRef / getPayloadRef(start_pos): one getPayloadRef [c] at [path] *)
Lemma ok_single_ref s w path c e es' nx' rk' :
  wf_st s -> (length path < nranks s)%nat ->
  fiber_at path (root_es s) = Some e ->
  at_path_st path
    (fun lvl es nx rk =>
       let '(es1, nx1, rk1, _) := get_ref (nranks s) (s_d s) w lvl [c] es nx rk in (es1, nx1, rk1))
    0 (root_es s) (s_next s) (s_ranks s) = Some (es', nx', rk') ->
  exists rid ow es e' r nx0 rk0,
    s_root s = INode rid ow es /\ root_es s = es
    /\ wf_fib (nranks s) 0 es = true /\ wf_fib (nranks s) 0 es' = true
    /\ wf_fib (nranks s) (length path) e = true
    /\ get_ref (nranks s) (s_d s) w (length path) [c] e nx0 rk0 = (e', nx', rk', r)
    /\ fiber_at path es' = Some e'
    /\ (forall q, length q = nranks s ->
          (is_prefix path q = false /\ lookup_i (s_d s) q es' = lookup_i (s_d s) q es)
          \/ (exists r0, q = path ++ r0 /\ length r0 = (nranks s - length path)%nat
                /\ lookup_i (s_d s) q es' = lookup_i (s_d s) r0 e'
                /\ lookup_i (s_d s) q es = lookup_i (s_d s) r0 e)).
Proof.
  intros (rid & ow & es & Hr & Hn & Hw) Hlt Hf Hat.
  pose proof (root_es_of s rid ow es Hr) as Hre. rewrite Hre in Hf, Hat.
  pose proof (at_path_st_wf (nranks s) _ (get_ref_single_preserves (nranks s) (s_d s) w c)
                path 0 es (s_next s) (s_ranks s) _ Hn Hw Hat) as Hw'. cbn [fst] in Hw'.
  destruct (at_path_st_view (nranks s) (s_d s) _ path 0 es _ _ _ _ _ Hw Hat)
    as (e0 & e' & Hf1 & Hf2 & Hf3 & Hq).
  rewrite Hf in Hf1. inversion Hf1; subst e0. clear Hf1. cbn [plus] in Hf2.
  destruct (get_ref (nranks s) (s_d s) w (length path) [c] e (s_next s) (s_ranks s))
    as [[[e1 nx1] rk1] r] eqn:Hg.
  inversion Hf2; subst e1 nx1 rk1. clear Hf2.
  destruct (fiber_at_view (nranks s) (s_d s) path 0 es e Hw Hf) as [Hwe _]. cbn [plus] in Hwe.
  exists rid, ow, es, e', r, (s_next s), (s_ranks s).
  split; [exact Hr|]. split; [exact Hre|]. split; [exact Hw|]. split; [exact Hw'|].
  split; [exact Hwe|]. split; [exact Hg|]. split; [exact Hf3|].
  apply (path_lookup (nranks s) (s_d s) path es es' e e' Hw Hw' Hf Hf3 Hq Hlt).
Qed.

Lemma ok_OGetPosRef s m path c sp :
  wf_st s -> INV (nranks s) (s_d s) m (root_es s) ->
  snd (Store.step s (OGetPosRef path c sp)) <> BadAddress -> step_ok s (OGetPosRef path c sp) m.
Proof.
  intros Hs HI Hnb. unfold step_ok. cbn [Store.step Store.step0] in *.
  destruct (Nat.ltb (length path) (nranks s)) eqn:Hlt; [|exfalso; apply Hnb; reflexivity].
  destruct (fiber_at path (root_es s)) as [e|] eqn:Hf; [|exfalso; apply Hnb; reflexivity].
  destruct (sp_in_range (norm_sp sp e) e); [|exfalso; apply Hnb; reflexivity].
  destruct (coord_exists c (map fst e) (coord2pos c (map fst e) (norm_sp sp e))
            || negb (coord_exists c (map fst e) (bisect c (map fst e))));
    [|exfalso; apply Hnb; reflexivity].
  destruct (at_path_st path _ 0 (root_es s) (s_next s) (s_ranks s)) as [[[es' nx'] rk']|] eqn:Hat;
    [|exfalso; apply Hnb; reflexivity].
  cbn [fst snd]. clear Hnb. apply Nat.ltb_lt in Hlt.
  destruct (ok_single_ref s WNone path c e es' nx' rk' Hs Hlt Hf Hat)
    as (rid & ow & es & e' & r & nx0 & rk0 & Hr & Hre & Hw & Hw' & Hwe & Hg & Hf3 & Hpl).
  destruct Hs as (_ & _ & _ & _ & Hn & _).
  destruct (with_root_root s rid ow es es' nx' rk' Hr) as [Hr' Hre']. rewrite Hre'.
  rewrite Hre in HI, Hf.
  assert (HI' : INV (nranks s) (s_d s) m es').
  { apply (INV_same _ _ m es es' HI). intros q Hq.
    destruct (Hpl q Hq) as [[_ H]|(r0 & _ & Hr0 & H1 & H2)]; [exact H|].
    rewrite H1, H2.
    apply (get_ref_single_same (nranks s) (s_d s) WNone (length path) c e nx0 rk0 e' nx' rk' r Hwe Hlt
             (or_introl eq_refl) Hg r0 Hr0). }
  exists m. split; [|exact HI'].
  pose proof (wf_fib_sorted _ _ _ Hwe) as Hse.
  destruct (get_ref_single_pos _ _ _ _ _ _ _ _ _ _ _ _ Hg) as [Hcs _].
  apply (ev_OGetPosRef _ _ _ _ _ _ _ _ _ (erase_f e) (erase_f e')).
  - rewrite Hr'. apply (INV_view _ _ _ rid ow es' HI' Hn Hw').
  - rewrite Hr, erase_node. apply (plain_fiber_at_erase (nranks s) path 0 es e Hw Hf).
  - rewrite Hr', erase_node. apply (plain_fiber_at_erase (nranks s) path 0 es' e' Hw' Hf3).
  - rewrite !map_fst_erase_f. intros Hl. rewrite (legal_pos c sp e Hse Hl), Hcs.
    destruct (coord_exists c (map fst e) (bisect c (map fst e))) eqn:Hex.
    + rewrite <- index_of_eq, <- (bisect_index_of c _ Hse), Hex. reflexivity.
    + apply index_of_insert.
Qed.

Lemma ok_OGetRefSP s m path c sp w :
  wf_st s -> INV (nranks s) (s_d s) m (root_es s) ->
  snd (Store.step s (OGetRefSP path c sp w)) <> BadAddress -> step_ok s (OGetRefSP path c sp w) m.
Proof.
  intros Hs HI Hnb. unfold step_ok. cbn [Store.step Store.step0] in *.
  destruct (Nat.ltb (length path) (nranks s)) eqn:Hlt; [|exfalso; apply Hnb; reflexivity].
  destruct (fiber_at path (root_es s)) as [e|] eqn:Hf; [|exfalso; apply Hnb; reflexivity].
  destruct (sp_in_range (norm_sp sp e) e); [|exfalso; apply Hnb; reflexivity].
  destruct (coord_exists c (map fst e) (coord2pos c (map fst e) (norm_sp sp e))
            || negb (coord_exists c (map fst e) (bisect c (map fst e))));
    [|exfalso; apply Hnb; reflexivity].
  destruct (at_path_st path _ 0 (root_es s) (s_next s) (s_ranks s)) as [[[es' nx'] rk']|] eqn:Hat;
    [|exfalso; apply Hnb; reflexivity].
  cbn [fst snd]. clear Hnb. apply Nat.ltb_lt in Hlt.
  destruct (ok_single_ref s w path c e es' nx' rk' Hs Hlt Hf Hat)
    as (rid & ow & es & e' & r & nx0 & rk0 & Hr & Hre & Hw & Hw' & Hwe & Hg & Hf3 & Hpl).
  destruct Hs as (_ & _ & _ & _ & Hn & _).
  destruct (with_root_root s rid ow es es' nx' rk' Hr) as [Hr' Hre']. rewrite Hre'.
  rewrite Hre in HI, Hf.
  destruct (Nat.eq_dec (S (length path)) (nranks s)) as [E|E].
  - (* leaf rank: the write goes through *)
    assert (H1 : length [c] = (nranks s - length path)%nat) by (cbn [length]; lia).
    destruct (get_ref_lookup (nranks s) (s_d s) w [c] (length path) e nx0 rk0 Hlt Hwe H1) as [Hres Hq].
    rewrite Hg in Hres, Hq. cbn [fst snd] in Hres, Hq.
    destruct (get_ref_single_pos _ _ _ _ _ _ _ _ _ _ _ _ Hg) as [_ (p' & Hrp & Hnth)].
    destruct (fiber_at_view (nranks s) (s_d s) path 0 es e Hw Hf) as [_ Hsub].
    assert (Hfull : length (path ++ [c]) = nranks s) by (rewrite app_length; cbn [length]; lia).
    assert (Hold : lookup_i (s_d s) [c] e = get_or (s_d s) (path ++ [c]) m).
    { destruct HI as [_ HI]. rewrite (HI _ Hfull). symmetry. apply Hsub. discriminate. }
    rewrite Hold in Hres, Hq.
    assert (Hp' : p' = ILeaf (apply_wr w (get_or (s_d s) (path ++ [c]) m))) by congruence.
    subst p'. rewrite Hf3, Hnth. cbn [res_of].
    assert (HI' : INV (nranks s) (s_d s)
                      (pm_set (path ++ [c]) (apply_wr w (get_or (s_d s) (path ++ [c]) m)) m) es').
    { apply (INV_set _ _ m es es' _ _ HI Hfull). intros q Hlq.
      destruct (Hpl q Hlq) as [[Hnp H]|(r0 & Hq0 & Hr0 & H2 & H3)].
      - rewrite H. rewrite peq_neq; [reflexivity|]. intros ->. rewrite is_prefix_app in Hnp. discriminate.
      - rewrite H2, H3, Hq0, peq_app, <- pt_eqb_path. apply Hq. cbn [length]. lia. }
    eexists. split; [|exact HI'].
    apply ev_OGetRefSP_leaf; [exact E|]. rewrite Hr'. apply (INV_view _ _ _ rid ow es' HI' Hn Hw').
  - (* interior rank: an empty fiber may be created, no value changes *)
    assert (HI' : INV (nranks s) (s_d s) m es').
    { apply (INV_same _ _ m es es' HI). intros q Hq.
      destruct (Hpl q Hq) as [[_ H]|(r0 & _ & Hr0 & H1 & H2)]; [exact H|].
      rewrite H1, H2.
      apply (get_ref_single_same (nranks s) (s_d s) w (length path) c e nx0 rk0 e' nx' rk' r Hwe Hlt);
        [right; lia|exact Hg|exact Hr0]. }
    exists m. split; [|exact HI'].
    apply ev_OGetRefSP_sub; [exact E|]. rewrite Hr'. apply (INV_view _ _ _ rid ow es' HI' Hn Hw').
Qed.

Lemma ok_OGetD s m pt dflt :
  wf_st s -> INV (nranks s) (s_d s) m (root_es s) ->
  snd (Store.step s (OGetD pt dflt)) <> BadAddress -> step_ok s (OGetD pt dflt) m.
Proof.
  intros (rid & ow & es & Hr & Hn & Hw) HI Hnb.
  pose proof (root_es_of s rid ow es Hr) as Hre.
  unfold step_ok. cbn [Store.step Store.step0] in *.
  destruct (Nat.leb (length pt) (nranks s) && negb (Nat.eqb (length pt) 0));
    [|exfalso; apply Hnb; reflexivity].
  cbn [fst snd]. exists m. split; [|exact HI]. apply ev_OGetD.
  rewrite Hre, Hr, erase_node. apply (get_pay_d_plain (nranks s) dflt pt 0 es Hw).
Qed.

Lemma ok_resync s m o :
  wf_st s -> resync_op o -> step_ok s o m.
Proof.
  intros Hs Ho. unfold step_ok.
  pose proof (step_wf s o Hs) as Hs'. pose proof (step_nranks s o Hs) as Hn'.
  pose proof (step_d s o) as Hd'.
  eexists. split; [apply ev_resync; exact Ho|].
  rewrite <- Hn', <- Hd'. apply INV_resync. exact Hs'.
Qed.

Theorem c03_step_ok s o m :
  wf_st s -> INV (nranks s) (s_d s) m (root_es s) ->
  snd (Store.step s o) <> BadAddress -> step_ok s o m.
Proof.
  intros Hs HI Hnb. destruct o.
  - apply ok_OGetRef; assumption.
  - apply ok_OGet; assumption.
  - apply ok_resync; [exact Hs|exact I].
  - apply ok_resync; [exact Hs|exact I].
  - apply ok_resync; [exact Hs|exact I].
  - apply ok_resync; [exact Hs|exact I].
  - apply ok_resync; [exact Hs|exact I].
  - apply ok_resync; [exact Hs|exact I].
  - apply ok_resync; [exact Hs|exact I].
  - apply ok_OGetPos; assumption.
  - apply ok_OGetPosRef; assumption.
  - apply ok_OGetSP; assumption.
  - apply ok_OGetRefSP; assumption.
  - apply ok_OGetD; assumption.
  - apply ok_resync; [exact Hs|exact I].
  - apply ok_resync; [exact Hs|exact I].
  - apply ok_resync; [exact Hs|exact I].
  - apply ok_resync; [exact Hs|exact I].
  - apply ok_resync; [exact Hs|exact I].
Qed.

(* ---------- histories ---------- *)
Lemma c03_steps_run n d : forall ops s m,
  wf_st s -> nranks s = n -> s_d s = d -> INV n d m (root_es s) ->
  c03_steps n d m (V_state s) ops (run_obs s ops) = true.
Proof.
  induction ops as [|o ops IH]; intros s m Hs Hn Hd HI; [reflexivity|].
  cbn [run_obs].
  pose proof (step_wf s o Hs) as Hs'.
  pose proof (step_nranks s o Hs) as Hn'.
  pose proof (step_d s o) as Hd'.
  pose proof (step_rejected_unchanged s o) as Hrej.
  pose proof (c03_step_ok s o m Hs) as Hok. rewrite Hn, Hd in Hok. specialize (Hok HI).
  unfold step_ok in Hok. rewrite Hn, Hd in Hok.
  destruct (Store.step s o) as [s' out]. cbn [fst snd] in *.
  cbn [c03_steps split_step]. rewrite outcome_code_V.
  destruct out as [r| |].
  - destruct Hok as (m' & Hc & HI'); [discriminate|]. cbn [Z.eqb]. rewrite Hc. cbn [andb].
    apply IH; [exact Hs'|congruence|congruence|exact HI'].
  - destruct Hok as (m' & Hc & HI'); [discriminate|]. cbn [Z.eqb Pos.eqb]. rewrite Hc. cbn [andb].
    apply IH; [exact Hs'|congruence|congruence|exact HI'].
  - cbn [Z.eqb Pos.eqb]. rewrite (Hrej (or_intror eq_refl)).
    apply IH; assumption.
Qed.

Lemma init_d n d t : s_d (init n d t) = d.
Proof. unfold init. destruct (load 0 t 0 (repeat [] n)) as [[r nx] rk]. reflexivity. Qed.

Theorem c03_model_holds c :
  wf_case c = true -> holds c03_checker c (model c03_checker c) = true.
Proof.
  intros Hc. cbn [holds model c03_checker]. unfold hist_model, c03_holds.
  destruct (init_wf c Hc) as [Hs Hn]. rewrite tos.
  pose proof (init_d (h_n c) (h_d c) (h_tree c)) as Hd.
  apply c03_steps_run; [exact Hs|exact Hn|exact Hd|].
  pose proof (INV_resync _ Hs) as HI. rewrite Hn, Hd in HI. exact HI.
Qed.
