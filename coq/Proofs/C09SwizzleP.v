(* C09SwizzleP.v — swizzleRanks: the rebuild loop (rightmost-path appends) builds a tree whose
   content is the keyed list it is given; with the extraction / permutation / sort half this
   gives content (swizzle perm t) ~ map (permute perm) (content t). *)
From Coq Require Import ZArith List Bool Lia Permutation PeanoNat.
From FT Require Import Model.Base Model.Obs Model.C09Transform Model.C09Check
                       Proofs.C09OrderP Proofs.C09FlattenP Proofs.C09BelowP Proofs.C09CheckP.
Import ListNotations.
Open Scope Z_scope.

(* the rightmost path of t spells the first j coordinates of k, and ends in a fiber *)
Fixpoint rp (j : nat) (k : list coord) (t : ct) : Prop :=
  match j with
  | O => exists es, t = CN es
  | S j' => match k, t with
            | c :: k', CN es => exists es0 t', es = es0 ++ [(c, t')] /\ rp j' k' t'
            | _, _ => False
            end
  end.

Lemma chain_content : forall d k p, ccontent d (chain k p) = map (on_pt (app k)) (ccontent d p).
Proof.
  induction k as [|c k IH]; intros p; simpl chain.
  - rewrite <- (map_id (ccontent d p)) at 1. apply map_ext. intros [q v]. reflexivity.
  - rewrite content_cons, IH. change (ccontent d (CN [])) with (@nil (list coord * Z)).
    rewrite app_nil_r, map_map. apply map_ext. intros [q v]. reflexivity.
Qed.

Lemma on_last_app : forall f es0 c t', on_last f (es0 ++ [(c, t')]) = es0 ++ [(c, f t')].
Proof.
  induction es0 as [|x es0 IH]; intros c t'; [reflexivity|].
  simpl. destruct (es0 ++ [(c, t')]) eqn:E.
  - destruct es0; discriminate.
  - rewrite <- E, IH. reflexivity.
Qed.

Lemma rappend_content : forall d p j k t, rp j k t -> (j < length k)%nat ->
  ccontent d (rappend j k p t) = ccontent d t ++ map (on_pt (app k)) (ccontent d p).
Proof.
  intros d p. induction j as [|j IH]; intros k t Hrp Hlen.
  - destruct k as [|c k']; [simpl in Hlen; lia|]. destruct Hrp as [es ->].
    simpl rappend. rewrite content_app, content_cons, chain_content.
    change (ccontent d (CN [])) with (@nil (list coord * Z)). rewrite app_nil_r, map_map.
    f_equal; try (apply map_ext; intros [q v]; reflexivity).
  - destruct k as [|c k']; [destruct Hrp|]. destruct t as [v|es]; [destruct Hrp|].
    destruct Hrp as [es0 [t' [-> Hrp]]]. simpl in Hlen.
    simpl rappend. rewrite on_last_app. rewrite !content_app, !content_cons.
    rewrite IH by (auto; lia). change (ccontent d (CN [])) with (@nil (list coord * Z)).
    rewrite !app_nil_r, map_app, map_map, <- app_assoc.
    repeat (f_equal; try (apply map_ext; intros [q v]; reflexivity)).
Qed.

Lemma rp_chain : forall j k p, (j < length k)%nat -> rp j k (chain k p).
Proof.
  induction j as [|j IH]; intros k p H; destruct k as [|c k']; simpl in H; try lia.
  - simpl. eexists. reflexivity.
  - simpl. exists [], (chain k' p). split; [reflexivity|]. apply IH. lia.
Qed.

Lemma rp_after : forall p j k t, rp j k t -> (j < length k)%nat ->
  forall j2, (j2 < length k)%nat -> rp j2 k (rappend j k p t).
Proof.
  intros p. induction j as [|j IH]; intros k t Hrp Hlen j2 H2.
  - destruct k as [|c k']; [simpl in Hlen; lia|]. destruct Hrp as [es ->]. simpl rappend.
    destruct j2 as [|j2]; simpl; [eexists; reflexivity|].
    exists es, (chain k' p). split; [reflexivity|]. apply rp_chain. simpl in H2. lia.
  - destruct k as [|c k']; [destruct Hrp|]. destruct t as [v|es]; [destruct Hrp|].
    destruct Hrp as [es0 [t' [-> Hrp]]]. simpl in Hlen, H2. simpl rappend. rewrite on_last_app.
    destruct j2 as [|j2]; simpl; [eexists; reflexivity|].
    exists es0, (rappend j k' p t'). split; [reflexivity|]. apply IH; auto; lia.
Qed.

Lemma rp_prefix : forall j k k2 t, rp j k t -> firstn j k = firstn j k2 -> rp j k2 t.
Proof.
  induction j as [|j IH]; intros k k2 t H E; [exact H|].
  destruct k as [|c k']; [destruct H|]. destruct t as [v|es]; [destruct H|].
  destruct k2 as [|c2 k2']; [simpl in E; discriminate|]. simpl in E. inversion E; subst c2.
  destruct H as [es0 [t' [-> H]]]. simpl. exists es0, t'. split; [reflexivity|]. eapply IH; eauto.
Qed.

Lemma cpl_spec : forall a b, firstn (cpl a b) a = firstn (cpl a b) b /\ (cpl a b <= length a)%nat.
Proof.
  induction a as [|x a IH]; intros b; simpl; [split; [destruct b; reflexivity|lia]|].
  destruct b as [|y b]; [split; [reflexivity|lia]|].
  destruct (ccmp x y) eqn:E; simpl; try (split; [reflexivity|lia]).
  apply ccmp_eq in E. subst y. destruct (IH b) as [I1 I2]. split; [f_equal; exact I1|lia].
Qed.

Lemma firstn_removelast : forall {A} j (k : list A), (j < length k)%nat ->
  firstn j (removelast k) = firstn j k.
Proof.
  induction j as [|j IH]; intros k H; [reflexivity|].
  destruct k as [|x k]; [simpl in H; lia|]. simpl in H.
  destruct k as [|y k']; [simpl in H; lia|].
  change (removelast (x :: y :: k')) with (x :: removelast (y :: k')).
  rewrite !firstn_cons. f_equal. apply IH. simpl in *. lia.
Qed.

Lemma length_removelast : forall {A} (k : list A), length (removelast k) = (length k - 1)%nat.
Proof.
  induction k as [|x k IH]; [reflexivity|]. destruct k as [|y k']; [reflexivity|].
  change (removelast (x :: y :: k')) with (x :: removelast (y :: k')). simpl length in *. lia.
Qed.

Definition rb_inv (d : Z) (n : nat) (done : list (list coord * ct)) (st : ct * option (list coord)) : Prop :=
  ccontent d (fst st) = keyed d done /\
  match snd st with
  | None => fst st = CN []
  | Some l => length l = n /\ forall j, (j < n)%nat -> rp j l (fst st)
  end.

Lemma rebuild_step_inv : forall d n done st kv, (1 <= n)%nat -> length (fst kv) = n ->
  rb_inv d n done st -> rb_inv d n (done ++ [kv]) (rebuild_step st kv).
Proof.
  intros d n done [t last] [k p] Hn Hk [Hc Hl]. simpl in *.
  unfold rebuild_step. cbn [fst snd].
  set (j := match last with None => O | Some l => cpl (removelast k) l end).
  assert (Hj : (j < length k)%nat /\ rp j k t).
  { subst j. destruct last as [l|].
    - destruct Hl as [Hll Hrp]. destruct (cpl_spec (removelast k) l) as [E Hle].
      rewrite length_removelast in Hle. split; [lia|].
      apply rp_prefix with (k := l); [apply Hrp; lia|].
      rewrite <- E. apply firstn_removelast. lia.
    - subst t. split; [lia|]. simpl. eexists. reflexivity. }
  destruct Hj as [Hj Hrp]. split; cbn [fst snd].
  - rewrite rappend_content by assumption. rewrite Hc. unfold keyed. rewrite flat_map_app. simpl.
    rewrite app_nil_r. reflexivity.
  - split; [exact Hk|]. intros j2 H2. apply rp_after; auto; lia.
Qed.

Lemma rebuild_fold_inv : forall d n kvs done st, (1 <= n)%nat ->
  Forall (fun kv => length (fst kv) = n) kvs -> rb_inv d n done st ->
  rb_inv d n (done ++ kvs) (fold_left rebuild_step kvs st).
Proof.
  induction kvs as [|kv kvs IH]; intros done st Hn Hk Hinv; simpl.
  - rewrite app_nil_r. exact Hinv.
  - inversion Hk; subst. replace (done ++ kv :: kvs) with ((done ++ [kv]) ++ kvs) by (rewrite <- app_assoc; reflexivity).
    apply IH; auto. apply rebuild_step_inv; auto.
Qed.

(* the rebuild loop of swizzleRanks: for keys of one length n >= 1 (in any order!) the tree it
   builds has exactly the keyed content *)
Theorem rebuild_content : forall d n kvs, (1 <= n)%nat ->
  Forall (fun kv => length (fst kv) = n) kvs -> ccontent d (rebuild kvs) = keyed d kvs.
Proof.
  intros d n kvs Hn Hk. unfold rebuild.
  destruct (rebuild_fold_inv d n kvs [] (CN [], None) Hn Hk) as [Hc _]; [split; reflexivity|].
  exact Hc.
Qed.

(* ------------------------------------------------------------------ depth facts *)
Lemma fibers_to_of_depth : forall m n t, (m <= n)%nat -> cdepth_ok n t = true -> fibers_to m t.
Proof.
  induction m as [|m IH]; intros n t Hmn Hd; [exact I|].
  destruct n as [|n]; [lia|]. destruct t as [v|es]; [discriminate|].
  simpl in *. rewrite forallb_forall in Hd. apply Forall_forall. intros cp Hin.
  apply (IH n); [lia|]. apply Hd. exact Hin.
Qed.

Lemma points_len : forall d n t, cdepth_ok n t = true ->
  forall pv, In pv (ccontent d t) -> length (fst pv) = n.
Proof.
  intros d. induction n as [|n IH]; intros t Hd pv Hin.
  - destruct t as [v|es]; [|discriminate]. simpl in Hin. destruct (v =? d); [destruct Hin|].
    destruct Hin as [<-|[]]. reflexivity.
  - destruct t as [v|es]; [discriminate|]. simpl in Hd. rewrite forallb_forall in Hd.
    rewrite content_CN in Hin. apply in_flat_map in Hin. destruct Hin as [[c p] [Hcp Hin]].
    apply in_map_iff in Hin. destruct Hin as [[q v] [<- Hq]]. simpl.
    f_equal. apply (IH p (Hd _ Hcp) _ Hq).
Qed.

Lemma extract_key_len : forall n t, Forall (fun kp => length (fst kp) = n) (extract n t).
Proof.
  induction n as [|n IH]; intros t; simpl; [constructor; [reflexivity|constructor]|].
  apply Forall_forall. intros kp Hin. apply in_flat_map in Hin. destruct Hin as [[c p] [_ Hin]].
  apply in_map_iff in Hin. destruct Hin as [[k s] [<- Hk]]. simpl.
  pose proof (IH p) as H. rewrite Forall_forall in H. f_equal. apply (H _ Hk).
Qed.

(* ------------------------------------------------------------------ the permutation and its identity tail *)
Lemma nat_list_eqb_eq : forall a b, nat_list_eqb a b = true -> a = b.
Proof.
  induction a as [|x a IH]; intros [|y b] H; simpl in H; try discriminate; [reflexivity|].
  apply andb_true_iff in H. destruct H as [H1 H2]. apply Nat.eqb_eq in H1. subst. f_equal. auto.
Qed.

Lemma cpn_spec : forall a b, firstn (common_prefix_len a b) a = firstn (common_prefix_len a b) b
  /\ (common_prefix_len a b <= length a)%nat.
Proof.
  induction a as [|x a IH]; intros b; simpl; [split; [destruct b; reflexivity|lia]|].
  destruct b as [|y b]; [split; [reflexivity|lia]|].
  destruct (Nat.eqb x y) eqn:E; simpl; [|split; [reflexivity|lia]].
  apply Nat.eqb_eq in E. subst y. destruct (IH b) as [I1 I2]. split; [f_equal; exact I1|lia].
Qed.

Lemma skipn_nth_cons : forall {A} (dflt : A) a p, (a < length p)%nat ->
  skipn a p = nth a p dflt :: skipn (S a) p.
Proof.
  induction a as [|a IH]; intros p H; destruct p as [|x p]; simpl in H; try lia; [reflexivity|].
  simpl. apply IH. lia.
Qed.

Lemma map_nth_seq : forall {A} (dflt : A) p m a, (a + m <= length p)%nat ->
  map (fun i => nth i p dflt) (seq a m) = firstn m (skipn a p).
Proof.
  induction m as [|m IH]; intros a H; [reflexivity|].
  simpl seq. simpl map. rewrite (skipn_nth_cons dflt a p) by lia. simpl firstn. f_equal.
  apply IH. lia.
Qed.

Lemma nth_firstn_lt : forall {A} (dflt : A) i sl p, (i < sl)%nat -> nth i (firstn sl p) dflt = nth i p dflt.
Proof.
  induction i as [|i IH]; intros sl p H; destruct sl as [|sl]; try lia; destruct p as [|x p]; simpl; auto.
  apply IH. lia.
Qed.

Lemma NoDup_app_disj : forall {A} (l1 l2 : list A) x, NoDup (l1 ++ l2) -> In x l1 -> ~ In x l2.
Proof.
  induction l1 as [|y l1 IH]; intros l2 x H Hin; [destruct Hin|].
  simpl in H. inversion H as [|? ? Hy Hrest]; subst. destruct Hin as [->|Hin].
  - intros Hx. apply Hy. apply in_or_app. right. exact Hx.
  - apply IH; assumption.
Qed.

Lemma is_perm_facts : forall perm n, is_perm_of perm n = true ->
  length perm = n /\ NoDup perm /\ (forall x, In x perm -> (x < n)%nat).
Proof.
  intros perm n H. unfold is_perm_of in H. apply andb_true_iff in H. destruct H as [Hl Hall].
  apply Nat.eqb_eq in Hl. rewrite forallb_forall in Hall.
  assert (Hincl : incl (seq 0 n) perm).
  { intros i Hi. specialize (Hall _ Hi). apply existsb_exists in Hall. destruct Hall as [y [Hy E]].
    apply Nat.eqb_eq in E. subst. exact Hy. }
  split; [exact Hl|]. split.
  - apply NoDup_incl_NoDup with (l := seq 0 n); [apply seq_NoDup|rewrite seq_length; lia|exact Hincl].
  - intros x Hx. assert (Hx' : In x (seq 0 n)).
    { apply (@NoDup_length_incl _ (seq 0 n) perm); [apply seq_NoDup|rewrite seq_length; lia|exact Hincl|exact Hx]. }
    apply in_seq in Hx'. lia.
Qed.

(* permuting a whole point = permuting its first sl coordinates with the guide, when the tail
   of the permutation is the identity *)
Lemma permute_split : forall perm p,
  is_perm_of perm (length perm) = true -> length p = length perm ->
  let n := length perm in
  let sl := (n - common_prefix_len (rev (seq 0 n)) (rev perm))%nat in
  permute_key perm p = permute_key (firstn sl perm) (firstn sl p) ++ skipn sl p.
Proof.
  intros perm p Hperm Hp n sl.
  destruct (is_perm_facts _ _ Hperm) as [_ [Hnd Hlt]].
  set (m := common_prefix_len (rev (seq 0 n)) (rev perm)) in *.
  destruct (cpn_spec (rev (seq 0 n)) (rev perm)) as [E Hm]. fold m in E, Hm.
  rewrite rev_length, seq_length in Hm.
  rewrite !firstn_rev, seq_length in E. fold n in E. fold sl in E.
  apply (f_equal (@rev nat)) in E. rewrite !rev_involutive in E.
  assert (Hseq : skipn sl (seq 0 n) = seq sl m).
  { replace n with (sl + m)%nat at 1 by (subst sl; lia). rewrite seq_app, skipn_app, seq_length.
    rewrite Nat.sub_diag. rewrite skipn_all2 by (rewrite seq_length; lia). reflexivity. }
  rewrite Hseq in E.
  assert (Hsplit : perm = firstn sl perm ++ seq sl m) by (rewrite E; symmetry; apply firstn_skipn).
  unfold permute_key. rewrite Hsplit at 1. rewrite map_app. f_equal.
  - apply map_ext_in. intros i Hi. symmetry. apply nth_firstn_lt.
    assert (Hin : In i perm) by (rewrite Hsplit; apply in_or_app; left; exact Hi).
    pose proof (Hlt _ Hin) as Hn.
    assert (Hnot : ~ In i (seq sl m)).
    { apply (NoDup_app_disj (firstn sl perm)); [rewrite <- Hsplit; exact Hnd|exact Hi]. }
    rewrite in_seq in Hnot. fold n in Hn. subst sl. lia.
  - rewrite map_nth_seq by (rewrite Hp; fold n; subst sl; lia).
    apply firstn_all2. rewrite skipn_length, Hp. fold n. subst sl. lia.
Qed.

Lemma permute_id : forall (p : list coord) n, length p = n -> permute_key (seq 0 n) p = p.
Proof.
  intros p n H. unfold permute_key. rewrite map_nth_seq by lia. simpl skipn. apply firstn_all2. lia.
Qed.

(* ------------------------------------------------------------------ swizzle *)
Lemma keyed_split_points : forall d sl (F : list coord -> list coord) g kvs,
  Forall (fun kp => length (fst kp) = sl) kvs ->
  (forall p, F p = g (firstn sl p) ++ skipn sl p) ->
  flat_map (fun kp : list coord * ct => map (on_pt (app (g (fst kp)))) (ccontent d (snd kp))) kvs
  = map (on_pt F) (keyed d kvs).
Proof.
  intros d sl F g kvs Hk HF. unfold keyed. rewrite map_flat_map. apply flat_map_ext_in.
  intros [k s] Hin. rewrite Forall_forall in Hk. specialize (Hk _ Hin). simpl in *.
  rewrite map_map. apply map_ext. intros [q v]. unfold on_pt. simpl. f_equal.
  rewrite HF. rewrite firstn_app, skipn_app, Hk, Nat.sub_diag. simpl.
  rewrite firstn_all2 by lia. rewrite skipn_all2 by lia. rewrite app_nil_r. reflexivity.
Qed.

Theorem swizzle_content : forall d perm t,
  is_perm_of perm (length perm) = true -> cdepth_ok (length perm) t = true -> (1 <= length perm)%nat ->
  Permutation (ccontent d (swizzle perm t)) (map (on_pt (permute_key perm)) (ccontent d t)).
Proof.
  intros d perm t Hperm Hd Hn1. unfold swizzle.
  destruct (nat_list_eqb perm (seq 0 (length perm))) eqn:Eid.
  - apply nat_list_eqb_eq in Eid. rewrite <- (map_id (ccontent d t)) at 1.
    apply Permutation_refl'. apply map_ext_in. intros [q v] Hin. unfold on_pt. simpl. f_equal.
    rewrite Eid. symmetry. apply permute_id. rewrite ?seq_length. apply (points_len d _ _ Hd _ Hin).
  - set (n := length perm) in *.
    set (sl := (n - common_prefix_len (rev (seq 0 n)) (rev perm))%nat).
    assert (Hsl : (sl <= n)%nat) by (subst sl; lia).
    assert (Hsl1 : (1 <= sl)%nat).
    { destruct sl as [|sl'] eqn:Es; [|lia]. exfalso.
      (* sl = 0 would mean the whole permutation is the identity *)
      destruct (cpn_spec (rev (seq 0 n)) (rev perm)) as [E Hm].
      rewrite rev_length, seq_length in Hm.
      assert (Hm' : common_prefix_len (rev (seq 0 n)) (rev perm) = n) by (subst sl; lia).
      rewrite Hm' in E. rewrite !firstn_all2 in E by (rewrite rev_length, ?seq_length; subst n; lia).
      apply (f_equal (@rev nat)) in E. rewrite !rev_involutive in E.
      rewrite <- E in Eid. clear -Eid.
      assert (forall l, nat_list_eqb l l = true) as R.
      { induction l as [|x l IH]; simpl; [reflexivity|]. rewrite Nat.eqb_refl. exact IH. }
      rewrite R in Eid. discriminate. }
    pose proof (fibers_to_of_depth sl n t Hsl Hd) as Hf.
    set (g := firstn sl perm).
    set (kvs := sort_by kcmp fst (map (fun kp : list coord * ct => (permute_key g (fst kp), snd kp)) (rev (extract sl t)))).
    assert (Hlen : Forall (fun kv : list coord * ct => length (fst kv) = length g) kvs).
    { apply Forall_forall. intros kv Hin. apply (Permutation_in _ (sort_by_perm kcmp fst _)) in Hin.
      apply in_map_iff in Hin. destruct Hin as [kp [<- _]]. simpl. unfold permute_key. apply map_length. }
    assert (Hg : length g = sl).
    { subst g. rewrite firstn_length. subst n. lia. }
    rewrite (rebuild_content d (length g) kvs); [|lia|exact Hlen].
    eapply Permutation_trans; [apply (swizzle_sorted_items d sl g t Hf)|].
    rewrite (keyed_split_points d sl (fun p => permute_key g (firstn sl p) ++ skipn sl p) (permute_key g));
      [|apply extract_key_len|reflexivity].
    rewrite <- (extract_content sl d t Hf).
    apply Permutation_refl'. apply map_ext_in. intros [q v] Hin. unfold on_pt. simpl. f_equal.
    symmetry. apply (permute_split perm q Hperm). apply (points_len d _ _ Hd _ Hin).
Qed.
