(* C09SwapSwapP.v — the swap result lies in swap's own domain; swapping twice restores the
   content: the model meets the oracle on OSwapSwap. *)
From Coq Require Import ZArith List Bool Lia Permutation PeanoNat.
From FT Require Import Model.Base Model.Obs Model.C09Transform Model.C09Check
                       Proofs.C09OrderP Proofs.C09FlattenP Proofs.C09BelowP Proofs.C09CheckP
                       Proofs.C09SwizzleP Proofs.C09WfP Proofs.C09RebuildP Proofs.C09SwapP
                       Proofs.C09UnflP Proofs.C09SplitP Proofs.C09LinearP Proofs.C09RefP Proofs.C09SpecP
                       Proofs.C09DescentP Proofs.C09UnflWfP Proofs.C09SwapSpecP Proofs.C09ComposeP.
Import ListNotations.
Open Scope Z_scope.

Definition Wsw (M : nat) (s : cfib) : Prop := wfl 1 s /\ deepP 1 (gpay M) s.

(* the sorted list of reversed pairs that swapRanks unflattens *)
Lemma swap_sorted_facts : forall fuel d es M r, wfl 1 es -> deepP 1 (gpay M) es ->
  swap_fiber fuel d es = Some r ->
  exists s, unflatten 1 s = Some r /\ s <> [] /\ pw ccmp (map fst s)
            /\ Forall (fun cp : coord * ct => length (fst cp) = 2%nat) s
            /\ Forall (fun cp : coord * ct => gpay M (snd cp)) s.
Proof.
  intros fuel d es M r Hwf Hdeep Hr.
  assert (Hs : tp st_pair) by (right; reflexivity).
  pose proof Hwf as [Hpw [Hsg Hsub]].
  assert (Hf : all_fibers es = true).
  { unfold all_fibers. apply forallb_forall. intros cp Hin. rewrite Forall_forall in Hsub.
    destruct (Hsub _ Hin) as [s [E _]]. rewrite E. reflexivity. }
  set (fl := merge_items st_pair (prodZ (firstn 1 (tl (@nil Z)))) d es) in *.
  assert (Hk : pw ccmp (map fst fl)).
  { apply merge_items_pw; auto. eapply Forall_impl; [|exact Hsub].
    intros cp [s [E Hw]]. rewrite E. simpl. eapply wfl_pw. exact Hw. }
  assert (Efl : merge_helper 1 st_pair true fuel [] d es = Some fl) by (apply merge_helper_1; assumption).
  pose proof (merge_items_len2 (prodZ (firstn 1 (tl (@nil Z)))) d es Hwf) as Hlen. fold fl in Hlen.
  assert (Hpay : Forall (fun cp : coord * ct => gpay M (snd cp)) fl) by (apply merge_items_payloads; exact Hdeep).
  assert (Hflne : fl <> []).
  { intros E. unfold swap_fiber in Hr. rewrite Efl, E in Hr. discriminate. }
  rewrite (swap_fiber_unfold fuel d es fl Efl Hflne) in Hr.
  set (rk := fun cp : coord * ct => (rev (fst cp), snd cp)) in *.
  set (s := sort_by ccmp fst (map rk fl)) in *.
  assert (HPs : Permutation s (map rk fl)) by apply sort_by_perm.
  exists s. split; [exact Hr|]. split; [|split; [|split]].
  - intros E. rewrite E in HPs. apply Permutation_nil in HPs. destruct fl; [congruence|discriminate].
  - apply (sort_by_pw ccmp fst ccmp_anti ccmp_eq ccmp_trans).
    rewrite map_map. simpl. rewrite <- map_map with (f := fst) (g := @rev Z).
    apply NoDup_map_inj_in2.
    + intros x y _ _ E. rewrite <- (rev_involutive x), <- (rev_involutive y), E. reflexivity.
    + apply (pw_NoDup ccmp); [exact ccmp_refl|exact Hk].
  - apply Forall_forall. intros cp Hin. apply (Permutation_in _ HPs) in Hin.
    apply in_map_iff in Hin. destruct Hin as [cp0 [<- H0]]. simpl. rewrite rev_length.
    rewrite Forall_forall in Hlen. auto.
  - apply Forall_forall. intros cp Hin. apply (Permutation_in _ HPs) in Hin.
    apply in_map_iff in Hin. destruct Hin as [cp0 [<- H0]]. simpl. rewrite Forall_forall in Hpay. auto.
Qed.

Lemma unflatten1_explicit : forall (P : ct -> Prop) s, s <> [] -> pw ccmp (map fst s) ->
  Forall (fun cp : coord * ct => length (fst cp) = 2%nat) s -> Forall (fun cp => P (snd cp)) s ->
  exists G, unflatten 1 s = Some (map (fun g : Z * cfib => ([fst g], CN (snd g))) G)
            /\ pw ccmp (map (fun g : Z * cfib => [fst g]) G) /\ Forall (grp_ok P 1) G.
Proof.
  intros P s Hne Hpw HL HP.
  destruct s as [|[cx p] rest]; [congruence|].
  inversion HL as [|? ? Hcx HLr]; subst. simpl in Hcx.
  inversion HP as [|? ? HPp HPr]; subst. simpl in HPp.
  destruct cx as [|c1 [|b [|? ?]]]; simpl in Hcx; try lia.
  assert (Hh : heads_ok c1 rest).
  { apply (pw_heads_ok rest c1 [b] p Hpw).
    eapply Forall_impl; [|exact HLr]. intros cp H E. simpl in H. rewrite E in H. discriminate. }
  assert (H1 : [([b], p)] <> []) by discriminate.
  assert (H3 : Forall (fun cp : coord * ct => P (snd cp)) [([b], p)]) by (constructor; [exact HPp|constructor]).
  assert (H4 : Forall (fun cp : coord * ct => length (fst cp) = 1%nat) [([b], p)]) by (constructor; [reflexivity|constructor]).
  destruct (unfl_go_struct P 1 rest c1 [([b], p)] H1 Hh Hpw H3 HPr H4 HLr) as [cur' [G' [EG [Hasc HG]]]].
  exists ((c1, cur') :: G'). split; [|split; [apply heads_asc_pw; exact Hasc|exact HG]].
  change (unflatten 1 ((c1 :: [b], p) :: rest))
    with (all_some (map (fun g : Z * cfib => option_map (fun r => ([fst g], CN r)) (unflatten 0 (snd g)))
                        (unfl_go c1 [([b], p)] rest))).
  rewrite EG. apply all_some_map_Some. intros g _. reflexivity.
Qed.

Lemma swap_fiber_post : forall fuel d es M r, Wsw M es -> swap_fiber fuel d es = Some r -> Wsw M r.
Proof.
  intros fuel d es M r [Hwf Hdeep] Hr.
  destruct (swap_sorted_facts fuel d es M r Hwf Hdeep Hr) as [s [Es [Hne [Hpw [HL HP]]]]].
  destruct (unflatten1_explicit (gpay M) s Hne Hpw HL HP) as [G [EG [Hk HG]]].
  rewrite EG in Es. inversion Es; subst r. split.
  - split; [rewrite map_map; simpl; exact Hk|]. split.
    + apply forallb_forall. intros cp Hin. apply in_map_iff in Hin. destruct Hin as [g [<- _]]. reflexivity.
    + apply Forall_forall. intros cp Hin. apply in_map_iff in Hin. destruct Hin as [g [<- Hg]].
      rewrite Forall_forall in HG. destruct (HG _ Hg) as [_ [G2 [_ G4]]].
      exists (snd g). split; [reflexivity|]. split; [exact G2|]. split; [|exact I].
      apply forallb_forall. intros cp0 H0. rewrite Forall_forall in G4. specialize (G4 _ H0).
      destruct (fst cp0) as [|? [|? ?]]; simpl in G4; try lia. reflexivity.
  - simpl. apply Forall_forall. intros cp Hin. apply in_map_iff in Hin. destruct Hin as [g [<- Hg]].
    rewrite Forall_forall in HG. destruct (HG _ Hg) as [_ [_ [G3 _]]]. exact G3.
Qed.

Lemma Wsw_nil : forall M, Wsw M [].
Proof. intros M. split; [split; [exact I|split; [reflexivity|constructor]]|constructor]. Qed.

(* the descent maps the domain of the fibers k+1 levels down *)
Lemma below_at_depth : forall (W W' : cfib -> Prop) f d, W' [] ->
  (forall s r', W s -> cempty d (CN s) = false -> f s = Some r' -> W' r') ->
  forall k es r, at_depth k W es -> upd_below k f d es = Some r -> at_depth k W' r.
Proof.
  intros W W' f d Hnil Hf. induction k as [|k IH]; intros es.
  - induction es as [|[c p] es IHes]; intros r Hes Hr.
    + simpl in Hr. inversion Hr. constructor.
    + inversion Hes as [|? ? [s [Es Ws]] Hrest]; subst. simpl in Es. subst p.
      rewrite upd0_eq in Hr. cbn [map] in Hr.
      apply all_some_cons_inv in Hr. destruct Hr as [y [ys [Ey [Eys ->]]]].
      rewrite <- upd0_eq in Eys. specialize (IHes ys Hrest Eys).
      unfold e0 in Ey. cbn [fst snd] in Ey. destruct (cempty d (CN s)) eqn:Ee.
      * inversion Ey; subst y. constructor; [exists []; auto|exact IHes].
      * destruct (f s) as [rs|] eqn:Efs; [|discriminate]. simpl in Ey. inversion Ey; subst y.
        constructor; [exists rs; split; [reflexivity|apply (Hf s rs Ws Ee Efs)]|exact IHes].
  - induction es as [|[c p] es IHes]; intros r Hes Hr.
    + simpl in Hr. inversion Hr. constructor.
    + inversion Hes as [|? ? [s [Es Ws]] Hrest]; subst. simpl in Es. subst p.
      rewrite updS_eq in Hr. cbn [map] in Hr.
      apply all_some_cons_inv in Hr. destruct Hr as [y [ys [Ey [Eys ->]]]].
      rewrite <- updS_eq in Eys. specialize (IHes ys Hrest Eys).
      unfold eS in Ey. cbn [fst snd] in Ey.
      destruct (upd_below k f d s) as [rs|] eqn:Ers; [|discriminate]. simpl in Ey. inversion Ey; subst y.
      constructor; [exists rs; split; [reflexivity|apply (IH s rs Ws Ers)]|exact IHes].
Qed.

(* the tensor-level domain of swapRanks(depth) *)
Definition Dsw (n depth : nat) (es : cfib) : Prop :=
  csorted (CN es) = true /\ cdepth_ok n (CN es) = true /\
  match depth with
  | O => Wsw (n - 2) es
  | S k => at_depth k (Wsw (n - S k - 2)) es
  end.

Theorem t_swap_post : forall n depth fuel d es, (depth + 2 <= n)%nat -> Dsw n depth es ->
  exists r, t_swap depth fuel d es = Some r
    /\ Permutation (ccontent d (CN r)) (map (on_pt (nunder depth swap0)) (ccontent d (CN es)))
    /\ Dsw n depth r.
Proof.
  intros n depth fuel d es Hn [Hs [Hd Hdom]].
  assert (Hsd : swap_dom depth es).
  { destruct depth as [|k]; simpl in *; [exact (proj1 Hdom)|].
    apply (at_depth_impl (Wsw (n - S k - 2))); [intros s [H _]; exact H|exact Hdom]. }
  destruct (t_swap_content depth fuel d es Hsd) as [r [Er HP]].
  exists r. split; [exact Er|]. split; [exact HP|].
  unfold t_swap in Er. destruct (level_all_empty d depth (CN es)).
  - inversion Er; subst r. repeat split; assumption.
  - destruct depth as [|k]; simpl modify_root in Er.
    + destruct Hdom as [Hw Hp].
      destruct (swap_fiber_good fuel d es (n - 2) r Hw Hp Er) as [G1 G2].
      replace (S (1 + (n - 2))) with n in G2 by lia.
      split; [exact G1|]. split; [exact G2|]. apply (swap_fiber_post fuel d es); [split; assumption|exact Er].
    + destruct (below_wf (Wsw (n - S k - 2)) (swap_fiber fuel d) d (1 + (n - S k - 2)))
        with (k := k) (es := es) (r := r) as [G1 G2]; auto.
      * intros s r' [Hw Hp] _ Efs. apply (swap_fiber_good fuel d s _ r' Hw Hp Efs).
      * replace (S (S k + (1 + (n - S k - 2)))) with n in G2 by lia.
        split; [exact G1|]. split; [exact G2|].
        apply (below_at_depth (Wsw (n - S k - 2)) (Wsw (n - S k - 2)) (swap_fiber fuel d) d) with (es := es); auto.
        -- apply Wsw_nil.
        -- intros s r' Ws _ Efs. apply (swap_fiber_post fuel d s); assumption.
Qed.

Lemma Dsw_of_bool : forall n depth sh es, (depth + 2 <= n)%nat -> Wb n sh es -> Dsw n depth es.
Proof.
  intros n depth sh es Hn [Hd [Hs [Hi Hc]]]. split; [exact Hs|]. split; [exact Hd|].
  destruct depth as [|k].
  - split; [apply (wfl_of_bool 1 n es); auto; lia|].
    pose proof (deepP_of_bool 1 n es ltac:(lia) Hd Hs) as H. replace (n - 1 - 1)%nat with (n - 2)%nat in H by lia. exact H.
  - apply (at_depth_impl (Wb (n - S k) (skipn (S k) sh))).
    + intros s [A [B [C _]]]. split; [apply (wfl_of_bool 1 (n - S k) s); auto; lia|].
      pose proof (deepP_of_bool 1 (n - S k) s ltac:(lia) A B) as H.
      replace (n - S k - 1 - 1)%nat with (n - S k - 2)%nat in H by lia. exact H.
    + apply at_depth_of_bool; [lia|]. repeat split; assumption.
Qed.

Theorem spec_swapswap : forall c depth, k_op c = OSwapSwap depth -> c09_wf c = true ->
  c09_holds c (c09_model c) = true.
Proof.
  intros c depth Hop Hwf. destruct (c09_wf_parts c Hwf) as [Hn [Et [Hd [Hs [Hi [Hsh Hok]]]]]].
  unfold op_ok in Hok. rewrite Hop in Hok. apply Nat.ltb_lt in Hok.
  assert (Himg : forall p, op_img c p = p) by (intros; unfold op_img; rewrite Hop; reflexivity).
  assert (Hod : out_depth c = k_n c) by (unfold out_depth; rewrite Hop; reflexivity).
  pose proof Et as Et'. rewrite Et in Hd, Hs, Hi, Hsh. set (es := k_es c) in *. set (d := k_d c) in *. set (n := k_n c) in *.
  assert (HD : Dsw n depth es) by (apply (Dsw_of_bool n depth (k_shape c)); [lia|repeat split; assumption]).
  destruct (t_swap_post n depth (S n) d es ltac:(lia) HD) as [r1 [Er1 [HP1 HD1]]].
  destruct (t_swap_post n depth (S n) d r1 ltac:(lia) HD1) as [r2 [Er2 [HP2 [Hs2 [Hd2 _]]]]].
  assert (Hrun : c09_run c = Some r2).
  { unfold c09_run. rewrite Hop. fold es d n. rewrite Er1. simpl. exact Er2. }
  destruct (c09_wf_parts c Hwf) as [_ [_ [_ [Hs0 _]]]].
  apply (holds_of_parts c r2); auto; [rewrite Hod; exact Hd2|].
  apply content_ok_of_perm.
  - apply content_NoDup. exact Hs0.
  - intros p p' _ _ E. rewrite !Himg in E. exact E.
  - fold d. rewrite Et'. fold es.
    eapply Permutation_trans; [exact HP2|].
    eapply Permutation_trans; [apply Permutation_map; exact HP1|].
    rewrite map_map. apply Permutation_refl'. apply map_ext_in. intros [q v] Hin. unfold on_pt. cbn [fst snd].
    rewrite Himg. f_equal. apply nunder_swap0_invol.
    pose proof (points_len d n (CN es) Hd _ Hin) as Hq. simpl in Hq. lia.
Qed.
