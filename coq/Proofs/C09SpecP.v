(* C09SpecP.v — from the clause theorems to the oracle: content_ok for bijective point maps,
   out_wf, and the model-meets-spec statements per operation. *)
From Coq Require Import ZArith List Bool Lia Permutation PeanoNat.
From FT Require Import Model.Base Model.Obs Model.C09Transform Model.C09Check
                       Proofs.C09OrderP Proofs.C09FlattenP Proofs.C09BelowP Proofs.C09CheckP
                       Proofs.C09SwizzleP Proofs.C09WfP Proofs.C09RebuildP Proofs.C09SwapP
                       Proofs.C09UnflP Proofs.C09SplitP Proofs.C09LinearP.
Import ListNotations.
Open Scope Z_scope.

Lemma pt_eqb_refl : forall p, pt_eqb p p = true.
Proof. intros. apply pt_eqb_eq. reflexivity. Qed.

Section Bij.
  Variable img : point -> point.
  Variable src : list (point * Z).
  Hypothesis Hnd : NoDup (map fst src).
  Hypothesis Hinj : forall p p', In p (map fst src) -> In p' (map fst src) -> img p = img p' -> p = p'.

  Lemma filter_none : forall l p, incl (map fst l) (map fst src) -> In p (map fst src) ->
    ~ In p (map fst l) -> filter (fun pv : point * Z => pt_eqb (img (fst pv)) (img p)) l = [].
  Proof.
    induction l as [|[p0 w0] l IH]; intros p Hincl Hp Hni; [reflexivity|].
    simpl. destruct (pt_eqb (img p0) (img p)) eqn:E.
    - apply pt_eqb_eq in E. exfalso. apply Hni. left. simpl.
      apply Hinj; [apply Hincl; left; reflexivity|exact Hp|exact E].
    - apply IH; [intros x Hx; apply Hincl; right; exact Hx|exact Hp|].
      intros H. apply Hni. right. exact H.
  Qed.

  Lemma filter_unique_gen : forall l p w, incl (map fst l) (map fst src) -> NoDup (map fst l) ->
    In (p, w) l -> filter (fun pv : point * Z => pt_eqb (img (fst pv)) (img p)) l = [(p, w)].
  Proof.
    induction l as [|[p0 w0] l IH]; intros p w Hincl Hndl Hin; [destruct Hin|].
    simpl in Hndl. inversion Hndl as [|? ? Hp0 Hndl']; subst.
    assert (Hincl' : incl (map fst l) (map fst src)) by (intros x Hx; apply Hincl; right; exact Hx).
    destruct Hin as [E|Hin].
    - inversion E; subst. simpl. rewrite pt_eqb_refl. f_equal.
      apply filter_none; [exact Hincl'|apply Hincl; left; reflexivity|exact Hp0].
    - simpl. destruct (pt_eqb (img p0) (img p)) eqn:E.
      + apply pt_eqb_eq in E. exfalso. apply Hp0.
        assert (p0 = p).
        { apply Hinj; [apply Hincl; left; reflexivity| |exact E].
          apply Hincl'. apply in_map_iff. exists (p, w). auto. }
        subst. apply in_map_iff. exists (p, w). auto.
      + apply IH; assumption.
  Qed.

  Lemma sums_to_unique : forall p w, In (p, w) src -> sums_to img src (img p) = w.
  Proof.
    intros p w Hin. unfold sums_to.
    rewrite (filter_unique_gen src p w (incl_refl _) Hnd Hin). simpl. lia.
  Qed.

  Lemma content_ok_of_perm : forall d out, Permutation out (map (on_pt img) src) ->
    content_ok d img src out = true.
  Proof.
    intros d out HP. unfold content_ok. apply andb_true_iff. split.
    - apply forallb_forall. intros [q v] Hin. apply (Permutation_in _ HP) in Hin.
      apply in_map_iff in Hin. destruct Hin as [[p w] [E Hp]]. unfold on_pt in E. simpl in E. inversion E; subst.
      simpl. apply andb_true_iff. split.
      + apply existsb_exists. exists (p, v). split; [exact Hp|simpl; apply pt_eqb_refl].
      + rewrite (sums_to_unique p v Hp). apply Z.eqb_refl.
    - apply forallb_forall. intros [p w] Hp. simpl. apply orb_true_iff. right.
      apply existsb_exists. exists (img p, w). split; [|simpl; apply pt_eqb_refl].
      apply (Permutation_in _ (Permutation_sym HP)). apply in_map_iff. exists (p, w). auto.
  Qed.
End Bij.

(* ------------------------------------------------------------------ out_wf on the model's own counts *)
Lemma counts_ok : forall t' od,
  forallb (fun kz : nat * Z => snd kz =? clevel_count (fst kz) t')
          (combine (seq 0 od) (map (fun k => clevel_count k t') (seq 0 od))) = true.
Proof.
  intros t' od. generalize 0%nat. induction od as [|od IH]; intros st; [reflexivity|].
  simpl. rewrite Z.eqb_refl. simpl. apply IH.
Qed.

Lemma out_wf_model : forall c t', cdepth_ok (out_depth c) t' = true -> csorted t' = true ->
  out_wf c t' (map (fun k => clevel_count k t') (seq 0 (out_depth c))) = true.
Proof.
  intros c t' Hd Hs. unfold out_wf. rewrite Hd, Hs, map_length, seq_length, Nat.eqb_refl, counts_ok. reflexivity.
Qed.

(* ------------------------------------------------------------------ the domain *)
Lemma c09_wf_parts : forall c, c09_wf c = true ->
  (1 < k_n c)%nat /\ inj (k_tree c) = CN (k_es c)
  /\ cdepth_ok (k_n c) (inj (k_tree c)) = true /\ csorted (inj (k_tree c)) = true
  /\ cints (inj (k_tree c)) = true /\ cin_shape (k_shape c) (inj (k_tree c)) = true /\ op_ok c = true.
Proof.
  intros c H. unfold c09_wf in H. repeat (apply andb_true_iff in H; destruct H as [H ?]).
  apply Nat.ltb_lt in H. repeat split; auto.
  unfold k_es. destruct (inj (k_tree c)); [discriminate|reflexivity].
Qed.

Lemma is_perm_len : forall perm n, is_perm_of perm n = true -> length perm = n.
Proof. intros perm n H. unfold is_perm_of in H. apply andb_true_iff in H. destruct H as [H _]. apply Nat.eqb_eq. exact H. Qed.

Lemma CN_sub_depth : forall n t, cdepth_ok (S n) t = true -> CN (sub t) = t.
Proof. intros n [v|es] H; [discriminate|reflexivity]. Qed.

Lemma content_NoDup : forall d t, csorted t = true -> NoDup (map fst (ccontent d t)).
Proof. intros d t H. apply (pw_NoDup kcmp); [exact kcmp_refl|apply content_sorted; exact H]. Qed.

Lemma holds_of_parts : forall c es, c09_wf c = true -> c09_run c = Some es ->
  op_mfn c = mf_sum ->
  cdepth_ok (out_depth c) (CN es) = true -> csorted (CN es) = true ->
  content_ok (k_d c) (op_img c) (ccontent (k_d c) (inj (k_tree c))) (ccontent (k_d c) (CN es)) = true ->
  c09_holds c (c09_model c) = true.
Proof.
  intros c es Hwf Hrun Hm Hd Hs Hc. rewrite c09_pipeline, Hwf, Hrun. unfold content_okg. rewrite Hm.
  change (mf_sum =? mf_sum) with true. cbv iota. rewrite Hc.
  rewrite out_wf_model by assumption. reflexivity.
Qed.

(* the merge function of a case is read off its operation *)
#[export] Hint Extern 1 (op_mfn _ = _) =>
  unfold op_mfn; match goal with H : k_op _ = _ |- _ => rewrite H end; reflexivity : core.

(* ------------------------------------------------------------------ swizzle *)
Theorem spec_swizzle : forall c perm, k_op c = OSwizzle perm -> c09_wf c = true ->
  c09_holds c (c09_model c) = true.
Proof.
  intros c perm Hop Hwf. destruct (c09_wf_parts c Hwf) as [Hn [Et [Hd [Hs [_ [_ Hok]]]]]].
  unfold op_ok in Hok. rewrite Hop in Hok. pose proof (is_perm_len _ _ Hok) as Hlen.
  rewrite <- Hlen in Hok, Hd, Hn.
  destruct (swizzle_wf perm (inj (k_tree c)) Hok ltac:(lia) Hd Hs) as [Hs' Hd'].
  assert (Hod : out_depth c = length perm) by (unfold out_depth; rewrite Hop; symmetry; exact Hlen).
  assert (Ecn : CN (sub (swizzle perm (inj (k_tree c)))) = swizzle perm (inj (k_tree c))).
  { destruct (length perm) as [|m] eqn:E; [lia|]. eapply CN_sub_depth. exact Hd'. }
  apply (holds_of_parts c (sub (swizzle perm (inj (k_tree c))))); auto.
  - unfold c09_run. rewrite Hop, <- Et. reflexivity.
  - rewrite Ecn, Hod. exact Hd'.
  - rewrite Ecn. exact Hs'.
  - rewrite Ecn. unfold op_img. rewrite Hop. apply content_ok_of_perm.
    + apply content_NoDup. exact Hs.
    + intros p p' Hp Hp' E.
      apply in_map_iff in Hp. destruct Hp as [pv [<- Hp]]. apply in_map_iff in Hp'. destruct Hp' as [pv' [<- Hp']].
      apply (permute_inj perm (length perm)); auto.
      * intros i Hi. unfold is_perm_of in Hok. apply andb_true_iff in Hok. destruct Hok as [_ Hall].
        rewrite forallb_forall in Hall. assert (Hsq : In i (seq 0 (length perm))) by (apply in_seq; lia).
        specialize (Hall _ Hsq). apply existsb_exists in Hall. destruct Hall as [y [Hy E']].
        apply Nat.eqb_eq in E'. subst. exact Hy.
      * apply (points_len _ _ _ Hd _ Hp).
      * apply (points_len _ _ _ Hd _ Hp').
    + apply swizzle_content; auto. lia.
Qed.

Theorem spec_swizzle_inv : forall c perm, k_op c = OSwizzleInv perm -> c09_wf c = true ->
  c09_holds c (c09_model c) = true.
Proof.
  intros c perm Hop Hwf. destruct (c09_wf_parts c Hwf) as [Hn [Et [Hd [Hs [_ [_ Hok]]]]]].
  unfold op_ok in Hok. rewrite Hop in Hok. pose proof (is_perm_len _ _ Hok) as Hlen.
  rewrite <- Hlen in Hok, Hd, Hn.
  assert (Hn1 : (1 <= length perm)%nat) by lia.
  destruct (swizzle_wf perm (inj (k_tree c)) Hok Hn1 Hd Hs) as [Hs1 Hd1].
  destruct (inv_perm_is_perm perm Hok) as [Hli Hpi].
  assert (Hpi' := Hpi). assert (Hd1' := Hd1). assert (Hn1' := Hn1).
  rewrite <- Hli in Hpi', Hd1', Hn1'.
  destruct (swizzle_wf (inv_perm perm) _ Hpi' Hn1' Hd1' Hs1) as [Hs2 Hd2]. rewrite Hli in Hd2.
  set (t2 := swizzle (inv_perm perm) (swizzle perm (inj (k_tree c)))) in *.
  assert (Hod : out_depth c = length perm) by (unfold out_depth; rewrite Hop; symmetry; exact Hlen).
  assert (Ecn : CN (sub t2) = t2).
  { destruct (length perm) as [|m] eqn:E; [lia|]. eapply CN_sub_depth. exact Hd2. }
  apply (holds_of_parts c (sub t2)); auto.
  - unfold c09_run. rewrite Hop, <- Et. reflexivity.
  - rewrite Ecn, Hod. exact Hd2.
  - rewrite Ecn. exact Hs2.
  - rewrite Ecn. unfold op_img. rewrite Hop. apply content_ok_of_perm.
    + apply content_NoDup. exact Hs.
    + intros p p' _ _ E. exact E.
    + unfold t2. rewrite (swizzle_inverse (k_d c) perm _ Hok Hn1 Hd Hs).
      apply Permutation_refl'.
      transitivity (map (fun x : point * Z => x) (ccontent (k_d c) (inj (k_tree c)))); [symmetry; apply map_id|].
      apply map_ext. intros [q v]. reflexivity.
Qed.

(* ------------------------------------------------------------------ from the booleans of c09_wf to the domains *)
From FT Require Import Proofs.C09RefP.

Lemma wfl_of_bool : forall n N es, (n < N)%nat ->
  cdepth_ok N (CN es) = true -> csorted (CN es) = true -> cints (CN es) = true -> wfl n es.
Proof.
  induction n as [|n IH]; intros N es Hn Hd Hs Hi;
    apply csorted_CN in Hs; destruct Hs as [Hpw Hall];
    simpl in Hi; rewrite forallb_forall in Hi;
    (assert (Hsg : forallb (fun cp : coord * ct => is_single (fst cp)) es = true);
     [apply forallb_forall; intros cp Hin; specialize (Hi _ Hin); apply andb_true_iff in Hi; destruct Hi as [H1 _];
      exact H1|]).
  - split; [exact Hpw|]. split; [exact Hsg|exact I].
  - split; [exact Hpw|]. split; [exact Hsg|].
    destruct N as [|N]; [lia|]. simpl in Hd. rewrite forallb_forall in Hd.
    apply Forall_forall. intros [c p] Hin. rewrite Forall_forall in Hall.
    pose proof (Hd _ Hin) as Hdp. pose proof (Hall _ Hin) as Hsp. pose proof (Hi _ Hin) as Hip.
    simpl in *. apply andb_true_iff in Hip. destruct Hip as [_ Hip].
    destruct N as [|N']; [lia|]. destruct p as [v|s]; [discriminate|].
    exists s. split; [reflexivity|]. apply (IH (S N')); auto. lia.
Qed.

Lemma in_range_of_bool : forall s0 ss es, cin_shape (s0 :: ss) (CN es) = true -> Forall (in_range s0) es.
Proof.
  intros s0 ss es Hc. simpl in Hc. rewrite forallb_forall in Hc. apply Forall_forall. intros [k p] Hin.
  specialize (Hc _ Hin). simpl in Hc. apply andb_true_iff in Hc. destruct Hc as [H1 _].
  destruct k as [|x [|y k']]; try discriminate. exists x. split; [reflexivity|lia].
Qed.

Lemma wfs_of_bool : forall n N shapes es, (n < N)%nat ->
  cdepth_ok N (CN es) = true -> cin_shape shapes (CN es) = true -> wfs n shapes es.
Proof.
  induction n as [|n IH]; intros N shapes es Hn Hd Hc;
    (destruct shapes as [|s0 ss]; [simpl in Hc; discriminate|]);
    pose proof (in_range_of_bool s0 ss es Hc) as Htop.
  - split; [exact Htop|exact I].
  - split; [exact Htop|]. simpl in Hc. rewrite forallb_forall in Hc.
    destruct N as [|N]; [lia|]. simpl in Hd. rewrite forallb_forall in Hd.
    apply Forall_forall. intros [c p] Hin.
    pose proof (Hd _ Hin) as Hdp. pose proof (Hc _ Hin) as Hcp.
    simpl in *. apply andb_true_iff in Hcp. destruct Hcp as [_ Hcp].
    destruct N as [|N']; [lia|]. destruct p as [v|s]; [discriminate|].
    exists s. split; [reflexivity|]. apply (IH (S N')); auto. lia.
Qed.

Lemma deepP_of_bool : forall n N es, (n < N)%nat ->
  cdepth_ok N (CN es) = true -> csorted (CN es) = true ->
  deepP n (fun p => csorted p = true /\ cdepth_ok (N - 1 - n) p = true) es.
Proof.
  induction n as [|n IH]; intros N es Hn Hd Hs;
    apply csorted_CN in Hs; destruct Hs as [_ Hall];
    (destruct N as [|N]; [lia|]); simpl in Hd; rewrite forallb_forall in Hd; rewrite Forall_forall in Hall.
  - simpl. apply Forall_forall. intros cp Hin. replace (N - 0 - 0)%nat with N by lia. split; auto.
  - cbn [deepP]. apply Forall_forall. intros [c p] Hin.
    pose proof (Hd _ Hin) as Hdp. pose proof (Hall _ Hin) as Hsp. simpl in *.
    destruct N as [|N']; [lia|]. destruct p as [v|s]; [discriminate|]. simpl sub.
    replace (S N' - 0 - S n)%nat with (S N' - 1 - n)%nat by lia. apply IH; auto. lia.
Qed.

Lemma NoDup_map_inj_on : forall {A B} (f : A -> B) l, NoDup (map f l) ->
  forall x y, In x l -> In y l -> f x = f y -> x = y.
Proof.
  induction l as [|a l IH]; intros Hnd x y Hx Hy E; [destruct Hx|].
  simpl in Hnd. inversion Hnd as [|? ? Ha Hrest]; subst.
  destruct Hx as [->|Hx]; destruct Hy as [->|Hy]; auto.
  - exfalso. apply Ha. rewrite E. apply in_map. exact Hy.
  - exfalso. apply Ha. rewrite <- E. apply in_map. exact Hx.
Qed.

(* content clause from "content of the result = image of the content, pointwise" and sortedness
   of both trees *)
Lemma content_ok_of_map : forall d img F src t',
  ccontent d t' = map (on_pt F) src -> csorted t' = true -> NoDup (map fst src) ->
  (forall pv, In pv src -> F (fst pv) = img (fst pv)) ->
  content_ok d img src (ccontent d t') = true.
Proof.
  intros d img F src t' Hc Hs Hnd HF.
  assert (Hc' : ccontent d t' = map (on_pt img) src).
  { rewrite Hc. apply map_ext_in. intros [p v] Hin. unfold on_pt. simpl. f_equal. apply (HF _ Hin). }
  apply content_ok_of_perm; [exact Hnd| |rewrite Hc'; apply Permutation_refl].
  pose proof (content_NoDup d t' Hs) as Hnd'. rewrite Hc', map_map in Hnd'. simpl in Hnd'.
  rewrite <- map_map with (f := fst) (g := img) in Hnd'.
  intros p p' Hp Hp' E. apply (NoDup_map_inj_on img (map fst src) Hnd'); assumption.
Qed.

(* ------------------------------------------------------------------ flatten at the root *)
Lemma img_flatten0_tp : forall levels style shape p, tp style -> (levels < length p)%nat ->
  img_flatten 0 levels style shape p = imgflat levels p.
Proof.
  intros levels style shape p Hs Hl. unfold img_flatten, combine_coords. simpl firstn at 1. simpl skipn.
  rewrite imgflat_closed by exact Hl.
  destruct Hs as [-> | ->]; reflexivity.
Qed.

Lemma img_flatten0_lin : forall levels shape p, (levels < length p)%nat -> (S levels <= length shape)%nat ->
  Forall (fun c => is_single c = true) (firstn (S levels) p) ->
  img_flatten 0 levels st_linear shape p = imglin levels shape p.
Proof.
  intros levels shape p Hl Hs Hsg. unfold img_flatten, combine_coords. simpl firstn at 1. simpl skipn.
  rewrite imglin_closed by assumption. reflexivity.
Qed.

Theorem spec_flatten_root : forall c levels style, k_op c = OFlatten 0 levels style -> c09_wf c = true ->
  c09_holds c (c09_model c) = true.
Proof.
  intros c levels style Hop Hwf. destruct (c09_wf_parts c Hwf) as [Hn [Et [Hd [Hs [Hi [Hsh Hok]]]]]].
  unfold op_ok in Hok. rewrite Hop in Hok.
  apply andb_true_iff in Hok. destruct Hok as [Hok Hst]. apply andb_true_iff in Hok. destruct Hok as [Hl0 Hl1].
  apply Nat.ltb_lt in Hl0, Hl1. simpl in Hl1.
  destruct levels as [|l]; [lia|].
  rewrite Et in Hd, Hs, Hi, Hsh. set (es := k_es c) in *. set (d := k_d c). set (n := k_n c) in *.
  pose proof (wfl_of_bool (S l) n es Hl1 Hd Hs Hi) as Hwfl.
  pose proof (deepP_of_bool (S l) n es Hl1 Hd Hs) as Hdeep.
  assert (Hod : out_depth c = S (n - 1 - S l)) by (unfold out_depth; rewrite Hop; fold n; lia).
  assert (Hpts : forall pv, In pv (ccontent d (CN es)) ->
            length (fst pv) = n /\ Forall (fun c0 => is_single c0 = true) (firstn (S (S l)) (fst pv))).
  { intros pv Hin. split; [apply (points_len d n (CN es) Hd _ Hin)|apply (wfl_points (S l) d es Hwfl _ Hin)]. }
  assert (Hsrc : NoDup (map fst (ccontent d (CN es)))) by (apply content_NoDup; exact Hs).
  assert (Hrun : c09_run c = merge_helper (S l) style true (S n) (k_shape c) d es).
  { unfold c09_run. rewrite Hop. reflexivity. }
  apply orb_true_iff in Hst. destruct Hst as [Hst|Hst].
  - (* tuple / pair *)
    assert (Htp : tp style).
    { apply orb_true_iff in Hst. destruct Hst as [E|E]; apply Z.eqb_eq in E; [left|right]; exact E. }
    pose proof (ref_ok_tp l style (k_shape c) d es Htp Hwfl) as Hrok.
    pose proof (merge_helper_ref l style true (S n) (k_shape c) d es Hrok) as Eref.
    destruct (flatten_levels l style true (S n) (k_shape c) d es Htp Hwfl) as [r [Er [Hc _]]].
    rewrite Eref in Er. inversion Er; subst r.
    destruct (flat_ref_wf l style (k_shape c) d es _ Hrok Hdeep) as [Hs' Hd'].
    apply (holds_of_parts c (flat_ref l style (k_shape c) d es)); auto.
    + rewrite Hrun. exact Eref.
    + rewrite Hod. exact Hd'.
    + rewrite Et. fold es. fold d.
      apply (content_ok_of_map d _ (imgflat (S l))); auto.
      intros pv Hin. unfold op_img. rewrite Hop. symmetry. apply img_flatten0_tp; [exact Htp|].
      destruct (Hpts _ Hin) as [Hlen _]. lia.
  - (* linear *)
    apply Z.eqb_eq in Hst. subst style.
    assert (Hshl : length (k_shape c) = n) by reflexivity.
    pose proof (wfs_of_bool (S l) n (k_shape c) es Hl1 Hd Hsh) as Hwfs.
    destruct (ref_ok_lin l (k_shape c) d es ltac:(lia) Hwfl Hwfs) as [Hrok _].
    pose proof (merge_helper_ref l st_linear true (S n) (k_shape c) d es Hrok) as Eref.
    destruct (flatten_levels_lin l true (S n) (k_shape c) d es ltac:(lia) Hwfl Hwfs) as [r [Er [Hc _]]].
    rewrite Eref in Er. inversion Er; subst r.
    destruct (flat_ref_wf l st_linear (k_shape c) d es _ Hrok Hdeep) as [Hs' Hd'].
    apply (holds_of_parts c (flat_ref l st_linear (k_shape c) d es)); auto.
    + rewrite Hrun. exact Eref.
    + rewrite Hod. exact Hd'.
    + rewrite Et. fold es. fold d.
      apply (content_ok_of_map d _ (imglin (S l) (k_shape c))); auto.
      intros pv Hin. unfold op_img. rewrite Hop. symmetry. destruct (Hpts _ Hin) as [Hlen Hsg].
      apply img_flatten0_lin; [lia|lia|exact Hsg].
Qed.
