(* C08PositionP.v — position-space splits: the boundaries picked by the index loops of
   _SplitterEqual / _SplitterUnEqual are the first coordinates of the chunks of the stated sizes
   (remainder last) of the active non-empty elements. *)
From Coq Require Import ZArith List Bool Lia ZifyBool PeanoNat.
From FT Require Import Model.Base Model.Obs Model.C08Split Model.C08SplitCheck Proofs.C08SplitP.
Import ListNotations.
Open Scope Z_scope.

(* ================================================================== position space *)
Lemma iter_range_active d a0 a1 es :
  ssorted (map fst es) = true -> iter_range d a0 a1 es = active_elems d (a0, a1) es.
Proof.
  unfold active_elems, present. cbn [fst snd].
  induction es as [|[c t] es IH]; intros Hs; [reflexivity|].
  cbn [map fst] in Hs. pose proof (ssorted_cons _ _ Hs) as Hs'.
  pose proof (ssorted_cons_lt _ _ Hs) as Hlt.
  cbn [iter_range].
  destruct (a1 <=? c) eqn:C1.
  - symmetry. apply filter_all_false. intros x Hx. apply filter_In in Hx. destruct Hx as [Hin _].
    destruct Hin as [<-|Hin]; [cbn [fst]; lia|].
    specialize (Hlt (fst x) (in_map fst _ _ Hin)). lia.
  - rewrite (IH Hs'). cbn [filter snd].
    destruct (negb (is_empty d t)); cbn [filter fst].
    + replace (c <? a1) with true by lia. rewrite andb_true_r.
      destruct (a0 <=? c); reflexivity.
    + rewrite andb_false_r. reflexivity.
Qed.

Definition chunk_hd (ch : list elem) : Z := match ch with [] => 0 | x :: _ => fst x end.

Lemma chunk_bounds_eq a0 cs :
  chunk_bounds a0 cs = match cs with [] => [] | _ :: r => a0 :: map chunk_hd r end.
Proof. reflexivity. Qed.

Lemma chunks_nil f sz j : chunks f sz j [] = [].
Proof. destruct f; reflexivity. Qed.

Lemma skipn_pos_cons {A} n (x : A) l : (1 <= n)%nat -> skipn n (x :: l) = skipn (n - 1) l.
Proof. destruct n as [|n]; [lia|]. intros _. replace (S n - 1)%nat with n by lia. reflexivity. Qed.

Lemma firstn_pos_cons {A} n (x : A) l : (1 <= n)%nat -> firstn n (x :: l) = x :: firstn (n - 1) l.
Proof. destruct n as [|n]; [lia|]. intros _. replace (S n - 1)%nat with n by lia. reflexivity. Qed.

Section Equal.
  Variables (step a0 : Z).
  Hypothesis Hstep : 0 < step.
  Let s := Z.to_nat step.

  Lemma eqb_skip : forall m l q t,
    0 < q * step + t -> 0 < t -> t + Z.of_nat m <= step ->
    eq_bounds step a0 (q * step + t) l
    = eq_bounds step a0 (q * step + t + Z.of_nat m) (skipn m l).
  Proof.
    induction m as [|m IH]; intros l q t Hi Ht Hm.
    - cbn [skipn Z.of_nat]. rewrite Z.add_0_r. reflexivity.
    - destruct l as [|[c y] l]; [reflexivity|].
      cbn [eq_bounds skipn].
      replace (q * step + t =? 0) with false by lia.
      assert ((q * step + t) mod step = t) as Hmod.
      { rewrite Z.add_comm, Z_mod_plus_full. apply Z.mod_small. lia. }
      rewrite Hmod. replace (t =? 0) with false by lia. cbn [app].
      replace (q * step + t + 1) with (q * step + (t + 1)) by lia.
      rewrite (IH l q (t + 1)) by lia. f_equal. lia.
  Qed.

  Lemma eqb_chunks : forall f l q j,
    0 < q -> (length l <= f)%nat ->
    eq_bounds step a0 (q * step) l = map chunk_hd (chunks f (fun _ => s) j l).
  Proof.
    induction f as [|f IH]; intros l q j Hq Hlen.
    - destruct l; [reflexivity|cbn in Hlen; lia].
    - destruct l as [|[c y] l]; [reflexivity|].
      cbn [eq_bounds chunks].
      replace (q * step =? 0) with false by nia.
      rewrite Z_mod_mult. cbn [Z.eqb app].
      assert (s = S (s - 1)) as Hs by (subst s; lia).
      rewrite Hs at 1. cbn [firstn map chunk_hd fst]. f_equal.
      rewrite Hs at 1. cbn [skipn].
      replace (q * step + 1) with (q * step + 1) by lia.
      rewrite (eqb_skip (s - 1) l q 1) by (subst s; nia || lia).
      replace (q * step + 1 + Z.of_nat (s - 1)) with ((q + 1) * step) by (subst s; nia).
      apply IH; [lia|].
      rewrite skipn_length. cbn [length] in Hlen. lia.
  Qed.

  Lemma eq_bounds_chunks l :
    eq_bounds step a0 0 l = chunk_bounds a0 (chunks (length l) (fun _ => s) O l).
  Proof.
    destruct l as [|[c y] l]; [reflexivity|].
    cbn [length chunks]. rewrite chunk_bounds_eq.
    cbn [eq_bounds Z.eqb app]. f_equal.
    assert (s = S (s - 1)) as Hs by (subst s; lia).
    rewrite (skipn_pos_cons s) by lia.
    replace (0 + 1) with (0 * step + 1) by lia.
    rewrite (eqb_skip (s - 1) l 0 1) by (subst s; lia).
    replace (0 * step + 1 + Z.of_nat (s - 1)) with (1 * step) by (subst s; lia).
    apply eqb_chunks; [lia|]. rewrite skipn_length. lia.
  Qed.
End Equal.

Section UnEqual.
  Variables (sizes : list Z) (a0 : Z) (N : nat).
  Hypothesis Hpos : pos_list sizes = true.
  Definition usz (j : nat) : nat :=
    match nth_error sizes j with Some z => Z.to_nat z | None => N end.

  Lemma sizes_pos j z : nth_error sizes j = Some z -> 0 < z.
  Proof.
    intros H. apply nth_error_In in H. unfold pos_list in Hpos.
    rewrite forallb_forall in Hpos. specialize (Hpos z H). lia.
  Qed.

  Lemma uneq_skip base j : forall m l i,
    0 < i -> (j < length sizes)%nat -> i - base + Z.of_nat m <= nth j sizes 0 ->
    uneq_bounds sizes a0 i base j l = uneq_bounds sizes a0 (i + Z.of_nat m) base j (skipn m l).
  Proof.
    induction m as [|m IH]; intros l i Hi Hj Hm.
    - cbn [skipn Z.of_nat]. rewrite Z.add_0_r. reflexivity.
    - destruct l as [|[c y] l]; [reflexivity|].
      cbn [uneq_bounds skipn].
      replace (Nat.eqb j (length sizes)) with false by (symmetry; apply Nat.eqb_neq; lia).
      replace (i =? 0) with false by lia.
      replace (i - base =? nth j sizes 0) with false by lia.
      rewrite (IH l (i + 1)) by lia. f_equal. lia.
  Qed.

  Lemma uneq_chunks : forall f l i base j,
    0 < i -> (j < length sizes)%nat -> i - base = nth j sizes 0 ->
    (length l <= f)%nat -> (length l <= N)%nat ->
    uneq_bounds sizes a0 i base j l = map chunk_hd (chunks f usz (S j) l).
  Proof.
    induction f as [|f IH]; intros l i base j Hi Hj Hb Hlen HN.
    - destruct l; [reflexivity|cbn in Hlen; lia].
    - destruct l as [|[c y] l]; [reflexivity|].
      cbn [uneq_bounds chunks].
      replace (Nat.eqb j (length sizes)) with false by (symmetry; apply Nat.eqb_neq; lia).
      replace (i =? 0) with false by lia.
      replace (i - base =? nth j sizes 0) with true by lia.
      cbn [length] in Hlen, HN.
      assert (Hu : usz (S j) = match nth_error sizes (S j) with Some z => Z.to_nat z | None => N end)
        by reflexivity.
      rewrite Hu. clear Hu. destruct (nth_error sizes (S j)) as [z|] eqn:E.
      + pose proof (sizes_pos _ _ E) as Hz.
        assert (S j < length sizes)%nat as Hj' by (apply nth_error_Some; congruence).
        rewrite (firstn_pos_cons (Z.to_nat z)) by lia.
        rewrite (skipn_pos_cons (Z.to_nat z)) by lia.
        cbn [map chunk_hd fst]. f_equal.
        rewrite (uneq_skip i (S j) (Z.to_nat z - 1) l (i + 1)); [| lia | exact Hj' |].
        * apply IH; [lia|exact Hj'| | |].
          -- rewrite (nth_error_nth _ _ 0 E). lia.
          -- rewrite skipn_length. lia.
          -- rewrite skipn_length. lia.
        * rewrite (nth_error_nth _ _ 0 E). lia.
      + (* chunk S j is the remainder: it takes everything that is left *)
        assert (length sizes <= S j)%nat as Hj' by (apply nth_error_None; exact E).
        rewrite (firstn_pos_cons N) by lia. rewrite (skipn_pos_cons N) by lia.
        rewrite (skipn_all2 l) by lia. rewrite chunks_nil.
        cbn [map chunk_hd fst]. f_equal.
        destruct l as [|[c' y'] l']; [reflexivity|].
        cbn [uneq_bounds].
        replace (Nat.eqb (S j) (length sizes)) with true by (symmetry; apply Nat.eqb_eq; lia).
        reflexivity.
  Qed.

  Lemma uneq_bounds_chunks l :
    sizes <> [] -> (length l <= N)%nat ->
    uneq_bounds sizes a0 0 0 O l = chunk_bounds a0 (chunks (length l) usz O l).
  Proof.
    intros Hne HN. destruct l as [|[c y] l]; [reflexivity|].
    cbn [length chunks]. rewrite chunk_bounds_eq. cbn [uneq_bounds].
    destruct sizes as [|z0 r] eqn:Es; [congruence|]. rewrite <- Es in *.
    replace (Nat.eqb 0 (length sizes)) with false by (rewrite Es; reflexivity).
    cbn [Z.eqb]. f_equal.
    assert (nth_error sizes 0 = Some z0) as E0 by (rewrite Es; reflexivity).
    pose proof (sizes_pos _ _ E0) as Hz.
    assert (0 < length sizes)%nat as Hj by (rewrite Es; cbn; lia).
    assert (Hu : usz O = Z.to_nat z0) by (unfold usz; rewrite E0; reflexivity).
    rewrite Hu. rewrite (skipn_pos_cons (Z.to_nat z0)) by lia.
    cbn [length] in HN.
    rewrite (uneq_skip 0 O (Z.to_nat z0 - 1) l (0 + 1)); [| lia | exact Hj |].
    - apply uneq_chunks; [lia|exact Hj| | |].
      + rewrite (nth_error_nth _ _ 0 E0). lia.
      + rewrite skipn_length. lia.
      + rewrite skipn_length. lia.
    - rewrite (nth_error_nth _ _ 0 E0). lia.
  Qed.
End UnEqual.
