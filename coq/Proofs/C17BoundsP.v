(* C17BoundsP.v — the bounds clause of the cache oracle on the model: per tensor, the read bits lie
   between line * (distinct lines first touched by a read) and line * (reads). *)
From Coq Require Import ZArith List Bool Lia PeanoNat Permutation.
From FT Require Import Model.Base Model.Obs Model.C17Traffic Model.C17Check
                       Proofs.ObsP Proofs.C17TrafficP Proofs.C17CheckP Proofs.C17SchedP
                       Proofs.C17BuffetP Proofs.C17LiftP Proofs.C17CacheP Proofs.C17SortP
                       Proofs.C17ParamP Proofs.C17CaseP Proofs.C17PolicyP.
Import ListNotations.
Open Scope Z_scope.

(* ------------------------------------------------------------------ projections of the sorted list *)
Lemma ult_asym c a b : ult c a b = true -> ult c b a = false.
Proof. unfold ult. apply lex_lt_asym. Qed.
Lemma ult_le_trans c a b d : ult c b a = false -> ult c d b = false -> ult c d a = false.
Proof. unfold ult. apply lex_le_trans. Qed.

Lemma sortedG_of_sortedA c i : forall Y,
  sortedA (cnord c) i (map (phif c) Y) -> sortedG (ult c) (map (pair i) Y).
Proof.
  induction Y as [|y Y IH]; cbn [map sortedA sortedG]; auto. intros [Sy SY]. split; [|apply IH; exact SY].
  intros u Hu. apply in_map_iff in Hu. destruct Hu as [y' [<- Hy']].
  apply (Sy (phif c y') (in_map _ _ _ Hy')).
Qed.

Lemma UU_proj c i : c17_wf c = true -> (i < length (cbs c))%nat ->
  filter (fun u => Nat.eqb (fst u) i) (UU c)
  = map (pair i) (map (pair (nth i (cbs c) bind0)) (bX c (nth i (cbs c) bind0))).
Proof.
  intros W Hi. unfold UU.
  rewrite (gssort_filter (ult c) (ult_asym c) (ult_le_trans c)).
  rewrite filter_tag_from by lia. rewrite Nat.sub_0_r.
  assert (En : nth i (Ls c) [] = map (pair (nth i (cbs c) bind0)) (bX c (nth i (cbs c) bind0))).
  { unfold Ls. rewrite (nth_indep _ [] (map (pair bind0) (bX c bind0))) by (rewrite map_length; exact Hi).
    rewrite (map_nth (fun b => map (pair b) (bX c b))). reflexivity. }
  rewrite En. apply gssort_id. apply sortedG_of_sortedA.
  pose proof (sched_lists_sorted c W i) as S.
  rewrite (nth_indep _ [] (acc_of c pin_cache bind0)) in S by (rewrite map_length; exact Hi).
  rewrite map_nth, acc_phif in S. exact S.
Qed.

Lemma spec_sched_proj c i : c17_wf c = true -> (i < length (cbs c))%nat ->
  filter (fun x : nat * sacc => Nat.eqb (fst x) i) (spec_sched c)
  = map (pair i) (spec_acc c pin_cache (nth i (cbs c) bind0)).
Proof.
  intros W Hi. rewrite (sched_spec c W).
  rewrite (filter_map_comm (fun x : nat * sacc => Nat.eqb (fst x) i) (Gf c) (UU c)).
  change (fun x => Nat.eqb (fst (Gf c x)) i) with (fun u : nat * (c17_bind * (crow * option crow)) => Nat.eqb (fst u) i).
  rewrite (UU_proj c i W Hi).
  rewrite (spec_phig c (nth i (cbs c) bind0)) by (apply cbs_ok; [exact W|apply nth_In; exact Hi]).
  rewrite !map_map. reflexivity.
Qed.

Lemma UU_tag_lt c u : In u (UU c) -> (fst u < length (cbs c))%nat.
Proof.
  intros H. apply (Permutation_in _ (gssort_perm (ult c) _)) in H. destruct u as [i x].
  destruct (tag_from_in _ _ _ _ H) as [_ Hx]. rewrite Nat.sub_0_r in Hx. cbn [fst].
  destruct (Nat.lt_ge_cases i (length (cbs c))) as [L|L]; auto.
  rewrite nth_overflow in Hx by (unfold Ls; rewrite map_length; exact L). destruct Hx.
Qed.

(* ------------------------------------------------------------------ the counts on the merged
   sequence are the counts on the binding's own sequence *)
Notation sw := (fun x : nat * sacc => s_w (snd x)).
Definition tagp (i : nat) (l : list (nat * sacc)) : list sacc :=
  map snd (filter (fun x => Nat.eqb (fst x) i) l).

Lemma seen_proj x hist : existsb (same_id x) hist = existsb (same_pair 0 (snd x)) (tagp (fst x) hist).
Proof.
  unfold tagp. induction hist as [|y h IH]; cbn [existsb filter map]; auto.
  unfold same_id at 1. rewrite (Nat.eqb_sym (fst x) (fst y)).
  destruct (Nat.eqb (fst y) (fst x)); cbn [andb map existsb]; [|exact IH].
  rewrite IH. unfold same_pair. cbn [firstn list_eqb]. rewrite andb_true_r. reflexivity.
Qed.

Lemma gcold_proj i : forall S hist,
  gcold same_id sw fst i hist S = spec_fills 0 (tagp i hist) (tagp i S).
Proof.
  unfold tagp. induction S as [|x S IH]; intros hist; cbn [gcold filter map spec_fills]; auto.
  destruct (Nat.eqb_spec (fst x) i) as [E|N]; cbn [andb map spec_fills].
  - rewrite (IH (x :: hist)). cbn [filter]. destruct (Nat.eqb_spec (fst x) i); [|contradiction]. cbn [map snd].
    rewrite seen_proj. unfold tagp. rewrite E. reflexivity.
  - rewrite (IH (x :: hist)). cbn [filter]. destruct (Nat.eqb_spec (fst x) i); [contradiction|]. lia.
Qed.

Lemma greads_proj i : forall S, greads sw fst i S = count_reads (tagp i S).
Proof.
  unfold tagp, count_reads, sumZ. induction S as [|x S IH]; cbn [greads filter map fold_right]; auto.
  destruct (Nat.eqb (fst x) i); cbn [andb map fold_right snd]; rewrite IH; [destruct (s_w (snd x))|]; cbn [negb]; lia.
Qed.

Lemma tagp_spec_sched c i : c17_wf c = true -> (i < length (cbs c))%nat ->
  tagp i (spec_sched c) = spec_acc c pin_cache (nth i (cbs c) bind0).
Proof.
  intros W Hi. unfold tagp. rewrite (spec_sched_proj c i W Hi), map_map. cbn [snd]. apply map_id.
Qed.

(* per binding: distinct lines first read <= fills of the policy <= reads *)
Lemma binding_bounds c cap i : c17_wf c = true -> (i < length (cbs c))%nat ->
  spec_fills 0 [] (spec_acc c pin_cache (nth i (cbs c) bind0)) <= nth i (spec_min c cap) 0
  /\ nth i (spec_min c cap) 0 <= count_reads (spec_acc c pin_cache (nth i (cbs c) bind0)).
Proof.
  intros W Hi.
  assert (Lb : length (k_binds c) = length (cbs c)).
  { symmetry. apply Permutation_length. apply sort_binds_perm. }
  unfold spec_min, min_run.
  destruct (min_run_bounds same_id sw (fun x => s_stg (snd x)) fst cap (k_line c) i (spec_sched c) [] []
                           (repeat 0 (length (k_binds c))) []) as [B1 B2].
  - intros y [].
  - intros x Hx. rewrite repeat_length, Lb. rewrite (sched_spec c W) in Hx.
    apply in_map_iff in Hx. destruct Hx as [u [<- Hu]]. exact (UU_tag_lt c u Hu).
  - rewrite gcold_proj in B1. rewrite greads_proj in B2. unfold tagp at 1 in B1. cbn [filter map] in B1.
    rewrite (tagp_spec_sched c i W Hi) in B1, B2.
    assert (Z0 : nth i (repeat 0 (length (k_binds c))) 0 = 0).
    { clear. generalize (length (k_binds c)). intros n. revert i. induction n; intros [|i]; cbn; auto. }
    rewrite Z0 in B1, B2. split; lia.
Qed.

(* ------------------------------------------------------------------ per tensor *)
Lemma forall2_nth {A B} (Q : A -> B -> Prop) (a0 : A) (b0 : B) : forall (l : list A) (m : list B),
  length l = length m -> (forall j, (j < length l)%nat -> Q (nth j l a0) (nth j m b0)) -> Forall2 Q l m.
Proof.
  induction l as [|x l IH]; intros [|y m] L H; cbn in L; try discriminate; constructor.
  - apply (H O). cbn. lia.
  - apply IH; [lia|]. intros j Hj. apply (H (S j)). cbn. lia.
Qed.

Lemma combine_existsb ti : forall (bs : list c17_bind) (fl : list Z), length fl = length bs ->
  existsb (fun bf : c17_bind * Z => has_r (fst bf))
          (filter (fun bf => Nat.eqb (k_t (fst bf)) ti) (combine bs fl))
  = existsb has_r (filter (fun b => Nat.eqb (k_t b) ti) bs).
Proof.
  induction bs as [|b bs IH]; intros [|z fl] L; cbn in L; try discriminate; auto.
  cbn [combine filter fst]. destruct (Nat.eqb (k_t b) ti); cbn [existsb fst]; rewrite IH by lia; reflexivity.
Qed.

Lemma combine_sum_bounds ti (lo hi : c17_bind -> Z) : forall (bs : list c17_bind) (fl : list Z),
  Forall2 (fun b z => lo b <= z <= hi b) bs fl ->
  sumZ (map lo (filter (fun b => Nat.eqb (k_t b) ti) bs))
  <= sumZ (map snd (filter (fun bf : c17_bind * Z => Nat.eqb (k_t (fst bf)) ti) (combine bs fl)))
  /\ sumZ (map snd (filter (fun bf : c17_bind * Z => Nat.eqb (k_t (fst bf)) ti) (combine bs fl)))
     <= sumZ (map hi (filter (fun b => Nat.eqb (k_t b) ti) bs)).
Proof.
  unfold sumZ. induction 1 as [|b z bs fl Hb Hr IH]; cbn [combine filter map fold_right fst]; [lia|].
  destruct (Nat.eqb (k_t b) ti); cbn [map fold_right snd]; lia.
Qed.

Lemma wf_line c : c17_wf c = true -> 1 <= k_line c.
Proof.
  unfold c17_wf. intros H. repeat (apply andb_true_iff in H; destruct H as [H ?]).
  repeat match goal with X : _ && _ = true |- _ => apply andb_true_iff in X; destruct X end. lia.
Qed.

Theorem model_bounds_ok c cap : c17_wf c = true ->
  forallb (fun b => no_ties (spec_acc c pin_cache b)) (k_binds c) = true ->
  bounds_ok c (model_cache c cap) = true.
Proof.
  intros W T. destruct (cache_refines_min c cap W T) as [_ Rd].
  unfold bounds_ok. rewrite Rd. apply forallb_forall. intros ti Hti. apply in_seq in Hti.
  pose proof (wf_line c W) as Hl.
  assert (Lb : length (k_binds c) = length (cbs c)).
  { symmetry. apply Permutation_length. apply sort_binds_perm. }
  assert (Lf : length (spec_min c cap) = length (cbs c)).
  { unfold spec_min, min_run. rewrite min_run_len, repeat_length. exact Lb. }
  pose proof (sort_binds_perm (k_binds c)) as P. fold (cbs c) in P.
  pose proof (perm_filter (fun b => Nat.eqb (k_t b) ti) _ _ P) as PF.
  unfold spec_cache_reads. rewrite <- sort_binds_isort. fold (cbs c).
  set (f := fun ti0 : nat => _).
  rewrite (nth_indep _ (VL []) (f O)) by (rewrite map_length, seq_length; lia).
  rewrite map_nth, seq_nth by lia. cbn [Nat.add]. unfold f. clear f.
  rewrite (combine_existsb ti (cbs c) (spec_min c cap) Lf).
  unfold per_tensor.
  rewrite <- (perm_existsb has_r _ _ PF).
  rewrite <- (perm_sum (fun b => spec_fills 0 [] (spec_acc c pin_cache b)) _ _ PF).
  rewrite <- (perm_sum (fun b => count_reads (spec_acc c pin_cache b)) _ _ PF).
  destruct (existsb has_r (filter (fun b => Nat.eqb (k_t b) ti) (cbs c))); [|reflexivity].
  cbn [vl vnth nth vz].
  destruct (combine_sum_bounds ti (fun b => spec_fills 0 [] (spec_acc c pin_cache b))
                               (fun b => count_reads (spec_acc c pin_cache b)) (cbs c) (spec_min c cap)) as [S1 S2].
  - apply (forall2_nth _ bind0 0); [symmetry; exact Lf|].
    intros j Hj. exact (binding_bounds c cap j W Hj).
  - apply andb_true_iff. split; apply Z.leb_le; apply Z.mul_le_mono_nonneg_l; lia.
Qed.

(* the whole oracle on the model outside region 1, up to monotonicity in the capacity *)
Theorem model_meets_region0_mono c : c17_wf c = true -> c17_region c = 0 ->
  non_increasing (map total_reads (map (model_cache c) (k_caps c))) = true ->
  c17_holds c (c17_model c) = true.
Proof.
  intros W R Hm. apply model_meets_region0; auto.
  intros cap Hc. apply model_bounds_ok; [exact W|exact (region0_no_ties c cap R Hc)].
Qed.
