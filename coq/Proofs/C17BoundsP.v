(* C17BoundsP.v — the bounds clause of the cache oracle on the model: per tensor, the read bits lie
   between line * (distinct lines first touched by a read) and line * (reads). *)
From Coq Require Import ZArith List Bool Lia PeanoNat Permutation.
From FT Require Import Model.Base Model.Obs Model.C17Traffic Model.C17Check
                       Proofs.ObsP Proofs.C17TrafficP Proofs.C17CheckP Proofs.C17SchedP
                       Proofs.C17BuffetP Proofs.C17LiftP Proofs.C17CacheP Proofs.C17SortP
                       Proofs.C17ParamP Proofs.C17CaseP Proofs.C17PolicyP.
Import ListNotations.
Open Scope Z_scope.

(* ------------------------------------------------------------------ projections of the sorted list *)
Lemma ult_asym c a b : ult c a b = true -> ult c b a = false.
Proof. unfold ult. apply lex_lt_asym. Qed.
Lemma ult_le_trans c a b d : ult c b a = false -> ult c d b = false -> ult c d a = false.
Proof. unfold ult. apply lex_le_trans. Qed.

Lemma sortedG_of_sortedA c i : forall Y,
  sortedA (cnord c) i (map (phif c) Y) -> sortedG (ult c) (map (pair i) Y).
Proof.
  induction Y as [|y Y IH]; cbn [map sortedA sortedG]; auto. intros [Sy SY]. split; [|apply IH; exact SY].
  intros u Hu. apply in_map_iff in Hu. destruct Hu as [y' [<- Hy']].
  apply (Sy (phif c y') (in_map _ _ _ Hy')).
Qed.

Lemma UU_proj c i : c17_wf c = true -> (i < length (cbs c))%nat ->
  filter (fun u => Nat.eqb (fst u) i) (UU c)
  = map (pair i) (map (pair (nth i (cbs c) bind0)) (bX c (nth i (cbs c) bind0))).
Proof.
  intros W Hi. unfold UU.
  rewrite (gssort_filter (ult c) (ult_asym c) (ult_le_trans c)).
  rewrite filter_tag_from by lia. rewrite Nat.sub_0_r.
  assert (En : nth i (Ls c) [] = map (pair (nth i (cbs c) bind0)) (bX c (nth i (cbs c) bind0))).
  { unfold Ls. rewrite (nth_indep _ [] (map (pair bind0) (bX c bind0))) by (rewrite map_length; exact Hi).
    rewrite (map_nth (fun b => map (pair b) (bX c b))). reflexivity. }
  rewrite En. apply gssort_id. apply sortedG_of_sortedA.
  pose proof (sched_lists_sorted c W i) as S.
  rewrite (nth_indep _ [] (acc_of c pin_cache bind0)) in S by (rewrite map_length; exact Hi).
  rewrite map_nth, acc_phif in S. exact S.
Qed.

Lemma spec_sched_proj c i : c17_wf c = true -> (i < length (cbs c))%nat ->
  filter (fun x : nat * sacc => Nat.eqb (fst x) i) (spec_sched c)
  = map (pair i) (spec_acc c pin_cache (nth i (cbs c) bind0)).
Proof.
  intros W Hi. rewrite (sched_spec c W).
  rewrite (filter_map_comm (fun x : nat * sacc => Nat.eqb (fst x) i) (Gf c) (UU c)).
  change (fun x => Nat.eqb (fst (Gf c x)) i) with (fun u : nat * (c17_bind * (crow * option crow)) => Nat.eqb (fst u) i).
  rewrite (UU_proj c i W Hi).
  rewrite (spec_phig c (nth i (cbs c) bind0)) by (apply cbs_ok; [exact W|apply nth_In; exact Hi]).
  rewrite !map_map. reflexivity.
Qed.

Lemma UU_tag_lt c u : In u (UU c) -> (fst u < length (cbs c))%nat.
Proof.
  intros H. apply (Permutation_in _ (gssort_perm (ult c) _)) in H. destruct u as [i x].
  destruct (tag_from_in _ _ _ _ H) as [_ Hx]. rewrite Nat.sub_0_r in Hx. cbn [fst].
  destruct (Nat.lt_ge_cases i (length (cbs c))) as [L|L]; auto.
  rewrite nth_overflow in Hx by (unfold Ls; rewrite map_length; exact L). destruct Hx.
Qed.

(* ------------------------------------------------------------------ the counts on the merged
   sequence are the counts on the binding's own sequence *)
Notation sw := (fun x : nat * sacc => s_w (snd x)).
Definition tagp (i : nat) (l : list (nat * sacc)) : list sacc :=
  map snd (filter (fun x => Nat.eqb (fst x) i) l).

Lemma seen_proj x hist : existsb (same_id x) hist = existsb (same_pair 0 (snd x)) (tagp (fst x) hist).
Proof.
  unfold tagp. induction hist as [|y h IH]; cbn [existsb filter map]; auto.
  unfold same_id at 1. rewrite (Nat.eqb_sym (fst x) (fst y)).
  destruct (Nat.eqb (fst y) (fst x)); cbn [andb map existsb]; [|exact IH].
  rewrite IH. unfold same_pair. cbn [firstn list_eqb]. rewrite andb_true_r. reflexivity.
Qed.

Lemma gcold_proj i : forall S hist,
  gcold same_id sw fst i hist S = spec_fills 0 (tagp i hist) (tagp i S).
Proof.
  unfold tagp. induction S as [|x S IH]; intros hist; cbn [gcold filter map spec_fills]; auto.
  destruct (Nat.eqb_spec (fst x) i) as [E|N]; cbn [andb map spec_fills].
  - rewrite (IH (x :: hist)). cbn [filter]. destruct (Nat.eqb_spec (fst x) i); [|contradiction]. cbn [map snd].
    rewrite seen_proj. unfold tagp. rewrite E. reflexivity.
  - rewrite (IH (x :: hist)). cbn [filter]. destruct (Nat.eqb_spec (fst x) i); [contradiction|]. lia.
Qed.

Lemma greads_proj i : forall S, greads sw fst i S = count_reads (tagp i S).
Proof.
  unfold tagp, count_reads, sumZ. induction S as [|x S IH]; cbn [greads filter map fold_right]; auto.
  destruct (Nat.eqb (fst x) i); cbn [andb map fold_right snd]; rewrite IH; [destruct (s_w (snd x))|]; cbn [negb]; lia.
Qed.

Lemma tagp_spec_sched c i : c17_wf c = true -> (i < length (cbs c))%nat ->
  tagp i (spec_sched c) = spec_acc c pin_cache (nth i (cbs c) bind0).
Proof.
  intros W Hi. unfold tagp. rewrite (spec_sched_proj c i W Hi), map_map. cbn [snd]. apply map_id.
Qed.

(* per binding: distinct lines first read <= fills of the policy <= reads *)
Lemma binding_bounds c cap i : c17_wf c = true -> (i < length (cbs c))%nat ->
  spec_fills 0 [] (spec_acc c pin_cache (nth i (cbs c) bind0)) <= nth i (spec_min c cap) 0
  /\ nth i (spec_min c cap) 0 <= count_reads (spec_acc c pin_cache (nth i (cbs c) bind0)).
Proof.
  intros W Hi.
  assert (Lb : length (k_binds c) = length (cbs c)).
  { symmetry. apply Permutation_length. apply sort_binds_perm. }
  unfold spec_min, min_run.
  destruct (min_run_bounds same_id sw (fun x => s_stg (snd x)) fst cap (k_line c) i (spec_sched c) [] []
                           (repeat 0 (length (k_binds c))) []) as [B1 B2].
  - intros y [].
  - intros x Hx. rewrite repeat_length, Lb. rewrite (sched_spec c W) in Hx.
    apply in_map_iff in Hx. destruct Hx as [u [<- Hu]]. exact (UU_tag_lt c u Hu).
  - rewrite gcold_proj in B1. rewrite greads_proj in B2. unfold tagp at 1 in B1. cbn [filter map] in B1.
    rewrite (tagp_spec_sched c i W Hi) in B1, B2.
    assert (Z0 : nth i (repeat 0 (length (k_binds c))) 0 = 0).
    { clear. generalize (length (k_binds c)). intros n. revert i. induction n; intros [|i]; cbn; auto. }
    rewrite Z0 in B1, B2. split; lia.
Qed.

(* ------------------------------------------------------------------ per tensor *)
Lemma forall2_nth {A B} (Q : A -> B -> Prop) (a0 : A) (b0 : B) : forall (l : list A) (m : list B),
  length l = length m -> (forall j, (j < length l)%nat -> Q (nth j l a0) (nth j m b0)) -> Forall2 Q l m.
Proof.
  induction l as [|x l IH]; intros [|y m] L H; cbn in L; try discriminate; constructor.
  - apply (H O). cbn. lia.
  - apply IH; [lia|]. intros j Hj. apply (H (S j)). cbn. lia.
Qed.

Lemma combine_existsb ti : forall (bs : list c17_bind) (fl : list Z), length fl = length bs ->
  existsb (fun bf : c17_bind * Z => has_r (fst bf))
          (filter (fun bf => Nat.eqb (k_t (fst bf)) ti) (combine bs fl))
  = existsb has_r (filter (fun b => Nat.eqb (k_t b) ti) bs).
Proof.
  induction bs as [|b bs IH]; intros [|z fl] L; cbn in L; try discriminate; auto.
  cbn [combine filter fst]. destruct (Nat.eqb (k_t b) ti); cbn [existsb fst]; rewrite IH by lia; reflexivity.
Qed.

Lemma combine_sum_bounds ti (lo hi : c17_bind -> Z) : forall (bs : list c17_bind) (fl : list Z),
  Forall2 (fun b z => lo b <= z <= hi b) bs fl ->
  sumZ (map lo (filter (fun b => Nat.eqb (k_t b) ti) bs))
  <= sumZ (map snd (filter (fun bf : c17_bind * Z => Nat.eqb (k_t (fst bf)) ti) (combine bs fl)))
  /\ sumZ (map snd (filter (fun bf : c17_bind * Z => Nat.eqb (k_t (fst bf)) ti) (combine bs fl)))
     <= sumZ (map hi (filter (fun b => Nat.eqb (k_t b) ti) bs)).
Proof.
  unfold sumZ. induction 1 as [|b z bs fl Hb Hr IH]; cbn [combine filter map fold_right fst]; [lia|].
  destruct (Nat.eqb (k_t b) ti); cbn [map fold_right snd]; lia.
Qed.

Lemma wf_line c : c17_wf c = true -> 1 <= k_line c.
Proof.
  unfold c17_wf. intros H. repeat (apply andb_true_iff in H; destruct H as [H ?]).
  repeat match goal with X : _ && _ = true |- _ => apply andb_true_iff in X; destruct X end. lia.
Qed.

Theorem model_bounds_ok c cap : c17_wf c = true ->
  forallb (fun b => no_ties (spec_acc c pin_cache b)) (k_binds c) = true ->
  bounds_ok c (model_cache c cap) = true.
Proof.
  intros W T. destruct (cache_refines_min c cap W T) as [_ Rd].
  unfold bounds_ok. rewrite Rd. apply forallb_forall. intros ti Hti. apply in_seq in Hti.
  pose proof (wf_line c W) as Hl.
  assert (Lb : length (k_binds c) = length (cbs c)).
  { symmetry. apply Permutation_length. apply sort_binds_perm. }
  assert (Lf : length (spec_min c cap) = length (cbs c)).
  { unfold spec_min, min_run. rewrite min_run_len, repeat_length. exact Lb. }
  pose proof (sort_binds_perm (k_binds c)) as P. fold (cbs c) in P.
  pose proof (perm_filter (fun b => Nat.eqb (k_t b) ti) _ _ P) as PF.
  unfold spec_cache_reads. rewrite <- sort_binds_isort. fold (cbs c).
  set (f := fun ti0 : nat => _).
  rewrite (nth_indep _ (VL []) (f O)) by (rewrite map_length, seq_length; lia).
  rewrite map_nth, seq_nth by lia. cbn [Nat.add]. unfold f. clear f.
  rewrite (combine_existsb ti (cbs c) (spec_min c cap) Lf).
  unfold per_tensor.
  rewrite <- (perm_existsb has_r _ _ PF).
  rewrite <- (perm_sum (fun b => spec_fills 0 [] (spec_acc c pin_cache b)) _ _ PF).
  rewrite <- (perm_sum (fun b => count_reads (spec_acc c pin_cache b)) _ _ PF).
  destruct (existsb has_r (filter (fun b => Nat.eqb (k_t b) ti) (cbs c))); [|reflexivity].
  cbn [vl vnth nth vz].
  destruct (combine_sum_bounds ti (fun b => spec_fills 0 [] (spec_acc c pin_cache b))
                               (fun b => count_reads (spec_acc c pin_cache b)) (cbs c) (spec_min c cap)) as [S1 S2].
  - apply (forall2_nth _ bind0 0); [symmetry; exact Lf|].
    intros j Hj. exact (binding_bounds c cap j W Hj).
  - apply andb_true_iff. split; apply Z.leb_le; apply Z.mul_le_mono_nonneg_l; lia.
Qed.

(* the whole oracle on the model outside region 1, up to monotonicity in the capacity *)
Theorem model_meets_region0_mono c : c17_wf c = true -> c17_region c = 0 ->
  non_increasing (map total_reads (map (model_cache c) (k_caps c))) = true ->
  c17_holds c (c17_model c) = true.
Proof.
  intros W R Hm. apply model_meets_region0; auto.
  intros cap Hc. apply model_bounds_ok; [exact W|exact (region0_no_ties c cap R Hc)].
Qed.

(* ------------------------------------------------------------------ monotonicity in the capacity for
   cases without staging accesses, lifted to the oracle clause non_increasing *)
Lemma same_id_refl a : same_id a a = true.
Proof. unfold same_id, same_line. rewrite Nat.eqb_refl, list_eqb_refl, Z.eqb_refl. reflexivity. Qed.
Lemma same_id_sym a b : same_id a b = same_id b a.
Proof. unfold same_id, same_line. rewrite Nat.eqb_sym, list_eqb_sym, Z.eqb_sym. reflexivity. Qed.
Lemma same_id_iff a b : same_id a b = true <->
  (fst a = fst b /\ s_pre (snd a) = s_pre (snd b) /\ s_ln (snd a) = s_ln (snd b)).
Proof.
  unfold same_id, same_line. rewrite !andb_true_iff, Nat.eqb_eq, list_eqb_eq, Z.eqb_eq. tauto.
Qed.
Lemma same_id_trans a b d : same_id a b = true -> same_id b d = true -> same_id a d = true.
Proof.
  rewrite !same_id_iff. intros (H1 & H2 & H3) (H4 & H5 & H6). repeat split; congruence.
Qed.

Lemma no_staging_sched c : c17_wf c = true -> has_staging c = false ->
  forall x, In x (spec_sched c) -> s_stg (snd x) = false.
Proof.
  intros W H x Hx.
  assert (Hi : (fst x < length (cbs c))%nat).
  { rewrite (sched_spec c W) in Hx. apply in_map_iff in Hx. destruct Hx as [u [<- Hu]]. exact (UU_tag_lt c u Hu). }
  assert (Ha : In (snd x) (spec_acc c pin_cache (nth (fst x) (cbs c) bind0))).
  { rewrite <- (tagp_spec_sched c (fst x) W Hi). unfold tagp. apply in_map. apply filter_In. split; auto. apply Nat.eqb_refl. }
  unfold has_staging in H.
  destruct (s_stg (snd x)) eqn:E; auto. exfalso.
  assert (T : existsb (fun b => existsb s_stg (spec_acc c pin_cache b)) (k_binds c) = true).
  { apply existsb_exists. exists (nth (fst x) (cbs c) bind0). split.
    - apply (Permutation_in _ (sort_binds_perm (k_binds c))). apply nth_In. exact Hi.
    - apply existsb_exists. exists (snd x). auto. }
  congruence.
Qed.

Lemma spec_min_mono c cap1 cap2 : c17_wf c = true -> has_staging c = false ->
  0 <= cap1 -> cap1 <= cap2 -> Forall2 Z.le (spec_min c cap2) (spec_min c cap1).
Proof.
  intros W H H0 Hc. unfold spec_min, min_run.
  apply (policy_monotone same_id (fun x => s_w (snd x)) (fun x => s_stg (snd x)) fst
                         same_id_refl same_id_sym same_id_trans cap1 cap2 (k_line c)); auto.
  - pose proof (wf_line c W). lia.
  - apply no_staging_sched; assumption.
Qed.

Lemma combine_sum_mono ti : forall (bs : list c17_bind) (f2 f1 : list Z), Forall2 Z.le f2 f1 ->
  sumZ (map snd (filter (fun bf : c17_bind * Z => Nat.eqb (k_t (fst bf)) ti) (combine bs f2)))
  <= sumZ (map snd (filter (fun bf : c17_bind * Z => Nat.eqb (k_t (fst bf)) ti) (combine bs f1))).
Proof.
  unfold sumZ. induction bs as [|b bs IH]; intros f2 f1 H; [cbn; lia|].
  destruct H as [|x y f2 f1 Hxy H]; [cbn; lia|]. cbn [combine filter fst].
  specialize (IH f2 f1 H). destruct (Nat.eqb (k_t b) ti); cbn [map fold_right snd]; lia.
Qed.

Lemma total_reads_mono c cap1 cap2 : c17_wf c = true -> has_staging c = false ->
  0 <= cap1 -> cap1 <= cap2 ->
  sumZ (map (fun r => vz (vnth 0 r)) (spec_cache_reads c cap2))
  <= sumZ (map (fun r => vz (vnth 0 r)) (spec_cache_reads c cap1)).
Proof.
  intros W H H0 Hc. pose proof (spec_min_mono c cap1 cap2 W H H0 Hc) as M. pose proof (wf_line c W) as Hl.
  unfold spec_cache_reads, sumZ. rewrite !map_map.
  induction (seq 0 (length (k_tensors c))) as [|ti l IH]; cbn [map fold_right]; [lia|].
  pose proof (combine_sum_mono ti (isort_binds (k_binds c)) _ _ M) as S.
  assert (Ex : forall fl fl' : list Z, length fl = length fl' ->
               existsb (fun bf : c17_bind * Z => has_r (fst bf))
                       (filter (fun bf => Nat.eqb (k_t (fst bf)) ti) (combine (isort_binds (k_binds c)) fl))
               = existsb (fun bf : c17_bind * Z => has_r (fst bf))
                         (filter (fun bf => Nat.eqb (k_t (fst bf)) ti) (combine (isort_binds (k_binds c)) fl'))).
  { generalize (isort_binds (k_binds c)). induction l0 as [|b bs IHb]; intros fl fl' L; [reflexivity|].
    destruct fl, fl'; cbn in L; try discriminate; [reflexivity|]. cbn [combine filter fst].
    destruct (Nat.eqb (k_t b) ti); cbn [existsb fst]; rewrite (IHb fl fl') by lia; reflexivity. }
  assert (Ll : length (spec_min c cap2) = length (spec_min c cap1)).
  { unfold spec_min, min_run. rewrite !min_run_len. reflexivity. }
  rewrite (Ex _ _ Ll). destruct (existsb _ _); cbn [vl vnth nth vz]; [|lia].
  assert (k_line c * sumZ (map snd (filter (fun bf : c17_bind * Z => Nat.eqb (k_t (fst bf)) ti)
                                           (combine (isort_binds (k_binds c)) (spec_min c cap2))))
          <= k_line c * sumZ (map snd (filter (fun bf : c17_bind * Z => Nat.eqb (k_t (fst bf)) ti)
                                              (combine (isort_binds (k_binds c)) (spec_min c cap1)))))
    by (apply Z.mul_le_mono_nonneg_l; [lia|exact S]).
  unfold sumZ in *. lia.
Qed.

Lemma wf_caps c : c17_wf c = true ->
  forallb (Z.leb 0) (k_caps c) = true /\ sorted_by Z.leb (k_caps c) = true.
Proof.
  unfold c17_wf. intros H. repeat (apply andb_true_iff in H; destruct H as [H ?]).
  repeat match goal with X : _ && _ = true |- _ => apply andb_true_iff in X; destruct X end.
  split; assumption.
Qed.

Lemma non_increasing_map (f : Z -> Z) : forall caps, sorted_by Z.leb caps = true ->
  (forall c1 c2, In c1 caps -> In c2 caps -> c1 <= c2 -> f c2 <= f c1) ->
  non_increasing (map f caps) = true.
Proof.
  induction caps as [|x caps IH]; intros S H; [reflexivity|].
  destruct caps as [|y caps]; [reflexivity|]. cbn [map non_increasing].
  cbn [sorted_by] in S. apply andb_true_iff in S. destruct S as [S1 S2]. apply Z.leb_le in S1.
  apply andb_true_iff. split.
  - apply Z.leb_le. apply H; [left; reflexivity|right; left; reflexivity|exact S1].
  - apply IH; auto. intros c1 c2 H1 H2. apply H; right; assumption.
Qed.

(* without staging accesses the model's cache totals are monotone over the case's capacities *)
Lemma model_totals_mono c : c17_wf c = true ->
  forallb (fun b => no_ties (spec_acc c pin_cache b)) (k_binds c) = true -> has_staging c = false ->
  non_increasing (map total_reads (map (model_cache c) (k_caps c))) = true.
Proof.
  intros W T St. destruct (wf_caps c W) as [Pos Srt]. rewrite map_map.
  apply non_increasing_map; auto.
  intros c1 c2 H1 H2 Hle. unfold total_reads.
  destruct (cache_refines_min c c1 W T) as [_ R1]. destruct (cache_refines_min c c2 W T) as [_ R2].
  rewrite R1, R2. apply total_reads_mono; auto.
  rewrite forallb_forall in Pos. specialize (Pos c1 H1). lia.
Qed.

Lemma region0_cases c : c17_region c = 0 ->
  k_caps c = [] \/ (forallb (fun b => no_ties (spec_acc c pin_cache b)) (k_binds c) = true
                    /\ non_increasing (map total_reads (map (model_cache c) (k_caps c))) = true).
Proof.
  unfold c17_region. destruct (k_caps c) as [|x l] eqn:E; [left; reflexivity|]. right.
  destruct (forallb _ (k_binds c)); [|discriminate]. destruct (non_increasing _); [auto|discriminate].
Qed.

Lemma region2_cases c : c17_region c = 2 ->
  forallb (fun b => no_ties (spec_acc c pin_cache b)) (k_binds c) = true
  /\ non_increasing (map total_reads (map (model_cache c) (k_caps c))) = false.
Proof.
  unfold c17_region. destruct (k_caps c) as [|x l] eqn:E; [discriminate|].
  destruct (forallb _ (k_binds c)); [|discriminate]. destruct (non_increasing _); [discriminate|auto].
Qed.

(* C17_model_meets_spec, unconditional: outside the two known-finding regions the faithful model
   satisfies the whole oracle *)
Theorem model_meets_spec c : c17_wf c = true -> c17_region c = 0 ->
  c17_holds c (c17_model c) = true.
Proof.
  intros W R. apply model_meets_region0_mono; auto.
  destruct (region0_cases c R) as [E|[_ M]]; [rewrite E; reflexivity|exact M].
Qed.

(* region 2 needs a staging-area access *)
Theorem region2_needs_staging c : c17_wf c = true -> c17_region c = 2 -> has_staging c = true.
Proof.
  intros W R. destruct (region2_cases c R) as [T M].
  destruct (has_staging c) eqn:St; auto. rewrite (model_totals_mono c W T St) in M. discriminate.
Qed.

(* in region 2 the model fails the oracle ... *)
Theorem region2_fails c : c17_region c = 2 -> c17_holds c (c17_model c) = false.
Proof.
  intros R. destruct (region2_cases c R) as [_ M].
  assert (E : vl (vnth 3 (c17_model c)) = map (model_cache c) (k_caps c)) by reflexivity.
  unfold c17_holds, cache_ok. rewrite E, M. rewrite !andb_false_r. reflexivity.
Qed.

(* ... but only its monotonicity clause: every other clause holds *)
Lemma model_cache_one_ok c cap : c17_wf c = true ->
  forallb (fun b => no_ties (spec_acc c pin_cache b)) (k_binds c) = true ->
  cache_one_ok c cap (model_cache c cap) = true.
Proof.
  intros W T. destruct (cache_refines_min c cap W T) as [Er Rd].
  unfold cache_one_ok. rewrite (model_bounds_ok c cap W T), Rd, V_eqb_refl.
  unfold model_cache. fold (cbs c). rewrite Er. cbn [Z.eqb].
  unfold V_result, vnth. cbn [vl nth length Nat.eqb is_vz]. rewrite V_eqb_refl. reflexivity.
Qed.

Theorem region2_only_monotone c : c17_wf c = true -> c17_region c = 2 ->
  V_eqb (vnth 0 (c17_model c)) (spec_filter_V c) = true
  /\ V_eqb (vnth 1 (c17_model c)) (spec_comb_V c) = true
  /\ buffet_ok c (vnth 2 (c17_model c)) = true
  /\ forall cap, In cap (k_caps c) -> cache_one_ok c cap (model_cache c cap) = true.
Proof.
  intros W R. destruct (region2_cases c R) as [T _].
  pose proof (model_meets_filter_combine c W) as FC. apply andb_true_iff in FC. destruct FC as [F C].
  split; [exact F|]. split; [exact C|]. split.
  - unfold c17_model, vnth. cbn [vl nth]. apply model_buffet_ok. exact W.
  - intros cap _. apply model_cache_one_ok; assumption.
Qed.
