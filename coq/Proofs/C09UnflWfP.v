(* C09UnflWfP.v — the grouping loop of unflattenRanks on a sorted fiber yields sorted groups with
   strictly ascending upper coordinates: unflattenRanks(levels) of a sorted fiber with tuple
   coordinates of levels+1 components succeeds and returns a well-formed fiber. *)
From Coq Require Import ZArith List Bool Lia Permutation PeanoNat.
From FT Require Import Model.Base Model.Obs Model.C09Transform Model.C09Check
                       Proofs.C09OrderP Proofs.C09FlattenP Proofs.C09BelowP Proofs.C09CheckP
                       Proofs.C09SwizzleP Proofs.C09WfP Proofs.C09RebuildP Proofs.C09SwapP
                       Proofs.C09UnflP Proofs.C09SplitP Proofs.C09LinearP Proofs.C09RefP Proofs.C09SpecP
                       Proofs.C09DescentP.
Import ListNotations.
Open Scope Z_scope.

Fixpoint heads_asc (a : Z) (G : list (Z * cfib)) : Prop :=
  match G with
  | [] => True
  | (b, _) :: G' => a < b /\ heads_asc b G'
  end.

Lemma pw_app_r : forall {K} (cmp : K -> K -> comparison) l1 l2, pw cmp (l1 ++ l2) -> pw cmp l2.
Proof. induction l1 as [|x l1 IH]; intros l2 H; [exact H|]. destruct H as [_ H]. apply IH. exact H. Qed.

Lemma pw_app_l : forall {K} (cmp : K -> K -> comparison) l1 l2, pw cmp (l1 ++ l2) -> pw cmp l1.
Proof.
  induction l1 as [|x l1 IH]; intros l2 H; [exact I|]. destruct H as [Hx H]. split; [|eapply IH; exact H].
  apply Forall_app in Hx. tauto.
Qed.

Lemma pw_strip : forall a (cur : cfib),
  pw ccmp (map fst (map (fun cp : coord * ct => (a :: fst cp, snd cp)) cur)) -> pw ccmp (map fst cur).
Proof.
  induction cur as [|[c p] cur IH]; intros H; [exact I|]. simpl in H. destruct H as [Hc H]. simpl.
  split; [|apply IH; exact H]. apply Forall_forall. intros y Hy.
  apply in_map_iff in Hy. destruct Hy as [[c' p'] [<- Hy]]. simpl.
  rewrite Forall_forall in Hc. specialize (Hc (a :: c')).
  assert (Hin : In (a :: c') (map fst (map (fun cp : coord * ct => (a :: fst cp, snd cp)) cur))).
  { rewrite map_map. simpl. apply in_map_iff. exists (c', p'). auto. }
  specialize (Hc Hin). change (a :: c) with ([a] ++ c) in Hc. change (a :: c') with ([a] ++ c') in Hc.
  rewrite ccmp_app_single_same in Hc. exact Hc.
Qed.

Definition grp_ok (P : ct -> Prop) (L : nat) (g : Z * cfib) : Prop :=
  snd g <> [] /\ pw ccmp (map fst (snd g)) /\ Forall (fun cp => P (snd cp)) (snd g)
  /\ Forall (fun cp : coord * ct => length (fst cp) = L) (snd g).

Lemma unfl_go_struct : forall (P : ct -> Prop) L rest a cur,
  cur <> [] -> heads_ok a rest ->
  pw ccmp (map fst (map (fun cp : coord * ct => (a :: fst cp, snd cp)) cur ++ rest)) ->
  Forall (fun cp => P (snd cp)) cur -> Forall (fun cp => P (snd cp)) rest ->
  Forall (fun cp : coord * ct => length (fst cp) = L) cur ->
  Forall (fun cp : coord * ct => length (fst cp) = S L) rest ->
  exists cur' G', unfl_go a cur rest = (a, cur') :: G' /\ heads_asc a G'
                  /\ Forall (grp_ok P L) ((a, cur') :: G').
Proof.
  intros P L. induction rest as [|[cx p] rest IH]; intros a cur Hne Hh Hpw HPc HPr HLc HLr.
  - exists cur, []. split; [reflexivity|]. split; [exact I|]. constructor; [|constructor].
    rewrite app_nil_r in Hpw. split; [exact Hne|]. split; [apply (pw_strip a); exact Hpw|]. split; assumption.
  - destruct cx as [|b c0]; [destruct Hh|]. destruct Hh as [Hab Hh].
    inversion HPr as [|? ? HPp HPr']; subst. inversion HLr as [|? ? HLp HLr']; subst. simpl in HPp, HLp.
    simpl unfl_go. destruct (b >? a) eqn:E.
    + assert (H1 : [(c0, p)] <> []) by discriminate.
      assert (H2 : pw ccmp (map fst (map (fun cp : coord * ct => (b :: fst cp, snd cp)) [(c0, p)] ++ rest))).
      { simpl. rewrite map_app in Hpw. apply pw_app_r in Hpw. exact Hpw. }
      assert (H3 : Forall (fun cp : coord * ct => P (snd cp)) [(c0, p)]) by (constructor; [exact HPp|constructor]).
      assert (H4 : Forall (fun cp : coord * ct => length (fst cp) = L) [(c0, p)]) by (constructor; [simpl; lia|constructor]).
      destruct (IH b [(c0, p)] H1 Hh H2 H3 HPr' H4 HLr') as [cur' [G' [EG [Hasc HG]]]].
      exists cur, ((b, cur') :: G'). split; [rewrite EG; reflexivity|]. split; [simpl; split; [lia|exact Hasc]|].
      constructor; [|exact HG]. split; [exact Hne|]. split; [|split; assumption].
      apply (pw_strip a). rewrite map_app in Hpw. apply pw_app_l in Hpw. exact Hpw.
    + assert (b = a) by lia. subst b.
      assert (H1 : cur ++ [(c0, p)] <> []) by (destruct cur; discriminate).
      assert (H2 : pw ccmp (map fst (map (fun cp : coord * ct => (a :: fst cp, snd cp)) (cur ++ [(c0, p)]) ++ rest))).
      { replace (map (fun cp : coord * ct => (a :: fst cp, snd cp)) (cur ++ [(c0, p)]) ++ rest)
          with (map (fun cp : coord * ct => (a :: fst cp, snd cp)) cur ++ (a :: c0, p) :: rest); [exact Hpw|].
        rewrite map_app, <- app_assoc. reflexivity. }
      assert (H3 : Forall (fun cp : coord * ct => P (snd cp)) (cur ++ [(c0, p)])).
      { apply Forall_app. split; [exact HPc|constructor; [exact HPp|constructor]]. }
      assert (H4 : Forall (fun cp : coord * ct => length (fst cp) = L) (cur ++ [(c0, p)])).
      { apply Forall_app. split; [exact HLc|constructor; [simpl; lia|constructor]]. }
      destruct (IH a (cur ++ [(c0, p)]) H1 Hh H2 H3 HPr' H4 HLr') as [cur' [G' [EG [Hasc HG]]]].
      exists cur', G'. auto.
Qed.

Lemma heads_asc_pw : forall (G : list (Z * cfib)) a (x : cfib),
  heads_asc a G -> pw ccmp (map (fun g : Z * cfib => [fst g]) ((a, x) :: G)).
Proof.
  intros G a x H. apply (asc_pw ccmp ccmp_trans). revert a x H.
  induction G as [|[b y] G IH]; intros a x H; [reflexivity|].
  destruct H as [Hab H].
  change (asc ccmp (map (fun g : Z * cfib => [fst g]) ((a, x) :: (b, y) :: G)))
    with (is_lt (ccmp [a] [b]) && asc ccmp (map (fun g : Z * cfib => [fst g]) ((b, y) :: G))).
  rewrite (IH b y H). assert (E : (a ?= b) = Lt) by (apply Z.compare_lt_iff; exact Hab).
  unfold ccmp. cbn [lex_cmp]. rewrite E. reflexivity.
Qed.

Definition gpay (M : nat) (p : ct) : Prop := csorted p = true /\ cdepth_ok M p = true.

Theorem unflatten_wf : forall l s M, s <> [] -> pw ccmp (map fst s) ->
  Forall (fun cp : coord * ct => length (fst cp) = S l) s ->
  Forall (fun cp => gpay M (snd cp)) s ->
  exists r, unflatten l s = Some r /\ good (l + M) r.
Proof.
  induction l as [|l IH]; intros s M Hne Hpw HL HP.
  - exists s. split; [reflexivity|]. split.
    + apply csorted_CN. split; [exact Hpw|]. eapply Forall_impl; [|exact HP]. intros cp [H _]. exact H.
    + simpl. apply forallb_forall. intros cp Hin. rewrite Forall_forall in HP. apply (HP _ Hin).
  - destruct s as [|[cx p] rest]; [congruence|].
    inversion HL as [|? ? Hcx HLr]; subst. simpl in Hcx.
    inversion HP as [|? ? HPp HPr]; subst. simpl in HPp.
    destruct cx as [|c1 [|b c0']]; simpl in Hcx; try lia.
    assert (Hh : heads_ok c1 rest).
    { apply (pw_heads_ok rest c1 (b :: c0') p Hpw).
      eapply Forall_impl; [|exact HLr]. intros cp H E. simpl in H. rewrite E in H. discriminate. }
    assert (H1 : [(b :: c0', p)] <> []) by discriminate.
    assert (H3 : Forall (fun cp : coord * ct => gpay M (snd cp)) [(b :: c0', p)]) by (constructor; [exact HPp|constructor]).
    assert (H4 : Forall (fun cp : coord * ct => length (fst cp) = S l) [(b :: c0', p)]) by (constructor; [simpl in *; lia|constructor]).
    destruct (unfl_go_struct (gpay M) (S l) rest c1 [(b :: c0', p)] H1 Hh Hpw H3 HPr H4 HLr) as [cur' [G' [EG [Hasc HG]]]].
    set (G := (c1, cur') :: G') in *.
      destruct (all_some_Forall2
                  (fun g : Z * cfib => option_map (fun r => ([fst g], CN r)) (unflatten l (snd g)))
                  (fun g cp' => exists rg, cp' = ([fst g], CN rg) /\ good (l + M) rg) G) as [rs [Ers Rrs]].
      { intros g Hin. rewrite Forall_forall in HG. destruct (HG _ Hin) as [G1 [G2 [G3 G4]]].
        destruct (IH (snd g) M G1 G2 G4 G3) as [rg [Erg Hg]].
        exists ([fst g], CN rg). rewrite Erg. split; [reflexivity|]. exists rg. auto. }
      exists rs. split.
      * change (unflatten (S l) ((c1 :: b :: c0', p) :: rest))
          with (all_some (map (fun g : Z * cfib => option_map (fun r => ([fst g], CN r)) (unflatten l (snd g)))
                              (unfl_go c1 [(b :: c0', p)] rest))).
        rewrite EG. exact Ers.
      * assert (Hkeys : map fst rs = map (fun g : Z * cfib => [fst g]) G).
        { clear -Rrs. induction Rrs as [|g cp' G rs [rg [-> _]] _ IHR]; [reflexivity|]. simpl. f_equal. exact IHR. }
        assert (Hpay : Forall (fun cp => csorted (snd cp) = true /\ cdepth_ok (S (l + M)) (snd cp) = true) rs).
        { clear -Rrs. induction Rrs as [|g cp' G rs [rg [-> [H1 H2]]] _ IHR]; constructor; auto. }
        split.
        -- pose proof (heads_asc_pw G' c1 cur' Hasc) as Hk2. fold G in Hk2. rewrite <- Hkeys in Hk2.
           apply csorted_CN. split; [exact Hk2|].
           eapply Forall_impl; [|exact Hpay]. intros cp [H _]. exact H.
        -- simpl. apply forallb_forall. intros cp Hin. rewrite Forall_forall in Hpay. apply (Hpay _ Hin).
Qed.
