(* C10ModelP.v — lemmas about the identity-carrying model (C10Model.v): relabelling, label
   bounds, label-addressed mutation, observers. *)
From Coq Require Import ZArith List Bool PeanoNat Lia.
From FT Require Import Model.Base Model.C08Split Model.C10Model.
Import ListNotations.
Local Open Scope N_scope.

Section LtInd.
  Variable P : lt -> Prop.
  Hypothesis HB : forall b v, P (LB b v).
  Hypothesis HF : forall f a es, Forall (fun ct => P (snd ct)) es -> P (LF f a es).
  Fixpoint lt_ind' (t : lt) : P t :=
    match t with
    | LB b v => HB b v
    | LF f a es => HF f a es
        ((fix go (l : les) : Forall (fun ct => P (snd ct)) l :=
            match l with
            | [] => Forall_nil _
            | ct :: l' => Forall_cons ct (lt_ind' (snd ct)) (go l')
            end) es)
    end.
End LtInd.

(* ---------- relabelling *)
Lemma olab_omap r o : olab (omap r o) = map r (olab o).
Proof. destruct o; reflexivity. Qed.

Lemma aux_labels_map r a : aux_labels (map_aux r a) = map r (aux_labels a).
Proof.
  unfold aux_labels, map_aux; cbn. rewrite map_app, !olab_omap. reflexivity.
Qed.

Lemma labels_map r t : labels (map_labels r t) = map r (labels t).
Proof.
  induction t as [b v | f a es IH] using lt_ind'; cbn [labels map_labels map].
  - reflexivity.
  - f_equal. rewrite map_app, aux_labels_map. f_equal.
    induction IH as [| ct es Hct _ IHes]; cbn; [reflexivity|].
    rewrite map_app, Hct, IHes. reflexivity.
Qed.

Lemma erase_map r t : erase (map_labels r t) = erase t.
Proof.
  induction t as [b v | f a es IH] using lt_ind'; cbn; [reflexivity|].
  f_equal. induction IH as [| ct es Hct _ IHes]; cbn; [reflexivity|].
  rewrite Hct, IHes. reflexivity.
Qed.

(* ---------- label bounds *)
Definition lo_ok (lo : N) (t : lt) : Prop := forall l, In l (labels t) -> lo <= l.
Definition hi_ok (hi : N) (t : lt) : Prop := forall l, In l (labels t) -> l < hi.
Definition lo_es (lo : N) (es : les) : Prop := forall l, In l (labels_es es) -> lo <= l.
Definition lo_snap (lo : N) (s : snapshot) : Prop := forall l, In l (snap_labels s) -> lo <= l.
Definition hi_snap (hi : N) (s : snapshot) : Prop := forall l, In l (snap_labels s) -> l < hi.

Lemma lo_es_iff lo es : lo_es lo es <-> (forall ct, In ct es -> lo_ok lo (snd ct)).
Proof.
  unfold lo_es, labels_es, lo_ok. split.
  - intros H ct Hin l Hl. apply H. apply in_flat_map. exists ct. auto.
  - intros H l Hl. apply in_flat_map in Hl. destruct Hl as [ct [Hin Hl]]. eapply H; eauto.
Qed.

Lemma lo_LF lo f a es :
  lo_ok lo (LF f a es) <-> lo <= f /\ (forall l, In l (aux_labels a) -> lo <= l) /\ lo_es lo es.
Proof.
  unfold lo_ok, lo_es. cbn [labels]. fold (labels_es es). split.
  - intros H. repeat split.
    + apply H. left. reflexivity.
    + intros l Hl. apply H. right. apply in_or_app. left. exact Hl.
    + intros l Hl. apply H. right. apply in_or_app. right. exact Hl.
  - intros [Hf [Ha He]] l [<- | Hl]; [exact Hf|].
    apply in_app_or in Hl. destruct Hl; auto.
Qed.

Lemma lo_es_sub lo f a es : lo_ok lo (LF f a es) -> lo_es lo es.
Proof. intros H. apply lo_LF in H. tauto. Qed.

Lemma lo_ok_le lo lo' t : lo' <= lo -> lo_ok lo t -> lo_ok lo' t.
Proof. intros Hle H l Hl. specialize (H l Hl). lia. Qed.

Lemma lo_shift nx t : lo_ok nx (shift nx t).
Proof.
  intros l Hl. unfold shift in Hl. rewrite labels_map in Hl. apply in_map_iff in Hl.
  destruct Hl as [x [<- _]]. lia.
Qed.

Lemma hi_shift nx t : hi_ok nx t -> hi_ok (nx + nx) (shift nx t).
Proof.
  intros H l Hl. unfold shift in Hl. rewrite labels_map in Hl. apply in_map_iff in Hl.
  destruct Hl as [x [<- Hx]]. specialize (H x Hx). lia.
Qed.

Lemma mk_fiber_lo lo nx w es t n' :
  mk_fiber nx w es = (t, n') -> lo <= nx -> lo_es lo es -> lo_ok lo t /\ nx <= n'.
Proof.
  unfold mk_fiber. intros H Hle Hes. inversion H; subst; clear H. split; [|lia].
  apply lo_LF. split; [lia|]. split; [|exact Hes].
  unfold aux_labels; cbn. intros l [<- | Hl]; [lia|].
  rewrite app_nil_r in Hl. destruct w; cbn in Hl; [destruct Hl as [<- | []]; lia | destruct Hl].
Qed.

(* coordinates do not carry labels *)
Lemma labels_es_map_coord (g : coord * lt -> coord) es :
  labels_es (map (fun ct => (g ct, snd ct)) es) = labels_es es.
Proof. unfold labels_es. induction es as [| ct es IH]; cbn; [reflexivity|]. rewrite IH. reflexivity. Qed.

Lemma lo_es_incl lo es es' :
  (forall ct, In ct es' -> exists ct', In ct' es /\ snd ct' = snd ct) -> lo_es lo es -> lo_es lo es'.
Proof.
  intros Hsub H. apply lo_es_iff. intros ct Hin. destruct (Hsub ct Hin) as [ct' [Hin' Heq]].
  rewrite <- Heq. apply (proj1 (lo_es_iff lo es) H ct' Hin').
Qed.

Lemma lo_es_app lo a b : lo_es lo a -> lo_es lo b -> lo_es lo (a ++ b).
Proof.
  intros Ha Hb. apply lo_es_iff. intros ct Hin. apply in_app_or in Hin.
  destruct Hin; [eapply (proj1 (lo_es_iff _ _) Ha) | eapply (proj1 (lo_es_iff _ _) Hb)]; eauto.
Qed.

Lemma lo_es_present lo d es : lo_es lo es -> lo_es lo (present_l d es).
Proof.
  apply lo_es_incl. intros ct Hin. unfold present_l in Hin. apply filter_In in Hin.
  exists ct. tauto.
Qed.

(* ---------- label-addressed mutation cannot change a tree that does not hold the label *)
Lemma mem_false_iff x l : mem x l = false <-> ~ In x l.
Proof.
  unfold mem. split.
  - intros H Hin. assert (existsb (N.eqb x) l = true) as E.
    { apply existsb_exists. exists x. split; [exact Hin | apply N.eqb_refl]. }
    congruence.
  - intros H. destruct (existsb (N.eqb x) l) eqn:E; [|reflexivity].
    apply existsb_exists in E. destruct E as [y [Hy E]]. apply N.eqb_eq in E. subst. contradiction.
Qed.

Lemma mutate_id S k t : (forall l, In l (labels t) -> ~ In l S) -> mutate S k t = t.
Proof.
  induction t as [b v | f a es IH] using lt_ind'; intros H; cbn.
  - rewrite (proj2 (mem_false_iff b S)); [reflexivity|]. apply H. left. reflexivity.
  - rewrite (proj2 (mem_false_iff f S)); [|apply H; left; reflexivity].
    f_equal.
    assert (forall l, In l (labels_es es) -> ~ In l S) as Hes.
    { intros l Hl. apply H. right. apply in_or_app. right. exact Hl. }
    clear H. induction IH as [| ct es Hct _ IHes]; cbn; [reflexivity|].
    rewrite Hct, IHes.
    + destruct ct; reflexivity.
    + intros l Hl. apply Hes. unfold labels_es. cbn. apply in_or_app. right. exact Hl.
    + intros l Hl. apply Hes. unfold labels_es. cbn. apply in_or_app. left. exact Hl.
Qed.

Lemma upd_fiber_id f0 g t : ~ In f0 (labels t) -> upd_fiber f0 g t = t.
Proof.
  induction t as [b v | f a es IH] using lt_ind'; intros H; cbn; [reflexivity|].
  assert (f <> f0) as Hne. { intros ->. apply H. left. reflexivity. }
  apply N.eqb_neq in Hne. rewrite Hne.
  assert (~ In f0 (labels_es es)) as Hes.
  { intros Hl. apply H. right. apply in_or_app. right. exact Hl. }
  f_equal. clear H Hne. induction IH as [| ct es Hct _ IHes]; cbn; [reflexivity|].
  rewrite Hct, IHes.
  - destruct ct; reflexivity.
  - intros Hl. apply Hes. unfold labels_es. cbn. apply in_or_app. right. exact Hl.
  - intros Hl. apply Hes. unfold labels_es. cbn. apply in_or_app. left. exact Hl.
Qed.

Lemma mutate_rk_id S r : ~ In (r_lab r) S -> mutate_rk S r = r.
Proof.
  intros H. unfold mutate_rk. rewrite (proj2 (mem_false_iff _ _) H). destruct r; reflexivity.
Qed.

Lemma mutate_snap_id S k s :
  (forall l, In l (side_labels s) -> ~ In l S) -> mutate_snap S k s = s.
Proof.
  intros H. unfold mutate_snap. destruct s as [t rs]. cbn in *. f_equal.
  - apply mutate_id. intros l Hl. apply H. unfold side_labels. cbn. apply in_or_app. left. exact Hl.
  - assert (forall r, In r rs -> ~ In (r_lab r) S) as Hr.
    { intros r Hin. apply H. unfold side_labels. cbn. apply in_or_app. right.
      apply in_map. exact Hin. }
    clear H. induction rs as [| r rs IH]; cbn; [reflexivity|].
    rewrite mutate_rk_id, IH; [reflexivity | | ]; intros; apply Hr; cbn; auto.
Qed.

Lemma side_labels_incl s l : In l (side_labels s) -> In l (snap_labels s).
Proof.
  unfold side_labels, snap_labels. intros H. apply in_app_or in H. apply in_or_app.
  destruct H as [H | H]; [left; exact H | right].
  apply in_map_iff in H. destruct H as [r [<- Hin]]. apply in_flat_map. exists r.
  split; [exact Hin | left; reflexivity].
Qed.

(* ---------- deepcopy *)
Lemma deepcopy_spec t nx c n' :
  deepcopy t nx = (c, n') -> hi_ok nx t ->
  erase c = erase t /\ lo_ok nx c /\ hi_ok n' c /\ nx <= n'
  /\ (forall l, In l (labels c) -> ~ In l (labels t)).
Proof.
  unfold deepcopy. intros H Hhi. inversion H; subst; clear H.
  split; [apply erase_map|]. split; [apply lo_shift|]. split; [apply hi_shift; exact Hhi|].
  split; [lia|]. intros l Hl Hin. pose proof (lo_shift nx t l Hl). specialize (Hhi l Hin). lia.
Qed.

(* ---------- observers built on _createDefault(addtorank=False) *)
Definition same_snaps (st st' : pair_st) : Prop :=
  fst (fst st) = fst (fst st') /\ snd (fst st) = snd (fst st').

Lemma create_default_false lvl s nx : fst (create_default false lvl s nx) = s.
Proof. unfold create_default. destruct (Nat.ltb (S lvl) (length (s_ranks s))); destruct s; reflexivity. Qed.

Lemma create_on_false sb lvl st : same_snaps (create_on false sb lvl st) st.
Proof.
  destruct st as [[a b] nx]. unfold create_on, same_snaps. destruct sb.
  - pose proof (create_default_false lvl b nx) as E.
    destruct (create_default false lvl b nx) as [b' n']. cbn in *. subst. split; reflexivity.
  - pose proof (create_default_false lvl a nx) as E.
    destruct (create_default false lvl a nx) as [a' n']. cbn in *. subst. split; reflexivity.
Qed.

Lemma same_snaps_trans a b c : same_snaps a b -> same_snaps b c -> same_snaps a c.
Proof. unfold same_snaps. intros [H1 H2] [H3 H4]. split; congruence. Qed.
Lemma same_snaps_refl a : same_snaps a a.
Proof. split; reflexivity. Qed.

Lemma get_walk_false lvl pt es st : same_snaps (get_walk false lvl pt es st) st.
Proof.
  revert lvl es st. induction pt as [| c pt IH]; intros lvl es st; cbn; [apply same_snaps_refl|].
  destruct (lookup_c c es) as [[b v | f a es'] |].
  - apply same_snaps_refl.
  - apply IH.
  - eapply same_snaps_trans; [apply IH | apply create_on_false].
Qed.

Lemma union_walk_false fuel lvl ca cb st : same_snaps (union_walk fuel false lvl ca cb st) st.
Proof.
  revert ca cb st. induction fuel as [| k IH]; intros ca cb st; cbn; [apply same_snaps_refl|].
  destruct ca as [| x ca'], cb as [| y cb'].
  - apply same_snaps_refl.
  - eapply same_snaps_trans; [apply IH | apply create_on_false].
  - eapply same_snaps_trans; [apply IH | apply create_on_false].
  - destruct (x <? y)%Z; [eapply same_snaps_trans; [apply IH | apply create_on_false]|].
    destruct (y <? x)%Z; [eapply same_snaps_trans; [apply IH | apply create_on_false]|].
    apply IH.
Qed.

Lemma eq_walk_false fuel d todo st : same_snaps (snd (eq_walk fuel false d todo st)) st.
Proof.
  revert todo st. induction fuel as [| k IH]; intros todo st; cbn; [apply same_snaps_refl|].
  destruct todo as [| [[lvl la] lb] todo']; [apply same_snaps_refl|].
  destruct la as [| [ca pa] la'], lb as [| [cb pb] lb']; cbn.
  - apply IH.
  - apply create_on_false.
  - apply create_on_false.
  - destruct (hd 0%Z ca <? hd 0%Z cb)%Z; [apply create_on_false|].
    destruct (hd 0%Z cb <? hd 0%Z ca)%Z; [apply create_on_false|].
    destruct pa as [ba va | fa aa ea], pb as [bb vb | fb ab eb]; try apply same_snaps_refl.
    + destruct (va =? vb)%Z; [apply IH | apply same_snaps_refl].
    + apply IH.
Qed.

Lemma iterunc_false es cs : forall st,
  same_snaps (fold_left (fun st c => match lookup_c c es with
                                     | Some _ => st
                                     | None => create_on false false O st
                                     end) cs st) st.
Proof.
  induction cs as [| c cs IH]; intros st; cbn [fold_left]; [apply same_snaps_refl|].
  eapply same_snaps_trans; [apply IH|]. destruct (lookup_c c es); [apply same_snaps_refl | apply create_on_false].
Qed.

Lemma observe_false d o st : same_snaps (observe false d o st) st.
Proof.
  destruct st as [[a b] nx]. destruct o; cbn [observe].
  - apply get_walk_false.
  - apply union_walk_false.
  - apply eq_walk_false.
  - apply iterunc_false.
  - apply same_snaps_refl.
Qed.

Lemma observe_all_false d obs st :
  same_snaps (fold_left (fun st o => observe false d o st) obs st) st.
Proof.
  revert st. induction obs as [| o obs IH]; intros st; cbn; [apply same_snaps_refl|].
  eapply same_snaps_trans; [apply IH | apply observe_false].
Qed.
