(* C08SplitCheckP.v — the model's observation meets the C08 oracle (Model/C08SplitCheck.v). *)
From Coq Require Import ZArith List Bool Lia ZifyBool PeanoNat.
From FT Require Import Model.Base Model.Obs Model.C08Split Model.C08SplitCheck
                       Proofs.ObsP Proofs.C08SplitP Proofs.C08UniformP Proofs.C08PositionP.
Import ListNotations.
Open Scope Z_scope.

(* kinds for which "model = reference" is proved for every well-formed fiber *)
Definition proved_kind (k : skind) : bool := true.

Lemma wf_fiber_sorted shape active es :
  wf_fiber shape active es = true -> ssorted (map fst es) = true.
Proof.
  unfold wf_fiber. intros H. repeat (apply andb_true_iff in H; destruct H as [H ?]). exact H.
Qed.

Lemma est_shape_pos es :
  es <> [] -> forallb (fun x : Z * tree => 0 <=? fst x) es = true -> 0 < est_shape es.
Proof.
  intros Hne Hnn. unfold est_shape. destruct (rev es) as [|[c t] r] eqn:E.
  - exfalso. apply Hne. rewrite <- (rev_involutive es), E. reflexivity.
  - rewrite forallb_forall in Hnn. specialize (Hnn (c, t)). cbn [fst] in Hnn.
    assert (In (c, t) es) as Hin by (apply in_rev; rewrite E; left; reflexivity).
    specialize (Hnn Hin). lia.
Qed.

(* a well-formed non-empty fiber has a non-empty active range and a positive shape *)
Lemma wf_fiber_active shape active es :
  wf_fiber shape active es = true -> es <> [] ->
  fst (get_active shape active es) < snd (get_active shape active es) /\
  0 < get_shape shape es.
Proof.
  unfold wf_fiber. intros H Hne.
  apply andb_true_iff in H. destruct H as [H Hact].
  apply andb_true_iff in H. destruct H as [H Hsh].
  apply andb_true_iff in H. destruct H as [_ Hnn].
  pose proof (est_shape_pos es Hne Hnn) as Hest.
  unfold get_active, get_shape. split.
  - destruct active as [[x y]|]; [cbn [fst snd] in *; lia|].
    cbn [fst snd]. destruct shape as [s|]; [|exact Hest].
    destruct (s =? 0) eqn:E; lia.
  - destruct shape as [s|]; [lia|exact Hest].
Qed.

Lemma equal_model_ref step pre post rel d a es :
  0 < step -> 0 <= pre -> 0 <= post -> ssorted (map fst es) = true ->
  split_nonuniform_iter (eq_bounds step (fst a) 0 (iter_range d (fst a) (snd a) es)) pre post rel d a es
  = ref_parts pre post rel a (present d es)
      (list_bounds (chunk_bounds (fst a)
         (chunks (length (active_elems d a es)) (fun _ => Z.to_nat step) O (active_elems d a es)))).
Proof.
  intros Hstep Hpre Hpost Hs.
  rewrite (proj1 (position_is_ref pre post rel d a es Hpre Hpost Hs) step).
  destruct a as [a0 a1]. cbn [fst snd].
  rewrite (iter_range_active d a0 a1 es Hs), (eq_bounds_chunks step a0 Hstep). reflexivity.
Qed.

Lemma fiber_model_ref sp d shape active es :
  wf_params sp = true -> proved_kind (sp_kind sp) = true ->
  wf_fiber shape active es = true ->
  split_fiber sp d shape active es = ref_fiber sp d shape active es.
Proof.
  intros Hp Hk Hf. pose proof (wf_fiber_sorted _ _ _ Hf) as Hs.
  unfold split_fiber, split_parts, ref_fiber, halos, relc, ref_bounds.
  unfold wf_params in Hp.
  apply andb_true_iff in Hp. destruct Hp as [Hp Hsp].
  destruct (sp_kind sp) as [step|splits|step|sizes|n|n].
  - rewrite (uniform_is_ref step (sp_pre sp) (sp_post sp) (sp_rel sp) d
               (get_active shape active es) es ltac:(lia) ltac:(lia) ltac:(lia)
               (fun Hne => proj1 (wf_fiber_active shape active es Hf Hne)) Hs).
    reflexivity.
  - rewrite (nonuniform_is_ref splits (sp_pre sp) (sp_post sp) (sp_rel sp) d
               (get_active shape active es) es Hsp ltac:(lia) ltac:(lia) Hs).
    reflexivity.
  - rewrite (equal_model_ref step (sp_pre sp) (sp_post sp) (sp_rel sp) d
               (get_active shape active es) es ltac:(lia) ltac:(lia) ltac:(lia) Hs).
    reflexivity.
  - apply andb_true_iff in Hsp. destruct Hsp as [Hpos Hlen].
    rewrite (proj2 (position_is_ref (sp_pre sp) (sp_post sp) (sp_rel sp) d
                      (get_active shape active es) es ltac:(lia) ltac:(lia) Hs) sizes).
    destruct (get_active shape active es) as [a0 a1]. cbn [fst snd].
    rewrite (iter_range_active d a0 a1 es Hs).
    rewrite (uneq_bounds_chunks sizes a0 (length (active_elems d (a0, a1) es)) Hpos
               (active_elems d (a0, a1) es)); [reflexivity| |lia].
    intros E. rewrite E in Hlen. discriminate.
  - destruct es as [|e0 es'].
    + cbn [split_uniform present filter fst snd]. rewrite ref_parts_nil. reflexivity.
    + destruct (wf_fiber_active shape active (e0 :: es') Hf ltac:(discriminate)) as [Hact Hshp].
      assert (0 < (get_shape shape (e0 :: es') + n - 1) / n) as Hstep.
      { apply Z.div_str_pos. lia. }
      rewrite (uniform_is_ref _ 0 0 false d (get_active shape active (e0 :: es')) (e0 :: es')
                 Hstep ltac:(lia) ltac:(lia) (fun _ => Hact) Hs).
      reflexivity.
  - destruct es as [|e0 es'].
    + cbn [split_nonuniform_iter present filter]. rewrite ref_parts_nil. reflexivity.
    + assert (0 < (Z.of_nat (length (e0 :: es')) + n - 1) / n) as Hstep.
      { apply Z.div_str_pos. cbn [length]. lia. }
      rewrite (equal_model_ref _ 0 0 false d (get_active shape active (e0 :: es')) (e0 :: es')
                 Hstep ltac:(lia) ltac:(lia) Hs).
      reflexivity.
Qed.

(* the elements a depth>0 split skips hold no non-default value, before and after being emptied *)
Lemma is_empty_content d t : is_empty d t = true -> content d t = [].
Proof.
  induction t as [v|es IH] using tree_ind'; intros H.
  - cbn [is_empty] in H. cbn [content]. rewrite H. reflexivity.
  - cbn [is_empty] in H. cbn [content]. rewrite forallb_forall in H. rewrite Forall_forall in IH.
    induction es as [|ct es IHes]; [reflexivity|].
    cbn [flat_map]. rewrite (IH ct (or_introl eq_refl) (H ct (or_introl eq_refl))).
    cbn [map app]. apply IHes.
    + intros x Hx. apply IH. right. exact Hx.
    + intros x Hx. apply H. right. exact Hx.
Qed.

Lemma skipped_lossless d t :
  is_empty d t = true -> content d t = [] /\ content d (cleared t) = [] /\ is_empty d (cleared t) = true.
Proof.
  intros H. split; [apply is_empty_content; exact H|].
  destruct t as [v|es]; cbn [cleared].
  - split; [apply is_empty_content; exact H|exact H].
  - split; reflexivity.
Qed.

(* ------------------------------------------------------------------ re-splits *)
Definition good_bounds (bs : list (Z * option Z)) : Prop :=
  forall s e, In (s, e) bs -> match e with Some z => s < z | None => True end.

Lemma list_bounds_good l : ssorted l = true -> good_bounds (list_bounds l).
Proof.
  induction l as [|s r IH]; intros Hs s' e' Hin; [destruct Hin|].
  cbn [list_bounds In] in Hin. destruct Hin as [Hin|Hin].
  - injection Hin as <- <-. destruct r as [|e r']; [exact I|].
    apply (ssorted_cons_lt _ _ Hs). left. reflexivity.
  - apply (IH (ssorted_cons _ _ Hs) s' e' Hin).
Qed.

Lemma uni_bounds_good step a0 a1 : 0 < step -> good_bounds (uni_bounds step a0 a1).
Proof.
  intros Hs s e Hin. apply (uni_bounds_in step a0 a1 s e Hs) in Hin.
  destruct Hin as [k [_ [-> _]]]. lia.
Qed.

Lemma ref_bounds_good sp d shape active es :
  wf_params sp = true -> wf_fiber shape active es = true -> es <> [] ->
  good_bounds (ref_bounds (sp_kind sp) d shape (get_active shape active es) es).
Proof.
  intros Hp Hf Hne. pose proof (wf_fiber_sorted _ _ _ Hf) as Hs.
  destruct (wf_fiber_active shape active es Hf Hne) as [Hact Hshp].
  unfold wf_params in Hp. apply andb_true_iff in Hp. destruct Hp as [Hp Hsp].
  unfold ref_bounds. destruct (get_active shape active es) as [a0 a1] eqn:Ea. cbn [fst snd] in *.
  destruct (sp_kind sp) as [step|splits|step|sizes|n|n].
  - apply uni_bounds_good. lia.
  - apply list_bounds_good. exact Hsp.
  - apply list_bounds_good.
    rewrite <- (eq_bounds_chunks step a0 ltac:(lia)), <- (iter_range_active d a0 a1 es Hs).
    apply eq_bounds_sorted. exact Hs.
  - apply andb_true_iff in Hsp. destruct Hsp as [Hpos Hlen].
    apply list_bounds_good.
    assert (sizes <> []) as Hsz by (intros E; rewrite E in Hlen; discriminate).
    pose proof (uneq_bounds_chunks sizes a0 (length (active_elems d (a0, a1) es)) Hpos
                  (active_elems d (a0, a1) es) Hsz ltac:(lia)) as E.
    unfold usz in E. rewrite <- E.
    rewrite <- (iter_range_active d a0 a1 es Hs). apply uneq_bounds_sorted. exact Hs.
  - apply uni_bounds_good. apply Z.div_str_pos. lia.
  - apply list_bounds_good.
    assert (0 < (Z.of_nat (length es) + n - 1) / n) as Hstep.
    { apply Z.div_str_pos. destruct es; [congruence|cbn [length]; lia]. }
    rewrite <- (eq_bounds_chunks _ a0 Hstep), <- (iter_range_active d a0 a1 es Hs).
    apply eq_bounds_sorted. exact Hs.
Qed.

(* every partition of the reference map (absolute coordinates) is again a well-formed fiber:
   ascending non-negative coordinates, the operand's shape, a non-empty active range *)
Lemma ref_parts_wf pre post d shape active es bs p :
  wf_fiber shape active es = true -> good_bounds bs ->
  In p (ref_parts pre post false (get_active shape active es) (present d es) bs) ->
  wf_fiber shape (Some (snd p)) (snd (fst p)) = true.
Proof.
  intros Hf Hg Hin. pose proof (wf_fiber_sorted _ _ _ Hf) as Hs.
  destruct es as [|e0 es'].
  { cbn [present filter] in Hin. rewrite ref_parts_nil in Hin. destruct Hin. }
  destruct (wf_fiber_active shape active (e0 :: es') Hf ltac:(discriminate)) as [Hact _].
  set (es := e0 :: es') in *.
  apply ref_parts_in in Hin. destruct Hin as [s [e [Hb [Hne ->]]]].
  cbn [fst snd rel_coords].
  unfold wf_fiber in *.
  apply andb_true_iff in Hf. destruct Hf as [Hf _].
  apply andb_true_iff in Hf. destruct Hf as [Hf Hsh].
  apply andb_true_iff in Hf. destruct Hf as [_ Hnn].
  rewrite !andb_true_iff. split; [split; [split|]|].
  - apply ssorted_filter_fst. apply ssorted_filter_fst. exact Hs.
  - rewrite forallb_forall in *. intros x Hx. apply Hnn.
    apply filter_In in Hx. destruct Hx as [Hx _]. apply filter_In in Hx. apply Hx.
  - exact Hsh.
  - cbn [fst snd].
    destruct (filter (member pre post (fst (get_active shape active es)) (snd (get_active shape active es)) s e)
                     (present d es)) as [|x l] eqn:E; [congruence|].
    assert (member pre post (fst (get_active shape active es)) (snd (get_active shape active es)) s e x = true) as Hm.
    { assert (In x (x :: l)) as Hx by (left; reflexivity). rewrite <- E in Hx.
      apply filter_In in Hx. apply Hx. }
    apply member_iff in Hm. specialize (Hg s e Hb).
    unfold ext_gt, ext_min in *. destruct e; lia.
Qed.

Lemma resplit_model_ref sp sp2 d shape active es p :
  wf_params sp = true -> wf_params sp2 = true -> sp_rel sp = false ->
  wf_fiber shape active es = true ->
  In p (match ref_fiber sp d shape active es with Some r => sr_parts r | None => [] end) ->
  split_fiber sp2 d shape (Some (snd p)) (snd (fst p))
  = ref_fiber sp2 d shape (Some (snd p)) (snd (fst p)).
Proof.
  intros Hp Hp2 Hrel Hf Hin. apply fiber_model_ref; [exact Hp2|reflexivity|].
  unfold ref_fiber in Hin. cbn [sr_parts] in Hin.
  assert (relc sp = false) as Hr by (unfold relc; destruct (sp_kind sp); auto).
  rewrite Hr in Hin.
  destruct es as [|e0 es'].
  { cbn [present filter] in Hin. rewrite ref_parts_nil in Hin. destruct Hin. }
  eapply ref_parts_wf; [exact Hf| |exact Hin].
  apply ref_bounds_good; [exact Hp|exact Hf|discriminate].
Qed.

Section Lift.
  Variable c : c08_case.
  Hypothesis Hfib : forall shape active es,
    wf_fiber shape active es = true ->
    split_fiber (k_sp c) (k_d c) shape active es = ref_fiber (k_sp c) (k_d c) shape active es.
  Hypothesis Hre : forall sp2 shape active es p, k_resplit c = Some sp2 ->
    wf_fiber shape active es = true ->
    In p (match ref_fiber (k_sp c) (k_d c) shape active es with Some r => sr_parts r | None => [] end) ->
    split_fiber sp2 (k_d c) shape (Some (snd p)) (snd (fst p))
    = ref_fiber sp2 (k_d c) shape (Some (snd p)) (snd (fst p)).

  Lemma obs_fiber_eq lev es :
    wf_fiber (nth lev (k_shapes c) None) (match lev with O => k_active c | _ => None end) es = true ->
    obs_fiber split_fiber c lev es = obs_fiber ref_fiber c lev es.
  Proof.
    intros H. unfold obs_fiber. rewrite (Hfib _ _ _ H).
    destruct (k_resplit c) as [sp2|] eqn:E; [|reflexivity].
    destruct (ref_fiber (k_sp c) (k_d c) (nth lev (k_shapes c) None)
                        (match lev with O => k_active c | _ => None end) es) as [r|] eqn:Er;
      [|reflexivity].
    match goal with |- match all_some ?a with _ => _ end = match all_some ?b with _ => _ end =>
      assert (a = b) as ->; [|reflexivity] end.
    apply map_ext_in. intros p Hp.
    apply (Hre sp2 _ _ es p eq_refl H). rewrite Er. exact Hp.
  Qed.

  Lemma obs_depth_eq t : forall k lev,
    wf_depth c k lev t = true ->
    obs_depth split_fiber c k lev t = obs_depth ref_fiber c k lev t.
  Proof.
    induction t as [v|es IH] using tree_ind'; intros k lev Hwf; [destruct k; reflexivity|].
    destruct k as [|k'].
    - cbn [obs_depth]. apply obs_fiber_eq. exact Hwf.
    - cbn [obs_depth wf_depth] in *.
      rewrite forallb_forall in Hwf. rewrite Forall_forall in IH.
      match goal with |- match all_some ?a with _ => _ end = match all_some ?b with _ => _ end =>
        assert (a = b) as ->; [|reflexivity] end.
      apply map_ext_in. intros ct Hct.
      rewrite (IH ct Hct k' (S lev) (Hwf ct Hct)). reflexivity.
  Qed.

  Lemma obs_case_eq :
    wf_depth c (k_eff c) O (k_tree c) = true -> obs_case split_fiber c = obs_case ref_fiber c.
  Proof. intros H. unfold obs_case. rewrite (obs_depth_eq _ _ _ H). reflexivity. Qed.
End Lift.

Lemma c08_model_holds c :
  c08_wf c = true -> holds c08_checker c (model c08_checker c) = true.
Proof.
  intros Hwf. cbn [holds model c08_checker]. unfold c08_holds. rewrite Hwf.
  unfold c08_wf in Hwf.
  apply andb_true_iff in Hwf. destruct Hwf as [Hwf Hre].
  apply andb_true_iff in Hwf. destruct Hwf as [Hp Hd].
  unfold c08_model, c08_spec.
  rewrite (obs_case_eq c); [apply V_eqb_refl| | |exact Hd].
  - intros shape active es Hf. apply fiber_model_ref; [exact Hp|reflexivity|exact Hf].
  - intros sp2 shape active es p E Hf Hin. rewrite E in Hre.
    apply andb_true_iff in Hre. destruct Hre as [Hp2 Hrel].
    apply (resplit_model_ref (k_sp c) sp2 (k_d c) shape active es p Hp Hp2); [|exact Hf|exact Hin].
    destruct (sp_rel (k_sp c)); [discriminate|reflexivity].
Qed.

(* ------------------------------------------------------------------ which rank / rank ids *)
Lemma rankid_overrides r depth : eff_depth (Some r) depth = r /\ eff_depth None depth = depth.
Proof. split; reflexivity. Qed.

Lemma split_ids_spec k ids r :
  nth_error ids k = Some r ->
  split_ids k ids = firstn k ids ++ [r ++ [1]; r ++ [0]] ++ skipn (S k) ids /\
  length (split_ids k ids) = S (length ids) /\
  nth_error (split_ids k ids) k = Some (r ++ [1]) /\
  nth_error (split_ids k ids) (S k) = Some (r ++ [0]).
Proof.
  intros H. unfold split_ids. rewrite H.
  assert (k < length ids)%nat as Hk by (apply nth_error_Some; congruence).
  assert (length (firstn k ids) = k) as Hf by (rewrite firstn_length; lia).
  split; [reflexivity|]. split; [|split].
  - rewrite !app_length, Hf, skipn_length. cbn [length]. lia.
  - rewrite nth_error_app2 by lia. rewrite Hf, Nat.sub_diag. reflexivity.
  - rewrite nth_error_app2 by lia. rewrite Hf.
    replace (S k - k)%nat with 1%nat by lia. reflexivity.
Qed.
