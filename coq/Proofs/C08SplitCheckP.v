(* C08SplitCheckP.v — the model's observation meets the C08 oracle (Model/C08SplitCheck.v). *)
From Coq Require Import ZArith List Bool Lia ZifyBool PeanoNat.
From FT Require Import Model.Base Model.Obs Model.C08Split Model.C08SplitCheck
                       Proofs.ObsP Proofs.C08SplitP.
Import ListNotations.
Open Scope Z_scope.

(* kinds for which "model = reference" is proved for every well-formed fiber *)
Definition proved_kind (k : skind) : bool :=
  match k with KNonUniform _ => true | _ => false end.

Lemma wf_fiber_sorted shape active es :
  wf_fiber shape active es = true -> ssorted (map fst es) = true.
Proof.
  unfold wf_fiber. intros H. repeat (apply andb_true_iff in H; destruct H as [H ?]). exact H.
Qed.

Lemma fiber_model_ref sp d shape active es :
  wf_params sp = true -> proved_kind (sp_kind sp) = true ->
  wf_fiber shape active es = true ->
  split_fiber sp d shape active es = ref_fiber sp d shape active es.
Proof.
  intros Hp Hk Hf. pose proof (wf_fiber_sorted _ _ _ Hf) as Hs.
  unfold split_fiber, split_parts, ref_fiber, halos, relc, ref_bounds.
  unfold wf_params in Hp.
  destruct (sp_kind sp) as [step|splits|step|sizes|n|n]; try discriminate.
  apply andb_true_iff in Hp. destruct Hp as [Hp Hsp].
  rewrite (nonuniform_is_ref splits (sp_pre sp) (sp_post sp) (sp_rel sp) d
             (get_active shape active es) es Hsp ltac:(lia) ltac:(lia) Hs).
  reflexivity.
Qed.

Section Lift.
  Variable c : c08_case.
  Hypothesis Hfib : forall shape active es,
    wf_fiber shape active es = true ->
    split_fiber (k_sp c) (k_d c) shape active es = ref_fiber (k_sp c) (k_d c) shape active es.
  Hypothesis Hnore : k_resplit c = None.

  Lemma obs_fiber_eq lev es :
    wf_fiber (nth lev (k_shapes c) None) (match lev with O => k_active c | _ => None end) es = true ->
    obs_fiber split_fiber c lev es = obs_fiber ref_fiber c lev es.
  Proof.
    intros H. unfold obs_fiber. rewrite (Hfib _ _ _ H), Hnore. reflexivity.
  Qed.

  Lemma obs_depth_eq t : forall k lev,
    wf_depth c k lev t = true ->
    obs_depth split_fiber c k lev t = obs_depth ref_fiber c k lev t.
  Proof.
    induction t as [v|es IH] using tree_ind'; intros k lev Hwf; [destruct k; reflexivity|].
    destruct k as [|k'].
    - cbn [obs_depth]. apply obs_fiber_eq. exact Hwf.
    - cbn [obs_depth wf_depth] in *.
      rewrite forallb_forall in Hwf. rewrite Forall_forall in IH.
      match goal with |- match all_some ?a with _ => _ end = match all_some ?b with _ => _ end =>
        assert (a = b) as ->; [|reflexivity] end.
      apply map_ext_in. intros ct Hct.
      rewrite (IH ct Hct k' (S lev) (Hwf ct Hct)). reflexivity.
  Qed.

  Lemma obs_case_eq :
    wf_depth c (k_depth c) O (k_tree c) = true -> obs_case split_fiber c = obs_case ref_fiber c.
  Proof. intros H. unfold obs_case. rewrite (obs_depth_eq _ _ _ H). reflexivity. Qed.
End Lift.

Lemma c08_model_holds_partial c :
  c08_wf c = true -> proved_kind (sp_kind (k_sp c)) = true -> k_resplit c = None ->
  holds c08_checker c (model c08_checker c) = true.
Proof.
  intros Hwf Hk Hre. cbn [holds model c08_checker]. unfold c08_holds. rewrite Hwf.
  unfold c08_wf in Hwf. rewrite Hre in Hwf. rewrite andb_true_r in Hwf.
  apply andb_true_iff in Hwf. destruct Hwf as [Hp Hd].
  unfold c08_model, c08_spec.
  rewrite (obs_case_eq c); [apply V_eqb_refl| |exact Hre|exact Hd].
  intros shape active es Hf. apply fiber_model_ref; assumption.
Qed.
