(* C16AndLevelP.v — the nest specification instantiated for `for c, (a, b) in x & y` levels:
   locality of the generator's events, yielded elements = lookup intersection, ordering of the
   level's own rows. *)
From Coq Require Import ZArith List Bool Lia ZifyBool.
From FT Require Import Model.Base Model.Obs Model.C16Metrics Model.C16Nest Model.C16Check
                       Proofs.C16MetricsP Proofs.C16CoreP Proofs.C16RefP Proofs.C16AndP
                       Proofs.C16NestP Proofs.C16PlainP.
Import ListNotations.
Open Scope Z_scope.

Section WithZZ.
Context {zz : ZZ}.

(* ------------------------------------------------------------------ generic facts on ltrace *)
Definition ev_key (e : mev) : option (Z * Z) :=
  match e with
  | EUse _ _ _ k l => Some (k, l)
  | EUseS _ _ _ k l _ => Some (k, l)
  | _ => None
  end.
Definition no_key (kind label : Z) (e : mev) : Prop :=
  match ev_key e with Some (k, l) => (k =? kind) && (l =? label) = false | None => True end.
Definition implicit (e : mev) : Prop :=
  match e with EUseS _ _ _ _ _ _ | ESave _ | EBump _ _ => False | _ => True end.

Lemma ltrace_no_key : forall kind label evs a, Forall (no_key kind label) evs ->
  ltrace a evs kind label = [].
Proof.
  intros kind label evs. induction evs as [|e evs IH]; intros a H; auto.
  inversion H; subst. cbn [ltrace]. rewrite IH by auto. rewrite app_nil_r.
  destruct e; cbn in *; auto; unfold no_key in H2; cbn in H2; rewrite H2; reflexivity.
Qed.

(* rows with implicit stamps carry non-decreasing counter values *)
Lemma ltrace_mono : forall kind label evs a, Forall implicit evs ->
  let tr := ltrace a evs kind label in
  Forall (fun x => fst a <= fst (fst x)) tr
  /\ chain lex_le (map (fun x : Z * Z * Z => [fst (fst x)]) tr) = true.
Proof.
  intros kind label evs. induction evs as [|e evs IH]; intros a H; cbn [ltrace].
  - split; [constructor|reflexivity].
  - inversion H; subst. destruct (IH (lstep a e) H3) as [I1 I2].
    assert (Hm : fst a <= fst (lstep a e)) by (destruct e; cbn; lia).
    assert (I1' : Forall (fun x => fst a <= fst (fst x)) (ltrace (lstep a e) evs kind label)).
    { eapply Forall_impl; [|exact I1]. intros x Hx. cbn in *. lia. }
    destruct e; cbn [lemit]; cbn in H2; try contradiction; cbn [app]; auto.
    destruct ((kind0 =? kind) && (label0 =? label)); cbn [app]; auto.
    split; [constructor; [cbn; lia|exact I1']|].
    cbn [lstep] in *. cbn [map]. destruct (ltrace a evs kind label) as [|y tr] eqn:E; auto.
    change (lex_le [fst a] [fst (fst y)] && chain lex_le (map (fun x : Z * Z * Z => [fst (fst x)]) (y :: tr)) = true).
    rewrite I2. inversion I1; subst. cbn. cbn in H5. lia.
Qed.

(* ------------------------------------------------------------------ the iter rows of a level *)
Definition quiet (evs : list mev) : Prop := Forall (no_key K_ITER 0) evs.

Lemma ltrace_quiet : forall evs a, quiet evs -> ltrace a evs K_ITER 0 = [].
Proof. intros. apply ltrace_no_key. assumption. Qed.

Lemma iter_rows : forall i items fin, quiet fin ->
  Forall (fun it => quiet (it_pre it) /\ quiet (it_post it)) items ->
  forall a,
  let tr := ltrace a (skels i items ++ fin) K_ITER 0 in
  map (fun x : Z * Z * Z => (snd (fst x), snd x)) tr = map (fun it => (it_c it, it_j it)) items
  /\ Forall (fun x => fst a <= fst (fst x)) tr
  /\ chain lex_lt (map (fun x : Z * Z * Z => [fst (fst x)]) tr) = true.
Proof.
  intros i items fin Hfin HI. induction HI as [|it items [Hp Hq] HI IH]; intros a.
  - cbn [skels flat_map app]. rewrite ltrace_quiet by auto. cbn. repeat split; auto.
  - change (skels i (it :: items)) with (skel i it ++ skels i items). unfold skel.
    rewrite <- !app_assoc. rewrite ltrace_app, ltrace_quiet by auto. cbn [app].
    set (a1 := lfinal a (it_pre it)).
    cbn [ltrace lemit lstep]. rewrite !Z.eqb_refl. cbn [andb app].
    rewrite ltrace_app, ltrace_quiet by auto. cbn [app].
    set (a2 := lfinal (fst a1 + 1, snd a1) (it_post it)).
    destruct (IH a2) as (I1 & I2 & I3).
    assert (M1 : fst a <= fst a1) by apply lfinal_mono.
    assert (M2 : fst a1 + 1 <= fst a2).
    { pose proof (lfinal_mono (it_post it) (fst a1 + 1, snd a1)) as M. exact M. }
    cbn [map fst snd]. split; [f_equal; exact I1|split].
    + constructor; [cbn; lia|]. eapply Forall_impl; [|exact I2]. intros x Hx. cbn in *. lia.
    + destruct (ltrace a2 (skels i items ++ fin) K_ITER 0) as [|y tr] eqn:E; auto.
      change (lex_lt [fst a1] [fst (fst y)]
              && chain lex_lt (map (fun x : Z * Z * Z => [fst (fst x)]) (y :: tr)) = true).
      rewrite I3. inversion I2; subst. cbn. cbn in H1. lia.
Qed.

(* ------------------------------------------------------------------ the `&` generator *)
Lemma and_go_events : forall (P : mev -> Prop) r la lb ta tb,
  (forall c p, P (EUse r c p K_INT la)) -> (forall c p, P (EUse r c p K_INT lb)) -> P (EInc r) ->
  forall xs ys apos bpos pre, Forall P pre ->
  Forall (fun el => Forall P (fst el)) (fst (and_go r la lb ta tb xs ys apos bpos pre))
  /\ Forall P (snd (and_go r la lb ta tb xs ys apos bpos pre)).
Proof.
  intros P r la lb ta tb HUa HUb HI.
  assert (HOa : forall b c p, Forall P (opt_ev b (EUse r c p K_INT la))).
  { intros [|] c p; cbn; auto. }
  assert (HOb : forall b c p, Forall P (opt_ev b (EUse r c p K_INT lb))).
  { intros [|] c p; cbn; auto. }
  induction xs as [|[ca pa] xs IHx]; intros ys apos bpos pre Hpre.
  - cbn [and_go fst snd]. split; [constructor|]. rewrite !Forall_app.
    repeat split; auto; destruct ys as [|[cb pb] ys]; auto.
  - revert bpos pre Hpre. induction ys as [|[cb pb] ys IHy]; intros bpos pre Hpre.
    + cbn [and_go fst snd]. split; [constructor|]. rewrite !Forall_app. auto.
    + cbn [and_go]. destruct (ca =? cb); [|destruct (ca <? cb)].
      * cbn [fst snd]. destruct (IHx ys (apos + 1) (bpos + 1) [] (Forall_nil _)) as [I1 I2].
        split; auto. constructor; auto. cbn [fst]. rewrite !Forall_app. auto.
      * apply IHx. rewrite !Forall_app. auto.
      * apply IHy. rewrite !Forall_app. auto.
Qed.

Definition isect (xs ys : fib) : list (Z * (tree * tree)) :=
  flat_map (fun ct => match lookup (fst ct) ys with
                      | Some ty => [(fst ct, (snd ct, ty))]
                      | None => []
                      end) xs.

Lemma lookup_gt : forall c ys, all_gt c ys -> lookup c ys = None.
Proof.
  intros c ys. induction ys as [|[c' t] ys IH]; intros H; cbn in *; auto.
  destruct H as [H1 H2]. destruct (c =? c') eqn:E; [lia|]. apply IH. exact H2.
Qed.

Lemma all_gt_weaken : forall a b ys, a <= b -> all_gt b ys -> all_gt a ys.
Proof.
  intros a b ys H. induction ys as [|[c t] ys IH]; cbn; auto. intros [H1 H2]. split; [lia|auto].
Qed.

Lemma isect_skip : forall b p ys xs, Forall (fun ct => b < fst ct) xs ->
  isect xs ((b, p) :: ys) = isect xs ys.
Proof.
  intros b p ys xs H. unfold isect. induction H as [|[c t] xs Hc H IH]; cbn [flat_map]; auto.
  rewrite IH. cbn [lookup fst snd]. cbn in Hc. destruct (c =? b) eqn:E; [lia|]. reflexivity.
Qed.

Lemma all_gt_Forall : forall c xs, all_gt c xs -> Forall (fun ct : Z * tree => c < fst ct) xs.
Proof. induction xs as [|[c' t] xs IH]; cbn; intros H; constructor; cbn; tauto. Qed.

(* the elements `&` yields are those of xs whose coordinate is also in ys *)
Lemma and_go_yields : forall r la lb ta tb xs, ssorted_f xs -> forall ys, ssorted_f ys ->
  forall apos bpos pre,
  map snd (fst (and_go r la lb ta tb xs ys apos bpos pre)) = isect xs ys.
Proof.
  intros r la lb ta tb. induction xs as [|[ca pa] xs IHx]; intros Hsx ys Hsy apos bpos pre.
  - reflexivity.
  - destruct Hsx as [Hgx Hsx]. revert bpos pre.
    induction ys as [|[cb pb] ys IHy]; intros bpos pre.
    + cbn [and_go fst map]. unfold isect. clear. induction ((ca, pa) :: xs); cbn; auto.
    + destruct Hsy as [Hgy Hsy']. cbn [and_go].
      destruct (ca =? cb) eqn:Eeq; [|destruct (ca <? cb) eqn:Elt].
      * apply Z.eqb_eq in Eeq. subst cb. cbn [fst snd map]. rewrite (IHx Hsx ys Hsy').
        unfold isect at 2. cbn [flat_map fst snd lookup]. rewrite Z.eqb_refl. cbn [app]. f_equal.
        change (isect xs ys = isect xs ((ca, pb) :: ys)). rewrite isect_skip; [reflexivity|].
        apply all_gt_Forall; auto.
      * rewrite (IHx Hsx ((cb, pb) :: ys) (conj Hgy Hsy')).
        unfold isect at 2. cbn [flat_map fst snd]. rewrite lookup_gt; [reflexivity|].
        cbn. split; [lia|]. eapply all_gt_weaken; [|exact Hgy]. lia.
      * specialize (IHy Hsy'). cbn [and_go] in IHy. rewrite IHy.
        rewrite isect_skip; auto. constructor; [cbn; lia|].
        apply all_gt_Forall. eapply all_gt_weaken; [|exact Hgx]. lia.
Qed.

(* ------------------------------------------------------------------ the lazy `for` wrapper *)
Lemma iter_lazy_facts : forall (Q : thr -> Prop) (body : body_t) pt els j z,
  (forall c e' z', Q z' -> Q (snd (body c e' z'))) -> Q z ->
  let items := fst (iter_lazy body els j z) in
  Forall2 (fun it el => it_pre it = fst el /\ it_post it = [] /\ Q (it_zin it)
                        /\ it_c it = fst (snd el) /\ it_env it = snd (snd el)
                        /\ it_body it = fst (body (it_c it) (it_env it) (it_zin it))) items els
  /\ children pt items = map (fun el => (pt ++ [fst (snd el)], snd (snd el))) els
  /\ map (fun it => (it_c it, it_j it)) items
     = map (fun jc : Z * (list mev * (Z * env)) => (fst (snd (snd jc)), fst jc)) (enumZ els j)
  /\ Q (snd (iter_lazy body els j z)).
Proof.
  intros Q body pt els j z Hb. revert j z. induction els as [|[pre [c e']] els IH]; intros j z Hz.
  - cbn. repeat split; auto.
  - cbn [iter_lazy fst snd enumZ map].
    destruct (IH (j + 1) (snd (body c e' z)) (Hb _ _ _ Hz)) as (I1 & I2 & I3 & I4).
    split; [|split; [|split]]; auto.
    + constructor; auto. cbn. repeat split; auto.
    + cbn [children map it_c it_env]. f_equal. exact I2.
    + f_equal. exact I3.
Qed.

Lemma lsafe_implicit : forall evs a, Forall implicit evs -> lsafe a evs = true.
Proof.
  induction evs as [|e evs IH]; intros a H; auto. inversion H; subst. cbn [lsafe].
  rewrite IH by auto. destruct e; cbn in *; try contradiction; reflexivity.
Qed.

(* kinds that occur in the skeleton of an `&` level *)
Definition and_kinds (e : mev) : Prop :=
  match ev_key e with Some (k, l) => (k = K_ITER /\ l = 0) \/ k = K_INT | None => True end.

Lemma skels_forall : forall (P : mev -> Prop) i items,
  (forall c j, P (EUse (Z.of_nat i) c j K_ITER 0)) -> P (EInc (Z.of_nat i)) ->
  Forall (fun it => Forall P (it_pre it) /\ Forall P (it_post it)) items ->
  Forall P (skels i items).
Proof.
  intros P i items HU HI H. induction H as [|it items [Hp Hq] H IH]; [constructor|].
  change (skels i (it :: items)) with (skel i it ++ skels i items). unfold skel.
  rewrite !Forall_app. repeat split; auto.
Qed.

Lemma ref_elems_and : forall L x y e, l_src L = SAnd x y ->
  ref_elems L e = map (fun q => (fst q, set_nth y (snd (snd q)) (set_nth x (fst (snd q)) e)))
                      (isect (ref_off L e x) (ref_off L e y)).
Proof.
  intros L x y e H. unfold ref_elems, isect. rewrite H.
  induction (ref_off L e x) as [|[c t] xs IH]; cbn [flat_map map]; auto.
  rewrite map_app, <- IH. cbn [fst snd]. destruct (lookup c (ref_off L e y)); reflexivity.
Qed.

(* ------------------------------------------------------------------ intersect rows of a level *)
Lemma ltrace_uses : forall la evs a, Forall implicit evs ->
  map (fun x : Z * Z * Z => (snd (fst x), snd x)) (ltrace a evs K_INT la) = uses la evs.
Proof.
  intros la evs. induction evs as [|e evs IH]; intros a H; auto. inversion H; subst.
  cbn [ltrace]. rewrite map_app, IH by auto. unfold uses at 2. cbn [flat_map]. fold (uses la evs).
  f_equal. destruct e; cbn in *; try contradiction; auto.
  destruct ((kind =? K_INT) && (label =? la)); reflexivity.
Qed.

Lemma uses_skels : forall la i items fin,
  Forall (fun it => it_post it = []) items ->
  uses la (skels i items ++ fin) = uses la (flat_map it_pre items ++ fin).
Proof.
  intros la i items fin H. rewrite !uses_app. f_equal.
  induction H as [|it items Hq H IH]; auto.
  change (skels i (it :: items)) with (skel i it ++ skels i items). unfold skel. rewrite Hq.
  cbn [flat_map]. rewrite !uses_app, IH. cbn. rewrite app_nil_r. reflexivity.
Qed.

Lemma touched_nth : forall m xs j ct, nth_error (touched m xs) j = Some ct -> nth_error xs j = Some ct.
Proof.
  intros m xs. induction xs as [|[c t] xs IH]; intros j ct H; cbn in *; [destruct j; discriminate|].
  destruct m as [mm|].
  - destruct (c <=? mm).
    + destruct j; cbn in *; auto.
    + destruct j; cbn in *; auto. destruct j; discriminate.
  - destruct j; cbn in *; auto. destruct j; discriminate.
Qed.

Definition pos_ok (L : level) (e : env) (x : nat) : Prop :=
  forall j ct, nth_error (ref_off L e x) j = Some ct -> pos_in L e x (fst ct) = Some (Z.of_nat j).

Lemma addr_enum : forall (f : Z -> option Z) pt (l : fib) j0,
  (forall j ct, nth_error l j = Some ct -> f (fst ct) = Some (j0 + Z.of_nat j)) ->
  map (fun ct => addr pt (fst ct) (f (fst ct))) l
  = map (fun jc : Z * (Z * tree) => pt ++ [fst (snd jc); fst jc]) (enumZ l j0).
Proof.
  intros f pt l. induction l as [|ct l IH]; intros j0 H; auto. cbn [map enumZ fst snd].
  rewrite (H O ct eq_refl). unfold addr at 1. replace (j0 + Z.of_nat 0) with j0 by lia. f_equal.
  apply IH. intros j ct' Hn. rewrite (H (S j) ct' Hn). f_equal. lia.
Qed.

Lemma lab_get_val : forall ls r v, memZ r (lb_reg ls) = true ->
  (lookup_rm r (lb_cnt ls) = Some v \/ (lookup_rm r (lb_cnt ls) = None /\ v = 0)) ->
  fst (lab_get ls r) = v /\ lookup_rm r (lb_cnt (snd (lab_get ls r))) = Some (v + 1)
  /\ memZ r (lb_reg (snd (lab_get ls r))) = true.
Proof.
  intros ls r v H Hc. unfold lab_get. rewrite H. cbn [fst snd lb_cnt lb_reg].
  rewrite lookup_cnt_set, Z.eqb_refl. destruct Hc as [-> | [-> ->]]; auto.
Qed.

Lemma enum_map : forall {A B} (f : A -> B) l j,
  enumZ (map f l) j = map (fun jc => (fst jc, f (snd jc))) (enumZ l j).
Proof. induction l as [|a l IH]; intros j; cbn; auto. rewrite IH. reflexivity. Qed.

Lemma lab_get_inv : forall i ls, memZ (Z.of_nat i) (lb_reg ls) = true ->
  let g := lab_get ls (Z.of_nat i) in
  memZ (Z.of_nat i) (lb_reg (snd g)) = true /\ lb_all (snd g) = lb_all ls
  /\ forall j, (S i <= j)%nat -> lookup_rm (Z.of_nat j) (lb_cnt (snd g)) = lookup_rm (Z.of_nat j) (lb_cnt ls).
Proof.
  intros i ls H. unfold lab_get. rewrite H. cbn [snd lb_reg lb_all lb_cnt]. repeat split; auto.
  intros j Hj. rewrite lookup_cnt_set. destruct (Z.of_nat j =? Z.of_nat i) eqn:E; [lia|reflexivity].
Qed.

Lemma and_level_spec : forall zs n tr zshape nz i x y u zu sh lv' pt e z (body : body_t),
  length pt = i -> labinv i z ->
  let L := {| l_pop := false; l_src := SAnd x y; l_ufmt := u; l_zufmt := zu; l_proj := None;
              l_shape := sh |} in
  ssorted_f (ref_off L e x) -> ssorted_f (ref_off L e y) ->
  (tr (Z.of_nat i, K_INT, 0) = true \/ tr (Z.of_nat i, K_INT, 1) = true -> pos_ok L e x /\ pos_ok L e y) ->
  (forall c e' z', labinv (S i) z' -> labinv (S i) (snd (body c e' z'))) ->
  (forall c tx ty z', labinv (S i) z' -> In (c, (tx, ty)) (isect (ref_off L e x) (ref_off L e y)) ->
     spec zs tr n (S i) lv' (pt ++ [c]) (set_nth y ty (set_nth x tx e))
          (fst (body c (set_nth y ty (set_nth x tx e)) z'))) ->
  spec zs tr n i (L :: lv') pt e (fst (run_level tr zshape nz i L body e z))
  /\ labinv i (snd (run_level tr zshape nz i L body e z)).
Proof.
  intros zs n tr zshape nz i x y u zu sh lv' pt e z body Lpt Hz L Hsx Hsy Hpos Hbn Hbody.
  unfold run_level. cbn [l_pop l_src l_proj l_ufmt l_shape L fst snd].
  destruct (lab_reg_inv i z Hz) as (R1 & R2 & R3 & R4 & R5). rewrite R1.
  set (r := Z.of_nat i) in *.
  set (ls1 := snd (lab_reg (th_lab z) r)) in *.
  cbn [src_labels src_stream fst snd].
  set (g1 := lab_get ls1 r). set (g2 := lab_get (snd g1) r).
  assert (Hla : fst g1 = 0 /\ fst g2 = 1).
  { destruct (lab_get_val ls1 r 0 R3) as (A1 & A2 & A3).
    { destruct R4 as [R4|R4]; [right|left]; auto. }
    destruct (lab_get_val (snd g1) r 1 A3 (or_introl A2)) as (B1 & _). auto. }
  destruct Hla as [Hla Hlb].
  set (xs := offered_f u sh (sub e x)) in *. set (ys := offered_f u sh (sub e y)) in *.
  change (ref_off L e x) with xs in *. change (ref_off L e y) with ys in *.
  set (ag := and_go r (fst g1) (fst g2) (tr (r, K_INT, fst g1)) (tr (r, K_INT, fst g2)) xs ys 0 0 []).
  set (els := map (fun pc : list mev * (Z * (tree * tree)) =>
                     (fst pc, (fst (snd pc), set_nth y (snd (snd (snd pc))) (set_nth x (fst (snd (snd pc))) e))))
                  (fst ag)).
  assert (Hz1 : labinv (S i) (with_lab z (snd g2))).
  { destruct (lab_get_inv i ls1 R3) as (G1 & G2 & G3). fold r in G1, G2, G3. fold g1 in G1, G2, G3.
    destruct (lab_get_inv i (snd g1) G1) as (H1 & H2 & H3). fold r in H1, H2, H3. fold g2 in H1, H2, H3.
    destruct R2 as [N2 C2]. split.
    - unfold noall. cbn [with_lab th_lab]. rewrite H2, G2. exact R5.
    - intros j Hj. unfold cz. cbn [with_lab th_lab]. rewrite H3, G3 by lia. apply (C2 j Hj). }
  destruct (iter_lazy_facts (labinv (S i)) body pt els 0 _ Hbn Hz1) as (F1 & F2 & F3 & F4).
  set (res := iter_lazy body els 0 (with_lab z (snd g2))) in *.
  set (items := fst res) in *.
  split; [|apply lab_end_inv; exact F4].
  (* facts about the generator *)
  pose proof (and_go_yields r (fst g1) (fst g2) (tr (r, K_INT, fst g1)) (tr (r, K_INT, fst g2))
                            xs Hsx ys Hsy 0 0 []) as HY. fold ag in HY.
  assert (HE : forall P : mev -> Prop, (forall c p l, P (EUse r c p K_INT l)) -> P (EInc r) ->
             Forall (fun el => Forall P (fst el)) (fst ag) /\ Forall P (snd ag)).
  { intros P H1 H2. apply and_go_events; auto. }
  assert (HE2 : forall P : mev -> Prop, (forall c p, P (EUse r c p K_INT (fst g1))) ->
             (forall c p, P (EUse r c p K_INT (fst g2))) -> P (EInc r) ->
             Forall (fun el => Forall P (fst el)) (fst ag) /\ Forall P (snd ag)).
  { intros P H1 H2 H3. apply and_go_events; auto. }
  assert (Hskel : forall P : mev -> Prop, (forall c p l, P (EUse r c p K_INT l)) -> P (EInc r) ->
             (forall c j, P (EUse r c j K_ITER 0)) ->
             Forall (fun it => Forall P (it_pre it) /\ Forall P (it_post it)) items
             /\ Forall P (skels i items ++ snd ag)).
  { intros P H1 H2 H3. destruct (HE P H1 H2) as [E1 E2].
    assert (A : Forall (fun it => Forall P (it_pre it) /\ Forall P (it_post it)) items).
    { clear - F1 E1. unfold els in F1. revert F1 E1. generalize (fst ag) as l. generalize items as its.
      intros its l F1. remember (map _ l) as ml eqn:Em. revert l Em.
      induction F1 as [|it el its ml' (A & B & _) F1 IH]; intros l Em E1; [constructor|].
      destruct l as [|pc l]; [discriminate|]. inversion Em; subst. inversion E1; subst.
      constructor; [|eapply IH; eauto]. rewrite A, B. cbn [fst]. split; auto. }
    split; auto. rewrite Forall_app. split; auto. apply skels_forall; auto. }
  cbn [reg_events map].
  change (EReg r :: nil ++ flat_items r items ++ snd ag ++ [EEnd r])
    with ([EReg r] ++ flat_items r items ++ snd ag ++ [EEnd r]).
  destruct (Hskel (local i)) as [L1 L2]; [intros; reflexivity|reflexivity|intros; reflexivity|].
  destruct (Hskel implicit) as [_ M2]; [intros; exact I|exact I|intros; exact I|].
  destruct (Hskel and_kinds) as [K1 K2];
    [intros; right; reflexivity|exact I|intros; left; split; reflexivity|].
  assert (Hch : children pt items = kids L (pt, e)).
  { rewrite F2. unfold kids. cbn [fst snd]. rewrite (ref_elems_and L x y e eq_refl).
    change (ref_off L e x) with xs. change (ref_off L e y) with ys. rewrite <- HY.
    unfold els. rewrite !map_map. reflexivity. }
  apply GL; auto.
  - (* items *)
    clear - F1 L1 HY Hbody Hsx Hsy. unfold els in F1.
    assert (Hin : forall pc, In pc (fst ag) -> In (snd pc) (isect xs ys)).
    { intros pc H. rewrite <- HY. apply in_map. exact H. }
    revert F1 L1 Hin. generalize (fst ag) as l. generalize items as its.
    intros its l F1. remember (map _ l) as ml eqn:Em. revert l Em.
    induction F1 as [|it el its ml' (A & B & N & C & D & E) F1 IH]; intros l Em L1 Hin; [constructor|].
    destruct l as [|pc l]; [discriminate|]. inversion Em; subst. inversion L1; subst.
    constructor; [|eapply IH; eauto; intros; apply Hin; right; auto].
    destruct H1 as [P1 P2]. unfold item_ok. split; [exact P1|split; [exact P2|]].
    rewrite E, D, C. cbn [fst snd]. destruct pc as [pre [c [tx ty]]]. cbn [fst snd].
    apply Hbody; auto. apply (Hin (pre, (c, (tx, ty)))). left. reflexivity.
  - (* fin local *)
    rewrite Forall_app in L2. apply L2.
  - apply lsafe_implicit. exact M2.
  - (* the level's own rows *)
    intros kind label. cbv zeta.
    assert (Q : quiet (snd ag) /\ Forall (fun it => quiet (it_pre it) /\ quiet (it_post it)) items).
    { destruct (HE (no_key K_ITER 0)) as [E1 E2]; [intros; reflexivity|exact I|].
      split; auto.
      destruct (Hskel (fun e => no_key K_ITER 0 e \/ exists c j, e = EUse r c j K_ITER 0)) as [A _];
        [intros; left; reflexivity|left; exact I|intros; right; eauto|].
      clear - F1 E1. unfold els in F1. revert F1 E1. generalize (fst ag) as l. generalize items as its.
      intros its l F1. remember (map _ l) as ml eqn:Em. revert l Em.
      induction F1 as [|it el its ml' (A & B & _) F1 IH]; intros l Em E1; [constructor|].
      destruct l as [|pc l]; [discriminate|]. inversion Em; subst. inversion E1; subst.
      constructor; [|eapply IH; eauto]. rewrite A, B. cbn [fst]. split; auto. constructor. }
    destruct Q as [Q1 Q2].
    assert (NK : forall k l, ~ ((k = K_ITER /\ l = 0) \/ k = K_INT) ->
                 ltrace (0, None) (skels i items ++ snd ag) k l = []).
    { intros k l Hn. apply ltrace_no_key. eapply Forall_impl; [|exact K2].
      intros ev Hk. unfold and_kinds, no_key in *. destruct (ev_key ev) as [[k' l']|]; auto.
      destruct ((k' =? k) && (l' =? l)) eqn:E; auto. exfalso. apply Hn.
      destruct Hk as [[A B]|A]; [left|right]; lia. }
    split.
    + unfold stampR. destruct (kind =? K_ITER) eqn:EK.
      * apply Z.eqb_eq in EK. subst kind. destruct (label =? 0) eqn:EL.
        { apply Z.eqb_eq in EL. subst label. apply (iter_rows i items (snd ag) Q1 Q2 (0, None)). }
        { rewrite NK; [reflexivity|]. unfold K_ITER, K_INT. lia. }
      * apply (ltrace_mono kind label _ (0, None) M2).
    + intros Hsc. unfold addr_scope, is_zside in Hsc. cbn [key_kind fst snd] in Hsc. unfold expect_at.
      cbn [l_pop l_src l_proj l_ufmt L andb orb negb].
      destruct (kind =? K_ITER) eqn:EK.
      * apply Z.eqb_eq in EK. subst kind. destruct (label =? 0) eqn:EL; cbn [negb orb].
        { apply Z.eqb_eq in EL. subst label.
          destruct (iter_rows i items (snd ag) Q1 Q2 (0, None)) as (T1 & _ & _).
          set (trc := ltrace (0, None) (skels i items ++ snd ag) K_ITER 0) in *.
          transitivity (map (fun cj : Z * Z => pt ++ [fst cj; snd cj])
                            (map (fun x0 : Z * Z * Z => (snd (fst x0), snd x0)) trc)).
          { rewrite map_map. reflexivity. }
          rewrite T1, F3.
          assert (Hk : ref_elems L e = map snd els).
          { rewrite (ref_elems_and L x y e eq_refl).
            change (ref_off L e x) with xs. change (ref_off L e y) with ys. rewrite <- HY.
            unfold els. rewrite !map_map. reflexivity. }
          rewrite Hk, enum_map, !map_map. apply map_ext. intros [j0 [pre [c0 e0]]]. reflexivity. }
        { rewrite NK; [reflexivity|]. unfold K_ITER, K_INT. lia. }
      * destruct (kind =? K_INT) eqn:EI.
        2:{ rewrite NK by (unfold K_ITER, K_INT in *; lia).
            cbn [map]. destruct (kind =? K_POP); [reflexivity|].
            destruct (kind =? K_RD); [reflexivity|]. destruct (kind =? K_WR); reflexivity. }
        apply Z.eqb_eq in EI. subst kind.
        assert (Htr : tr (r, K_INT, label) = true).
        { apply andb_true_iff in Hsc. destruct Hsc as [_ Hsc]. cbn in Hsc. exact Hsc. }
        assert (Hpo : forall la0, uses la0 (skels i items ++ snd ag) = uses la0 (all_events ag)).
        { intros la0. rewrite uses_skels.
          - unfold all_events. f_equal. f_equal.
            clear - F1. unfold els in F1. revert F1. generalize (fst ag) as l. generalize items as its.
            intros its l F1. remember (map _ l) as ml eqn:Em. revert l Em.
            induction F1 as [|it el its ml' (A & _) F1 IH]; intros l Em; destruct l as [|pc l]; try discriminate; auto.
            inversion Em; subst. cbn [flat_map]. rewrite A, (IH l eq_refl). reflexivity.
          - clear - F1. induction F1 as [|it el its ml' (_ & B & _) F1 IH]; constructor; auto. }
        transitivity (map (fun cp : Z * Z => pt ++ [fst cp; snd cp])
                          (map (fun x0 : Z * Z * Z => (snd (fst x0), snd x0))
                               (ltrace (0, None) (skels i items ++ snd ag) K_INT label))).
        { rewrite map_map. reflexivity. }
        rewrite (ltrace_uses label _ (0, None) M2), Hpo.
        unfold ag. rewrite Hla, Hlb.
        destruct (label =? 0) eqn:E0; [|destruct (label =? 0 + 1) eqn:E1].
        -- apply Z.eqb_eq in E0. subst label. rewrite Htr.
           rewrite (and_go_a_rows r 0 1 (tr (r, K_INT, 1)) ltac:(lia) xs Hsx ys Hsy 0 0 []).
           cbn [uses flat_map app]. unfold rows_of. rewrite map_map.
           destruct (Hpos (or_introl Htr)) as [Px _].
           change (ref_off L e x) with xs. change (ref_off L e y) with ys. symmetry.
           rewrite (addr_enum (pos_in L e x) pt (touched (last_coord ys) xs) 0);
             [apply map_ext; intros [j0 [c0 t0]]; reflexivity|].
           intros j ct Hn. rewrite (Px j ct); [f_equal; lia|]. eapply touched_nth; eauto.
        -- apply Z.eqb_eq in E1. change (0 + 1) with 1 in E1. subst label. rewrite Htr.
           rewrite (and_go_b_rows r 0 1 (tr (r, K_INT, 0)) ltac:(lia) xs Hsx ys Hsy 0 0 []).
           cbn [uses flat_map app]. unfold rows_of. rewrite map_map.
           destruct (Hpos (or_intror Htr)) as [_ Py].
           change (ref_off L e x) with xs. change (ref_off L e y) with ys. symmetry.
           rewrite (addr_enum (pos_in L e y) pt (touched (last_coord xs) ys) 0);
             [apply map_ext; intros [j0 [c0 t0]]; reflexivity|].
           intros j ct Hn. rewrite (Py j ct); [f_equal; lia|]. eapply touched_nth; eauto.
        -- assert (Hn0 : uses label (all_events (and_go r 0 1 (tr (r, K_INT, 0)) (tr (r, K_INT, 1)) xs ys 0 0 [])) = []).
           { destruct (and_go_events (fun ev => uses label [ev] = []) r 0 1 (tr (r, K_INT, 0)) (tr (r, K_INT, 1)))
               with (xs := xs) (ys := ys) (apos := 0) (bpos := 0) (pre := @nil mev) as [N1 N2]; auto.
             - intros c p. unfold uses. cbn [flat_map app]. rewrite (Z.eqb_sym 0 label), E0, andb_false_r. reflexivity.
             - intros c p. unfold uses. cbn [flat_map app]. change (0 + 1) with 1 in E1.
               rewrite (Z.eqb_sym 1 label), E1, andb_false_r. reflexivity.
             - unfold all_events. rewrite uses_app.
               assert (Hnil : forall l, Forall (fun ev => uses label [ev] = []) l -> uses label l = []).
               { induction 1 as [|ev l Hev Hl IHl]; auto. change (ev :: l) with ([ev] ++ l). rewrite uses_app, Hev, IHl. reflexivity. }
               rewrite (Hnil _ N2), app_nil_r.
               induction N1 as [|el l Hel Hl IHl]; auto. cbn [flat_map]. rewrite uses_app, (Hnil _ Hel), IHl. reflexivity. }
           rewrite Hn0. reflexivity.
Qed.

End WithZZ.
