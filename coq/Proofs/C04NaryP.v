(* C04NaryP.v — intersection(a0, .., ak) and union(a0, .., ak) (iterators.py:453-619): the
   left-nested chain of binary operators followed by the unrolling loops equals the k-ary set
   operation with flat payload tuples (and, for union, the mask naming the operands present). *)
From Coq Require Import ZArith List Bool Lia Sorted.
From FT Require Import Model.Base Model.Obs Model.C04Coiter Model.C04Check
                       Proofs.C04CoiterP Proofs.C04LexP Proofs.C04PrefixP Proofs.C04AndP.
Import ListNotations.
Open Scope Z_scope.

(* the payloads all operands hold at c, if all of them hold one *)
Definition lookups {X} (c : coord) (ss : list (list (coord * X))) : option (list X) :=
  opt_all (map (llookup c) ss).

Lemma lookups_cons {X} c (s : list (coord * X)) ss :
  lookups c (s :: ss) = match llookup c s with
                        | Some o => match lookups c ss with Some r => Some (o :: r) | None => None end
                        | None => None
                        end.
Proof. unfold lookups. cbn [map opt_all]. destruct (llookup c s); reflexivity. Qed.

Lemma llookup_map_val {X Y} (g : coord -> X -> Y) c (l : list (coord * X)) :
  llookup c (map (fun cp => (fst cp, g (fst cp) (snd cp))) l)
  = match llookup c l with Some p => Some (g c p) | None => None end.
Proof.
  unfold llookup. induction l as [|[c' p] l IH]; [reflexivity|].
  cbn [map alookup fst snd]. destruct (lex_eqb c c') eqn:E; [|exact IH].
  apply lex_eqb_spec in E. subst. reflexivity.
Qed.

Lemma alllen_map_keys {X Y} n (f : coord * X -> coord * Y) (l : list (coord * X)) :
  (forall x, fst (f x) = fst x) -> alllen n l -> alllen n (map f l).
Proof.
  intros Hf Hl. unfold alllen in *. rewrite Forall_forall in *. intros y Hy.
  apply in_map_iff in Hy. destruct Hy as [x [<- Hx]]. rewrite Hf. apply Hl. exact Hx.
Qed.

Lemma alllen_of_lookup {X} n (R : list (coord * X)) :
  lsorted R -> (forall c v, llookup c R = Some v -> length c = n) -> alllen n R.
Proof.
  intros Hs H. unfold alllen. rewrite Forall_forall. intros [c v] Hin. cbn [fst].
  apply (H c v). apply (In_alookup lex_eqb lex_ltb lex_eqb_spec lex_ltb_irrefl); assumption.
Qed.

(* a & b for two streams of one arity *)
Lemma and_op_same {P Q} n (sa : list (coord * P)) (sb : list (coord * Q)) :
  lsorted sa -> lsorted sb -> alllen n sa -> alllen n sb ->
  lsorted (and_op sa sb) /\ alllen n (and_op sa sb)
  /\ forall c, llookup c (and_op sa sb)
               = match llookup c sa, llookup c sb with
                 | Some p, Some q => Some (p, q)
                 | _, _ => None
                 end.
Proof.
  intros Ha Hb La Lb. destruct (and_op_spec n n sa sb Ha Hb La Lb) as [RS RL].
  assert (L : forall c, llookup c (and_op sa sb)
               = match llookup c sa, llookup c sb with
                 | Some p, Some q => Some (p, q)
                 | _, _ => None
                 end).
  { intros c. rewrite RL, Nat.max_id. destruct (Nat.eqb (length c) n) eqn:El.
    - apply Nat.eqb_eq in El. rewrite <- El, firstn_all.
      destruct (llookup c sa), (llookup c sb); reflexivity.
    - apply Nat.eqb_neq in El. rewrite (llookup_badlen n sa c La El).
      destruct (llookup (firstn n c) sa), (llookup (firstn n c) sb); reflexivity. }
  split; [exact RS|]. split; [|exact L].
  apply alllen_of_lookup; [exact RS|]. intros c v E. rewrite L in E.
  destruct (llookup c sa) as [p|] eqn:Ea; [|discriminate]. exact (llookup_len n sa c p La Ea).
Qed.

(* ------------------------------------------------------------------ intersection *)

Lemma nleaf_spec (s : list (coord * origin)) n :
  lsorted s -> alllen n s ->
  lsorted (nleaf s) /\ alllen n (nleaf s)
  /\ forall c, llookup c (nleaf s) = match llookup c s with Some o => Some (NLeaf o) | None => None end.
Proof.
  intros Hs Hl. unfold nleaf. split; [|split].
  - apply lsorted_map_keys; [intros; reflexivity|exact Hs].
  - apply alllen_map_keys; [intros; reflexivity|exact Hl].
  - intros c. apply (llookup_map_val (fun _ o => NLeaf o)).
Qed.

Lemma and_nested_spec n acc s :
  lsorted acc -> lsorted s -> alllen n acc -> alllen n s ->
  lsorted (and_nested acc (nleaf s)) /\ alllen n (and_nested acc (nleaf s))
  /\ forall c, llookup c (and_nested acc (nleaf s))
               = match llookup c acc, llookup c s with
                 | Some np, Some o => Some (NPair np (NLeaf o))
                 | _, _ => None
                 end.
Proof.
  intros Ha Hs La Ls. destruct (nleaf_spec s n Hs Ls) as [NS [NL NK]].
  destruct (and_op_same n acc (nleaf s) Ha NS La NL) as [RS [RLn RL]].
  unfold and_nested. split; [|split].
  - apply lsorted_map_keys; [intros; reflexivity|exact RS].
  - apply alllen_map_keys; [intros; reflexivity|exact RLn].
  - intros c.
    rewrite (llookup_map_val (fun _ w => NPair (fst w) (snd w)) c (and_op acc (nleaf s))).
    rewrite RL, NK. destruct (llookup c acc), (llookup c s); reflexivity.
Qed.

Definition nest_and (np : npay) (os : list origin) : npay :=
  fold_left (fun x o => NPair x (NLeaf o)) os np.

Lemma fold_and_spec n rest : forall acc,
  lsorted acc -> alllen n acc -> Forall lsorted rest -> Forall (alllen n) rest ->
  lsorted (fold_left (fun acc s => and_nested acc (nleaf s)) rest acc)
  /\ forall c, llookup c (fold_left (fun acc s => and_nested acc (nleaf s)) rest acc)
               = match llookup c acc, lookups c rest with
                 | Some np, Some os => Some (nest_and np os)
                 | _, _ => None
                 end.
Proof.
  induction rest as [|s rest IH]; intros acc Ha La Hr Lr.
  - cbn [fold_left]. split; [exact Ha|]. intros c. unfold lookups. cbn [map opt_all].
    destruct (llookup c acc); reflexivity.
  - inversion Hr as [|? ? Hs Hr']; subst. inversion Lr as [|? ? Ls Lr']; subst.
    destruct (and_nested_spec n acc s Ha Hs La Ls) as [AS [AL AK]].
    destruct (IH _ AS AL Hr' Lr') as [FS FL].
    cbn [fold_left]. split; [exact FS|]. intros c. rewrite FL, AK, lookups_cons.
    destruct (llookup c acc), (llookup c s), (lookups c rest); reflexivity.
Qed.

Lemma and_unroll_nest np os : and_unroll (nest_and np os) = and_unroll np ++ map NLeaf os.
Proof.
  revert np. induction os as [|o os IH]; intros np; [symmetry; apply app_nil_r|].
  unfold nest_and in *. cbn [fold_left map]. rewrite IH. cbn [and_unroll].
  rewrite <- app_assoc. reflexivity.
Qed.

(* intersection(a0, .., ak), operands of one arity: ascending; c is delivered iff every operand
   holds it, with the flat tuple of the operands' own payloads *)
Theorem intersection_n_spec n (ss : list (list (coord * origin))) :
  Forall lsorted ss -> Forall (alllen n) ss ->
  lsorted (intersection_n ss)
  /\ forall c, llookup c (intersection_n ss)
               = match ss with
                 | [] => None
                 | _ => match lookups c ss with Some os => Some (map NLeaf os) | None => None end
                 end.
Proof.
  intros Hs Hl. unfold intersection_n, intersection_nested.
  destruct ss as [|s0 rest].
  - split; [constructor|reflexivity].
  - inversion Hs as [|? ? H0 Hr]; subst. inversion Hl as [|? ? L0 Lr]; subst.
    destruct (nleaf_spec s0 n H0 L0) as [NS [NL NK]].
    destruct (fold_and_spec n rest _ NS NL Hr Lr) as [FS FL].
    split.
    + apply lsorted_map_keys; [intros; reflexivity|exact FS].
    + intros c.
      rewrite (llookup_map_val (fun _ np => and_unroll np) c
                 (fold_left (fun acc s => and_nested acc (nleaf s)) rest (nleaf s0))).
      rewrite FL, NK, lookups_cons.
      destruct (llookup c s0); [|reflexivity].
      destruct (lookups c rest); [|reflexivity].
      rewrite and_unroll_nest. reflexivity.
Qed.

(* ------------------------------------------------------------------ union *)

Definition isS {X} (o : option X) : bool := match o with Some _ => true | None => false end.

(* one operand's contribution at a coordinate: its own payload, or a new default of value d *)
Definition leaf_of (od : option origin * tree) : npay :=
  NLeaf (match fst od with Some o => o | None => Fresh (snd od) end).

(* rows are kept newest operand first *)
Definition orow := list (option origin * tree).
Definition anyp (r : orow) : bool := existsb (fun od => isS (fst od)) r.
Definition mask2 (pa pb : bool) : Z := (if pa then 1 else 0) + (if pb then 2 else 0).

(* the nested tuple the chain of | builds for a row (also when nothing is present: that is the
   nested default) *)
Fixpoint val_rev (r : orow) : npay :=
  match r with
  | [] => NLeaf (Fresh (Leaf 0))
  | od :: r' => match r' with
                | [] => leaf_of od
                | _ :: _ => NTriple (mask2 (anyp r') (isS (fst od))) (val_rev r') (leaf_of od)
                end
  end.

Lemma val_rev_cons od r :
  r <> [] -> val_rev (od :: r) = NTriple (mask2 (anyp r) (isS (fst od))) (val_rev r) (leaf_of od).
Proof. destruct r; [congruence|reflexivity]. Qed.

Definition row (c : coord) (prs : list (list (coord * origin) * tree)) : orow :=
  map (fun sd => (llookup c (fst sd), snd sd)) prs.
Definition none_row (prs : list (list (coord * origin) * tree)) : orow :=
  map (fun sd => (None, snd sd)) prs.

Lemma anyp_none_row prs : anyp (none_row prs) = false.
Proof. induction prs as [|x prs IH]; [reflexivity|]. cbn. exact IH. Qed.

Lemma row_none c prs : anyp (row c prs) = false -> row c prs = none_row prs.
Proof.
  induction prs as [|[s d] prs IH]; [reflexivity|]. cbn [row none_row map anyp existsb fst snd].
  destruct (llookup c s); [discriminate|]. cbn [isS orb]. intros H.
  f_equal. apply IH. exact H.
Qed.

Lemma or_nested_spec (da : npay) d acc s :
  lsorted acc -> lsorted s ->
  lsorted (or_nested da (NLeaf (Fresh d)) acc (nleaf s))
  /\ forall c, llookup c (or_nested da (NLeaf (Fresh d)) acc (nleaf s))
               = match llookup c acc, llookup c s with
                 | Some np, Some o => Some (NTriple 3 np (NLeaf o))
                 | Some np, None => Some (NTriple 1 np (NLeaf (Fresh d)))
                 | None, Some o => Some (NTriple 2 da (NLeaf o))
                 | None, None => None
                 end.
Proof.
  intros Ha Hs.
  assert (NS : lsorted (nleaf s)) by (apply lsorted_map_keys; [intros; reflexivity|exact Hs]).
  destruct (or_merge_correct lex_eqb lex_ltb lex_eqb_spec lex_ltb_irrefl lex_ltb_trans lex_ltb_total
              da (NLeaf (Fresh d)) acc (nleaf s) Ha NS) as [RS RL].
  unfold or_nested. split.
  - apply lsorted_map_keys; [intros; reflexivity|exact RS].
  - intros c.
    rewrite (llookup_map_val (fun _ w => NTriple (fst w) (fst (snd w)) (snd (snd w))) c
               (or_merge lex_eqb lex_ltb da (NLeaf (Fresh d)) acc (nleaf s))).
    unfold llookup at 1. rewrite RL. fold (llookup c acc). fold (llookup c (nleaf s)).
    unfold nleaf. rewrite (llookup_map_val (fun _ o => NLeaf o) c s).
    destruct (llookup c acc), (llookup c s); reflexivity.
Qed.

Lemma union_nested_spec rest : forall acc dacc prs,
  prs <> [] -> lsorted acc ->
  (forall c, llookup c acc = if anyp (row c prs) then Some (val_rev (row c prs)) else None) ->
  dacc = val_rev (none_row prs) ->
  Forall (fun sd => lsorted (fst sd)) rest ->
  lsorted (union_nested acc dacc rest)
  /\ forall c, llookup c (union_nested acc dacc rest)
               = if anyp (row c (rev rest ++ prs))
                 then Some (val_rev (row c (rev rest ++ prs))) else None.
Proof.
  induction rest as [|[s d] rest IH]; intros acc dacc prs Hne Ha HL Hd Hr.
  - cbn [union_nested rev app]. split; [exact Ha|exact HL].
  - inversion Hr as [|? ? Hs Hr']; subst. cbn [fst] in Hs.
    destruct (or_nested_spec (val_rev (none_row prs)) d acc s Ha Hs) as [OS OL].
    cbn [union_nested rev].
    replace ((rev rest ++ [(s, d)]) ++ prs) with (rev rest ++ (s, d) :: prs)
      by (rewrite <- app_assoc; reflexivity).
    apply IH; [discriminate|exact OS| |
               |exact Hr'].
    + intros c. rewrite OL, HL. cbn [row map fst snd].
      fold (row c prs).
      assert (Hrn : row c prs <> []) by (destruct prs; [congruence|discriminate]).
      rewrite (val_rev_cons _ _ Hrn). cbn [anyp existsb fst]. fold (anyp (row c prs)).
      destruct (anyp (row c prs)) eqn:Ea.
      * destruct (llookup c s); cbn [isS orb]; reflexivity.
      * rewrite (row_none c prs Ea).
        destruct (llookup c s); cbn [isS orb]; reflexivity.
    + cbn [none_row map snd]. fold (none_row prs).
      assert (Hrn : none_row prs <> []) by (destruct prs; [congruence|discriminate]).
      rewrite (val_rev_cons _ _ Hrn), anyp_none_row. reflexivity.
Qed.

(* mask of a row, newest first: the operand at position j from the end has weight 2^j *)
Fixpoint maskof (r : orow) : Z :=
  match r with
  | [] => 0
  | od :: r' => (if isS (fst od) then 2 ^ Z.of_nat (length r') else 0) + maskof r'
  end.

Lemma testbit_mask2 pa pb :
  Z.testbit (mask2 pa pb) 0 = pa /\ Z.testbit (mask2 pa pb) 1 = pb.
Proof. destruct pa, pb; split; reflexivity. Qed.

Lemma or_unroll_SS k m x y :
  or_unroll (S (S k)) (NTriple m x y)
  = match or_unroll (S k) x with
    | Some (mk, ps) => Some (mk + (if Z.testbit m 1 then 2 ^ Z.of_nat (S (S k)) else 0), ps ++ [y])
    | None => None
    end.
Proof. reflexivity. Qed.

(* the unrolling loop of union() recovers the mask and the flat tuple *)
Lemma or_unroll_val : forall r od,
  r <> [] ->
  or_unroll (length r) (val_rev (od :: r)) = Some (maskof (od :: r), map leaf_of (rev (od :: r))).
Proof.
  induction r as [|od1 r IH]; intros od Hne; [congruence|].
  destruct r as [|od2 r2].
  - rewrite val_rev_cons by discriminate. cbn [length or_unroll val_rev].
    destruct (testbit_mask2 (anyp [od1]) (isS (fst od))) as [-> ->].
    cbn [anyp existsb maskof length rev app map]. rewrite orb_false_r.
    destruct (isS (fst od1)), (isS (fst od)); reflexivity.
  - specialize (IH od1 ltac:(discriminate)).
    rewrite val_rev_cons by discriminate.
    change (length (od1 :: od2 :: r2)) with (S (length (od2 :: r2))).
    remember (od2 :: r2) as r eqn:Er.
    assert (El : exists k, length r = S k) by (subst r; eexists; reflexivity).
    destruct El as [k El]. rewrite El in *.
    rewrite or_unroll_SS, IH.
    destruct (testbit_mask2 (anyp (od1 :: r)) (isS (fst od))) as [_ ->].
    f_equal. f_equal.
    + cbn [maskof length]. rewrite El. lia.
    + cbn [rev]. rewrite !map_app. reflexivity.
Qed.

Lemma mask_bits_snoc bs : forall b w,
  mask_bits (bs ++ [b]) w = mask_bits bs w + (if b then w * 2 ^ Z.of_nat (length bs) else 0).
Proof.
  induction bs as [|b0 bs IH]; intros b w.
  - cbn [app mask_bits length]. destruct b; cbn; lia.
  - cbn [app mask_bits length]. rewrite IH, Nat2Z.inj_succ, Z.pow_succ_r by lia.
    destruct b; ring.
Qed.

Lemma maskof_bits r : maskof r = mask_bits (map (fun od => isS (fst od)) (rev r)) 1.
Proof.
  induction r as [|od r IH]; [reflexivity|].
  cbn [maskof rev]. rewrite map_app. cbn [map]. rewrite mask_bits_snoc, <- IH.
  rewrite map_length, rev_length. destruct (isS (fst od)); lia.
Qed.

Lemma anyp_rev r : anyp (rev r) = anyp r.
Proof.
  unfold anyp. induction r as [|od r IH]; [reflexivity|].
  cbn [rev existsb]. rewrite existsb_app, IH. cbn [existsb]. rewrite orb_false_r. apply orb_comm.
Qed.

Lemma anyp_row c prs :
  anyp (row c prs) = existsb (fun sd => isS (llookup c (fst sd))) prs.
Proof.
  unfold anyp, row. induction prs as [|x l IH]; [reflexivity|].
  cbn [map existsb fst]. rewrite IH. reflexivity.
Qed.

(* union(a0, .., ak), k >= 1: ascending; c is delivered iff some operand holds it, with the mask
   whose bit j says whether operand j holds it and the flat tuple of the operands' own payloads
   or defaults *)
Theorem union_n_spec s0 d0 rest :
  rest <> [] -> Forall (fun sd => lsorted (fst sd)) ((s0, d0) :: rest) ->
  let all := (s0, d0) :: rest in
  lsorted (union_n all)
  /\ forall c, llookup c (union_n all)
               = if existsb (fun sd => isS (llookup c (fst sd))) all
                 then Some (Some (mask_bits (map (fun sd => isS (llookup c (fst sd))) all) 1,
                                  map (fun sd => leaf_of (llookup c (fst sd), snd sd)) all))
                 else None.
Proof.
  intros Hne Hs all. inversion Hs as [|? ? H0 Hr]; subst. cbn [fst] in H0.
  assert (NS : lsorted (nleaf s0)) by (apply lsorted_map_keys; [intros; reflexivity|exact H0]).
  destruct (union_nested_spec rest (nleaf s0) (NLeaf (Fresh d0)) [(s0, d0)]
              ltac:(discriminate) NS) as [US UL]; [| reflexivity | exact Hr |].
  { intros c. unfold nleaf. rewrite (llookup_map_val (fun _ o => NLeaf o) c s0).
    cbn [row map anyp existsb fst snd val_rev leaf_of]. rewrite orb_false_r.
    destruct (llookup c s0); reflexivity. }
  unfold all, union_n. split.
  - apply lsorted_map_keys; [intros; reflexivity|exact US].
  - intros c.
    rewrite (llookup_map_val (fun _ np => or_unroll (length rest) np) c
               (union_nested (nleaf s0) (NLeaf (Fresh d0)) rest)).
    rewrite UL.
    change (rev rest ++ [(s0, d0)]) with (rev ((s0, d0) :: rest)).
    unfold row. rewrite map_rev. fold (row c ((s0, d0) :: rest)). rewrite anyp_rev.
    assert (Ea : anyp (row c ((s0, d0) :: rest))
                 = existsb (fun sd => isS (llookup c (fst sd))) ((s0, d0) :: rest)).
    { apply anyp_row. }
    rewrite Ea. destruct (existsb _ ((s0, d0) :: rest)); [|reflexivity].
    f_equal.
    remember (rev (row c ((s0, d0) :: rest))) as r eqn:Er.
    assert (Hl : length r = S (length rest)).
    { subst r. rewrite rev_length. unfold row. rewrite map_length. reflexivity. }
    destruct r as [|od r']; [discriminate|].
    assert (Hl' : length r' = length rest) by (simpl in Hl; lia).
    rewrite <- Hl'. rewrite or_unroll_val.
    2:{ destruct r'; [|discriminate]. destruct rest; [congruence|discriminate]. }
    rewrite maskof_bits, Er, rev_involutive. unfold row. rewrite !map_map. reflexivity.
Qed.
