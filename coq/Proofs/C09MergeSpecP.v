(* C09MergeSpecP.v — mergeRanks (absolute / relative, sum, default 0) at any depth and number of
   levels: content up to [sq], well-formedness, and the model meets the oracle on OMerge. *)
From Coq Require Import ZArith List Bool Lia Permutation PeanoNat.
From FT Require Import Model.Base Model.Obs Model.C09Transform Model.C09Check
                       Proofs.C09OrderP Proofs.C09FlattenP Proofs.C09BelowP Proofs.C09CheckP
                       Proofs.C09SwizzleP Proofs.C09WfP Proofs.C09RebuildP Proofs.C09SwapP
                       Proofs.C09UnflP Proofs.C09SplitP Proofs.C09LinearP Proofs.C09RefP Proofs.C09SpecP
                       Proofs.C09DescentP Proofs.C09UnflWfP Proofs.C09SwapSpecP Proofs.C09ComposeP
                       Proofs.C09MergeP.
Import ListNotations.
Open Scope Z_scope.

(* ------------------------------------------------------------------ the point map of the items, any style *)
Definition img2g (style sh : Z) (p : list coord) : list coord :=
  match p with c1 :: c0 :: rest => flatten_coords style sh c1 c0 :: rest | _ => p end.

Lemma merge_items_content_gen : forall style sh d cur, all_fibers cur = true ->
  ccontent d (CN (merge_items style sh d cur)) = map (on_pt (img2g style sh)) (ccontent d (CN cur)).
Proof.
  intros style sh d cur Hf. rewrite !content_CN. unfold merge_items.
  rewrite flat_map_flat_map, map_flat_map. apply flat_map_ext_in.
  intros [c1 p1] Hin. simpl.
  assert (Hp1 : negb (is_leaf p1) = true).
  { unfold all_fibers in Hf. rewrite forallb_forall in Hf. apply (Hf _ Hin). }
  destruct p1 as [v|s]; [discriminate|]. simpl sub.
  rewrite flat_map_map. simpl.
  unfold cpresent. rewrite flat_map_filter_nil.
  2:{ intros [c0 p0] H. simpl in *. apply negb_false_iff in H. rewrite (cempty_content _ _ H). reflexivity. }
  rewrite !map_flat_map. apply flat_map_ext_in. intros [c0 p0] _. simpl.
  rewrite !map_map. apply map_ext. intros [q v]. reflexivity.
Qed.

(* ------------------------------------------------------------------ the top part of _mergeRanksHelper *)
Definition wfp (m : nat) (p : ct) : Prop := cdepth_ok m p = true /\ csorted p = true.

Lemma merge_top : forall style sh fuel cur m, (m < fuel)%nat -> all_fibers cur = true ->
  Forall (fun cp => Forall (fun cp0 : coord * ct => wfp m (snd cp0)) (sub (snd cp))) cur ->
  exists r, all_some (map (fun g : coord * list ct => option_map (pair (fst g)) (merge_tf fuel 0 false (snd g)))
                          (group_items (merge_items style sh 0 cur))) = Some r
    /\ sq (ccontent 0 (CN r)) (map (on_pt (img2g style sh)) (ccontent 0 (CN cur)))
    /\ csorted (CN r) = true /\ cdepth_ok (S m) (CN r) = true.
Proof.
  intros style sh fuel cur m Hm Hf Hlow.
  set (items := merge_items style sh 0 cur).
  set (gs := group_items items).
  pose proof (group_items_perm items) as HP. fold gs in HP.
  pose proof (group_nonempty items) as Hne. fold gs in Hne.
  assert (Hitems : Forall (fun kp : coord * ct => wfp m (snd kp)) items).
  { apply (merge_items_payloads (wfp m)). exact Hlow. }
  destruct (all_some_Forall2
              (fun g : coord * list ct => option_map (pair (fst g)) (merge_tf fuel 0 false (snd g)))
              (fun g (cp' : coord * ct) => exists t, cp' = (fst g, t)
                   /\ sq (ccontent 0 t) (flat_map (ccontent 0) (snd g)) /\ wfp m t) gs) as [rs [Ers Rrs]].
  { intros g Hg. rewrite Forall_forall in Hne.
    destruct (merge_tf_content fuel m (snd g) Hm (Hne _ Hg)) as [t [Et [Ht [Hd1 Hs1]]]].
    - apply Forall_forall. intros p Hp. rewrite Forall_forall in Hitems.
      apply (Hitems (fst g, p)). apply (Permutation_in _ HP). unfold ungroups. apply in_flat_map.
      exists g. split; [exact Hg|]. apply in_map. exact Hp.
    - exists (fst g, t). rewrite Et. split; [reflexivity|]. exists t. repeat split; auto. }
  exists rs. split; [exact Ers|].
  assert (Hk : map fst rs = map fst gs).
  { clear -Rrs. induction Rrs as [|g cp' gs rs [t [-> _]] _ IHR]; [reflexivity|]. simpl. f_equal. exact IHR. }
  assert (Hp : Forall (fun cp : coord * ct => wfp m (snd cp)) rs).
  { clear -Rrs. induction Rrs as [|g cp' gs rs [t [-> [_ H]]] _ IHR]; constructor; auto. }
  split; [|split].
  - rewrite <- (merge_items_content_gen style sh 0 cur Hf). fold items.
    eapply sq_trans; [|apply sq_perm; apply (content_perm 0 _ _ HP)].
    rewrite content_ungroups. clear -Rrs.
    induction Rrs as [|g cp' gs rs [t [-> [Ht _]]] _ IHR]; [apply sq_refl|].
    rewrite content_cons. cbn [flat_map]. apply sq_app; [|exact IHR].
    apply (sq_map (cons (fst g))). exact Ht.
  - apply csorted_CN. split; [rewrite Hk; apply group_items_pw|].
    eapply Forall_impl; [|exact Hp]. intros cp [_ H]. exact H.
  - simpl. apply forallb_forall. intros cp Hin. rewrite Forall_forall in Hp. apply (Hp _ Hin).
Qed.

(* ------------------------------------------------------------------ any number of levels *)
Fixpoint imgm (levels : nat) (style : Z) (shapes : list Z) (p : list coord) : list coord :=
  match levels with
  | O => p
  | S l => img2g style (prodZ (firstn (S l) (tl shapes))) (under (imgm l style (tl shapes)) p)
  end.

(* l+1 levels of fibers below es; the payloads below them are well formed of depth m *)
Fixpoint mdom (l m : nat) (es : cfib) : Prop :=
  match l with
  | O => Forall (fun cp => exists s, snd cp = CN s /\ Forall (fun cp0 : coord * ct => wfp m (snd cp0)) s) es
  | S l' => Forall (fun cp => exists s, snd cp = CN s /\ mdom l' m s) es
  end.

Lemma mdom_fibers : forall l m es, mdom l m es -> all_fibers es = true.
Proof.
  intros l m es H. unfold all_fibers. apply forallb_forall. intros cp Hin.
  destruct l; simpl in H; rewrite Forall_forall in H; destruct (H _ Hin) as [s [E _]]; rewrite E; reflexivity.
Qed.

Definition Rm (f : list coord -> list coord) (m : nat) (cp cp' : coord * ct) : Prop :=
  fst cp' = fst cp /\
  exists s r, snd cp = CN s /\ snd cp' = CN r
              /\ sq (ccontent 0 (CN r)) (map (on_pt f) (ccontent 0 (CN s)))
              /\ csorted (CN r) = true /\ cdepth_ok (S m) (CN r) = true.

Lemma Rm_facts : forall f m es cur, Forall2 (Rm f m) es cur ->
  all_fibers cur = true
  /\ Forall (fun cp => Forall (fun cp0 : coord * ct => wfp m (snd cp0)) (sub (snd cp))) cur
  /\ sq (ccontent 0 (CN cur)) (map (on_pt (under f)) (ccontent 0 (CN es))).
Proof.
  intros f m es cur H. induction H as [|[c p] [c' p'] es cur [Hc [s [r [Es [Er [Hsq [Hs Hd]]]]]]] _ IH].
  - split; [reflexivity|split; [constructor|apply sq_refl]].
  - destruct IH as [I1 [I2 I3]]. simpl in Hc, Es, Er. subst. split; [|split].
    + exact I1.
    + constructor; [|exact I2]. simpl sub. apply csorted_CN in Hs. destruct Hs as [_ Hall].
      simpl in Hd. rewrite forallb_forall in Hd. apply Forall_forall. intros cp0 H0.
      rewrite Forall_forall in Hall. split; auto.
    + rewrite !content_cons, map_app. apply sq_app; [|exact I3].
      rewrite (map_under_pcons f c). apply (sq_map (cons c)). exact Hsq.
Qed.

Theorem merge_levels : forall l style fuel shapes es m, (m < fuel)%nat -> mdom l m es ->
  exists r, merge_helper (S l) style false fuel shapes 0 es = Some r
    /\ sq (ccontent 0 (CN r)) (map (on_pt (imgm (S l) style shapes)) (ccontent 0 (CN es)))
    /\ csorted (CN r) = true /\ cdepth_ok (S m) (CN r) = true.
Proof.
  induction l as [|l IH]; intros style fuel shapes es m Hm Hdom.
  - pose proof (mdom_fibers 0 m es Hdom) as Hf.
    assert (Hlow : Forall (fun cp => Forall (fun cp0 : coord * ct => wfp m (snd cp0)) (sub (snd cp))) es).
    { simpl in Hdom. eapply Forall_impl; [|exact Hdom]. intros cp [s [E H]]. rewrite E. exact H. }
    destruct (merge_top style (prodZ (firstn 1 (tl shapes))) fuel es m Hm Hf Hlow) as [r [Er [Hsq [Hs Hd]]]].
    exists r. split.
    + unfold merge_helper. rewrite existsb_leaf_false by exact Hf. exact Er.
    + split; [|split; assumption]. eapply sq_trans; [exact Hsq|]. apply sq_perm. apply Permutation_refl'.
      apply map_ext. intros [p v]. unfold on_pt. simpl. destruct p; reflexivity.
  - pose proof (mdom_fibers (S l) m es Hdom) as Hf.
    destruct (all_some_Forall2 (lowF l style false fuel shapes 0) (Rm (imgm (S l) style (tl shapes)) m) es)
      as [cur [Ecur Rcur]].
    { intros [c p] Hin. simpl in Hdom. rewrite Forall_forall in Hdom. destruct (Hdom _ Hin) as [s [E Hs]].
      simpl in E. subst p. destruct (IH style fuel (tl shapes) s m Hm Hs) as [r [Er [Hsq [Hsr Hdr]]]].
      exists (c, CN r). unfold lowF. cbn [snd fst]. rewrite Er. cbn [option_map]. split; [reflexivity|].
      split; [reflexivity|]. exists s, r. repeat split; auto. }
    destruct (Rm_facts _ _ _ _ Rcur) as [F1 [F2 F3]].
    destruct (merge_top style (prodZ (firstn (S (S l)) (tl shapes))) fuel cur m Hm F1 F2) as [r [Er [Hsq [Hs Hd]]]].
    exists r. split.
    + rewrite merge_helper_step, Ecur. rewrite existsb_leaf_false by exact F1. exact Er.
    + split; [|split; assumption]. eapply sq_trans; [exact Hsq|].
      eapply sq_trans; [apply sq_map; exact F3|]. rewrite map_map. apply sq_perm. apply Permutation_refl'.
      apply map_ext. intros [p v]. reflexivity.
Qed.

(* ------------------------------------------------------------------ the Below descent up to sq *)
Theorem below_sq : forall (W : cfib -> Prop) f g,
  (forall s, W s -> cempty 0 (CN s) = false ->
     exists r, f s = Some r /\ sq (ccontent 0 (CN r)) (map (on_pt g) (ccontent 0 (CN s)))) ->
  forall k es, at_depth k W es ->
  exists r, upd_below k f 0 es = Some r
    /\ sq (ccontent 0 (CN r)) (map (on_pt (nunder (S k) g)) (ccontent 0 (CN es))).
Proof.
  intros W f g Hf. induction k as [|k IH]; intros es Hes.
  - rewrite upd0_eq. induction es as [|[c p] es IHes].
    + exists []. split; [reflexivity|apply sq_refl].
    + inversion Hes as [|? ? [s [Es Ws]] Hrest]; subst. simpl in Es. subst p.
      destruct (IHes Hrest) as [r [Er Cr]]. cbn [map all_some]. unfold e0 at 1. cbn [fst snd].
      destruct (cempty 0 (CN s)) eqn:Ee.
      * rewrite Er. exists ((c, CN []) :: r). split; [reflexivity|].
        rewrite !content_cons. rewrite (cempty_content _ _ Ee). simpl. exact Cr.
      * destruct (Hf s Ws Ee) as [rs [Ers Crs]]. rewrite Ers. cbn [option_map]. rewrite Er.
        exists ((c, CN rs) :: r). split; [reflexivity|].
        rewrite !content_cons, map_app. apply sq_app; [|exact Cr].
        rewrite (map_under_pcons g c). apply (sq_map (cons c)). exact Crs.
  - rewrite updS_eq. induction es as [|[c p] es IHes].
    + exists []. split; [reflexivity|apply sq_refl].
    + inversion Hes as [|? ? [s [Es Ws]] Hrest]; subst. simpl in Es. subst p.
      destruct (IHes Hrest) as [r [Er Cr]]. destruct (IH s Ws) as [rs [Ers Crs]].
      cbn [map all_some]. unfold eS at 1. cbn [fst snd]. rewrite Ers. cbn [option_map]. rewrite Er.
      exists ((c, CN rs) :: r). split; [reflexivity|].
      rewrite !content_cons, map_app. apply sq_app; [|exact Cr].
      rewrite (map_under_pcons (nunder (S k) g) c). apply (sq_map (cons c)). exact Crs.
Qed.

(* ------------------------------------------------------------------ from equal point sums to the oracle *)
Lemma content_nonzero : forall d t q v, In (q, v) (ccontent d t) -> v <> d.
Proof.
  intros d t. induction t as [v0|es IH] using ct_ind'; intros q v Hin.
  - simpl in Hin. destruct (v0 =? d) eqn:E; [destruct Hin|]. destruct Hin as [H|[]]. inversion H; subst.
    apply Z.eqb_neq. exact E.
  - rewrite content_CN in Hin. apply in_flat_map in Hin. destruct Hin as [cp [Hcp Hin]].
    apply in_map_iff in Hin. destruct Hin as [[q' v'] [E Hq]]. inversion E; subst.
    rewrite Forall_forall in IH. apply (IH _ Hcp q' v Hq).
Qed.

Lemma fsum_absent : forall l q, ~ In q (map fst l) -> fsum l q = 0.
Proof.
  induction l as [|[p v] l IH]; intros q H; [reflexivity|]. unfold fsum in *. simpl.
  destruct (pt_eqb p q) eqn:E.
  - apply pt_eqb_eq in E. subst. exfalso. apply H. left. reflexivity.
  - apply IH. intros Hin. apply H. right. exact Hin.
Qed.

Lemma fsum_unique : forall l q v, NoDup (map fst l) -> In (q, v) l -> fsum l q = v.
Proof.
  induction l as [|[p w] l IH]; intros q v Hnd Hin; [destruct Hin|].
  simpl in Hnd. inversion Hnd as [|? ? Hp Hnd']; subst.
  change ((p, w) :: l) with ([(p, w)] ++ l). rewrite fsum_app. destruct Hin as [E|Hin].
  - inversion E; subst. rewrite (fsum_absent l q Hp). unfold fsum. simpl. rewrite pt_eqb_refl. simpl. lia.
  - rewrite (IH q v Hnd' Hin). unfold fsum. simpl.
    destruct (pt_eqb p q) eqn:E; [|simpl; lia]. apply pt_eqb_eq in E. subst. exfalso. apply Hp.
    apply in_map_iff. exists (q, v). auto.
Qed.

Lemma sums_to_none : forall img src q, (forall pv, In pv src -> img (fst pv) <> q) -> sums_to img src q = 0.
Proof.
  intros img src q H. unfold sums_to. induction src as [|[p v] src IH]; [reflexivity|]. simpl.
  destruct (pt_eqb (img p) q) eqn:E.
  - apply pt_eqb_eq in E. exfalso. apply (H (p, v)); [left; reflexivity|exact E].
  - apply IH. intros pv Hin. apply H. right. exact Hin.
Qed.

Theorem content_ok_of_sq : forall img src t', csorted t' = true ->
  sq (ccontent 0 t') (map (on_pt img) src) -> content_ok 0 img src (ccontent 0 t') = true.
Proof.
  intros img src t' Hs Hsq. set (out := ccontent 0 t') in *.
  pose proof (content_NoDup 0 t' Hs) as Hnd. fold out in Hnd.
  pose proof (sq_sums out img src Hsq) as Hsum.
  unfold content_ok. apply andb_true_iff. split.
  - apply forallb_forall. intros [q v] Hin. simpl.
    assert (Hv : v = sums_to img src q) by (rewrite <- Hsum; symmetry; apply fsum_unique; assumption).
    apply andb_true_iff. split; [|apply Z.eqb_eq; exact Hv].
    destruct (existsb (fun pv : point * Z => pt_eqb (img (fst pv)) q) src) eqn:Ex; [reflexivity|]. exfalso.
    assert (Hz : sums_to img src q = 0).
    { apply sums_to_none. intros pv Hpv E. assert (Ht : existsb (fun pv : point * Z => pt_eqb (img (fst pv)) q) src = true).
      { apply existsb_exists. exists pv. split; [exact Hpv|]. apply pt_eqb_eq. exact E. }
      rewrite Ht in Ex. discriminate. }
    apply (content_nonzero 0 t' q v Hin). lia.
  - apply forallb_forall. intros [p w] Hp. simpl.
    destruct (sums_to img src (img p) =? 0) eqn:Ez; [reflexivity|]. simpl.
    apply Z.eqb_neq in Ez. rewrite <- Hsum in Ez.
    destruct (existsb (fun qv : point * Z => pt_eqb (fst qv) (img p)) out) eqn:Ex; [reflexivity|]. exfalso.
    apply Ez. apply fsum_absent. intros Hin. apply in_map_iff in Hin. destruct Hin as [[q v] [E Hq]]. simpl in E. subst q.
    assert (Ht : existsb (fun qv : point * Z => pt_eqb (fst qv) (img p)) out = true).
    { apply existsb_exists. exists (img p, v). split; [exact Hq|apply pt_eqb_refl]. }
    rewrite Ht in Ex. discriminate.
Qed.

(* ------------------------------------------------------------------ closed forms of the point maps *)
Lemma last_cons_ne : forall {A} (x : A) l dflt, l <> [] -> last (x :: l) dflt = last l dflt.
Proof. intros A x l dflt H. destruct l; [congruence|reflexivity]. Qed.

Lemma imgm_abs : forall l shapes p, (l < length p)%nat ->
  imgm l st_absolute shapes p = last (firstn (S l) p) [] :: skipn (S l) p.
Proof.
  induction l as [|l IH]; intros shapes p H.
  - destruct p as [|c q]; [simpl in H; lia|]. reflexivity.
  - destruct p as [|c q]; [simpl in H; lia|]. simpl in H.
    change (imgm (S l) st_absolute shapes (c :: q))
      with (img2g st_absolute (prodZ (firstn (S l) (tl shapes))) (c :: imgm l st_absolute (tl shapes) q)).
    rewrite (IH (tl shapes) q) by lia. cbn [img2g]. unfold flatten_coords. simpl (_ =? _). cbn [orb].
    rewrite firstn_cons. rewrite last_cons_ne; [reflexivity|].
    destruct q; [simpl in H; lia|discriminate].
Qed.

Lemma imgm_rel : forall l shapes p, (l < length p)%nat ->
  Forall (fun c => is_single c = true) (firstn (S l) p) ->
  imgm l st_relative shapes p = [sum_coords (firstn (S l) p)] :: skipn (S l) p.
Proof.
  induction l as [|l IH]; intros shapes p H Hsg.
  - destruct p as [|c q]; [simpl in H; lia|]. inversion Hsg as [|? ? Hc _]; subst.
    destruct c as [|a [|? ?]]; try discriminate. simpl. rewrite Z.add_0_r. reflexivity.
  - destruct p as [|c q]; [simpl in H; lia|]. simpl in H. rewrite firstn_cons in Hsg.
    inversion Hsg as [|? ? Hc Hq]; subst. destruct c as [|a [|? ?]]; try discriminate.
    change (imgm (S l) st_relative shapes ([a] :: q))
      with (img2g st_relative (prodZ (firstn (S l) (tl shapes))) ([a] :: imgm l st_relative (tl shapes) q)).
    rewrite (IH (tl shapes) q) by (auto; lia). reflexivity.
Qed.

Definition mstyle_ok (style : Z) : Prop := style = st_absolute \/ style = st_relative.

Lemma imgm_img : forall style l sh q, mstyle_ok style -> (S l < length q)%nat ->
  Forall (fun c => is_single c = true) (firstn (S (S l)) q) ->
  imgm (S l) style sh q = img_flatten 0 (S l) style sh q.
Proof.
  intros style l sh q [-> | ->] Hq Hsg.
  - rewrite imgm_abs by lia. reflexivity.
  - rewrite imgm_rel by (auto; lia). reflexivity.
Qed.

(* ------------------------------------------------------------------ the domain from the booleans *)
Lemma mdom_of_bool : forall l N es, (S l < N)%nat ->
  cdepth_ok N (CN es) = true -> csorted (CN es) = true -> mdom l (N - 2 - l) es.
Proof.
  induction l as [|l IH]; intros N es Hn Hd Hs;
    apply csorted_CN in Hs; destruct Hs as [_ Hall];
    (destruct N as [|N]; [lia|]); simpl in Hd; rewrite forallb_forall in Hd; rewrite Forall_forall in Hall;
    cbn [mdom]; apply Forall_forall; intros [c p] Hin;
    pose proof (Hd _ Hin) as Hdp; pose proof (Hall _ Hin) as Hsp; simpl in Hdp, Hsp;
    (destruct N as [|N']; [lia|]); (destruct p as [v|s]; [discriminate|]); exists s; (split; [reflexivity|]).
  - replace (S (S N') - 2 - 0)%nat with N' by lia.
    apply csorted_CN in Hsp. destruct Hsp as [_ Hall2]. simpl in Hdp. rewrite forallb_forall in Hdp.
    apply Forall_forall. intros cp0 H0. rewrite Forall_forall in Hall2. split; auto.
  - replace (S (S N') - 2 - S l)%nat with (S N' - 2 - l)%nat by lia. apply IH; auto. lia.
Qed.

(* mergeRanks of one fiber of the domain *)
Lemma merge_fiber : forall style l N sh fuel s, (S l < N)%nat -> (N <= fuel)%nat -> Wb N sh s ->
  exists r, merge_helper (S l) style false fuel sh 0 s = Some r
    /\ sq (ccontent 0 (CN r)) (map (on_pt (imgm (S l) style sh)) (ccontent 0 (CN s)))
    /\ good (N - 1 - S l) r.
Proof.
  intros style l N sh fuel s Hl Hfuel [Hd [Hs _]].
  pose proof (mdom_of_bool l N s Hl Hd Hs) as Hdom.
  destruct (merge_levels l style fuel sh s (N - 2 - l) ltac:(lia) Hdom) as [r [Er [Hsq [Hsr Hdr]]]].
  exists r. split; [exact Er|]. split; [exact Hsq|]. split; [exact Hsr|].
  replace (S (N - 1 - S l)) with (S (N - 2 - l)) by lia. exact Hdr.
Qed.

Theorem spec_merge : forall c depth levels style, k_op c = OMerge depth levels style mf_sum -> c09_wf c = true ->
  c09_holds c (c09_model c) = true.
Proof.
  intros c depth levels style Hop Hwf. destruct (c09_wf_parts c Hwf) as [Hn [Et [Hd [Hs [Hi [Hsh Hok]]]]]].
  unfold op_ok in Hok. rewrite Hop in Hok.
  apply andb_true_iff in Hok. destruct Hok as [Hok _].
  apply andb_true_iff in Hok. destruct Hok as [Hok Hd0]. apply Z.eqb_eq in Hd0.
  apply andb_true_iff in Hok. destruct Hok as [Hok Hst]. apply andb_true_iff in Hok. destruct Hok as [Hl0 Hl1].
  apply Nat.ltb_lt in Hl0, Hl1.
  assert (Hms : mstyle_ok style).
  { apply orb_true_iff in Hst. destruct Hst as [E|E]; apply Z.eqb_eq in E; [left|right]; exact E. }
  destruct levels as [|l]; [lia|].
  pose proof Et as Et'. rewrite Et in Hd, Hs, Hi, Hsh. set (es := k_es c) in *. set (n := k_n c) in *.
  assert (Hpts : forall pv, In pv (ccontent 0 (CN es)) ->
            length (fst pv) = n /\ Forall (fun c0 => is_single c0 = true) (fst pv)).
  { intros pv Hin. apply (points_all_single 0 n es ltac:(lia) (or_intror I) Hd Hs Hi _ Hin). }
  assert (Hfinish : forall r F, c09_run c = Some r -> good (n - 1 - S l) r ->
            sq (ccontent 0 (CN r)) (map (on_pt F) (ccontent 0 (CN es))) ->
            (forall pv, In pv (ccontent 0 (CN es)) -> F (fst pv) = op_img c (fst pv)) ->
            c09_holds c (c09_model c) = true).
  { intros r F Hrun [G1 G2] Hsq HF.
    assert (Hod : out_depth c = S (n - 1 - S l)) by (unfold out_depth; rewrite Hop; fold n; lia).
    apply (holds_of_parts c r); auto; [rewrite Hod; exact G2|].
    rewrite Hd0, Et'. fold es. apply content_ok_of_sq; [exact G1|].
    eapply sq_trans; [exact Hsq|]. apply sq_perm. apply Permutation_refl'.
    apply map_ext_in. intros [q v] Hin. unfold on_pt. simpl. f_equal. apply (HF _ Hin). }
  destruct depth as [|k].
  - destruct (merge_fiber style l n (k_shape c) (S n) es ltac:(lia) ltac:(lia)) as [r [Er [Hsq Hg]]];
      [repeat split; assumption|].
    apply (Hfinish r (imgm (S l) style (k_shape c))); auto.
    + unfold c09_run. rewrite Hop, Hd0. exact Er.
    + intros pv Hin. destruct (Hpts _ Hin) as [Hlen Hsg]. unfold op_img. rewrite Hop.
      apply imgm_img; [exact Hms|lia|].
      apply Forall_forall. intros x Hx. rewrite Forall_forall in Hsg. apply Hsg.
      apply (in_firstn_skipn x (S (S l)) 0 (fst pv)). exact Hx.
  - set (sh' := skipn (S k) (k_shape c)). set (N' := (n - S k)%nat).
    set (f := merge_helper (S l) style false (S n) sh' 0).
    assert (Hat : at_depth k (Wb N' sh') es) by (apply at_depth_of_bool; [lia|repeat split; assumption]).
    destruct (below_sq (Wb N' sh') f (imgm (S l) style sh')
                (fun s Ws _ => let '(ex_intro _ r (conj A (conj B _))) :=
                                 merge_fiber style l N' sh' (S n) s ltac:(unfold N'; lia) ltac:(unfold N'; lia) Ws in
                               ex_intro _ r (conj A B)) k es Hat) as [r [Er Hsq]].
    assert (Hgood : good (S k + (N' - 1 - S l)) r).
    { apply (below_wf (Wb N' sh') f 0 (N' - 1 - S l)) with (k := k) (es := es); auto.
      intros s r' Ws _ Efs.
      destruct (merge_fiber style l N' sh' (S n) s ltac:(unfold N'; lia) ltac:(unfold N'; lia) Ws) as [r0 [A [_ G]]].
      unfold f in Efs. rewrite A in Efs. inversion Efs; subst r'. exact G. }
    replace (S k + (N' - 1 - S l))%nat with (n - 1 - S l)%nat in Hgood by (unfold N'; lia).
    apply (Hfinish r (nunder (S k) (imgm (S l) style sh'))); auto.
    + unfold c09_run. rewrite Hop, Hd0. exact Er.
    + intros pv Hin. destruct (Hpts _ Hin) as [Hlen Hsg]. unfold op_img. rewrite Hop.
      rewrite img_flatten_nunder by lia. apply nunder_ext. intros q Eq. fold sh'.
      apply imgm_img; [exact Hms| |].
      * subst q. rewrite skipn_length. lia.
      * subst q. apply Forall_forall. intros x Hx. rewrite Forall_forall in Hsg. apply Hsg.
        apply (in_firstn_skipn x (S (S l)) (S k) (fst pv)). exact Hx.
Qed.

(* ------------------------------------------------------------------ the oracle for max / min *)
Theorem content_okf_sound : forall mfn d img src out, content_okf mfn d img src out = true ->
  (forall q v, In (q, v) out ->
     (exists p w, In (p, w) src /\ img p = q) /\ v = reds_to mfn img src q)
  /\ (forall p w, In (p, w) src ->
        reds_to mfn img src (img p) = d \/ exists v, In (img p, v) out).
Proof.
  intros mfn d img src out H. unfold content_okf in H. apply andb_true_iff in H. destruct H as [H1 H2].
  rewrite forallb_forall in H1, H2. split.
  - intros q v Hin. specialize (H1 _ Hin). simpl in H1. apply andb_true_iff in H1. destruct H1 as [Ha Hb].
    apply existsb_exists in Ha. destruct Ha as [[p w] [Hp He]]. simpl in He. apply pt_eqb_eq in He.
    split; [exists p, w; auto|]. apply Z.eqb_eq. exact Hb.
  - intros p w Hin. specialize (H2 _ Hin). simpl in H2. apply orb_true_iff in H2. destruct H2 as [Ha|Hb].
    + left. apply Z.eqb_eq. exact Ha.
    + right. apply existsb_exists in Hb. destruct Hb as [[q v] [Hq He]]. simpl in He.
      apply pt_eqb_eq in He. subst q. exists v. exact Hq.
Qed.

Lemma redv_cases : forall vs,
  redv mf_sum vs = sumZ vs
  /\ redv mf_max vs = match vs with [] => 0 | v :: vs' => fold_left Z.max vs' v end
  /\ redv mf_min vs = match vs with [] => 0 | v :: vs' => fold_left Z.min vs' v end.
Proof. intros. repeat split. Qed.
