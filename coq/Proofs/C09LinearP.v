(* C09LinearP.v — flattenRanks(style "linear"): for in-shape int coordinates the new coordinate
   is c1 * (product of the lower shapes) + c0, recursively; order and content are preserved. *)
From Coq Require Import ZArith List Bool Lia Permutation PeanoNat.
From FT Require Import Model.Base Model.Obs Model.C09Transform Model.C09Check
                       Proofs.C09OrderP Proofs.C09FlattenP Proofs.C09BelowP Proofs.C09CheckP.
Import ListNotations.
Open Scope Z_scope.

Definition lin2 (sh : Z) (p : list coord) : list coord :=
  match p with
  | [a] :: [b] :: rest => [a * sh + b] :: rest
  | _ => p
  end.

Fixpoint imglin (levels : nat) (shapes : list Z) (p : list coord) : list coord :=
  match levels with
  | O => p
  | S l => lin2 (prodZ (firstn (S l) (tl shapes))) (under (imglin l (tl shapes)) p)
  end.

Definition in_range (hi : Z) (cp : coord * ct) : Prop := exists c, fst cp = [c] /\ 0 <= c < hi.

(* n levels of fibers below es whose coordinates are ints inside the shapes *)
Fixpoint wfs (n : nat) (shapes : list Z) (es : cfib) : Prop :=
  Forall (in_range (hd 0 shapes)) es /\
  match n with
  | O => True
  | S n' => Forall (fun cp => exists s, snd cp = CN s /\ wfs n' (tl shapes) s) es
  end.

Lemma flatten_coords_lin : forall sh a b, flatten_coords st_linear sh [a] [b] = [a * sh + b].
Proof. reflexivity. Qed.

Lemma merge_helper_1' : forall style raise fuel shapes d es,
  all_fibers es = true ->
  pw ccmp (map fst (merge_items style (prodZ (firstn 1 (tl shapes))) d es)) ->
  merge_helper 1 style raise fuel shapes d es
  = Some (merge_items style (prodZ (firstn 1 (tl shapes))) d es).
Proof.
  intros style raise fuel shapes d es Hf Hpw.
  unfold merge_helper. rewrite existsb_leaf_false by exact Hf.
  rewrite group_items_asc by exact Hpw. apply merge_singles.
Qed.

(* one level: content *)
Lemma merge_items_content_lin : forall sh hi d cur, all_fibers cur = true ->
  Forall (fun cp => exists c, fst cp = [c]) cur ->
  Forall (fun cp => Forall (in_range hi) (sub (snd cp))) cur ->
  ccontent d (CN (merge_items st_linear sh d cur)) = map (on_pt (lin2 sh)) (ccontent d (CN cur)).
Proof.
  intros sh hi d cur Hf Htop Hlow. rewrite !content_CN. unfold merge_items.
  rewrite flat_map_flat_map, map_flat_map. apply flat_map_ext_in.
  intros [c1 p1] Hin. simpl.
  assert (Hp1 : negb (is_leaf p1) = true).
  { unfold all_fibers in Hf. rewrite forallb_forall in Hf. apply (Hf _ Hin). }
  destruct p1 as [v|s]; [discriminate|]. simpl sub.
  rewrite Forall_forall in Htop, Hlow. destruct (Htop _ Hin) as [a Ea]. simpl in Ea. subst c1.
  pose proof (Hlow _ Hin) as Hs. simpl in Hs.
  rewrite flat_map_map. simpl.
  unfold cpresent. rewrite flat_map_filter_nil.
  2:{ intros [c0 p0] H. simpl in *. apply negb_false_iff in H. rewrite (cempty_content _ _ H). reflexivity. }
  rewrite !map_flat_map. apply flat_map_ext_in. intros [c0 p0] Hin0. simpl.
  rewrite Forall_forall in Hs. destruct (Hs _ Hin0) as [b [Eb _]]. simpl in Eb. subst c0.
  rewrite !map_map. apply map_ext. intros [q v]. reflexivity.
Qed.

(* one level: keys ascending, ints, in range *)
Lemma merge_items_keys_lin : forall sh hi0 d cur,
  pw ccmp (map fst cur) -> Forall (in_range hi0) cur ->
  Forall (fun cp => pw ccmp (map fst (sub (snd cp))) /\ Forall (in_range sh) (sub (snd cp))) cur ->
  pw ccmp (map fst (merge_items st_linear sh d cur))
  /\ Forall (in_range (hi0 * sh)) (merge_items st_linear sh d cur).
Proof.
  intros sh hi0 d cur. unfold merge_items.
  induction cur as [|[c1 p1] cur IH]; intros Hpw Htop Hlow; [split; [exact I|constructor]|].
  destruct Hpw as [Hc1 Hpw]. inversion Htop as [|? ? [a [Ea Ha]] Htop']; subst.
  inversion Hlow as [|? ? [Hp1 Hr1] Hlow']; subst. simpl in Ea, Hp1, Hr1. subst c1.
  destruct (IH Hpw Htop' Hlow') as [I1 I2]. clear IH.
  set (blk := map (fun cp0 : coord * ct => (flatten_coords st_linear sh [a] (fst cp0), snd cp0))
                  (cpresent d (sub p1))).
  assert (Hblk : forall x, In x blk -> exists b p0, In (([b] : coord), p0) (sub p1) /\ 0 <= b < sh /\ x = ([a * sh + b], p0)).
  { intros x Hx. unfold blk in Hx. apply in_map_iff in Hx. destruct Hx as [[c0 p0] [<- H0]].
    unfold cpresent in H0. apply filter_In in H0. destruct H0 as [H0 _].
    rewrite Forall_forall in Hr1. destruct (Hr1 _ H0) as [b [Eb Hb]]. simpl in Eb. subst c0.
    exists b, p0. auto. }
  cbn [flat_map fst snd]. fold blk. split.
  - rewrite map_app. apply pw_app; [|exact I1|].
    + (* within the block *)
      unfold blk. rewrite map_map. simpl.
      assert (Hsub : pw ccmp (map fst (cpresent d (sub p1)))).
      { unfold cpresent. clear -Hp1. induction (sub p1) as [|[c0 p0] s IHs]; [exact I|].
        destruct Hp1 as [Hc0 Hp1]. simpl. destruct (negb (cempty d p0)); simpl; [|auto].
        split; [|auto]. apply Forall_forall. intros y Hy.
        apply in_map_iff in Hy. destruct Hy as [[c' p'] [<- Hy]]. apply filter_In in Hy.
        rewrite Forall_forall in Hc0. apply Hc0. apply in_map_iff. exists (c', p'). tauto. }
      assert (Hr1' : Forall (in_range sh) (cpresent d (sub p1))).
      { apply Forall_forall. intros x Hx. unfold cpresent in Hx. apply filter_In in Hx.
        rewrite Forall_forall in Hr1. apply Hr1. tauto. }
      clear -Hsub Hr1'. induction (cpresent d (sub p1)) as [|[c0 p0] s IHs]; [exact I|].
      destruct Hsub as [Hc0 Hsub]. inversion Hr1' as [|? ? [b [Eb Hb]] Hr]; subst. simpl in Eb. subst c0.
      simpl. split; [|auto]. apply Forall_forall. intros y Hy.
      apply in_map_iff in Hy. destruct Hy as [[c' p'] [<- Hy]].
      rewrite Forall_forall in Hr. destruct (Hr _ Hy) as [b' [Eb' Hb']]. simpl in Eb'. subst c'.
      rewrite Forall_forall in Hc0. assert (Hlt : ccmp [b] [b'] = Lt).
      { apply Hc0. apply in_map_iff. exists ([b'], p'). auto. }
      apply ccmp_single in Hlt. rewrite Z.compare_lt_iff in Hlt.
      rewrite !flatten_coords_lin. unfold ccmp. simpl.
      replace (a * sh + b ?= a * sh + b') with Lt; [reflexivity|]. symmetry. apply Z.compare_lt_iff. lia.
    + intros x y Hx Hy.
      apply in_map_iff in Hx. destruct Hx as [x0 [<- Hx]]. destruct (Hblk _ Hx) as [b [p0 [_ [Hb ->]]]].
      apply in_map_iff in Hy. destruct Hy as [[ky py] [<- Hy]].
      apply in_flat_map in Hy. destruct Hy as [[c1' p1'] [Hin' Hy]].
      apply in_map_iff in Hy. destruct Hy as [[c0' p0'] [Ey Hy]]. inversion Ey; subst. simpl.
      rewrite Forall_forall in Htop'. destruct (Htop' _ Hin') as [a' [Ea' Ha']]. simpl in Ea'. subst c1'.
      unfold cpresent in Hy. apply filter_In in Hy. destruct Hy as [Hy _].
      rewrite Forall_forall in Hlow'. destruct (Hlow' _ Hin') as [_ Hr']. simpl in Hr'.
      rewrite Forall_forall in Hr'. destruct (Hr' _ Hy) as [b' [Eb' Hb']]. simpl in Eb'. subst c0'.
      assert (Hlt : ccmp [a] [a'] = Lt).
      { rewrite Forall_forall in Hc1. apply Hc1. apply in_map_iff. exists ([a'], p1'). auto. }
      apply ccmp_single in Hlt. rewrite Z.compare_lt_iff in Hlt.
      rewrite flatten_coords_lin. unfold ccmp. simpl.
      replace (a * sh + b ?= a' * sh + b') with Lt; [reflexivity|]. symmetry. apply Z.compare_lt_iff. nia.
  - apply Forall_app. split; [|exact I2].
    apply Forall_forall. intros x Hx. destruct (Hblk _ Hx) as [b [p0 [_ [Hb ->]]]].
    exists (a * sh + b). split; [reflexivity|]. nia.
Qed.

Lemma in_range_map_fst : forall hi (es cur : cfib), map fst cur = map fst es ->
  Forall (in_range hi) es -> Forall (in_range hi) cur.
Proof.
  intros hi es cur. revert es. induction cur as [|[c p] cur IH]; intros [|[c' p'] es] E H; try discriminate; [constructor|].
  simpl in E. inversion E; subst. inversion H as [|? ? [x [Ex Hx]] Hr]; subst.
  constructor; [exists x; auto|eapply IH; eauto].
Qed.

Definition RlowL (f : list coord -> list coord) (d hi : Z) (cp cp' : coord * ct) : Prop :=
  Rlow f d cp cp' /\ Forall (in_range hi) (sub (snd cp')).

Lemma RlowL_split : forall f d hi es cur, Forall2 (RlowL f d hi) es cur ->
  Forall2 (Rlow f d) es cur /\ Forall (fun cp => Forall (in_range hi) (sub (snd cp))) cur.
Proof.
  intros f d hi es cur H. induction H as [|cp cp' es cur [H1 H2] _ [I1 I2]]; split; constructor; auto.
Qed.

Theorem flatten_levels_lin : forall l raise fuel shapes d es,
  (S (S l) <= length shapes)%nat -> wfl (S l) es -> wfs (S l) shapes es ->
  exists r, merge_helper (S l) st_linear raise fuel shapes d es = Some r
    /\ ccontent d (CN r) = map (on_pt (imglin (S l) shapes)) (ccontent d (CN es))
    /\ pw ccmp (map fst r)
    /\ Forall (in_range (hd 0 shapes * prodZ (firstn (S l) (tl shapes)))) r.
Proof.
  induction l as [|l IH]; intros raise fuel shapes d es Hlen Hwf Hws.
  - destruct shapes as [|s0 [|s1 ss]]; simpl in Hlen; try lia.
    destruct Hwf as [Hpw [Hsg Hsub]]. destruct Hws as [Htop Hsubs]. cbn [hd tl] in *.
    set (sh := prodZ (firstn 1 (s1 :: ss))).
    assert (Esh : sh = s1) by (unfold sh; simpl; lia).
    assert (Hf : all_fibers es = true).
    { unfold all_fibers. apply forallb_forall. intros cp Hin. rewrite Forall_forall in Hsub.
      destruct (Hsub _ Hin) as [s [E _]]. rewrite E. reflexivity. }
    assert (Hlow : Forall (fun cp => pw ccmp (map fst (sub (snd cp))) /\ Forall (in_range sh) (sub (snd cp))) es).
    { apply Forall_forall. intros cp Hin. rewrite Forall_forall in Hsub, Hsubs.
      destruct (Hsub _ Hin) as [s [E Hw]]. destruct (Hsubs _ Hin) as [s' [E' [Hr _]]].
      rewrite E in E'. inversion E'; subst s'. rewrite E. simpl. split; [eapply wfl_pw; exact Hw|].
      rewrite Esh. exact Hr. }
    destruct (merge_items_keys_lin sh s0 d es Hpw Htop Hlow) as [Hk Hrange].
    eexists. split; [apply merge_helper_1'; [exact Hf|exact Hk]|]. split; [|split; [exact Hk|exact Hrange]].
    cbn [tl]. fold sh. rewrite (merge_items_content_lin sh sh d es Hf).
    + apply map_ext. intros [p v]. unfold on_pt. simpl. destruct p; reflexivity.
    + eapply Forall_impl; [|exact Htop]. intros cp [c [E _]]. exists c. exact E.
    + eapply Forall_impl; [|exact Hlow]. intros cp [_ H]. exact H.
  - destruct shapes as [|s0 [|s1 ss]]; simpl in Hlen; try lia.
    destruct Hwf as [Hpw [Hsg Hsub]]. destruct Hws as [Htop Hsubs]. cbn [hd tl] in *.
    set (sh := prodZ (firstn (S (S l)) (s1 :: ss))).
    destruct (all_some_Forall2 (lowF l st_linear raise fuel (s0 :: s1 :: ss) d)
                (RlowL (imglin (S l) (s1 :: ss)) d sh) es) as [cur [Ecur Rcur]].
    { intros [c p] Hin. rewrite Forall_forall in Hsub, Hsubs.
      destruct (Hsub _ Hin) as [s [E Hw]]. destruct (Hsubs _ Hin) as [s' [E' Hws']].
      simpl in E, E'. subst p. inversion E'; subst s'.
      destruct (IH raise fuel (s1 :: ss) d s ltac:(simpl; lia) Hw Hws') as [r [Er [Hc [Hp Hr]]]].
      exists (c, CN r). unfold lowF. cbn [snd fst tl]. rewrite Er. cbn [option_map]. split; [reflexivity|].
      split; [split; [reflexivity|exists s, r; auto]|]. exact Hr. }
    destruct (RlowL_split _ _ _ _ _ Rcur) as [Rcur' Hranges].
    destruct (Rlow_facts _ _ _ _ Rcur') as [F1 [F2 [F3 F4]]].
    assert (Hlow : Forall (fun cp => pw ccmp (map fst (sub (snd cp))) /\ Forall (in_range sh) (sub (snd cp))) cur).
    { clear -F3 Hranges. induction cur as [|cp cur IHc]; [constructor|].
      inversion F3; inversion Hranges; subst. constructor; auto. }
    assert (Htop' : Forall (in_range s0) cur) by (eapply in_range_map_fst; eauto).
    assert (Hpw' : pw ccmp (map fst cur)) by (rewrite F1; exact Hpw).
    destruct (merge_items_keys_lin sh s0 d cur Hpw' Htop' Hlow) as [Hk Hrange].
    eexists. split.
    + rewrite merge_helper_step, Ecur. rewrite existsb_leaf_false by exact F2.
      fold sh. rewrite group_items_asc by exact Hk. apply merge_singles.
    + split; [|split; [exact Hk|exact Hrange]].
      cbn [tl]. fold sh. rewrite (merge_items_content_lin sh sh d cur F2).
      * rewrite F4, map_map. apply map_ext. intros [p v]. reflexivity.
      * eapply Forall_impl; [|exact Htop']. intros cp [c [E _]]. exists c. exact E.
      * exact Hranges.
Qed.

(* closed form: Horner over the shapes of the flattened ranks (the oracle's formula) *)
Lemma horner_acc : forall cs shapes acc, length cs = length shapes ->
  fold_left (fun acc cs0 => acc * snd cs0 + hd 0 (fst cs0)) (combine cs shapes) acc
  = acc * prodZ shapes + fold_left (fun acc cs0 => acc * snd cs0 + hd 0 (fst cs0)) (combine cs shapes) 0.
Proof.
  induction cs as [|c cs IH]; intros [|s ss] acc H; simpl in H; try lia; simpl; [lia|].
  rewrite (IH ss (acc * s + hd 0 c)) by lia. rewrite (IH ss (hd 0 c)) by lia. ring.
Qed.

Lemma imglin_closed : forall levels shapes p,
  (levels < length p)%nat -> (S levels <= length shapes)%nat ->
  Forall (fun c => is_single c = true) (firstn (S levels) p) ->
  imglin levels shapes p
  = [horner (firstn (S levels) p) (firstn (S levels) shapes)] :: skipn (S levels) p.
Proof.
  induction levels as [|l IH]; intros shapes p Hp Hs Hsg.
  - destruct p as [|c q]; [simpl in Hp; lia|]. destruct shapes as [|s0 ss]; [simpl in Hs; lia|].
    inversion Hsg as [|? ? Hc _]; subst. destruct c as [|a [|? ?]]; try discriminate.
    unfold horner. simpl. reflexivity.
  - destruct p as [|c q]; [simpl in Hp; lia|]. destruct shapes as [|s0 ss]; [simpl in Hs; lia|].
    simpl in Hp, Hs. inversion Hsg as [|? ? Hc Hq]; subst. destruct c as [|a [|? ?]]; try discriminate.
    change (imglin (S l) (s0 :: ss) ([a] :: q))
      with (lin2 (prodZ (firstn (S l) ss)) ([a] :: imglin l ss q)).
    rewrite (IH ss q) by (auto; lia). cbn [lin2]. f_equal. f_equal.
    unfold horner. rewrite !firstn_cons. cbn [combine fold_left fst snd hd].
    symmetry. etransitivity; [apply horner_acc; rewrite !firstn_length; lia|]. f_equal; try ring; reflexivity.
Qed.
