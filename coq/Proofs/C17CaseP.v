(* C17CaseP.v — the cache refinement for cases: the model's merged schedule of a well-formed case
   in region 0 is a well-formed schedule (wfs), it is the image of the same underlying sorted
   list as the oracle's schedule, and the policy gives the same fills on both. *)
From Coq Require Import ZArith List Bool Lia PeanoNat Permutation.
From FT Require Import Model.Base Model.Obs Model.C17Traffic Model.C17Check
                       Proofs.ObsP Proofs.C17TrafficP Proofs.C17CheckP Proofs.C17SchedP
                       Proofs.C17BuffetP Proofs.C17LiftP Proofs.C17CacheP Proofs.C17SortP
                       Proofs.C17ParamP.
Import ListNotations.
Open Scope Z_scope.

(* ------------------------------------------------------------------ same_line is an equivalence *)
Lemma same_line_iff a b : same_line a b = true <-> (s_pre a = s_pre b /\ s_ln a = s_ln b).
Proof. unfold same_line. rewrite andb_true_iff, list_eqb_eq, Z.eqb_eq. tauto. Qed.

(* in a stamp-sorted access list without ties, equal stamps mean the same line *)
Lemma no_ties_all : forall l,
  sorted_by lex_le (map s_stamp l) = true -> no_ties l = true ->
  forall u v, In u l -> In v l -> s_stamp u = s_stamp v -> same_line u v = true.
Proof.
  induction l as [|a l IH]; intros S T u v Hu Hv E; [destruct Hu|].
  assert (Sl : sorted_by lex_le (map s_stamp l) = true) by (cbn [map] in S; eapply sorted_tl; exact S).
  assert (Tl : no_ties l = true).
  { cbn [no_ties] in T. destruct l; auto. apply andb_true_iff in T. tauto. }
  assert (Key : forall w, In w l -> s_stamp a = s_stamp w -> same_line a w = true).
  { intros w Hw Ew. destruct l as [|b l']; [destruct Hw|].
    cbn [no_ties] in T. apply andb_true_iff in T. destruct T as [T1 _].
    cbn [map] in S. pose proof (sorted_le_all _ _ S) as Sa.
    (* stamp a <= stamp b <= stamp w = stamp a *)
    assert (Eb : s_stamp a = s_stamp b).
    { apply lex_total.
      - destruct Hw as [<-|Hw]; [rewrite Ew; apply lex_lt_irrefl|].
        cbn [map] in Sl. pose proof (sorted_le_all _ _ Sl (s_stamp w) (in_map _ _ _ Hw)) as H1.
        rewrite Ew. exact H1.
      - apply Sa. left. reflexivity. }
    rewrite Eb, lex_lt_irrefl in T1. cbn [orb] in T1.
    destruct Hw as [<-|Hw]; [exact T1|].
    pose proof (IH Sl Tl b w (or_introl eq_refl) (or_intror Hw) ltac:(congruence)) as H2.
    apply same_line_iff in T1, H2. apply same_line_iff. destruct T1, H2. split; congruence. }
  destruct Hu as [<-|Hu], Hv as [<-|Hv].
  - apply same_line_iff. auto.
  - apply Key; auto.
  - pose proof (Key u Hu (eq_sym E)) as H. apply same_line_iff in H. apply same_line_iff. destruct H; split; congruence.
  - apply IH; auto.
Qed.

(* ------------------------------------------------------------------ a well-formed schedule from
   sortedness, the pair property and the per-binding next-use stamps *)
Lemma firstof_proj i a : forall rest,
  option_map (fun y : sa => a_stamp (snd y)) (firstof (idz (i, a)) rest)
  = option_map a_stamp (find (obj_eq a) (proj i rest)).
Proof.
  unfold firstof, proj. induction rest as [|[j b] rest IH]; cbn [find filter map fst]; auto.
  unfold idmatch at 1, idz. cbn [fst snd].
  destruct (Nat.eqb_spec j i) as [->|N].
  - rewrite Z.eqb_refl. cbn [andb map find snd]. unfold obj_eq at 1.
    destruct (list_eqb (a_obj a) (a_obj b)); [reflexivity|exact IH].
  - assert (Z.eqb (Z.of_nat i) (Z.of_nat j) = false) as -> by (apply Z.eqb_neq; lia).
    cbn [andb]. exact IH.
Qed.

Lemma wfs_of : forall sched,
  sortedG (fun x y => clt x y) sched ->
  (forall x y, In x sched -> In y sched -> clt x y = false -> clt y x = false -> idz x = idz y) ->
  (forall i, nextok (proj i sched)) ->
  wfs sched.
Proof.
  induction sched as [|[i a] r IH]; intros S Pr Nx; cbn [wfs]; [exact I|].
  cbn [sortedG] in S. destruct S as [Sh Sr]. repeat split.
  - exact Sh.
  - intros y Hy C. apply Pr; [left; reflexivity|right; exact Hy|exact C|apply Sh; exact Hy].
  - cbn [snd]. rewrite firstof_proj. pose proof (Nx i) as N. unfold proj in N. cbn [filter fst] in N.
    rewrite Nat.eqb_refl in N. cbn [map snd nextok] in N. apply N.
  - apply IH; auto.
    + intros x y Hx Hy. apply Pr; right; assumption.
    + intros j. pose proof (Nx j) as N. unfold proj in N |- *. cbn [filter fst] in N.
      destruct (Nat.eqb i j); [cbn [map nextok] in N; tauto|exact N].
Qed.

(* key order implies the cache's order for well-shaped stamps *)
Definition stamp_ok (nord : nat) (x : sa) : Prop :=
  nonneg (a_stamp (snd x)) /\ (length (a_stamp (snd x)) <= nord)%nat.

Lemma clt_key nord x y : stamp_ok nord x -> stamp_ok nord y ->
  clt y x = true -> keylt nord y x = true.
Proof.
  intros [Nx Lx] [Ny Ly] C. unfold keylt, kof, key_of.
  rewrite lex_lt_snoc by (rewrite !pad_length; reflexivity).
  unfold clt in C. destruct (list_eqb (a_stamp (snd y)) (a_stamp (snd x))) eqn:E.
  - apply list_eqb_eq in E. rewrite E, list_eqb_refl. exact C.
  - pose proof (pad_lt nord _ _ Ny Nx Ly Lx C) as P.
    destruct (list_eqb (pad (a_stamp (snd y)) nord) (pad (a_stamp (snd x)) nord)) eqn:E2; auto.
    apply list_eqb_eq in E2. rewrite E2, lex_lt_irrefl in P. discriminate.
Qed.

Lemma clt_both_false x y : clt x y = false -> clt y x = false ->
  fst x = fst y /\ a_stamp (snd x) = a_stamp (snd y).
Proof.
  unfold clt. rewrite (list_eqb_sym (a_stamp (snd y))).
  destruct (list_eqb (a_stamp (snd x)) (a_stamp (snd y))) eqn:E.
  - apply list_eqb_eq in E. intros H1 H2. split; auto. lia.
  - intros H1 H2. apply list_eqb_neq in E. exfalso. apply E. apply lex_total; assumption.
Qed.

(* ------------------------------------------------------------------ facts about one binding *)
Lemma bind_ok_rows c b : bind_ok c b = true ->
  forall r, In r (opt_rows (k_read b)) \/ In r (opt_rows (k_write b)) -> row_ok (S (k_r b)) r = true.
Proof.
  unfold bind_ok, trace_ok. intros H.
  repeat (apply andb_true_iff in H; destruct H as [H ?]).
  repeat match goal with X : _ && _ = true |- _ => apply andb_true_iff in X; destruct X end.
  intros r [Hr|Hr]; match goal with F : forallb _ ?l = true, I : In r ?l |- _ =>
    rewrite forallb_forall in F; exact (F r I) end.
Qed.

Lemma row_ok_stamp n r : row_ok n r = true -> nonneg (r_stamp r) /\ length (r_stamp r) = n.
Proof.
  unfold row_ok. intros H. repeat (apply andb_true_iff in H; destruct H as [H ?]).
  split.
  - apply Forall_forall. intros z Hz.
    match goal with F : forallb (Z.leb 0) (r_stamp r) = true |- _ =>
      rewrite forallb_forall in F; specialize (F z Hz); lia end.
  - apply Nat.eqb_eq. assumption.
Qed.

Lemma acc_stamps_sorted c pin b : bind_ok c b = true ->
  sorted_by lex_le (map a_stamp (acc_of c pin b)) = true.
Proof.
  intros B. destruct (bind_ok_traces c b B) as [Hr Hw].
  unfold acc_of, accesses. rewrite next_use_is_spec, stamps_accesses, <- sorted_crow_stamps.
  rewrite (combine_is_sort _ _ Hr Hw). apply ssort_sorted.
Qed.

Lemma acc_stamp_ok c pin b a : bind_ok c b = true -> In a (acc_of c pin b) ->
  nonneg (a_stamp a) /\ length (a_stamp a) = S (k_r b).
Proof.
  intros B Ha. apply (in_map a_stamp) in Ha. unfold acc_of, accesses in Ha.
  rewrite next_use_is_spec, stamps_accesses in Ha. apply in_map_iff in Ha. destruct Ha as [cr [E Hc]].
  rewrite <- E. apply (row_ok_stamp (S (k_r b))). apply (bind_ok_rows c b B).
  destruct (combine_in _ _ _ Hc); auto.
Qed.

Section Case.
Variable c : c17_case.
Hypothesis W : c17_wf c = true.

Definition cbs : list c17_bind := sort_binds (k_binds c).
Definition cnord : nat := S (max_r cbs).
Definition bmask (b : c17_bind) := mask_of (tensor_of c b) (k_r b).
Definition bshape (b : c17_bind) := if pin_cache b then Some (shape_of (tensor_of c b) (k_r b)) else None.
Definition bX (b : c17_bind) : list (crow * option crow) :=
  nu_spec (bmask b) (epl_of c b) (combine_traces (opt_rows (k_read b)) (opt_rows (k_write b))).
Notation ux := (c17_bind * (crow * option crow))%type.
Definition phif (bx : ux) : access := mk_access (bmask (fst bx)) (epl_of c (fst bx)) (bshape (fst bx)) (snd bx).
Definition phig (bx : ux) : sacc := mk_sacc (bmask (fst bx)) (epl_of c (fst bx)) (bshape (fst bx)) (fst (snd bx)).
Definition Ls : list (list ux) := map (fun b => map (pair b) (bX b)) cbs.
Definition Ff (u : nat * ux) : nat * access := (fst u, phif (snd u)).
Definition Gf (u : nat * ux) : nat * sacc := (fst u, phig (snd u)).

Lemma cbs_ok b : In b cbs -> bind_ok c b = true.
Proof.
  intros H. pose proof (wf_binds c W) as F. rewrite forallb_forall in F. apply F.
  apply (Permutation_in _ (sort_binds_perm (k_binds c))). exact H.
Qed.

Lemma acc_phif b : acc_of c pin_cache b = map phif (map (pair b) (bX b)).
Proof. unfold acc_of, accesses. rewrite next_use_is_spec, map_map. reflexivity. Qed.

Lemma spec_phig b : bind_ok c b = true -> spec_acc c pin_cache b = map phig (map (pair b) (bX b)).
Proof. intros B. rewrite (spec_acc_rows c pin_cache b B), map_map. reflexivity. Qed.

Lemma rem_model : map (acc_of c pin_cache) cbs = map (map phif) Ls.
Proof. unfold Ls. rewrite map_map. apply map_ext. intros b. apply acc_phif. Qed.

Lemma rem_spec : map (spec_acc c pin_cache) cbs = map (map phig) Ls.
Proof. unfold Ls. rewrite map_map. apply map_ext_in. intros b Hb. apply spec_phig. apply cbs_ok. exact Hb. Qed.

Lemma tag_from_map {A B} (phi : A -> B) : forall (L : list (list A)) k,
  tag_from k (map (map phi) L) = map (fun u => (fst u, phi (snd u))) (tag_from k L).
Proof.
  induction L as [|l L IH]; intros k; cbn [map tag_from]; auto.
  rewrite map_app, IH, !map_map. reflexivity.
Qed.

Definition ustamp (u : nat * ux) : list Z := r_stamp (fst (fst (snd (snd u)))).
Definition ult (u v : nat * ux) : bool :=
  lex_lt (pad (ustamp u) cnord ++ [Z.of_nat (fst u)]) (pad (ustamp v) cnord ++ [Z.of_nat (fst v)]).
Definition UU : list (nat * ux) := ssort ult (tag_from 0 Ls).

(* every element of the tagged underlying list carries the binding of its tag *)
Definition Dom (u : nat * ux) : Prop := In (fst (snd u)) cbs /\ nth (fst u) cbs bind0 = fst (snd u)
                                        /\ In (snd (snd u)) (bX (fst (snd u))).

Lemma tag_Ls_dom : forall u, In u (tag_from 0 Ls) -> Dom u.
Proof.
  intros [i [b x]] H. destruct (tag_from_in _ _ _ _ H) as [_ Hb]. rewrite Nat.sub_0_r in Hb.
  unfold Ls in Hb. destruct (Nat.lt_ge_cases i (length cbs)) as [Hi|Hi].
  - rewrite (nth_indep _ [] (map (pair bind0) (bX bind0))) in Hb by (rewrite map_length; exact Hi).
    rewrite (map_nth (fun b => map (pair b) (bX b))) in Hb. apply in_map_iff in Hb.
    destruct Hb as [x' [E Hx]]. inversion E; subst. unfold Dom. cbn [fst snd].
    split; [apply nth_In; exact Hi|]. split; [reflexivity|exact Hx].
  - rewrite nth_overflow in Hb by (rewrite map_length; exact Hi). destruct Hb.
Qed.

Lemma UU_dom u : In u UU -> Dom u.
Proof. intros H. apply tag_Ls_dom. apply (Permutation_in _ (gssort_perm ult _) H). Qed.
End Case.

(* ------------------------------------------------------------------ the two schedules *)
Lemma sortedA_of_stamps nord i : forall l,
  sorted_by lex_le (map a_stamp l) = true ->
  (forall a, In a l -> nonneg (a_stamp a) /\ (length (a_stamp a) <= nord)%nat) ->
  sortedA nord i l.
Proof.
  induction l as [|a l IH]; intros S Ok; cbn [sortedA]; [exact I|]. split.
  - intros b Hb. cbn [map] in S. pose proof (sorted_le_all _ _ S (a_stamp b) (in_map _ _ _ Hb)) as Le.
    destruct (Ok a (or_introl eq_refl)) as [Na La]. destruct (Ok b (or_intror Hb)) as [Nb Lb].
    unfold key_of. rewrite lex_lt_snoc by (rewrite !pad_length; reflexivity).
    destruct (list_eqb (pad (a_stamp b) nord) (pad (a_stamp a) nord)); [apply Z.ltb_irrefl|].
    destruct (lex_lt (a_stamp a) (a_stamp b)) eqn:L.
    + apply lex_lt_asym. apply pad_lt; auto.
    + assert (a_stamp a = a_stamp b) as -> by (apply lex_total; assumption). apply lex_lt_irrefl.
  - apply IH; [cbn [map] in S; eapply sorted_tl; exact S|]. intros x Hx. apply Ok. right. exact Hx.
Qed.

Lemma nth_map_acc c i a :
  In a (nth i (map (acc_of c pin_cache) (cbs c)) []) ->
  In (nth i (cbs c) bind0) (cbs c) /\ In a (acc_of c pin_cache (nth i (cbs c) bind0)).
Proof.
  intros H. destruct (Nat.lt_ge_cases i (length (cbs c))) as [Hi|Hi].
  - rewrite (nth_indep _ [] (acc_of c pin_cache bind0)) in H by (rewrite map_length; exact Hi).
    rewrite map_nth in H. split; [apply nth_In; exact Hi|exact H].
  - rewrite nth_overflow in H by (rewrite map_length; exact Hi). destruct H.
Qed.

Lemma cbs_rank c b : In b (cbs c) -> (S (k_r b) <= cnord c)%nat.
Proof. intros H. unfold cnord. pose proof (max_r_bound (cbs c) b H). lia. Qed.

Lemma sched_lists_sorted c : c17_wf c = true ->
  forall i, sortedA (cnord c) i (nth i (map (acc_of c pin_cache) (cbs c)) []).
Proof.
  intros W i. destruct (Nat.lt_ge_cases i (length (cbs c))) as [Hi|Hi].
  - rewrite (nth_indep _ [] (acc_of c pin_cache bind0)) by (rewrite map_length; exact Hi).
    rewrite map_nth. set (b := nth i (cbs c) bind0).
    assert (Hb : In b (cbs c)) by (apply nth_In; exact Hi).
    pose proof (cbs_ok c W b Hb) as B.
    apply sortedA_of_stamps; [apply acc_stamps_sorted; exact B|].
    intros a Ha. destruct (acc_stamp_ok c pin_cache b a B Ha) as [N L]. split; auto.
    rewrite L. apply cbs_rank. exact Hb.
  - rewrite nth_overflow by (rewrite map_length; exact Hi). exact I.
Qed.

Lemma sched_model c : c17_wf c = true -> sched_of c pin_cache = map (Ff c) (UU c).
Proof.
  intros W. unfold sched_of. fold (cbs c). fold (cnord c).
  rewrite (the_schedule_is_sort (cnord c) _ (sched_lists_sorted c W)).
  rewrite rem_model, tag_from_map. unfold UU.
  apply (gssort_map (ult c) (keylt (cnord c)) (Ff c)). intros x y. reflexivity.
Qed.

Lemma sched_spec c : c17_wf c = true -> spec_sched c = map (Gf c) (UU c).
Proof.
  intros W. unfold spec_sched. rewrite <- sort_binds_isort. fold (cbs c). fold (cnord c).
  rewrite (rem_spec c W), tag_from_map. unfold UU.
  apply (gssort_map (ult c) _ (Gf c)). intros x y. reflexivity.
Qed.

(* ------------------------------------------------------------------ region 0: the model's schedule
   is well formed *)
Lemma same_stamp_same_obj c b : bind_ok c b = true -> no_ties (spec_acc c pin_cache b) = true ->
  forall a a', In a (acc_of c pin_cache b) -> In a' (acc_of c pin_cache b) ->
  a_stamp a = a_stamp a' -> a_obj a = a_obj a'.
Proof.
  intros B T a a' Ha Ha' E. rewrite acc_phif in Ha, Ha'. rewrite map_map in Ha, Ha'.
  apply in_map_iff in Ha, Ha'. destruct Ha as [x [<- Hx]]. destruct Ha' as [x' [<- Hx']].
  pose proof (spec_phig c b B) as Sp. rewrite map_map in Sp.
  assert (Srt : sorted_by lex_le (map s_stamp (spec_acc c pin_cache b)) = true).
  { destruct (bind_ok_traces c b B) as [Hr Hw]. unfold spec_acc. rewrite map_map.
    rewrite <- sorted_crow_stamps. apply ssort_sorted. }
  pose proof (no_ties_all _ Srt T (phig c (b, x)) (phig c (b, x'))) as SL.
  rewrite Sp in SL. specialize (SL (in_map _ _ _ Hx) (in_map _ _ _ Hx') E).
  unfold phig in SL. cbn [fst snd] in SL.
  rewrite <- (obj_line (bmask c b) (epl_of c b) (bshape c b) (fst x) (fst x') (epl_pos c b B)) in SL.
  apply list_eqb_eq in SL. exact SL.
Qed.

Lemma in_sched_proj (i : nat) (a : access) s : In (i, a) s -> In a (proj i s).
Proof.
  intros H. unfold proj. apply in_map_iff. exists (i, a). split; auto.
  apply filter_In. split; auto. apply Nat.eqb_refl.
Qed.

Lemma sortedG_conv {A} (lt1 lt2 : A -> A -> bool) : forall l,
  sortedG lt1 l -> (forall x y, In x l -> In y l -> lt1 y x = false -> lt2 y x = false) ->
  sortedG lt2 l.
Proof.
  induction l as [|x l IH]; intros S H; cbn [sortedG] in *; auto. destruct S as [Sx Sl]. split.
  - intros y Hy. apply H; [left; reflexivity|right; exact Hy|apply Sx; exact Hy].
  - apply IH; auto. intros u v Hu Hv. apply H; right; assumption.
Qed.

Lemma sched_wfs c : c17_wf c = true ->
  forallb (fun b => no_ties (spec_acc c pin_cache b)) (k_binds c) = true ->
  wfs (sched_of c pin_cache).
Proof.
  intros W T. rewrite forallb_forall in T.
  set (rem := map (acc_of c pin_cache) (cbs c)).
  assert (Es : sched_of c pin_cache = the_schedule (cnord c) rem) by reflexivity.
  assert (Elem : forall i a, In (i, a) (sched_of c pin_cache) ->
            In (nth i (cbs c) bind0) (cbs c) /\ In a (acc_of c pin_cache (nth i (cbs c) bind0))).
  { intros i a H. apply in_sched_proj in H. rewrite Es, the_schedule_proj in H. apply nth_map_acc. exact H. }
  assert (Sok : forall x, In x (sched_of c pin_cache) -> stamp_ok (cnord c) x).
  { intros [i a] H. destruct (Elem i a H) as [Hb Ha].
    destruct (acc_stamp_ok c pin_cache _ a (cbs_ok c W _ Hb) Ha) as [N L].
    split; cbn [snd]; auto. rewrite L. apply cbs_rank. exact Hb. }
  apply wfs_of.
  - apply (sortedG_conv (keylt (cnord c))).
    + rewrite Es, (the_schedule_is_sort (cnord c) rem (sched_lists_sorted c W)).
      apply gssort_sorted.
      * intros a b. apply lex_lt_asym.
      * intros a b d. apply lex_le_trans.
    + intros x y Hx Hy K. destruct (clt y x) eqn:C; auto.
      rewrite (clt_key (cnord c) x y (Sok x Hx) (Sok y Hy) C) in K. discriminate.
  - intros [i a] [j a'] Hx Hy C1 C2. destruct (clt_both_false _ _ C1 C2) as [Et Est]. cbn [fst snd] in Et, Est.
    subst j. destruct (Elem i a Hx) as [Hb Ha]. destruct (Elem i a' Hy) as [_ Ha'].
    unfold idz. cbn [fst snd]. f_equal.
    apply (same_stamp_same_obj c (nth i (cbs c) bind0)); auto.
    + apply cbs_ok; auto.
    + apply T. apply (Permutation_in _ (sort_binds_perm (k_binds c))). exact Hb.
  - intros i. rewrite Es, the_schedule_proj. unfold rem.
    destruct (Nat.lt_ge_cases i (length (cbs c))) as [Hi|Hi].
    + rewrite (nth_indep _ [] (acc_of c pin_cache bind0)) by (rewrite map_length; exact Hi).
      rewrite map_nth. unfold acc_of, accesses. rewrite next_use_is_spec. apply nextok_accesses.
    + rewrite nth_overflow by (rewrite map_length; exact Hi). exact I.
Qed.

(* ------------------------------------------------------------------ the policy on both schedules *)
Lemma policy_transfer c cap fills : c17_wf c = true ->
  g_min_run aid_eq aw astg fst cap (k_line c) (map (Ff c) (UU c)) [] [] fills
  = min_run cap (k_line c) (map (Gf c) (UU c)) [] [] fills.
Proof.
  intros W. unfold min_run.
  pose proof (min_run_map (Ff c) aid_eq aw astg fst cap (k_line c) (UU c) [] [] fills) as E1.
  pose proof (min_run_map (Gf c) same_id (fun x => s_w (snd x)) (fun x => s_stg (snd x)) fst
                          cap (k_line c) (UU c) [] [] fills) as E2.
  cbn [map] in E1, E2.
  etransitivity; [exact E1|]. symmetry. etransitivity; [exact E2|]. symmetry.
  apply (min_run_ext (Dom c)).
  - intros u v (Bu & Nu & _) (Bv & Nv & _). unfold aid_eq, same_id, Ff, Gf. cbn [fst snd].
    destruct (Nat.eqb_spec (fst u) (fst v)) as [E|E]; cbn [andb]; auto.
    assert (Eb : fst (snd u) = fst (snd v)) by (rewrite <- Nu, <- Nv, E; reflexivity).
    unfold phif, phig. rewrite Eb. cbn [a_obj].
    apply (obj_line (bmask c (fst (snd v))) (epl_of c (fst (snd v))) (bshape c (fst (snd v)))
                    (fst (snd (snd u))) (fst (snd (snd v)))).
    apply epl_pos. apply cbs_ok; auto.
  - intros u _. reflexivity.
  - intros u _. reflexivity.
  - intros u _. reflexivity.
  - intros u Hu. apply UU_dom. exact Hu.
  - intros y [].
  - intros y [].
Qed.

(* ------------------------------------------------------------------ per-tensor read bits *)
Lemma combine_reads line ti : forall (bs : list c17_bind) (tr : list (Z * Z)) (fl : list Z),
  map fst tr = map (Z.mul line) fl ->
  existsb (fun bt : c17_bind * (Z * Z) => has_r (fst bt))
          (filter (fun bt => Nat.eqb (k_t (fst bt)) ti) (combine bs tr))
  = existsb (fun bf : c17_bind * Z => has_r (fst bf))
            (filter (fun bf => Nat.eqb (k_t (fst bf)) ti) (combine bs fl))
  /\ sumZ (map (fun bt : c17_bind * (Z * Z) => fst (snd bt))
               (filter (fun bt => Nat.eqb (k_t (fst bt)) ti) (combine bs tr)))
     = line * sumZ (map snd (filter (fun bf : c17_bind * Z => Nat.eqb (k_t (fst bf)) ti) (combine bs fl))).
Proof.
  induction bs as [|b bs IH]; intros tr fl H; [cbn; split; [reflexivity|lia]|].
  destruct tr as [|p tr], fl as [|z fl]; cbn [map] in H; try discriminate.
  - cbn. split; [reflexivity|lia].
  - inversion H as [[Hp Ht]]. destruct (IH tr fl Ht) as [E1 E2].
    cbn [combine filter fst]. destruct (Nat.eqb (k_t b) ti); cbn [existsb map sumZ fold_right fst snd].
    + fold (sumZ (map (fun bt : c17_bind * (Z * Z) => fst (snd bt))
                      (filter (fun bt => Nat.eqb (k_t (fst bt)) ti) (combine bs tr)))).
      fold (sumZ (map snd (filter (fun bf : c17_bind * Z => Nat.eqb (k_t (fst bf)) ti) (combine bs fl)))).
      rewrite E1, E2, Hp. split; [reflexivity|lia].
    + split; assumption.
Qed.

Lemma min_run_len {A} (same : A -> A -> bool) (w s : A -> bool) (bi : A -> nat) cap line :
  forall U R P fills, length (g_min_run same w s bi cap line U R P fills) = length fills.
Proof.
  assert (Lu : forall i (f : Z -> Z) (l : list Z), length (upd i f l) = length l)
    by (intros; apply upd_length).
  induction U as [|x U IH]; intros R P fills; cbn [g_min_run]; auto.
  destruct (existsb _ _).
  - destruct (g_next_idx _ _ _); apply IH.
  - assert (Lf : length (if w x then fills else upd (bi x) (Z.add 1) fills) = length fills)
      by (destruct (w x); auto).
    destruct (g_next_idx _ _ _); [|rewrite IH; exact Lf].
    destruct (Z.leb _ _); [destruct (s x); rewrite IH; exact Lf|].
    destruct (s x); [rewrite IH; exact Lf|].
    destruct (g_furthest _ _ _); [|rewrite IH; exact Lf].
    destruct (later _ _); rewrite IH; exact Lf.
Qed.

(* C17_cache_refines_min: outside region 1 the cache run of the model never fails and its
   per-tensor read bits are those of the oracle's policy *)
Theorem cache_refines_min c cap : c17_wf c = true ->
  forallb (fun b => no_ties (spec_acc c pin_cache b)) (k_binds c) = true ->
  c_err (cache_run (length (cbs c)) cap (k_line c) (sched_of c pin_cache)) = 0
  /\ reads_of (model_cache c cap) = spec_cache_reads c cap.
Proof.
  intros W T.
  pose proof (sched_wfs c W T) as Ws.
  destruct (cache_machine_spec cap (k_line c) (length (cbs c)) _ Ws) as [Er Tr]. cbn zeta in Er, Tr.
  split; [exact Er|].
  assert (Lb : length (k_binds c) = length (cbs c)).
  { symmetry. apply Permutation_length. apply sort_binds_perm. }
  assert (Efl : g_min_run aid_eq aw astg fst cap (k_line c) (sched_of c pin_cache) [] []
                          (repeat 0 (length (cbs c))) = spec_min c cap).
  { unfold spec_min. rewrite (sched_model c W), (sched_spec c W), Lb. apply policy_transfer. exact W. }
  rewrite Efl in Tr.
  unfold model_cache. fold (cbs c). rewrite Er. cbn [Z.eqb].
  unfold reads_of, V_result, spec_cache_reads, vnth. cbn [vl nth]. unfold Vl. cbn [vl].
  rewrite map_map. rewrite <- sort_binds_isort. fold (cbs c).
  apply map_ext. intros ti. unfold V_tensor. cbn [vl nth].
  destruct (combine_reads (k_line c) ti (cbs c) _ _ Tr) as [E1 E2].
  rewrite E1, E2. reflexivity.
Qed.

Lemma region0_no_ties c cap : c17_region c = 0 -> In cap (k_caps c) ->
  forallb (fun b => no_ties (spec_acc c pin_cache b)) (k_binds c) = true.
Proof.
  unfold c17_region. intros R H. destruct (k_caps c); [destruct H|].
  destruct (forallb _ (k_binds c)); [reflexivity|discriminate].
Qed.

Lemma forallb_combine_map {A B} (f : A * B -> bool) (g : A -> B) l :
  forallb f (combine l (map g l)) = forallb (fun x => f (x, g x)) l.
Proof. induction l as [|x l IH]; cbn; auto. rewrite IH. reflexivity. Qed.

(* the whole oracle on the model outside region 1, up to the two clauses about the policy itself
   (bounds and monotonicity in the capacity), which are properties of min_run *)
Theorem model_meets_region0 c : c17_wf c = true -> c17_region c = 0 ->
  (forall cap, In cap (k_caps c) -> bounds_ok c (model_cache c cap) = true) ->
  non_increasing (map total_reads (map (model_cache c) (k_caps c))) = true ->
  c17_holds c (c17_model c) = true.
Proof.
  intros W R Hb Hm. apply model_meets_modulo_cache; [exact W|].
  unfold c17_model, vnth. cbn [vl nth]. unfold cache_ok, Vl. cbn [vl].
  rewrite map_length, Nat.eqb_refl, Hm, andb_true_r. cbn [andb].
  rewrite forallb_combine_map. apply forallb_forall. intros cap Hc. cbn [fst snd].
  destruct (cache_refines_min c cap W (region0_no_ties c cap R Hc)) as [Er Rd].
  unfold cache_one_ok. rewrite (Hb cap Hc), Rd, V_eqb_refl.
  unfold model_cache. fold (cbs c). rewrite Er. cbn [Z.eqb].
  unfold V_result, vnth. cbn [vl nth length Nat.eqb is_vz]. rewrite V_eqb_refl. reflexivity.
Qed.
