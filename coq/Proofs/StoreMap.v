(* StoreMap.v — C03: point access refines a map from points to values.
   The map view of a fiber is [lookup_i]: the value stored at a full point, the default if
   nothing is stored there. *)
From Coq Require Import ZArith List Bool Lia PeanoNat.
From FT Require Import Model.Base Model.Store Proofs.StoreWF.
Import ListNotations.
Open Scope Z_scope.

Fixpoint assoc (c : Z) (es : ifib) : option itree :=
  match es with
  | [] => None
  | (c', p) :: es' => if c' =? c then Some p else assoc c es'
  end.

(* the map view: value at the point [pt] below the fiber [es]; [d] if absent (or if the
   point is not a full point of this tree) *)
Fixpoint lookup_i (d : Z) (pt : list Z) (es : ifib) : Z :=
  match pt with
  | [] => d
  | c :: pt' =>
    match assoc c es, pt' with
    | Some (ILeaf v), [] => v
    | Some (INode _ _ es'), _ :: _ => lookup_i d pt' es'
    | _, _ => d
    end
  end.

Fixpoint pt_eqb (a b : list Z) : bool :=
  match a, b with
  | [], [] => true
  | x :: a', y :: b' => (x =? y) && pt_eqb a' b'
  | _, _ => false
  end.

(* ---------- bisect on sorted lists is assoc ---------- *)
Lemma bisect_assoc_hit es c :
  ssorted (map fst es) = true ->
  coord_exists c (map fst es) (bisect c (map fst es)) = true ->
  exists p, nth_error es (bisect c (map fst es)) = Some (c, p) /\ assoc c es = Some p.
Proof.
  unfold coord_exists.
  induction es as [|[x q] es IH]; intros Hs Hex; [discriminate|].
  cbn [map fst] in *. rewrite ssorted_cons in Hs. apply andb_true_iff in Hs.
  destruct Hs as [Hh Hs]. cbn [bisect] in *.
  destruct (x <? c) eqn:Hxc.
  - cbn [nth_error] in *. destruct (IH Hs Hex) as [p [Hn Ha]].
    exists p. split; [exact Hn|]. cbn [assoc]. destruct (x =? c) eqn:E; [lia|exact Ha].
  - cbn [nth_error] in *. apply Z.eqb_eq in Hex. subst x.
    exists q. split; [reflexivity|]. cbn [assoc]. rewrite Z.eqb_refl. reflexivity.
Qed.

Lemma bisect_assoc_miss es c :
  ssorted (map fst es) = true ->
  coord_exists c (map fst es) (bisect c (map fst es)) = false ->
  assoc c es = None.
Proof.
  unfold coord_exists.
  induction es as [|[x q] es IH]; intros Hs Hex; [reflexivity|].
  cbn [map fst] in *. rewrite ssorted_cons in Hs. apply andb_true_iff in Hs.
  destruct Hs as [Hh Hs]. cbn [bisect] in *.
  destruct (x <? c) eqn:Hxc.
  - cbn [nth_error] in *. cbn [assoc]. destruct (x =? c) eqn:E; [lia|]. apply IH; assumption.
  - cbn [nth_error] in *. cbn [assoc]. rewrite Hex.
    (* every later coordinate is > x >= c *)
    pose proof (ssorted_all_gt x (map fst es) Hh Hs) as Hall.
    clear IH Hs Hh. induction es as [|[y r] es IHes]; [reflexivity|].
    cbn [map fst] in Hall. inversion Hall; subst. cbn [assoc].
    destruct (y =? c) eqn:E; [lia|]. apply IHes. assumption.
Qed.

Lemma assoc_not_in c es : ~ In c (map fst es) -> assoc c es = None.
Proof.
  induction es as [|[x q] es IH]; intros H; [reflexivity|]. cbn [assoc].
  destruct (x =? c) eqn:E.
  - exfalso. apply H. left. apply Z.eqb_eq in E. exact E.
  - apply IH. intros Hin. apply H. right. exact Hin.
Qed.

Lemma assoc_set_nth es : forall i c p p' q,
  NoDup (map fst es) -> nth_error es i = Some (c, p) ->
  assoc q (set_nth i (c, p') es) = if q =? c then Some p' else assoc q es.
Proof.
  induction es as [|[x r] es IH]; intros i c p p' q Hnd Hn; [destruct i; discriminate|].
  cbn [map fst] in Hnd. inversion Hnd as [|? ? Hnin Hnd']; subst.
  destruct i as [|i]; cbn [nth_error set_nth] in *.
  - inversion Hn; subst. cbn [assoc]. rewrite (Z.eqb_sym q c). destruct (c =? q); reflexivity.
  - cbn [assoc]. destruct (x =? q) eqn:E.
    + apply Z.eqb_eq in E. subst q. destruct (x =? c) eqn:E2; [|reflexivity].
      apply Z.eqb_eq in E2. subst c. exfalso. apply Hnin.
      apply nth_error_In in Hn. apply (in_map fst) in Hn. exact Hn.
    + apply (IH i c p p' q Hnd' Hn).
Qed.

Lemma assoc_insert_at es : forall i c p q,
  (i <= length es)%nat -> assoc c es = None ->
  assoc q (insert_at i (c, p) es) = if q =? c then Some p else assoc q es.
Proof.
  unfold insert_at.
  induction es as [|[x r] es IH]; intros i c p q Hi Hc.
  - destruct i; cbn; rewrite (Z.eqb_sym c q); destruct (q =? c); reflexivity.
  - cbn [assoc] in Hc. destruct (x =? c) eqn:Exc; [discriminate|].
    destruct i as [|i]; cbn [firstn skipn app assoc].
    + rewrite (Z.eqb_sym c q). destruct (q =? c); reflexivity.
    + destruct (x =? q) eqn:E.
      * apply Z.eqb_eq in E. subst q. rewrite Exc. reflexivity.
      * apply IH; [cbn [length] in Hi; lia|exact Hc].
Qed.

(* ---------- getPayload returns the map's value ---------- *)
Lemma get_pay_lookup n d : forall pt lvl es,
  (lvl < n)%nat -> wf_fib n lvl es = true -> length pt = (n - lvl)%nat ->
  get_pay n d lvl pt es = Some (ILeaf (lookup_i d pt es)).
Proof.
  induction pt as [|c pt IH]; intros lvl es Hlvl Hwf Hlen; [cbn [length] in Hlen; lia|].
  cbn [get_pay lookup_i].
  pose proof Hwf as Hwf0. unfold wf_fib in Hwf. apply andb_true_iff in Hwf. destruct Hwf as [Hs Hk].
  destruct (coord_exists c (map fst es) (bisect c (map fst es))) eqn:Hex.
  - destruct (bisect_assoc_hit es c Hs Hex) as [p [Hn Ha]]. rewrite Hn, Ha.
    pose proof (forallb_nth_error _ _ _ _ Hk Hn) as Hp. cbn [snd] in Hp.
    destruct pt as [|c2 pt'].
    + cbn [length] in Hlen. destruct p as [v|id ow e1]; [reflexivity|].
      rewrite wf_i_node in Hp. apply andb_true_iff in Hp. destruct Hp as [Hlt _].
      apply Nat.ltb_lt in Hlt. lia.
    + cbn [length] in Hlen. destruct p as [v|id ow e1].
      * cbn [wf_i] in Hp. apply Nat.eqb_eq in Hp. lia.
      * rewrite wf_i_node in Hp. apply andb_true_iff in Hp. destruct Hp as [Hlt Hw1].
        apply Nat.ltb_lt in Hlt. apply IH; [exact Hlt|exact Hw1|cbn [length]; lia].
  - rewrite (bisect_assoc_miss es c Hs Hex).
    destruct pt as [|c2 pt']; cbn [length] in Hlen.
    + assert (Hleaf : Nat.eqb (S lvl) n = true) by (apply Nat.eqb_eq; lia).
      rewrite Hleaf. reflexivity.
    + assert (Hleaf : Nat.eqb (S lvl) n = false) by (apply Nat.eqb_neq; lia).
      rewrite Hleaf.
      rewrite (IH (S lvl) []); [| lia | reflexivity | cbn [length]; lia].
      reflexivity.
Qed.

Lemma pt_eqb_refl p : pt_eqb p p = true.
Proof. induction p as [|x p IH]; [reflexivity|]. cbn [pt_eqb]. rewrite Z.eqb_refl, IH. reflexivity. Qed.

(* ---------- getPayloadRef: returns the (updated) value at the point, changes the map
   exactly there and nowhere else ---------- *)
Lemma get_ref_lookup n d w : forall pt lvl es nx rk,
  (lvl < n)%nat -> wf_fib n lvl es = true -> length pt = (n - lvl)%nat ->
  snd (get_ref n d w lvl pt es nx rk) = Some (ILeaf (apply_wr w (lookup_i d pt es)))
  /\ forall q, length q = length pt ->
       lookup_i d q (fst (fst (fst (get_ref n d w lvl pt es nx rk))))
       = if pt_eqb q pt then apply_wr w (lookup_i d pt es) else lookup_i d q es.
Proof.
  induction pt as [|c pt IH]; intros lvl es nx rk Hlvl Hwf Hlen; [cbn [length] in Hlen; lia|].
  cbn [get_ref].
  pose proof Hwf as Hwf0. unfold wf_fib in Hwf. apply andb_true_iff in Hwf. destruct Hwf as [Hs Hk].
  pose proof (ssorted_NoDup _ Hs) as Hnd.
  set (i := bisect c (map fst es)).
  assert (Hi : (i <= length es)%nat).
  { unfold i. rewrite <- (map_length fst es). apply bisect_le. }
  destruct (coord_exists c (map fst es) i) eqn:Hex.
  - (* existing *)
    destruct (bisect_assoc_hit es c Hs Hex) as [p [Hn Ha]]. fold i in Hn. rewrite Hn.
    pose proof (forallb_nth_error _ _ _ _ Hk Hn) as Hp. cbn [snd] in Hp.
    destruct pt as [|c2 pt']; cbn [length] in Hlen.
    + destruct p as [v|id ow e1].
      * cbn [fst snd lookup_i]. rewrite Ha. split; [reflexivity|].
        intros q Hq. destruct q as [|c' [|? ?]]; cbn [length] in Hq; try lia.
        cbn [lookup_i pt_eqb]. rewrite (assoc_set_nth es i c (ILeaf v) _ c' Hnd Hn).
        rewrite andb_true_r. destruct (c' =? c); reflexivity.
      * rewrite wf_i_node in Hp. apply andb_true_iff in Hp. destruct Hp as [Hlt _].
        apply Nat.ltb_lt in Hlt. lia.
    + destruct p as [v|id ow e1].
      * cbn [wf_i] in Hp. apply Nat.eqb_eq in Hp. lia.
      * rewrite wf_i_node in Hp. apply andb_true_iff in Hp. destruct Hp as [Hlt Hw1].
        apply Nat.ltb_lt in Hlt.
        assert (Hl1 : length (c2 :: pt') = (n - S lvl)%nat) by (cbn [length]; lia).
        destruct (IH (S lvl) e1 nx rk Hlt Hw1 Hl1) as [Hr Hq].
        destruct (get_ref n d w (S lvl) (c2 :: pt') e1 nx rk) as [[[e2 nx2] rk2] r].
        cbn [fst snd] in *. cbn [lookup_i]. rewrite Ha. split; [exact Hr|].
        intros q Hql. destruct q as [|c' q']; [cbn [length] in Hql; lia|].
        cbn [lookup_i pt_eqb]. rewrite (assoc_set_nth es i c (INode id ow e1) _ c' Hnd Hn).
        destruct (c' =? c) eqn:E.
        -- apply Z.eqb_eq in E. subst c'. rewrite Ha. cbn [andb].
           destruct q' as [|c3 q'']; [cbn [length] in Hql; lia|].
           apply Hq. cbn [length] in *. lia.
        -- reflexivity.
  - (* created *)
    pose proof (bisect_assoc_miss es c Hs Hex) as Hmiss.
    destruct (Nat.eqb (S lvl) n) eqn:Hleaf.
    + apply Nat.eqb_eq in Hleaf.
      rewrite (nth_error_insert_at i (c, ILeaf d) es Hi).
      destruct pt as [|c2 pt']; cbn [length] in Hlen; [|lia].
      cbn [fst snd lookup_i]. rewrite Hmiss. split; [reflexivity|].
      intros q Hq. destruct q as [|c' [|? ?]]; cbn [length] in Hq; try lia.
      cbn [lookup_i pt_eqb]. rewrite andb_true_r.
      assert (Hnd' : NoDup (map fst (insert_at i (c, ILeaf d) es))).
      { apply ssorted_NoDup. rewrite map_fst_insert_at. apply insert_sorted; assumption. }
      rewrite (assoc_set_nth _ i c (ILeaf d) _ c' Hnd' (nth_error_insert_at i _ es Hi)).
      destruct (c' =? c) eqn:E; [reflexivity|].
      rewrite (assoc_insert_at es i c (ILeaf d) c' Hi Hmiss), E. reflexivity.
    + apply Nat.eqb_neq in Hleaf.
      rewrite (nth_error_insert_at i (c, INode nx (Some (S lvl)) []) es Hi).
      destruct pt as [|c2 pt']; cbn [length] in Hlen; [lia|].
      assert (Hlt : (S lvl < n)%nat) by lia.
      assert (Hl1 : length (c2 :: pt') = (n - S lvl)%nat) by (cbn [length]; lia).
      destruct (IH (S lvl) [] (S nx) (app_rank (S lvl) nx rk) Hlt eq_refl Hl1) as [Hr Hq].
      destruct (get_ref n d w (S lvl) (c2 :: pt') [] (S nx) (app_rank (S lvl) nx rk))
        as [[[e2 nx2] rk2] r].
      cbn [fst snd] in *. cbn [lookup_i]. rewrite Hmiss.
      assert (Hd : lookup_i d (c2 :: pt') [] = d) by reflexivity.
      rewrite Hd in Hr, Hq. split; [exact Hr|].
      intros q Hql. destruct q as [|c' q']; [cbn [length] in Hql; lia|].
      cbn [lookup_i pt_eqb].
      assert (Hnd' : NoDup (map fst (insert_at i (c, INode nx (Some (S lvl)) []) es))).
      { apply ssorted_NoDup. rewrite map_fst_insert_at. apply insert_sorted; assumption. }
      rewrite (assoc_set_nth _ i c (INode nx (Some (S lvl)) []) _ c' Hnd'
                             (nth_error_insert_at i _ es Hi)).
      destruct (c' =? c) eqn:E.
      * cbn [andb]. destruct q' as [|c3 q'']; [cbn [length] in Hql; lia|].
        rewrite Hq by (cbn [length] in *; lia).
        apply Z.eqb_eq in E. subst c'. rewrite Hmiss.
        destruct (pt_eqb (c3 :: q'') (c2 :: pt')); reflexivity.
      * rewrite (assoc_insert_at es i c _ c' Hi Hmiss), E. reflexivity.
Qed.

(* ---------- a legal start_pos never changes the position found ---------- *)
Lemma scan_from_ge c cs : forall i sp,
  (forall j x, (j < sp - i)%nat -> nth_error cs j = Some x -> x < c) ->
  scan_from c cs i sp = (i + bisect c cs)%nat.
Proof.
  induction cs as [|x cs IH]; intros i sp Hlt; cbn [scan_from bisect]; [lia|].
  destruct (x <? c) eqn:Hxc.
  - assert (Hb : (Nat.leb sp i && (x >=? c)) = false).
    { destruct (Nat.leb sp i); [|reflexivity]. cbn [andb]. lia. }
    rewrite Hb. rewrite IH; [lia|].
    intros j y Hj Hn. apply (Hlt (S j) y); [lia|exact Hn].
  - destruct (Nat.leb sp i) eqn:Hsp.
    + cbn [andb]. assert (Hge : (x >=? c) = true) by lia. rewrite Hge. lia.
    + apply Nat.leb_gt in Hsp. exfalso.
      specialize (Hlt O x). cbn [nth_error] in Hlt. assert (x < c) by (apply Hlt; [lia|reflexivity]). lia.
Qed.

Lemma bisect_prefix_lt c cs : ssorted cs = true ->
  forall j x, (j < bisect c cs)%nat -> nth_error cs j = Some x -> x < c.
Proof.
  induction cs as [|y cs IH]; intros Hs j x Hj Hn; [cbn in Hj; lia|].
  rewrite ssorted_cons in Hs. apply andb_true_iff in Hs. destruct Hs as [_ Hs].
  cbn [bisect] in Hj. destruct (y <? c) eqn:Hyc; [|lia].
  destruct j as [|j]; cbn [nth_error] in Hn.
  - inversion Hn; subst. lia.
  - apply (IH Hs j x); [lia|exact Hn].
Qed.

Theorem start_pos_invisible c cs sp :
  ssorted cs = true -> (sp <= bisect c cs)%nat ->
  coord2pos c cs (Some sp) = coord2pos c cs None.
Proof.
  intros Hs Hsp. cbn [coord2pos]. rewrite scan_from_ge; [reflexivity|].
  intros j x Hj Hn. apply (bisect_prefix_lt c cs Hs j x); [lia|exact Hn].
Qed.

(* reading a prefix of a point returns the sub-fiber holding exactly the values under it *)
Lemma get_pay_prefix n d : forall pt lvl es,
  (lvl < n)%nat -> wf_fib n lvl es = true -> pt <> [] -> (length pt < n - lvl)%nat ->
  exists id ow es', get_pay n d lvl pt es = Some (INode id ow es')
    /\ forall q, q <> [] -> lookup_i d (pt ++ q) es = lookup_i d q es'.
Proof.
  induction pt as [|c pt IH]; intros lvl es Hlvl Hwf Hne Hlen; [congruence|].
  cbn [get_pay]. cbn [length] in Hlen.
  pose proof Hwf as Hwf0. unfold wf_fib in Hwf. apply andb_true_iff in Hwf. destruct Hwf as [Hs Hk].
  assert (Hleaf : Nat.eqb (S lvl) n = false) by (apply Nat.eqb_neq; lia).
  destruct (coord_exists c (map fst es) (bisect c (map fst es))) eqn:Hex.
  - destruct (bisect_assoc_hit es c Hs Hex) as [p [Hn Ha]]. rewrite Hn.
    pose proof (forallb_nth_error _ _ _ _ Hk Hn) as Hp. cbn [snd] in Hp.
    destruct p as [v|id ow e1].
    + cbn [wf_i] in Hp. apply Nat.eqb_eq in Hp. lia.
    + rewrite wf_i_node in Hp. apply andb_true_iff in Hp. destruct Hp as [Hlt Hw1].
      apply Nat.ltb_lt in Hlt.
      destruct pt as [|c2 pt'].
      * exists id, ow, e1. split; [reflexivity|]. intros q Hq. cbn [app lookup_i]. rewrite Ha.
        destruct q; [congruence|reflexivity].
      * destruct (IH (S lvl) e1 Hlt Hw1) as (id' & ow' & e' & Hg & Hl);
          [discriminate|cbn [length] in *; lia|].
        exists id', ow', e'. split; [exact Hg|]. intros q Hq.
        cbn [app lookup_i]. rewrite Ha. apply (Hl q Hq).
  - rewrite Hleaf. pose proof (bisect_assoc_miss es c Hs Hex) as Hmiss.
    destruct pt as [|c2 pt'].
    + exists O, (Some (S lvl)), []. split; [reflexivity|]. intros q Hq.
      cbn [app lookup_i]. rewrite Hmiss. destruct q as [|c' q']; [congruence|].
      cbn [lookup_i assoc]. destruct q'; reflexivity.
    + assert (Hlt : (S lvl < n)%nat) by lia.
      destruct (IH (S lvl) [] Hlt eq_refl) as (id' & ow' & e' & Hg & Hl);
        [discriminate|cbn [length] in *; lia|].
      exists id', ow', e'. split; [exact Hg|]. intros q Hq.
      cbn [app lookup_i]. rewrite Hmiss.
      rewrite <- (Hl q Hq). cbn [app lookup_i assoc].
      destruct (pt' ++ q); reflexivity.
Qed.

(* position lookup: the index of the coordinate in the fiber, or nothing *)
Fixpoint index_of' (c : Z) (cs : list Z) : option nat :=
  match cs with
  | [] => None
  | x :: cs' => if x =? c then Some O else option_map S (index_of' c cs')
  end.

Lemma bisect_index_of c cs : ssorted cs = true ->
  (if coord_exists c cs (bisect c cs) then Some (bisect c cs) else None) = index_of' c cs.
Proof.
  unfold coord_exists. induction cs as [|x cs IH]; intros Hs; [reflexivity|].
  rewrite ssorted_cons in Hs. apply andb_true_iff in Hs. destruct Hs as [Hh Hs].
  cbn [bisect index_of']. destruct (x <? c) eqn:Hxc.
  - cbn [nth_error]. destruct (x =? c) eqn:E; [lia|]. rewrite <- (IH Hs).
    destruct (nth_error cs (bisect c cs)) as [y|]; [destruct (y =? c)|]; reflexivity.
  - cbn [nth_error]. destruct (x =? c) eqn:E; [reflexivity|].
    (* c < x and everything later is larger *)
    pose proof (ssorted_all_gt x cs Hh Hs) as Hall.
    assert (Hnone : index_of' c cs = None).
    { clear IH Hs Hh. induction cs as [|y cs IHc]; [reflexivity|]. inversion Hall; subst.
      cbn [index_of']. destruct (y =? c) eqn:E2; [lia|]. rewrite IHc by assumption. reflexivity. }
    rewrite Hnone. reflexivity.
Qed.

(* ---------- state-level statements ---------- *)
Definition map_of (s : st) (pt : list Z) : Z := lookup_i (s_d s) pt (root_es s).

Lemma guard_true (pt : list Z) n : (0 < length pt)%nat -> (length pt <= n)%nat ->
  Nat.leb (length pt) n && negb (Nat.eqb (length pt) 0) = true.
Proof.
  intros H1 H2. apply andb_true_iff. split; [apply Nat.leb_le; exact H2|].
  apply negb_true_iff. apply Nat.eqb_neq. lia.
Qed.

Theorem getPayload_map s pt :
  wf_st s -> length pt = nranks s ->
  Store.step s (OGet pt) = (s, Done (RPay (ILeaf (map_of s pt)))).
Proof.
  intros (id & ow & es & Hr & Hn & Hw) Hlen. cbn [Store.step Store.step0].
  rewrite guard_true by lia. rewrite (root_es_of s id ow es Hr).
  rewrite (get_pay_lookup (nranks s) (s_d s) pt O es Hn Hw) by lia.
  unfold map_of. rewrite (root_es_of s id ow es Hr). reflexivity.
Qed.

Theorem getPayload_prefix s pt :
  wf_st s -> pt <> [] -> (length pt < nranks s)%nat ->
  exists id ow es', Store.step s (OGet pt) = (s, Done (RPay (INode id ow es')))
    /\ forall q, q <> [] -> map_of s (pt ++ q) = lookup_i (s_d s) q es'.
Proof.
  intros (id & ow & es & Hr & Hn & Hw) Hne Hlen. cbn [Store.step Store.step0].
  assert (Hpos : (0 < length pt)%nat) by (destruct pt; [congruence|cbn; lia]).
  rewrite guard_true by lia. rewrite (root_es_of s id ow es Hr).
  destruct (get_pay_prefix (nranks s) (s_d s) pt O es Hn Hw Hne) as (id' & ow' & e' & Hg & Hl); [lia|].
  exists id', ow', e'. rewrite Hg. split; [reflexivity|].
  intros q Hq. unfold map_of. rewrite (root_es_of s id ow es Hr). apply Hl. exact Hq.
Qed.

Theorem getPayloadRef_map s pt w :
  wf_st s -> length pt = nranks s ->
  let new := apply_wr w (map_of s pt) in
  snd (Store.step s (OGetRef pt w)) = Done (RPay (ILeaf new))
  /\ (forall q, length q = length pt ->
        map_of (fst (Store.step s (OGetRef pt w))) q = if pt_eqb q pt then new else map_of s q)
  /\ wf_st (fst (Store.step s (OGetRef pt w))).
Proof.
  intros Hs Hlen. pose proof (step_wf s (OGetRef pt w) Hs) as Hwf'.
  destruct Hs as (id & ow & es & Hr & Hn & Hw). cbn zeta.
  split; [|split; [|exact Hwf']]; cbn [Store.step Store.step0]; rewrite guard_true by lia;
    rewrite (root_es_of s id ow es Hr);
    destruct (get_ref_lookup (nranks s) (s_d s) w pt O es (s_next s) (s_ranks s) Hn Hw) as [Hres Hq];
    try lia;
    destruct (get_ref (nranks s) (s_d s) w O pt es (s_next s) (s_ranks s)) as [[[es' nx] rk] r];
    cbn [fst snd] in *.
  - rewrite Hres. unfold map_of. rewrite (root_es_of s id ow es Hr). reflexivity.
  - intros q Hql. unfold map_of, with_root. rewrite Hr. unfold root_es at 1. cbn [s_root s_d].
    rewrite (Hq q Hql). rewrite (root_es_of s id ow es Hr). reflexivity.
Qed.

(* reads never change the state *)
Theorem reads_pure s o :
  match o with OGet _ | OGetPos _ _ _ | OGetSP _ _ _ | OGetD _ _ => True | _ => False end ->
  fst (Store.step s o) = s.
Proof.
  destruct o; intros H; try contradiction; cbn [Store.step Store.step0];
    repeat match goal with
           | |- context [if ?b then _ else _] => destruct b
           | |- context [match fiber_at ?p ?e with Some _ => _ | None => _ end] => destruct (fiber_at p e)
           end; reflexivity.
Qed.
