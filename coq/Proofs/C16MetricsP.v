(* C16MetricsP.v — facts about the Metrics trace state machine that hold for EVERY event
   sequence: flush-threshold independence, consumable = file rows, header shape. *)
From Coq Require Import ZArith List Bool Lia.
From FT Require Import Model.Base Model.Obs Model.C16Metrics.
Import ListNotations.
Open Scope Z_scope.

(* ------------------------------------------------------------------ index_of *)
Lemma index_of_app_none : forall r lo x,
  index_of r (lo ++ [x]) = None -> index_of r lo = None.
Proof.
  induction lo as [|y lo IH]; intros x H; cbn in *; [reflexivity|].
  destruct (y =? r); [discriminate|].
  destruct (index_of r (lo ++ [x])) eqn:E; [discriminate|].
  rewrite (IH x E). reflexivity.
Qed.

Lemma index_of_app_self : forall r lo,
  index_of r lo = None -> index_of r (lo ++ [r]) = Some (length lo).
Proof.
  induction lo as [|y lo IH]; intros H; cbn in *.
  - rewrite Z.eqb_refl. reflexivity.
  - destruct (y =? r); [discriminate|].
    destruct (index_of r lo) eqn:E; [discriminate|]. rewrite IH; auto.
Qed.

Lemma index_of_app_some : forall r lo x i,
  index_of r lo = Some i -> index_of r (lo ++ [x]) = Some i.
Proof.
  induction lo as [|y lo IH]; intros x i H; cbn in *; [discriminate|].
  destruct (y =? r); [assumption|].
  destruct (index_of r lo) eqn:E; [|discriminate].
  rewrite (IH x n eq_refl). assumption.
Qed.

Lemma index_of_lt : forall r lo i, index_of r lo = Some i -> (i < length lo)%nat.
Proof.
  induction lo as [|y lo IH]; intros i H; cbn in *; [discriminate|].
  destruct (y =? r). { inversion H. lia. }
  destruct (index_of r lo) eqn:E; [|discriminate]. inversion H. specialize (IH n eq_refl). lia.
Qed.

Lemma key_eqb_rank : forall k r kind label, key_eqb (r, kind, label) k = true -> key_rank k = r.
Proof.
  intros [[r' k'] l'] r kind label H. cbn in *.
  apply andb_true_iff in H. destruct H as [H _]. apply andb_true_iff in H. destruct H as [H _].
  apply Z.eqb_eq in H. auto.
Qed.

Lemma key_eqb_rank' : forall key k, key_eqb key k = true -> key_rank k = key_rank key.
Proof.
  intros [[r kind] label] k H. apply key_eqb_rank in H. exact H.
Qed.

(* ------------------------------------------------------------------ per-trace facts *)
Definition empty_t (t : tstate) : Prop :=
  t_pending t = [] /\ t_written t = [] /\ t_memrows t = [].

(* a trace whose rank is neither registered nor matched to a registered rank has seen nothing *)
Definition unknown (st : mstate) (q : Z) : Prop :=
  index_of q (m_lo st) = None /\ lookup_rm q (m_rm st) = None.
Definition tr_inv (st : mstate) (kt : tkey * tstate) : Prop :=
  unknown st (key_rank (fst kt)) -> empty_t (snd kt).

Lemma push_content : forall n d t,
  file_content (push_row n d t) = if t_file t then file_content t ++ [d] else file_content t.
Proof.
  intros n d t. unfold file_content, push_row. cbn.
  destruct (t_file t); cbn.
  - destruct (Z.of_nat (length (t_pending t ++ [d])) =? n); cbn.
    + rewrite app_nil_r, app_assoc. reflexivity.
    + rewrite app_assoc. reflexivity.
  - reflexivity.
Qed.

Lemma push_mem : forall n d t,
  t_memrows (push_row n d t) = if t_mem t then t_memrows t ++ [d] else t_memrows t.
Proof. reflexivity. Qed.

Lemma start_content : forall h t, empty_t t ->
  file_content (start_trace h t) = (if t_file t then [h] else [])
  /\ t_memrows (start_trace h t) = (if t_mem t then [h] else []).
Proof.
  intros h t (Hp & Hw & Hm). unfold file_content, start_trace. cbn.
  rewrite Hp, Hm. destruct (t_file t), (t_mem t); auto.
Qed.

(* the counter part of a step does not look at the traces *)
Definition ceq (s1 s2 : mstate) : Prop :=
  m_lo s1 = m_lo s2 /\ m_it s1 = m_it s2 /\ m_pt s1 = m_pt s2 /\ m_saved s1 = m_saved s2
  /\ m_rm s1 = m_rm s2.

Lemma ceq_refl : forall s, ceq s s.
Proof. intros. repeat split. Qed.
Lemma ceq_sym : forall s1 s2, ceq s1 s2 -> ceq s2 s1.
Proof. intros s1 s2 (A & B & C & D & E). repeat split; auto. Qed.
Lemma unknown_ceq : forall s1 s2 q, ceq s1 s2 -> unknown s1 q -> unknown s2 q.
Proof. intros s1 s2 q (H1 & _ & _ & _ & H5) [A B]. split; congruence. Qed.

Definition mono (s s' : mstate) : Prop := forall q, unknown s' q -> unknown s q.

(* how a step changes the trace lists of two runs that agree on the counter part: nothing,
   the same row pushed to one known key, or the traces of one so far unknown rank started *)
Inductive tr_change2 (n1 n2 : Z) (s1 s2 s1' s2' : mstate) : Prop :=
| tc_same : m_tr s1' = m_tr s1 -> m_tr s2' = m_tr s2 -> mono s1 s1' -> tr_change2 n1 n2 s1 s2 s1' s2'
| tc_push : forall key d, (~ unknown s1 (key_rank key)) ->
    m_tr s1' = map_key (key_eqb key) (push_row n1 d) (m_tr s1) ->
    m_tr s2' = map_key (key_eqb key) (push_row n2 d) (m_tr s2) ->
    mono s1 s1' -> tr_change2 n1 n2 s1 s2 s1' s2'
| tc_start : forall r h, unknown s1 r -> (~ unknown s1' r) ->
    (exists i, (i < length (m_lo s1'))%nat /\ h = header (m_lo s1') i) ->
    m_tr s1' = map_key (fun k => key_rank k =? r) (start_trace h) (m_tr s1) ->
    m_tr s2' = map_key (fun k => key_rank k =? r) (start_trace h) (m_tr s2) ->
    mono s1 s1' -> tr_change2 n1 n2 s1 s2 s1' s2'.

Lemma step_change2 : forall n1 n2 e s1 s2, ceq s1 s2 ->
  ceq (step n1 s1 e) (step n2 s2 e) /\ tr_change2 n1 n2 s1 s2 (step n1 s1 e) (step n2 s2 e).
Proof.
  intros n1 n2 e s1 s2 (A & B & C & D & E).
  assert (M0 : mono s1 s1) by (intros q H; exact H).
  destruct e; cbn [step]; unfold add_use, add_use_m, aidx; rewrite <- ?A, <- ?E, <- ?B, <- ?C, <- ?D.
  - destruct (index_of r (m_lo s1)) eqn:E1; [split; [repeat split; auto|apply tc_same; auto]|].
    destruct (lookup_rm r (m_rm s1)) eqn:E2; [split; [repeat split; auto|apply tc_same; auto]|].
    split; [repeat split; cbn; congruence|].
    eapply tc_start with (r := r); [split; auto| | |reflexivity|reflexivity|].
    + intros [H _]. cbn in H. rewrite index_of_app_self in H by auto. discriminate.
    + exists (length (m_lo s1)). cbn [m_lo]. split; [rewrite app_length; cbn; lia|reflexivity].
    + intros q [H1 H2]. cbn in *. split; auto. eapply index_of_app_none; eauto.
  - destruct (index_of r (m_lo s1)) eqn:E1; [|split; [repeat split; auto|apply tc_same; auto]].
    split; [repeat split; cbn; congruence|].
    eapply tc_push with (key := (r, kind, label)); [|reflexivity|reflexivity|exact M0].
    intros [H _]. cbn in H. congruence.
  - destruct (index_of r (m_lo s1)); (split; [repeat split; cbn; congruence|apply tc_same; auto]).
  - destruct (index_of r (m_lo s1)); (split; [repeat split; cbn; congruence|apply tc_same; auto]).
  - split; [repeat split; cbn; congruence|apply tc_same; auto].
  - destruct (index_of r (m_lo s1)); (split; [repeat split; cbn; congruence|apply tc_same; auto]).
  - destruct (index_of r (m_lo s1)) eqn:E1; [|split; [repeat split; auto|apply tc_same; auto]].
    split; [repeat split; cbn; congruence|].
    eapply tc_push with (key := (r, kind, label)); [|reflexivity|reflexivity|exact M0].
    intros [H _]. cbn in H. congruence.
  - destruct (index_of r (m_lo s1)) eqn:E0; [|split; [repeat split; auto|apply tc_same; auto]].
    destruct (index_of src (m_lo s1)) eqn:E1; [split; [repeat split; auto|apply tc_same; auto]|].
    destruct (lookup_rm src (m_rm s1)) eqn:E2; [split; [repeat split; auto|apply tc_same; auto]|].
    split; [repeat split; cbn; congruence|].
    eapply tc_start with (r := src); [split; auto| | |reflexivity|reflexivity|].
    + intros [_ H]. cbn in H. rewrite Z.eqb_refl in H. discriminate.
    + exists n. cbn [m_lo]. split; [eapply index_of_lt; eauto|reflexivity].
    + intros q [H1 H2]. cbn in *. split; auto. destruct (q =? src); [discriminate|auto].
  - destruct (lookup_rm r (m_rm s1)) eqn:E1; [|split; [repeat split; auto|apply tc_same; auto]].
    destruct (index_of z (m_lo s1)) eqn:E2; [|split; [repeat split; auto|apply tc_same; auto]].
    split; [repeat split; cbn; congruence|].
    eapply tc_push with (key := (r, kind, label)); [|reflexivity|reflexivity|exact M0].
    intros [_ H]. cbn in H. congruence.
  - destruct (lookup_rm r (m_rm s1)) eqn:E1; [|split; [repeat split; auto|apply tc_same; auto]].
    destruct (index_of z (m_lo s1)) eqn:E2; [|split; [repeat split; auto|apply tc_same; auto]].
    split; [repeat split; cbn; congruence|].
    eapply tc_push with (key := (r, kind, label)); [|reflexivity|reflexivity|exact M0].
    intros [_ H]. cbn in H. congruence.
  - destruct (lookup_rm r (m_rm s1)); [|split; [repeat split; auto|apply tc_same; auto]].
    destruct (index_of z (m_lo s1)); (split; [repeat split; cbn; congruence|apply tc_same; auto]).
  - destruct (lookup_rm r (m_rm s1)); [|split; [repeat split; auto|apply tc_same; auto]].
    destruct (index_of z (m_lo s1)); (split; [repeat split; cbn; congruence|apply tc_same; auto]).
Qed.

Lemma step_change : forall n e st, tr_change2 n n st st (step n st e) (step n st e).
Proof. intros. apply (step_change2 n n e st st (ceq_refl st)). Qed.

Lemma Forall2_map_key : forall (R R' : tkey * tstate -> tkey * tstate -> Prop) P f g l1 l2,
  Forall2 R l1 l2 ->
  (forall a b, R a b -> P (fst a) = true -> R' (fst a, f (snd a)) (fst b, g (snd b))) ->
  (forall a b, R a b -> P (fst a) = false -> R' a b) ->
  (forall a b, R a b -> fst a = fst b) ->
  Forall2 R' (map_key P f l1) (map_key P g l2).
Proof.
  intros R R' P f g l1 l2 H Ht Hf Hk. induction H as [|a b l1 l2 Hab H IH]; cbn; constructor; auto.
  assert (P (fst b) = P (fst a)) as -> by (rewrite (Hk a b Hab); reflexivity).
  destruct (P (fst a)) eqn:E; auto.
Qed.

(* ------------------------------------------------------------------ two runs side by side *)
Definition trel (s1 s2 : mstate) (a b : tkey * tstate) : Prop :=
  fst a = fst b /\ t_file (snd a) = t_file (snd b)
  /\ file_content (snd a) = file_content (snd b)
  /\ tr_inv s1 a /\ tr_inv s2 b.

Definition srel (s1 s2 : mstate) : Prop :=
  ceq s1 s2 /\ Forall2 (trel s1 s2) (m_tr s1) (m_tr s2).

Lemma step_srel : forall n1 n2 e s1 s2, srel s1 s2 -> srel (step n1 s1 e) (step n2 s2 e).
Proof.
  intros n1 n2 e s1 s2 [Hc Htr]. destruct (step_change2 n1 n2 e s1 s2 Hc) as [Hc' Hch].
  split; [exact Hc'|].
  set (s1' := step n1 s1 e) in *. set (s2' := step n2 s2 e) in *.
  assert (Keep : forall a b, trel s1 s2 a b -> mono s1 s1' -> trel s1' s2' a b).
  { intros a b (Hk & Hf & Hcn & Ia & Ib) Hu. split; [|split; [|split; [|split]]]; auto.
    - intros U. apply Ia, Hu, U.
    - intros U. apply Ib. eapply unknown_ceq; [exact Hc|]. apply Hu.
      eapply unknown_ceq; [apply ceq_sym; exact Hc'|]. exact U. }
  destruct Hch as [E1 E2 Hu|key d Hkn E1 E2 Hu|r h Hu1 Hk1 _ E1 E2 Hu]; rewrite E1, E2.
  - clear E1 E2. induction Htr as [|a b l1 l2 Hab Htr IH]; constructor; auto.
  - eapply Forall2_map_key; [exact Htr| | |].
    + intros a b (Hk & Hf & Hcn & Ia & Ib) HP.
      apply key_eqb_rank' in HP. unfold trel, tr_inv. cbn [fst snd].
      split; [|split; [|split; [|split]]]; auto.
      * rewrite !push_content, Hf, Hcn. reflexivity.
      * intros U. exfalso. apply Hkn. rewrite <- HP. apply Hu. exact U.
      * intros U. exfalso. apply Hkn. rewrite <- HP. apply Hu.
        eapply unknown_ceq; [apply ceq_sym; exact Hc'|]. rewrite <- Hk in U. exact U.
    + intros a b Hab _. apply Keep; auto.
    + intros a b Hab. apply Hab.
  - eapply Forall2_map_key; [exact Htr| | |].
    + intros a b (Hk & Hf & Hcn & Ia & Ib) HP. apply Z.eqb_eq in HP. unfold trel, tr_inv. cbn [fst snd].
      assert (Ea : empty_t (snd a)) by (apply Ia; rewrite HP; exact Hu1).
      assert (Eb : empty_t (snd b)).
      { apply Ib. rewrite <- Hk, HP. eapply unknown_ceq; [exact Hc|exact Hu1]. }
      destruct (start_content h _ Ea) as [Ca _]. destruct (start_content h _ Eb) as [Cb _].
      split; [|split; [|split; [|split]]]; auto.
      * rewrite Ca, Cb, Hf. reflexivity.
      * intros U. exfalso. apply Hk1. rewrite HP in U. exact U.
      * intros U. exfalso. apply Hk1. rewrite <- Hk, HP in U.
        eapply unknown_ceq; [apply ceq_sym; exact Hc'|exact U].
    + intros a b Hab _. apply Keep; auto.
    + intros a b Hab. apply Hab.
Qed.

Lemma exec_srel : forall n1 n2 evs s1 s2, srel s1 s2 -> srel (exec n1 s1 evs) (exec n2 s2 evs).
Proof.
  induction evs as [|e evs IH]; intros s1 s2 H; cbn; auto.
  apply IH. apply step_srel. exact H.
Qed.

Lemma init_srel : forall keys f m m',
  srel (init_state keys f m) (init_state keys f m').
Proof.
  intros keys f m m'. split; [repeat split; reflexivity|]. cbn [m_tr init_state].
  induction keys as [|k keys IH]; cbn; constructor; auto.
  split; [|split; [|split; [|split]]]; cbn; auto; intros _; repeat split; reflexivity.
Qed.

Lemma find_trel : forall s1 s2 k l1 l2, Forall2 (trel s1 s2) l1 l2 ->
  option_map (fun kt => file_content (snd kt)) (find (fun kt => key_eqb k (fst kt)) l1)
  = option_map (fun kt => file_content (snd kt)) (find (fun kt => key_eqb k (fst kt)) l2).
Proof.
  intros s1 s2 k l1 l2 H. induction H as [|a b l1 l2 (Hk & Hf & Hc & _) H IH]; cbn; auto.
  rewrite <- Hk. destruct (key_eqb k (fst a)); cbn; auto. rewrite Hc. reflexivity.
Qed.

(* what ends up in the CSV file of every trace does not depend on num_cached_uses, nor on
   whether the trace is also consumable *)
Theorem file_content_indep : forall n1 n2 keys f m m' evs k,
  option_map (fun kt => file_content (snd kt))
    (find (fun kt => key_eqb k (fst kt)) (m_tr (exec n1 (init_state keys f m) evs)))
  = option_map (fun kt => file_content (snd kt))
    (find (fun kt => key_eqb k (fst kt)) (m_tr (exec n2 (init_state keys f m') evs))).
Proof.
  intros. pose proof (exec_srel n1 n2 evs _ _ (init_srel keys f m m')) as [_ H].
  eapply find_trel; eauto.
Qed.

(* ------------------------------------------------------------------ one run: invariants *)
Lemma Forall_map_key : forall (Q Q' : tkey * tstate -> Prop) P f l,
  Forall Q l ->
  (forall a, Q a -> P (fst a) = true -> Q' (fst a, f (snd a))) ->
  (forall a, Q a -> P (fst a) = false -> Q' a) ->
  Forall Q' (map_key P f l).
Proof.
  intros Q Q' P f l H Ht Hf. induction H as [|a l Ha H IH]; cbn; constructor; auto.
  destruct (P (fst a)) eqn:E; auto.
Qed.

Definition minv (st : mstate) : Prop :=
  Forall (fun kt => tr_inv st kt
                    /\ (t_file (snd kt) = true -> t_mem (snd kt) = true ->
                        t_memrows (snd kt) = file_content (snd kt))) (m_tr st).

Lemma step_minv : forall n e st, minv st -> minv (step n st e).
Proof.
  intros n e st H. unfold minv in *. destruct (step_change n e st) as [E _ Hu|key d Hk E _ Hu|r h Hu1 Hk1 Hh E _ Hu]; rewrite E.
  - eapply Forall_impl; [|exact H]. intros kt [I M]. split; auto. intros U. apply I, Hu, U.
  - eapply Forall_map_key; [exact H| |].
    + intros a (Ia & Ma) HP. apply key_eqb_rank' in HP. cbn [fst snd]. split.
      * intros U. exfalso. apply Hk. rewrite <- HP. apply Hu. exact U.
      * intros Hf Hm. change (t_file (snd a) = true) in Hf. change (t_mem (snd a) = true) in Hm.
        rewrite push_content, push_mem, Hf, Hm, Ma; auto.
    + intros a (Ia & Ma) _. split; auto. intros U. apply Ia, Hu, U.
  - eapply Forall_map_key; [exact H| |].
    + intros a (Ia & Ma) HP. apply Z.eqb_eq in HP. cbn [fst snd].
      assert (Ea : empty_t (snd a)) by (apply Ia; rewrite HP; exact Hu1).
      destruct (start_content h _ Ea) as [Ca Cm]. split.
      * intros U. exfalso. apply Hk1. cbn [fst] in U. rewrite HP in U. exact U.
      * intros Hf Hm. change (t_file (snd a) = true) in Hf. change (t_mem (snd a) = true) in Hm.
        rewrite Ca, Cm, Hf, Hm. reflexivity.
    + intros a (Ia & Ma) _. split; auto. intros U. apply Ia, Hu, U.
Qed.

Lemma exec_minv : forall n evs s, minv s -> minv (exec n s evs).
Proof. induction evs as [|e evs IH]; intros s H; cbn; auto. apply IH, step_minv, H. Qed.

Lemma init_minv : forall keys f m, minv (init_state keys f m).
Proof.
  intros. unfold minv. cbn. apply Forall_forall. intros kt Hin.
  apply in_map_iff in Hin. destruct Hin as (k & <- & _). split.
  - intros _. repeat split; reflexivity.
  - reflexivity.
Qed.

(* in-memory (consumable) traces deliver exactly the rows of the file *)
Theorem mem_is_file : forall n keys evs k t,
  find (fun kt => key_eqb k (fst kt)) (m_tr (exec n (init_state keys true true) evs)) = Some (k, t) \/
  In (k, t) (m_tr (exec n (init_state keys true true) evs)) ->
  t_file t = true -> t_mem t = true -> t_memrows t = file_content t.
Proof.
  intros n keys evs k t Hin Hf Hm.
  assert (In (k, t) (m_tr (exec n (init_state keys true true) evs))) as Hin'.
  { destruct Hin as [Hfd|]; auto. apply find_some in Hfd. apply Hfd. }
  pose proof (exec_minv n evs _ (init_minv keys true true)) as H.
  unfold minv in H. rewrite Forall_forall in H. apply (H _ Hin'); auto.
Qed.

(* flags never change *)
Definition finv (f m : bool) (st : mstate) : Prop :=
  Forall (fun kt => t_file (snd kt) = f /\ t_mem (snd kt) = m) (m_tr st).

Lemma step_finv : forall f m n e s, finv f m s -> finv f m (step n s e).
Proof.
  intros f m n e st H. unfold finv in *.
  destruct (step_change n e st) as [E _ Hu|key d Hk E _ Hu|r h Hu1 Hk1 Hh E _ Hu]; rewrite E; auto;
    (eapply Forall_map_key; [exact H| |]; intros a Ha; auto).
Qed.

Lemma exec_finv : forall f m n evs s, finv f m s -> finv f m (exec n s evs).
Proof. induction evs as [|e evs IH]; intros s H; cbn; auto. apply IH, step_finv, H. Qed.

Lemma init_finv : forall keys f m, finv f m (init_state keys f m).
Proof.
  intros. unfold finv. cbn. apply Forall_forall. intros kt Hin.
  apply in_map_iff in Hin. destruct Hin as (k & <- & _). split; reflexivity.
Qed.

(* ------------------------------------------------------------------ header *)
Lemma header_app : forall lo x i, (i < length lo)%nat -> header (lo ++ [x]) i = header lo i.
Proof.
  intros lo x i H. unfold header. rewrite firstn_app.
  replace (S i - length lo)%nat with O by lia. cbn. rewrite app_nil_r. reflexivity.
Qed.

Lemma step_lo : forall n e st,
  m_lo (step n st e) = m_lo st \/ exists x, m_lo (step n st e) = m_lo st ++ [x].
Proof.
  intros n e st. destruct e; cbn [step]; unfold add_use, add_use_m, aidx;
    repeat match goal with |- context [match ?x with _ => _ end] => destruct x end; auto.
  right. eexists. reflexivity.
Qed.


Lemma index_of_app_other : forall q r lo, q <> r -> index_of q lo = None -> index_of q (lo ++ [r]) = None.
Proof.
  intros q r lo Hq. induction lo as [|y lo IH]; intros H; cbn in *.
  - destruct (r =? q) eqn:E; auto. apply Z.eqb_eq in E. congruence.
  - destruct (y =? q); [discriminate|]. destruct (index_of q lo); [discriminate|]. rewrite IH; auto.
Qed.

(* every file is still empty (its rank is neither registered nor matched) or starts with the
   header naming a prefix of the loop ranks *)
Definition hclause (st : mstate) (kt : tkey * tstate) : Prop :=
  t_file (snd kt) = true ->
  (unknown st (key_rank (fst kt)) -> file_content (snd kt) = [] /\ empty_t (snd kt))
  /\ ((~ unknown st (key_rank (fst kt))) -> exists i rows,
        (i < length (m_lo st))%nat /\ file_content (snd kt) = header (m_lo st) i :: rows).
Definition hinv (st : mstate) : Prop := Forall (hclause st) (m_tr st).

Lemma hinv_push : forall st st' n key d,
  m_lo st' = m_lo st -> m_rm st' = m_rm st -> (~ unknown st (key_rank key)) ->
  m_tr st' = map_key (key_eqb key) (push_row n d) (m_tr st) -> hinv st -> hinv st'.
Proof.
  intros st st' n key d El Er Hk Et H. unfold hinv. rewrite Et.
  assert (U : forall q, unknown st' q <-> unknown st q).
  { intros q. unfold unknown. rewrite El, Er. tauto. }
  eapply Forall_map_key; [exact H| |].
  - intros a Ha HP Hf. change (t_file (snd a) = true) in Hf. destruct (Ha Hf) as [_ H2].
    apply key_eqb_rank' in HP. cbn [fst snd]. split.
    + intros Hu. exfalso. apply Hk. rewrite <- HP. apply U. exact Hu.
    + intros _. destruct H2 as (i & rows & Hi & Hc). { rewrite HP. exact Hk. }
      exists i, (rows ++ [d]). rewrite El. split; auto. rewrite push_content, Hf, Hc. reflexivity.
  - intros a Ha _ Hf. destruct (Ha Hf) as [H1 H2]. split.
    + intros Hu. apply H1, U, Hu.
    + intros Hn. destruct H2 as (i & rows & Hi & Hc). { intros Hu. apply Hn, U, Hu. }
      exists i, rows. rewrite El. auto.
Qed.

Lemma hinv_start : forall st st' r i,
  unknown st r -> (~ unknown st' r) ->
  (forall q, q <> r -> (unknown st' q <-> unknown st q)) ->
  (i < length (m_lo st'))%nat ->
  (forall j, (j < length (m_lo st))%nat ->
     (j < length (m_lo st'))%nat /\ header (m_lo st') j = header (m_lo st) j) ->
  m_tr st' = map_key (fun k => key_rank k =? r) (start_trace (header (m_lo st') i)) (m_tr st) ->
  hinv st -> hinv st'.
Proof.
  intros st st' r i Hu Hk U Hi Hh Et H. unfold hinv. rewrite Et.
  eapply Forall_map_key; [exact H| |].
  - intros a Ha HP Hf. change (t_file (snd a) = true) in Hf. destruct (Ha Hf) as [H1 _].
    apply Z.eqb_eq in HP. cbn [fst snd]. split.
    + intros Hu'. exfalso. apply Hk. rewrite <- HP. exact Hu'.
    + intros _. destruct H1 as [_ He]. { rewrite HP. exact Hu. }
      destruct (start_content (header (m_lo st') i) _ He) as [Ca _].
      exists i, []. rewrite Ca, Hf. auto.
  - intros a Ha HP Hf. apply Z.eqb_neq in HP. destruct (Ha Hf) as [H1 H2]. split.
    + intros Hu'. apply H1, U; auto.
    + intros Hn. destruct H2 as (j & rows & Hj & Hc). { intros Hu'. apply Hn, U; auto. }
      destruct (Hh j Hj) as [Hj' Hhd]. exists j, rows. rewrite Hhd. auto.
Qed.

Lemma step_hinv : forall n e st, hinv st -> hinv (step n st e).
Proof.
  intros n e st H.
  destruct e; cbn [step]; unfold add_use, add_use_m, aidx.
  - destruct (index_of r (m_lo st)) eqn:E1; [exact H|].
    destruct (lookup_rm r (m_rm st)) eqn:E2; [exact H|].
    eapply (hinv_start st _ r (length (m_lo st))); cbn [m_lo m_rm m_tr]; auto.
    + split; auto.
    + intros [A _]. cbn in A. rewrite index_of_app_self in A by auto. discriminate.
    + intros q Hq. unfold unknown. cbn [m_lo m_rm]. split; intros [A B]; split; auto.
      * eapply index_of_app_none; eauto.
      * apply index_of_app_other; auto.
    + rewrite app_length. cbn. lia.
    + intros j Hj. rewrite app_length, header_app by auto. cbn. split; [lia|reflexivity].
  - destruct (index_of r (m_lo st)) eqn:E1; [|exact H].
    eapply (hinv_push st _ n (r, kind, label)); cbn [m_lo m_rm m_tr]; auto.
    intros [A _]. cbn in A. congruence.
  - destruct (index_of r (m_lo st)); exact H.
  - destruct (index_of r (m_lo st)); exact H.
  - exact H.
  - destruct (index_of r (m_lo st)); exact H.
  - destruct (index_of r (m_lo st)) eqn:E1; [|exact H].
    eapply (hinv_push st _ n (r, kind, label)); cbn [m_lo m_rm m_tr]; auto.
    intros [A _]. cbn in A. congruence.
  - destruct (index_of r (m_lo st)) eqn:E0; [|exact H].
    destruct (index_of src (m_lo st)) eqn:E1; [exact H|].
    destruct (lookup_rm src (m_rm st)) eqn:E2; [exact H|].
    eapply (hinv_start st _ src n0); cbn [m_lo m_rm m_tr]; auto.
    + split; auto.
    + intros [_ B]. cbn in B. rewrite Z.eqb_refl in B. discriminate.
    + intros q Hq. unfold unknown. cbn [m_lo m_rm lookup_rm].
      destruct (q =? src) eqn:E; [apply Z.eqb_eq in E; congruence|]. tauto.
    + eapply index_of_lt; eauto.
  - destruct (lookup_rm r (m_rm st)) eqn:E1; [|exact H].
    destruct (index_of z (m_lo st)) eqn:E2; [|exact H].
    eapply (hinv_push st _ n (r, kind, label)); cbn [m_lo m_rm m_tr with_tr]; auto.
    intros [_ B]. cbn in B. congruence.
  - destruct (lookup_rm r (m_rm st)) eqn:E1; [|exact H].
    destruct (index_of z (m_lo st)) eqn:E2; [|exact H].
    eapply (hinv_push st _ n (r, kind, label)); cbn [m_lo m_rm m_tr with_tr]; auto.
    intros [_ B]. cbn in B. congruence.
  - destruct (lookup_rm r (m_rm st)); [|exact H]. destruct (index_of z (m_lo st)); exact H.
  - destruct (lookup_rm r (m_rm st)); [|exact H]. destruct (index_of z (m_lo st)); exact H.
Qed.

Lemma exec_hinv : forall n evs s, hinv s -> hinv (exec n s evs).
Proof. induction evs as [|e evs IH]; intros s H; cbn; auto. apply IH, step_hinv, H. Qed.

Lemma init_hinv : forall keys f m, hinv (init_state keys f m).
Proof.
  intros. unfold hinv. cbn. apply Forall_forall. intros kt Hin.
  apply in_map_iff in Hin. destruct Hin as (k & <- & _). intros _. cbn. split.
  - intros _. repeat split; reflexivity.
  - intros Hn. exfalso. apply Hn. split; reflexivity.
Qed.

(* every file is empty (its rank is neither a loop rank nor matched to one) or starts with the
   header that names a prefix of the loop ranks: [x_pos | x <- loop_order[:i+1]] ++
   loop_order[:i+1] ++ [fiber_pos] *)
Theorem header_first : forall n keys f m evs k t,
  let st := exec n (init_state keys f m) evs in
  In (k, t) (m_tr st) -> t_file t = true ->
  (unknown st (key_rank k) -> file_content t = [])
  /\ ((~ unknown st (key_rank k)) -> exists i rows,
        (i < length (m_lo st))%nat /\ file_content t = header (m_lo st) i :: rows).
Proof.
  intros n keys f m evs k t st Hin Hf.
  pose proof (exec_hinv n evs _ (init_hinv keys f m)) as H.
  unfold hinv in H. rewrite Forall_forall in H. destruct (H _ Hin Hf) as [H1 H2]. split; auto.
  intros Hu. apply H1, Hu.
Qed.
