(* C16MetricsP.v — facts about the Metrics trace state machine that hold for EVERY event
   sequence: flush-threshold independence, consumable = file rows, header shape. *)
From Coq Require Import ZArith List Bool Lia.
From FT Require Import Model.Base Model.Obs Model.C16Metrics.
Import ListNotations.
Open Scope Z_scope.

(* ------------------------------------------------------------------ index_of *)
Lemma index_of_app_none : forall r lo x,
  index_of r (lo ++ [x]) = None -> index_of r lo = None.
Proof.
  induction lo as [|y lo IH]; intros x H; cbn in *; [reflexivity|].
  destruct (y =? r); [discriminate|].
  destruct (index_of r (lo ++ [x])) eqn:E; [discriminate|].
  rewrite (IH x E). reflexivity.
Qed.

Lemma index_of_app_self : forall r lo,
  index_of r lo = None -> index_of r (lo ++ [r]) = Some (length lo).
Proof.
  induction lo as [|y lo IH]; intros H; cbn in *.
  - rewrite Z.eqb_refl. reflexivity.
  - destruct (y =? r); [discriminate|].
    destruct (index_of r lo) eqn:E; [discriminate|]. rewrite IH; auto.
Qed.

Lemma index_of_app_some : forall r lo x i,
  index_of r lo = Some i -> index_of r (lo ++ [x]) = Some i.
Proof.
  induction lo as [|y lo IH]; intros x i H; cbn in *; [discriminate|].
  destruct (y =? r); [assumption|].
  destruct (index_of r lo) eqn:E; [|discriminate].
  rewrite (IH x n eq_refl). assumption.
Qed.

Lemma index_of_lt : forall r lo i, index_of r lo = Some i -> (i < length lo)%nat.
Proof.
  induction lo as [|y lo IH]; intros i H; cbn in *; [discriminate|].
  destruct (y =? r). { inversion H. lia. }
  destruct (index_of r lo) eqn:E; [|discriminate]. inversion H. specialize (IH n eq_refl). lia.
Qed.

Lemma key_eqb_rank : forall k r kind label, key_eqb (r, kind, label) k = true -> key_rank k = r.
Proof.
  intros [[r' k'] l'] r kind label H. cbn in *.
  apply andb_true_iff in H. destruct H as [H _]. apply andb_true_iff in H. destruct H as [H _].
  apply Z.eqb_eq in H. auto.
Qed.

(* ------------------------------------------------------------------ per-trace facts *)
Definition empty_t (t : tstate) : Prop :=
  t_pending t = [] /\ t_written t = [] /\ t_memrows t = [].

(* a trace whose rank is not registered has seen nothing *)
Definition tr_inv (lo : list Z) (kt : tkey * tstate) : Prop :=
  index_of (key_rank (fst kt)) lo = None -> empty_t (snd kt).

Lemma push_content : forall n d t,
  file_content (push_row n d t) = if t_file t then file_content t ++ [d] else file_content t.
Proof.
  intros n d t. unfold file_content, push_row. cbn.
  destruct (t_file t); cbn.
  - destruct (Z.of_nat (length (t_pending t ++ [d])) =? n); cbn.
    + rewrite app_nil_r, app_assoc. reflexivity.
    + rewrite app_assoc. reflexivity.
  - reflexivity.
Qed.

Lemma push_mem : forall n d t,
  t_memrows (push_row n d t) = if t_mem t then t_memrows t ++ [d] else t_memrows t.
Proof. reflexivity. Qed.

Lemma push_flags : forall n d t,
  t_file (push_row n d t) = t_file t /\ t_mem (push_row n d t) = t_mem t.
Proof. intros; split; reflexivity. Qed.

Lemma start_content : forall h t, empty_t t ->
  file_content (start_trace h t) = (if t_file t then [h] else [])
  /\ t_memrows (start_trace h t) = (if t_mem t then [h] else []).
Proof.
  intros h t (Hp & Hw & Hm). unfold file_content, start_trace. cbn.
  rewrite Hp, Hm. destruct (t_file t), (t_mem t); auto.
Qed.

(* ------------------------------------------------------------------ two runs side by side *)
Definition trel (lo : list Z) (a b : tkey * tstate) : Prop :=
  fst a = fst b /\ t_file (snd a) = t_file (snd b)
  /\ file_content (snd a) = file_content (snd b)
  /\ tr_inv lo a /\ tr_inv lo b.

Definition srel (s1 s2 : mstate) : Prop :=
  m_lo s1 = m_lo s2 /\ m_it s1 = m_it s2 /\ m_pt s1 = m_pt s2 /\ m_saved s1 = m_saved s2
  /\ Forall2 (trel (m_lo s1)) (m_tr s1) (m_tr s2).

Lemma Forall2_map_key : forall (R R' : tkey * tstate -> tkey * tstate -> Prop) P f g l1 l2,
  Forall2 R l1 l2 ->
  (forall a b, R a b -> P (fst a) = true -> R' (fst a, f (snd a)) (fst b, g (snd b))) ->
  (forall a b, R a b -> P (fst a) = false -> R' a b) ->
  (forall a b, R a b -> fst a = fst b) ->
  Forall2 R' (map_key P f l1) (map_key P g l2).
Proof.
  intros R R' P f g l1 l2 H Ht Hf Hk. induction H as [|a b l1 l2 Hab H IH]; cbn; constructor; auto.
  assert (P (fst b) = P (fst a)) as -> by (rewrite (Hk a b Hab); reflexivity).
  destruct (P (fst a)) eqn:E; auto.
Qed.

Lemma add_use_srel : forall n1 n2 s1 s2 r c pos kind label stamp,
  srel s1 s2 -> srel (add_use n1 s1 r c pos kind label stamp) (add_use n2 s2 r c pos kind label stamp).
Proof.
  intros n1 n2 s1 s2 r c pos kind label stamp (Hlo & Hit & Hpt & Hsv & Htr).
  unfold add_use. rewrite <- Hlo. destruct (index_of r (m_lo s1)) as [i|] eqn:Ei.
  2:{ repeat split; auto. }
  rewrite <- Hpt. split; [|split; [|split; [|split]]]; cbn [m_lo m_it m_pt m_saved m_tr]; auto.
  eapply Forall2_map_key; [exact Htr| | |].
  - intros a b (Hk & Hf & Hc & Ia & Ib) HP. unfold trel. cbn [fst snd].
    split; [|split; [|split; [|split]]]; auto.
    + rewrite !push_content, Hf, Hc. reflexivity.
    + intros Hn. cbn [fst snd] in Hn. rewrite (key_eqb_rank _ _ _ _ HP) in Hn. congruence.
    + intros Hn. cbn [fst snd] in Hn. rewrite <- Hk, (key_eqb_rank _ _ _ _ HP) in Hn. congruence.
  - intros a b H _. exact H.
  - intros a b H. apply H.
Qed.

Lemma tr_inv_app : forall lo x kt, tr_inv lo kt -> tr_inv (lo ++ [x]) kt.
Proof. intros lo x kt H Hn. apply H. eapply index_of_app_none; eauto. Qed.

Lemma trel_weaken : forall lo lo' l1 l2,
  (forall kt, tr_inv lo kt -> tr_inv lo' kt) ->
  Forall2 (trel lo) l1 l2 -> Forall2 (trel lo') l1 l2.
Proof.
  intros lo lo' l1 l2 W H. induction H as [|a b l1 l2 (Hk & Hf & Hc & Ia & Ib) H IH]; constructor; auto.
  split; [|split; [|split; [|split]]]; auto.
Qed.

Lemma step_srel : forall n1 n2 e s1 s2, srel s1 s2 -> srel (step n1 s1 e) (step n2 s2 e).
Proof.
  intros n1 n2 e s1 s2 H. pose proof H as (Hlo & Hit & Hpt & Hsv & Htr).
  destruct e; cbn [step].
  - (* EReg *)
    rewrite <- Hlo. destruct (index_of r (m_lo s1)) eqn:Ei; [exact H|].
    split; [|split; [|split; [|split]]]; cbn [m_lo m_it m_pt m_saved m_tr]; try congruence.
    eapply Forall2_map_key; [exact Htr| | |].
    + intros a b (Hk & Hf & Hc & Ia & Ib) HP. apply Z.eqb_eq in HP.
      assert (Ea : empty_t (snd a)) by (apply Ia; rewrite HP; exact Ei).
      assert (Eb : empty_t (snd b)) by (apply Ib; rewrite <- Hk, HP; exact Ei).
      unfold trel. cbn [fst snd m_lo]. try rewrite <- Hlo.
      destruct (start_content (header (m_lo s1 ++ [r]) (length (m_lo s1))) _ Ea) as [Ca _].
      destruct (start_content (header (m_lo s1 ++ [r]) (length (m_lo s1))) _ Eb) as [Cb _].
      split; [|split; [|split; [|split]]]; auto.
      * rewrite Ca, Cb, Hf. reflexivity.
      * intros Hn. cbn [fst snd] in Hn. rewrite HP, index_of_app_self in Hn by auto. discriminate.
      * intros Hn. cbn [fst snd] in Hn. rewrite <- Hk, HP, index_of_app_self in Hn by auto. discriminate.
    + intros a b (Hk & Hf & Hc & Ia & Ib) _. split; [|split; [|split; [|split]]]; auto using tr_inv_app.
    + intros a b Hab. apply Hab.
  - rewrite Hit. apply add_use_srel; auto.
  - rewrite <- Hlo. destruct (index_of r (m_lo s1)); [|exact H]. repeat split; cbn; congruence.
  - rewrite <- Hlo. destruct (index_of r (m_lo s1)); [|exact H]. repeat split; cbn; congruence.
  - repeat split; cbn; congruence.
  - rewrite <- Hlo. destruct (index_of r (m_lo s1)); [|exact H]. repeat split; cbn; congruence.
  - rewrite Hsv. apply add_use_srel; auto.
Qed.

Lemma exec_srel : forall n1 n2 evs s1 s2, srel s1 s2 -> srel (exec n1 s1 evs) (exec n2 s2 evs).
Proof.
  induction evs as [|e evs IH]; intros s1 s2 H; cbn; auto.
  apply IH. apply step_srel. exact H.
Qed.

Lemma init_srel : forall keys f m m',
  srel (init_state keys f m) (init_state keys f m').
Proof.
  intros keys f m m'. repeat split; cbn; auto.
  induction keys as [|k keys IH]; cbn; constructor; auto.
  repeat split; cbn; auto.
Qed.

Lemma find_trel : forall lo k l1 l2, Forall2 (trel lo) l1 l2 ->
  option_map (fun kt => file_content (snd kt)) (find (fun kt => key_eqb k (fst kt)) l1)
  = option_map (fun kt => file_content (snd kt)) (find (fun kt => key_eqb k (fst kt)) l2).
Proof.
  intros lo k l1 l2 H. induction H as [|a b l1 l2 (Hk & Hf & Hc & _) H IH]; cbn; auto.
  rewrite <- Hk. destruct (key_eqb k (fst a)); cbn; auto. rewrite Hc. reflexivity.
Qed.

(* what ends up in the CSV file of every trace does not depend on num_cached_uses, nor on
   whether the trace is also consumable *)
Theorem file_content_indep : forall n1 n2 keys f m m' evs k,
  option_map (fun kt => file_content (snd kt))
    (find (fun kt => key_eqb k (fst kt)) (m_tr (exec n1 (init_state keys f m) evs)))
  = option_map (fun kt => file_content (snd kt))
    (find (fun kt => key_eqb k (fst kt)) (m_tr (exec n2 (init_state keys f m') evs))).
Proof.
  intros. pose proof (exec_srel n1 n2 evs _ _ (init_srel keys f m m')) as (_ & _ & _ & _ & H).
  eapply find_trel; eauto.
Qed.

(* ------------------------------------------------------------------ consumable = file *)
Definition minv (st : mstate) : Prop :=
  Forall (fun kt => tr_inv (m_lo st) kt
                    /\ (t_file (snd kt) = true -> t_mem (snd kt) = true ->
                        t_memrows (snd kt) = file_content (snd kt))) (m_tr st).

Lemma Forall_map_key : forall (Q Q' : tkey * tstate -> Prop) P f l,
  Forall Q l ->
  (forall a, Q a -> P (fst a) = true -> Q' (fst a, f (snd a))) ->
  (forall a, Q a -> P (fst a) = false -> Q' a) ->
  Forall Q' (map_key P f l).
Proof.
  intros Q Q' P f l H Ht Hf. induction H as [|a l Ha H IH]; cbn; constructor; auto.
  destruct (P (fst a)) eqn:E; auto.
Qed.

Lemma add_use_minv : forall n s r c pos kind label stamp,
  minv s -> minv (add_use n s r c pos kind label stamp).
Proof.
  intros n s r c pos kind label stamp H. unfold add_use.
  destruct (index_of r (m_lo s)) as [i|] eqn:Ei; [|exact H].
  unfold minv. cbn [m_tr m_lo]. eapply Forall_map_key; [exact H| |].
  - intros a (Ia & Ma) HP. cbn [fst snd]. split.
    + intros Hn. cbn [fst snd] in Hn. rewrite (key_eqb_rank _ _ _ _ HP) in Hn. congruence.
    + intros Hf Hm. change (t_file (snd a) = true) in Hf. change (t_mem (snd a) = true) in Hm. rewrite push_content, push_mem. rewrite Hf, Hm, Ma; auto.
  - intros a Ha _. exact Ha.
Qed.

Lemma step_minv : forall n e s, minv s -> minv (step n s e).
Proof.
  intros n e s H. destruct e; cbn [step]; try (apply add_use_minv; exact H).
  - destruct (index_of r (m_lo s)) eqn:Ei; [exact H|].
    unfold minv. cbn [m_tr m_lo]. eapply Forall_map_key; [exact H| |].
    + intros a (Ia & Ma) HP. apply Z.eqb_eq in HP. cbn [fst snd m_lo].
      assert (Ea : empty_t (snd a)) by (apply Ia; rewrite HP; exact Ei).
      destruct (start_content (header (m_lo s ++ [r]) (length (m_lo s))) _ Ea) as [Ca Cm].
      split.
      * intros Hn. cbn [fst snd] in Hn. rewrite HP, index_of_app_self in Hn by auto. discriminate.
      * intros Hf Hm. change (t_file (snd a) = true) in Hf. change (t_mem (snd a) = true) in Hm. rewrite Ca, Cm, Hf, Hm. reflexivity.
    + intros a (Ia & Ma) _. split; auto using tr_inv_app.
  - destruct (index_of r (m_lo s)); exact H.
  - destruct (index_of r (m_lo s)); exact H.
  - exact H.
  - destruct (index_of r (m_lo s)); exact H.
Qed.

Lemma exec_minv : forall n evs s, minv s -> minv (exec n s evs).
Proof. induction evs as [|e evs IH]; intros s H; cbn; auto. apply IH, step_minv, H. Qed.

Lemma init_minv : forall keys f m, minv (init_state keys f m).
Proof.
  intros. unfold minv. cbn. apply Forall_forall. intros kt Hin.
  apply in_map_iff in Hin. destruct Hin as (k & <- & _). split.
  - intros _. repeat split; reflexivity.
  - reflexivity.
Qed.

(* in-memory (consumable) traces deliver exactly the rows of the file *)
Theorem mem_is_file : forall n keys evs k t,
  find (fun kt => key_eqb k (fst kt)) (m_tr (exec n (init_state keys true true) evs)) = Some (k, t) \/
  In (k, t) (m_tr (exec n (init_state keys true true) evs)) ->
  t_file t = true -> t_mem t = true -> t_memrows t = file_content t.
Proof.
  intros n keys evs k t Hin Hf Hm.
  assert (In (k, t) (m_tr (exec n (init_state keys true true) evs))) as Hin'.
  { destruct Hin as [Hfd|]; auto. apply find_some in Hfd. apply Hfd. }
  pose proof (exec_minv n evs _ (init_minv keys true true)) as H.
  unfold minv in H. rewrite Forall_forall in H. apply (H _ Hin'); auto.
Qed.

(* flags never change *)
Definition finv (f m : bool) (st : mstate) : Prop :=
  Forall (fun kt => t_file (snd kt) = f /\ t_mem (snd kt) = m) (m_tr st).

Lemma add_use_finv : forall f m n s r c pos kind label stamp,
  finv f m s -> finv f m (add_use n s r c pos kind label stamp).
Proof.
  intros f m n s r c pos kind label stamp H. unfold add_use.
  destruct (index_of r (m_lo s)); [|exact H].
  unfold finv; cbn [m_tr]; eapply Forall_map_key; [exact H| |]; intros a Ha; auto.
Qed.

Lemma step_finv : forall f m n e s, finv f m s -> finv f m (step n s e).
Proof.
  intros f m n e s H. destruct e; cbn [step]; try (apply add_use_finv; exact H).
  - destruct (index_of r (m_lo s)); [exact H|].
    unfold finv; cbn [m_tr]; eapply Forall_map_key; [exact H| |]; intros a Ha; auto.
  - destruct (index_of r (m_lo s)); exact H.
  - destruct (index_of r (m_lo s)); exact H.
  - exact H.
  - destruct (index_of r (m_lo s)); exact H.
Qed.

Lemma exec_finv : forall f m n evs s, finv f m s -> finv f m (exec n s evs).
Proof. induction evs as [|e evs IH]; intros s H; cbn; auto. apply IH, step_finv, H. Qed.

Lemma init_finv : forall keys f m, finv f m (init_state keys f m).
Proof.
  intros. unfold finv. cbn. apply Forall_forall. intros kt Hin.
  apply in_map_iff in Hin. destruct Hin as (k & <- & _). split; reflexivity.
Qed.

(* ------------------------------------------------------------------ header *)
Definition hinv (st : mstate) : Prop :=
  Forall (fun kt => t_file (snd kt) = true ->
            match index_of (key_rank (fst kt)) (m_lo st) with
            | None => file_content (snd kt) = [] /\ empty_t (snd kt)
            | Some i => exists rows, file_content (snd kt) = header (m_lo st) i :: rows
            end) (m_tr st).

Lemma header_app : forall lo x i, (i < length lo)%nat -> header (lo ++ [x]) i = header lo i.
Proof.
  intros lo x i H. unfold header. rewrite firstn_app.
  replace (S i - length lo)%nat with O by lia. cbn. rewrite app_nil_r. reflexivity.
Qed.

Lemma add_use_hinv : forall n s r c pos kind label stamp,
  hinv s -> hinv (add_use n s r c pos kind label stamp).
Proof.
  intros n s r c pos kind label stamp H. unfold add_use.
  destruct (index_of r (m_lo s)) as [i|] eqn:Ei; [|exact H].
  unfold hinv. cbn [m_tr m_lo]. eapply Forall_map_key; [exact H| |].
  - intros a Ha HP Hf. cbn [fst snd m_lo] in *. change (t_file (snd a) = true) in Hf. specialize (Ha Hf).
    rewrite (key_eqb_rank _ _ _ _ HP) in *. rewrite Ei in *.
    destruct Ha as (rows & Hr). rewrite push_content, Hf, Hr. eexists. reflexivity.
  - intros a Ha _. exact Ha.
Qed.

Lemma step_hinv : forall n e s, hinv s -> hinv (step n s e).
Proof.
  intros n e s H. destruct e; cbn [step]; try (apply add_use_hinv; exact H).
  - destruct (index_of r (m_lo s)) eqn:Ei; [exact H|].
    unfold hinv. cbn [m_tr m_lo]. eapply Forall_map_key; [exact H| |].
    + intros a Ha HP Hf. apply Z.eqb_eq in HP. cbn [fst snd m_lo] in *. change (t_file (snd a) = true) in Hf. specialize (Ha Hf).
      rewrite HP in *. rewrite Ei in Ha. destruct Ha as (_ & Ea).
      rewrite index_of_app_self by auto.
      destruct (start_content (header (m_lo s ++ [r]) (length (m_lo s))) _ Ea) as [Ca _].
      rewrite Ca, Hf. eexists. reflexivity.
    + intros a Ha HP Hf. specialize (Ha Hf). apply Z.eqb_neq in HP.
      destruct (index_of (key_rank (fst a)) (m_lo s)) as [i|] eqn:Ea.
      * rewrite (index_of_app_some _ _ _ _ Ea). rewrite header_app; auto.
        eapply index_of_lt; eauto.
      * assert (index_of (key_rank (fst a)) (m_lo s ++ [r]) = None) as ->; auto.
        clear - Ea HP. induction (m_lo s) as [|y lo IH]; cbn in *.
        { destruct (r =? key_rank (fst a)) eqn:E; auto. apply Z.eqb_eq in E. congruence. }
        destruct (y =? key_rank (fst a)); [discriminate|].
        destruct (index_of (key_rank (fst a)) lo); [discriminate|]. rewrite IH; auto.
  - destruct (index_of r (m_lo s)); exact H.
  - destruct (index_of r (m_lo s)); exact H.
  - exact H.
  - destruct (index_of r (m_lo s)); exact H.
Qed.

Lemma exec_hinv : forall n evs s, hinv s -> hinv (exec n s evs).
Proof. induction evs as [|e evs IH]; intros s H; cbn; auto. apply IH, step_hinv, H. Qed.

Lemma init_hinv : forall keys f m, hinv (init_state keys f m).
Proof.
  intros. unfold hinv. cbn. apply Forall_forall. intros kt Hin.
  apply in_map_iff in Hin. destruct Hin as (k & <- & _). intros _. cbn.
  repeat split; reflexivity.
Qed.

(* every file is empty (rank never registered) or starts with the header that names the loop
   ranks down to the traced rank: [x_pos | x <- loop_order[:i+1]] ++ loop_order[:i+1] ++ [fiber_pos] *)
Theorem header_first : forall n keys f m evs k t,
  In (k, t) (m_tr (exec n (init_state keys f m) evs)) -> t_file t = true ->
  match index_of (key_rank k) (m_lo (exec n (init_state keys f m) evs)) with
  | None => file_content t = []
  | Some i => exists rows,
      file_content t = header (m_lo (exec n (init_state keys f m) evs)) i :: rows
  end.
Proof.
  intros n keys f m evs k t Hin Hf.
  pose proof (exec_hinv n evs _ (init_hinv keys f m)) as H.
  unfold hinv in H. rewrite Forall_forall in H. specialize (H _ Hin Hf). cbn in H.
  destruct (index_of (key_rank k) (m_lo (exec n (init_state keys f m) evs))); auto. apply H.
Qed.
