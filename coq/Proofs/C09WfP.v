(* C09WfP.v — sortedness of contents; uniqueness of sorted permutations; insertion sort. *)
From Coq Require Import ZArith List Bool Lia Permutation PeanoNat.
From FT Require Import Model.Base Model.C09Transform Proofs.C09OrderP Proofs.C09FlattenP Proofs.C09BelowP.
Import ListNotations.
Open Scope Z_scope.

Lemma kcmp_cons_same : forall c q q', kcmp (c :: q) (c :: q') = kcmp q q'.
Proof. intros. unfold kcmp. simpl. rewrite ccmp_refl. reflexivity. Qed.

Lemma kcmp_cons_lt : forall c c' q q', ccmp c c' = Lt -> kcmp (c :: q) (c' :: q') = Lt.
Proof. intros c c' q q' H. unfold kcmp. simpl. rewrite H. reflexivity. Qed.

(* the points of a sorted tree are pairwise ascending (hence distinct) *)
Lemma content_sorted : forall d t, csorted t = true -> pw kcmp (map fst (ccontent d t)).
Proof.
  intros d t. induction t as [v|es IH] using ct_ind'; intros Hs.
  - simpl. destruct (v =? d); simpl; [exact I|split; [constructor|exact I]].
  - simpl in Hs. apply andb_true_iff in Hs. destruct Hs as [Hasc Hsub].
    apply (asc_pw ccmp ccmp_trans) in Hasc. rewrite content_CN.
    induction es as [|[c p] es IHes]; [exact I|].
    simpl in Hasc. destruct Hasc as [Hc Hasc]. simpl in Hsub. apply andb_true_iff in Hsub.
    destruct Hsub as [Hp Hsub]. inversion IH as [|? ? IHp IHrest]; subst. simpl in IHp.
    simpl flat_map. rewrite map_app. apply pw_app.
    + rewrite map_map. simpl. rewrite <- map_map with (f := fst) (g := cons c).
      apply (pw_map kcmp kcmp); [|apply IHp; exact Hp].
      intros a b H. rewrite kcmp_cons_same. exact H.
    + apply IHes; assumption.
    + intros x y Hx Hy. apply in_map_iff in Hx. destruct Hx as [[qx vx] [<- Hx]].
      apply in_map_iff in Hx. destruct Hx as [[q v] [Ex _]]. inversion Ex; subst. simpl.
      apply in_map_iff in Hy. destruct Hy as [[qy vy] [<- Hy]].
      apply in_flat_map in Hy. destruct Hy as [[c' p'] [Hin' Hy]].
      apply in_map_iff in Hy. destruct Hy as [[q' v'] [Ey _]]. inversion Ey; subst. simpl.
      apply kcmp_cons_lt. rewrite Forall_forall in Hc. apply Hc. apply in_map_iff. exists (c', p'). auto.
Qed.

(* ------------------------------------------------------------------ sorted permutations are equal *)
Section Uniq.
  Context {A K : Type} (cmp : K -> K -> comparison) (key : A -> K).
  Hypothesis cmp_anti : forall a b, cmp b a = CompOpp (cmp a b).

  Lemma pw_head_min : forall x l y, pw cmp (map key (x :: l)) -> In y (x :: l) -> y = x \/ cmp (key x) (key y) = Lt.
  Proof.
    intros x l y [Hx _] [<-|Hin]; [left; reflexivity|right].
    rewrite Forall_forall in Hx. apply Hx. apply in_map. exact Hin.
  Qed.

  Lemma sorted_perm_eq : forall l1 l2 : list A,
    pw cmp (map key l1) -> pw cmp (map key l2) -> Permutation l1 l2 -> l1 = l2.
  Proof.
    induction l1 as [|x l1 IH]; intros l2 H1 H2 HP.
    - apply Permutation_nil in HP. subst. reflexivity.
    - destruct l2 as [|y l2]; [apply Permutation_sym, Permutation_nil in HP; discriminate|].
      assert (Hxy : x = y).
      { assert (Hx : In x (y :: l2)) by (eapply Permutation_in; [exact HP|left; reflexivity]).
        assert (Hy : In y (x :: l1)) by (eapply Permutation_in; [apply Permutation_sym; exact HP|left; reflexivity]).
        destruct (pw_head_min _ _ _ H2 Hx) as [E|L1]; [exact E|].
        destruct (pw_head_min _ _ _ H1 Hy) as [E|L2]; [symmetry; exact E|].
        rewrite (cmp_anti (key y) (key x)), L1 in L2. discriminate. }
      subst y. f_equal. apply IH; [apply H1|apply H2|]. eapply Permutation_cons_inv. exact HP.
  Qed.
End Uniq.

(* ------------------------------------------------------------------ insertion sort on distinct keys *)
Section ISort.
  Context {A K : Type} (cmp : K -> K -> comparison) (key : A -> K).
  Hypothesis cmp_anti : forall a b, cmp b a = CompOpp (cmp a b).
  Hypothesis cmp_eq : forall a b, cmp a b = Eq -> a = b.
  Hypothesis cmp_trans : forall a b c, cmp a b = Lt -> cmp b c = Lt -> cmp a c = Lt.

  Lemma ins_by_in : forall x y l, In y (ins_by cmp key x l) <-> y = x \/ In y l.
  Proof.
    induction l as [|z l IH]; simpl; [intuition|].
    destruct (is_lt (cmp (key x) (key z))); simpl; [intuition|]. rewrite IH. intuition.
  Qed.

  Lemma ins_by_pw : forall x l, pw cmp (map key l) -> ~ In (key x) (map key l) ->
    pw cmp (map key (ins_by cmp key x l)).
  Proof.
    induction l as [|z l IH]; intros Hpw Hni; simpl; [split; [constructor|exact I]|].
    destruct Hpw as [Hz Hpw]. simpl in Hz.
    destruct (cmp (key x) (key z)) eqn:E; simpl.
    - exfalso. apply Hni. left. symmetry. apply cmp_eq. exact E.
    - split; [|split; assumption]. constructor; [exact E|].
      eapply Forall_impl; [|exact Hz]. intros k Hk. eapply cmp_trans; eassumption.
    - split.
      + apply Forall_forall. intros k Hk. apply in_map_iff in Hk. destruct Hk as [y [<- Hy]].
        apply ins_by_in in Hy. destruct Hy as [->|Hy].
        * rewrite (cmp_anti (key x) (key z)), E. reflexivity.
        * rewrite Forall_forall in Hz. apply Hz. apply in_map. exact Hy.
      + apply IH; [exact Hpw|]. intros H. apply Hni. right. exact H.
  Qed.

  Lemma sort_by_pw : forall l, NoDup (map key l) -> pw cmp (map key (sort_by cmp key l)).
  Proof.
    induction l as [|x l IH]; intros Hnd; [exact I|].
    simpl in Hnd. inversion Hnd as [|? ? Hx Hrest]; subst. simpl.
    apply ins_by_pw; [apply IH; exact Hrest|].
    intros H. apply Hx. apply in_map_iff in H. destruct H as [y [E Hy]].
    apply in_map_iff. exists y. split; [exact E|].
    clear -Hy. induction l as [|z l IHl]; [exact Hy|]. simpl in Hy. apply ins_by_in in Hy.
    destruct Hy as [->|Hy]; [left; reflexivity|right; auto].
  Qed.
End ISort.

Lemma pw_NoDup : forall {K} (cmp : K -> K -> comparison) (l : list K),
  (forall a, cmp a a = Eq) -> pw cmp l -> NoDup l.
Proof.
  intros K cmp l Hr. induction l as [|x l IH]; intros H; [constructor|].
  destruct H as [Hx Hl]. constructor; [|auto].
  intros Hin. rewrite Forall_forall in Hx. specialize (Hx _ Hin). rewrite Hr in Hx. discriminate.
Qed.
