(* Proofs about Model/C12Eq.v: equality = equal content, emptiness, counting, pruning. *)
From Coq Require Import ZArith List Bool Lia.
From FT Require Import Model.Base Model.C12Eq.
Import ListNotations.
Open Scope Z_scope.

(* ------------------------------------------------------------------ content *)
Definition node_content (d : Z) (es : fib) : list (list Z * Z) :=
  flat_map (fun ct => map (fun pv => (fst ct :: fst pv, snd pv)) (content d (snd ct))) es.

Lemma content_node d es : content d (Node es) = node_content d es.
Proof. reflexivity. Qed.

Lemma node_content_cons d c t es :
  node_content d ((c, t) :: es)
  = map (fun pv => (c :: fst pv, snd pv)) (content d t) ++ node_content d es.
Proof. reflexivity. Qed.

Lemma is_empty_content d t : is_empty d t = true <-> content d t = [].
Proof.
  induction t as [v|es IH] using tree_ind'; simpl.
  - destruct (Z.eqb v d); split; congruence.
  - induction es as [|[c t] es IHes]; simpl; [tauto|].
    inversion IH as [|? ? Ht Hes]; subst. simpl in Ht.
    rewrite andb_true_iff, Ht, (IHes Hes).
    split.
    + intros [-> ->]. reflexivity.
    + intros H. apply app_eq_nil in H. destruct H as [H1 H2].
      split; auto. destruct (content d t); [reflexivity|discriminate].
Qed.

Lemma is_empty_false_content d t : is_empty d t = false <-> content d t <> [].
Proof.
  rewrite <- is_empty_content. destruct (is_empty d t); split; congruence.
Qed.

Lemma present_nil_content d es : present d es = [] <-> node_content d es = [].
Proof.
  induction es as [|[c t] es IH]; [simpl; tauto|].
  rewrite node_content_cons. unfold present in *. cbn [filter snd].
  destruct (is_empty d t) eqn:E; cbn [negb].
  - apply is_empty_content in E. rewrite E. simpl. exact IH.
  - split; [discriminate|]. intros H.
    apply app_eq_nil in H. destruct H as [H _].
    assert (content d t = []) as Hc by (destruct (content d t); [reflexivity|discriminate]).
    apply is_empty_content in Hc. congruence.
Qed.

(* ------------------------------------------------------------------ sortedness *)
Lemma ssorted_cons_inv c l :
  ssorted (c :: l) = true -> ssorted l = true /\ Forall (fun x => c < x) l.
Proof.
  revert c. induction l as [|y l IH]; intros c H.
  - split; [reflexivity|constructor].
  - change (Z.ltb c y && ssorted (y :: l) = true) in H.
    apply andb_true_iff in H. destruct H as [Hcy Hs]. split; [exact Hs|].
    apply Z.ltb_lt in Hcy. constructor; [exact Hcy|].
    destruct (IH y Hs) as [_ Hall].
    eapply Forall_impl; [|exact Hall]. intros x Hx. simpl in Hx. lia.
Qed.

Lemma ssorted_cons c l :
  ssorted l = true -> Forall (fun x => c < x) l -> ssorted (c :: l) = true.
Proof.
  intros Hs Hall. destruct l as [|y l]; [reflexivity|].
  change (Z.ltb c y && ssorted (y :: l) = true).
  inversion Hall; subst. apply andb_true_iff. split; [apply Z.ltb_lt; assumption|assumption].
Qed.

Definition heads_gt (c : Z) (l : list (list Z * Z)) : Prop :=
  Forall (fun pv => match fst pv with [] => False | h :: _ => c < h end) l.

Lemma node_content_heads d c es :
  Forall (fun x => c < x) (map fst es) -> heads_gt c (node_content d es).
Proof.
  induction es as [|[c' t] es IH]; intros H; [constructor|].
  simpl in H. inversion H; subst. unfold heads_gt. rewrite node_content_cons. apply Forall_app. split.
  - apply Forall_forall. intros pv Hin. apply in_map_iff in Hin.
    destruct Hin as [x [<- _]]. simpl. assumption.
  - apply IH; assumption.
Qed.

Lemma split_by_head c (X Y R1 R2 : list (list Z * Z)) :
  heads_gt c R1 -> heads_gt c R2 ->
  map (fun pv => (c :: fst pv, snd pv)) X ++ R1 = map (fun pv => (c :: fst pv, snd pv)) Y ++ R2 ->
  X = Y /\ R1 = R2.
Proof.
  intros H1 H2. revert Y. induction X as [|[p v] X IH]; intros Y H; simpl in *.
  - destruct Y as [|[q w] Y]; simpl in *; [auto|].
    subst R1. inversion H1 as [|? ? Hh _]; subst. simpl in Hh. lia.
  - destruct Y as [|[q w] Y]; simpl in *.
    + subst R2. inversion H2 as [|? ? Hh _]; subst. simpl in Hh. lia.
    + inversion H; subst. destruct (IH Y) as [-> ->]; auto.
Qed.

Lemma content_nonempty_head d c t R :
  is_empty d t = false ->
  exists p v rest, map (fun pv => (c :: fst pv, snd pv)) (content d t) ++ R = (c :: p, v) :: rest.
Proof.
  intros E. destruct (content d t) as [|[p v] l] eqn:Hc.
  - apply is_empty_content in Hc. congruence.
  - simpl. eauto.
Qed.

(* ------------------------------------------------------------------ __eq__ *)
Lemma fiber_eq_node da db ea eb :
  fiber_eq da db (Node ea) (Node eb) = eq_walk da db (fiber_eq da db) ea eb.
Proof. reflexivity. Qed.

Lemma eq_walk_nil da db eq lb :
  eq_walk da db eq [] lb = match present db lb with [] => true | _ :: _ => false end.
Proof. reflexivity. Qed.

(* one step of the walk, a side: an empty element is skipped *)
Lemma eq_walk_skip_a da db eq ca ta la lb :
  is_empty da ta = true -> eq_walk da db eq ((ca, ta) :: la) lb = eq_walk da db eq la lb.
Proof. intros E. cbn [eq_walk]. rewrite E. reflexivity. Qed.

Lemma eq_walk_a_nil da db eq ca ta la :
  is_empty da ta = false -> eq_walk da db eq ((ca, ta) :: la) [] = false.
Proof. intros E. cbn [eq_walk]. rewrite E. reflexivity. Qed.

Lemma eq_walk_skip_b da db eq ca ta la cb tb lb :
  is_empty da ta = false -> is_empty db tb = true ->
  eq_walk da db eq ((ca, ta) :: la) ((cb, tb) :: lb) = eq_walk da db eq ((ca, ta) :: la) lb.
Proof. intros Ea Eb. cbn [eq_walk]. rewrite Ea, Eb. reflexivity. Qed.

Lemma eq_walk_both da db eq ca ta la cb tb lb :
  is_empty da ta = false -> is_empty db tb = false ->
  eq_walk da db eq ((ca, ta) :: la) ((cb, tb) :: lb)
  = if Z.eqb ca cb then eq ta tb && eq_walk da db eq la lb else false.
Proof.
  intros Ea Eb. cbn [eq_walk]. rewrite Ea, Eb.
  destruct (Z.eqb ca cb); [|destruct (Z.ltb ca cb); reflexivity].
  destruct (eq ta tb); reflexivity.
Qed.

Lemma forallb_cons {A} (f : A -> bool) x l :
  forallb f (x :: l) = true <-> f x = true /\ forallb f l = true.
Proof. simpl. apply andb_true_iff. Qed.

Section Walk.
  Variables (n : nat) (da db : Z).
  Hypothesis IH : forall ta tb,
    depth_ok n ta = true -> depth_ok n tb = true ->
    sorted_t ta = true -> sorted_t tb = true ->
    is_empty da ta = false -> is_empty db tb = false ->
    (fiber_eq da db ta tb = true <-> content da ta = content db tb).

  Lemma walk_content : forall ea eb,
    forallb (fun ct => depth_ok n (snd ct)) ea = true ->
    forallb (fun ct => depth_ok n (snd ct)) eb = true ->
    ssorted (map fst ea) = true -> forallb (fun ct => sorted_t (snd ct)) ea = true ->
    ssorted (map fst eb) = true -> forallb (fun ct => sorted_t (snd ct)) eb = true ->
    (eq_walk da db (fiber_eq da db) ea eb = true <-> node_content da ea = node_content db eb).
  Proof.
    induction ea as [|[ca ta] ea IHa]; intros eb Da Db Sa Sa' Sb Sb'.
    - rewrite eq_walk_nil. destruct (present db eb) eqn:E.
      + apply present_nil_content in E. rewrite E. simpl. tauto.
      + split; [discriminate|]. intros H. symmetry in H. simpl in H.
        apply present_nil_content in H. congruence.
    - apply forallb_cons in Da. destruct Da as [Dta Da]. simpl in Dta.
      apply forallb_cons in Sa'. destruct Sa' as [Sta Sa']. simpl in Sta.
      simpl in Sa. apply ssorted_cons_inv in Sa. destruct Sa as [Sa Hgt].
      rewrite node_content_cons. destruct (is_empty da ta) eqn:Ea.
      + rewrite eq_walk_skip_a by assumption.
        apply is_empty_content in Ea. rewrite Ea. simpl. apply IHa; auto.
      + induction eb as [|[cb tb] eb IHb].
        * rewrite eq_walk_a_nil by assumption. split; [discriminate|]. intros H.
          destruct (content_nonempty_head da ca ta (node_content da ea) Ea) as [p [v [rest Hh]]].
          rewrite Hh in H. discriminate.
        * apply forallb_cons in Db. destruct Db as [Dtb Db]. simpl in Dtb.
          apply forallb_cons in Sb'. destruct Sb' as [Stb Sb']. simpl in Stb.
          simpl in Sb. apply ssorted_cons_inv in Sb. destruct Sb as [Sb Hgtb].
          rewrite node_content_cons.
          destruct (is_empty db tb) eqn:Eb.
          -- rewrite eq_walk_skip_b by assumption.
             assert (content db tb = []) as -> by (apply is_empty_content; assumption). simpl.
             apply IHb; auto.
          -- rewrite eq_walk_both by assumption.
             destruct (Z.eqb_spec ca cb) as [->|Hne].
             ++ rewrite andb_true_iff. rewrite (IH ta tb Dta Dtb Sta Stb Ea Eb).
                rewrite (IHa eb Da Db Sa Sa' Sb Sb').
                split.
                ** intros [-> ->]. reflexivity.
                ** intros H.
                   pose proof (node_content_heads da cb ea Hgt) as G1.
                   pose proof (node_content_heads db cb eb Hgtb) as G2.
                   destruct (split_by_head _ _ _ _ _ G1 G2 H) as [H1 H2]. split; assumption.
             ++ split; [discriminate|]. intros H.
                destruct (content_nonempty_head da ca ta (node_content da ea) Ea) as [p [v [r1 H1]]].
                destruct (content_nonempty_head db cb tb (node_content db eb) Eb) as [q [w [r2 H2]]].
                rewrite H1, H2 in H. inversion H. congruence.
  Qed.
End Walk.

(* equality of two non-empty trees of the same depth (their leaf defaults may differ) *)
Lemma fiber_eq_content_ne : forall n da db a b,
  depth_ok n a = true -> depth_ok n b = true ->
  sorted_t a = true -> sorted_t b = true ->
  is_empty da a = false -> is_empty db b = false ->
  (fiber_eq da db a b = true <-> content da a = content db b).
Proof.
  induction n as [|n IHn]; intros da db a b Da Db Sa Sb Ea Eb.
  - destruct a as [va|ea]; [|discriminate]. destruct b as [vb|eb]; [|discriminate].
    simpl in *. rewrite Ea, Eb. rewrite Z.eqb_eq. split; [intros ->; reflexivity|].
    intros H. inversion H. reflexivity.
  - destruct a as [va|ea]; [discriminate|]. destruct b as [vb|eb]; [discriminate|].
    rewrite fiber_eq_node, !content_node.
    simpl in Da, Db, Sa, Sb.
    apply andb_true_iff in Sa. destruct Sa as [Sa Sa'].
    apply andb_true_iff in Sb. destruct Sb as [Sb Sb'].
    apply (walk_content n da db (IHn da db)); assumption.
Qed.

(* the same for root fibers, which may be empty *)
Lemma fiber_eq_content : forall n da db ea eb,
  depth_ok n (Node ea) = true -> depth_ok n (Node eb) = true ->
  sorted_t (Node ea) = true -> sorted_t (Node eb) = true ->
  (fiber_eq da db (Node ea) (Node eb) = true <-> content da (Node ea) = content db (Node eb)).
Proof.
  intros n da db ea eb Da Db Sa Sb.
  destruct n as [|n]; [discriminate|].
  rewrite fiber_eq_node, !content_node.
  simpl in Da, Db, Sa, Sb.
  apply andb_true_iff in Sa. destruct Sa as [Sa Sa'].
  apply andb_true_iff in Sb. destruct Sb as [Sb Sb'].
  apply (walk_content n da db); try assumption.
  intros ta tb. apply fiber_eq_content_ne.
Qed.

(* ------------------------------------------------------------------ equivalence relation *)
Definition wf_root (n : nat) (t : tree) : Prop :=
  (exists es, t = Node es) /\ depth_ok n t = true /\ sorted_t t = true.

Lemma fiber_eq_content_wf n da db a b :
  wf_root n a -> wf_root n b ->
  (fiber_eq da db a b = true <-> content da a = content db b).
Proof.
  intros [[ea ->] [Da Sa]] [[eb ->] [Db Sb]]. apply (fiber_eq_content n); assumption.
Qed.

Lemma fiber_eq_refl n d a : wf_root n a -> fiber_eq d d a a = true.
Proof. intros W. apply (fiber_eq_content_wf n d d a a W W). reflexivity. Qed.

Lemma fiber_eq_sym n da db a b :
  wf_root n a -> wf_root n b -> fiber_eq da db a b = fiber_eq db da b a.
Proof.
  intros Wa Wb.
  pose proof (fiber_eq_content_wf n da db a b Wa Wb) as H1.
  pose proof (fiber_eq_content_wf n db da b a Wb Wa) as H2.
  destruct (fiber_eq da db a b), (fiber_eq db da b a); try reflexivity.
  - symmetry. apply H2. symmetry. apply H1. reflexivity.
  - apply H1. symmetry. apply H2. reflexivity.
Qed.

Lemma fiber_eq_trans n da db dc a b c :
  wf_root n a -> wf_root n b -> wf_root n c ->
  fiber_eq da db a b = true -> fiber_eq db dc b c = true -> fiber_eq da dc a c = true.
Proof.
  intros Wa Wb Wc H1 H2.
  apply (fiber_eq_content_wf n da db a b Wa Wb) in H1.
  apply (fiber_eq_content_wf n db dc b c Wb Wc) in H2.
  apply (fiber_eq_content_wf n da dc a c Wa Wc). congruence.
Qed.

(* ------------------------------------------------------------------ Tensor.__eq__ *)
Lemma ids_eqb_spec x y : ids_eqb x y = true <-> x = y.
Proof.
  revert y. induction x as [|a x IH]; intros [|b y]; simpl; try (split; congruence).
  rewrite andb_true_iff, Z.eqb_eq, IH. split; [intros [-> ->]; reflexivity|].
  intros H. inversion H. split; reflexivity.
Qed.

Lemma tensor_eq_spec n ia ib da db a b :
  wf_root n a -> wf_root n b ->
  (tensor_eq ia ib da db a b = true <-> ia = ib /\ content da a = content db b).
Proof.
  intros Wa Wb. unfold tensor_eq.
  rewrite andb_true_iff, ids_eqb_spec, (fiber_eq_content_wf n da db a b Wa Wb). tauto.
Qed.

(* ------------------------------------------------------------------ deepcopy *)
Lemma deep_copy_id t : deep_copy t = t.
Proof.
  induction t as [v|es IH] using tree_ind'; [reflexivity|].
  simpl. f_equal. induction es as [|[c t] es IHes]; [reflexivity|].
  inversion IH as [|? ? Ht Hes]; subst. simpl in *. rewrite Ht, (IHes Hes). reflexivity.
Qed.

Lemma deep_copy_eq n d t : wf_root n t ->
  fiber_eq d d (deep_copy t) t = true /\ fiber_eq d d t (deep_copy t) = true.
Proof. intros W. rewrite deep_copy_id. split; apply (fiber_eq_refl n); assumption. Qed.

(* ------------------------------------------------------------------ countValues *)
Lemma fold_count d es : forall acc,
  fold_left (fun count (ct : Z * tree) => count + count_values d (snd ct)) es acc
  = acc + sumZ (map (fun ct => count_values d (snd ct)) es).
Proof.
  induction es as [|ct es IH]; intros acc; simpl; [lia|]. rewrite IH. lia.
Qed.

Lemma count_values_content d t : count_values d t = Z.of_nat (length (content d t)).
Proof.
  induction t as [v|es IH] using tree_ind'.
  - simpl. destruct (Z.eqb v d); reflexivity.
  - cbn [count_values]. rewrite fold_count, content_node.
    induction es as [|[c t] es IHes]; [reflexivity|].
    inversion IH as [|? ? Ht Hes]; subst. simpl in Ht.
    rewrite node_content_cons, app_length, map_length, Nat2Z.inj_add.
    specialize (IHes Hes). cbn [map sumZ fold_right snd] in *. unfold sumZ in IHes. lia.
Qed.

(* ------------------------------------------------------------------ nonEmpty *)
Lemma non_empty_node d es : non_empty d (Node es) = Node (non_empty_list d es).
Proof. reflexivity. Qed.

Lemma non_empty_content d t : content d (non_empty d t) = content d t.
Proof.
  induction t as [v|es IH] using tree_ind'; [reflexivity|].
  rewrite non_empty_node, !content_node.
  induction es as [|[c t] es IHes]; [reflexivity|].
  inversion IH as [|? ? Ht Hes]; subst. simpl in Ht.
  cbn [non_empty_list]. destruct (is_empty d t) eqn:E.
  - rewrite node_content_cons. apply is_empty_content in E. rewrite E. simpl. apply IHes, Hes.
  - rewrite !node_content_cons, Ht, (IHes Hes). reflexivity.
Qed.

Lemma non_empty_is_empty d t : is_empty d (non_empty d t) = is_empty d t.
Proof.
  pose proof (is_empty_content d (non_empty d t)) as H1.
  pose proof (is_empty_content d t) as H2.
  rewrite non_empty_content in H1.
  destruct (is_empty d (non_empty d t)), (is_empty d t); try reflexivity.
  - symmetry. apply H2, H1. reflexivity.
  - apply H1, H2. reflexivity.
Qed.

Lemma non_empty_depth d : forall t n, depth_ok n t = true -> depth_ok n (non_empty d t) = true.
Proof.
  induction t as [v|es IH] using tree_ind'; intros n H; [exact H|].
  destruct n as [|n]; [discriminate|].
  rewrite non_empty_node. cbn [depth_ok] in *.
  induction es as [|[c t] es IHes]; [reflexivity|].
  inversion IH as [|? ? Ht Hes]; subst. simpl in Ht.
  apply forallb_cons in H. destruct H as [H1 H2]. simpl in H1.
  cbn [non_empty_list]. destruct (is_empty d t).
  - apply IHes; assumption.
  - apply forallb_cons. split; [apply Ht, H1|apply IHes; assumption].
Qed.

Lemma non_empty_list_fst_Forall d (Q : Z -> Prop) es :
  Forall Q (map fst es) -> Forall Q (map fst (non_empty_list d es)).
Proof.
  induction es as [|[c t] es IH]; intros H; [constructor|].
  simpl in H. inversion H; subst. cbn [non_empty_list]. destruct (is_empty d t).
  - apply IH; assumption.
  - simpl. constructor; [assumption|apply IH; assumption].
Qed.

Lemma non_empty_list_ssorted d es :
  ssorted (map fst es) = true -> ssorted (map fst (non_empty_list d es)) = true.
Proof.
  induction es as [|[c t] es IH]; intros H; [reflexivity|].
  simpl in H. apply ssorted_cons_inv in H. destruct H as [Hs Hall].
  cbn [non_empty_list]. destruct (is_empty d t).
  - apply IH, Hs.
  - simpl. apply ssorted_cons; [apply IH, Hs|apply non_empty_list_fst_Forall, Hall].
Qed.

Lemma non_empty_sorted d t : sorted_t t = true -> sorted_t (non_empty d t) = true.
Proof.
  induction t as [v|es IH] using tree_ind'; intros H; [exact H|].
  rewrite non_empty_node. cbn [sorted_t] in *.
  apply andb_true_iff in H. destruct H as [Hs Hf].
  apply andb_true_iff. split; [apply non_empty_list_ssorted, Hs|].
  clear Hs. induction es as [|[c t] es IHes]; [reflexivity|].
  inversion IH as [|? ? Ht Hes]; subst. simpl in Ht.
  apply forallb_cons in Hf. destruct Hf as [H1 H2]. simpl in H1.
  cbn [non_empty_list]. destruct (is_empty d t).
  - apply IHes; assumption.
  - apply forallb_cons. split; [apply Ht, H1|apply IHes; assumption].
Qed.

Lemma non_empty_wf n d t : wf_root n t -> wf_root n (non_empty d t).
Proof.
  intros [[es ->] [D S]]. split; [|split].
  - eexists. apply non_empty_node.
  - apply non_empty_depth, D.
  - apply non_empty_sorted, S.
Qed.

Lemma non_empty_eq n d t : wf_root n t ->
  fiber_eq d d (non_empty d t) t = true /\ fiber_eq d d t (non_empty d t) = true.
Proof.
  intros W. pose proof (non_empty_wf n d t W) as W'.
  split.
  - apply (fiber_eq_content_wf n d d _ _ W' W). apply non_empty_content.
  - apply (fiber_eq_content_wf n d d _ _ W W'). symmetry. apply non_empty_content.
Qed.
