(* C17BuffetP.v — the buffet state machine of one binding charges exactly one fill per
   (line, window) pair whose first access is a read and one write-back per pair that contains
   a write to be written back.  Invariant: lines leave in insertion order (drain), the
   dictionary is empty whenever the eviction window changes, a line that waits for its drain
   is never accessed again. *)
From Coq Require Import ZArith List Bool Lia PeanoNat.
From FT Require Import Model.Base Model.Obs Model.C17Traffic Model.C17Check
                       Proofs.C17TrafficP Proofs.C17CheckP.
Import ListNotations.
Open Scope Z_scope.

(* ------------------------------------------------------------------ the counts on accesses *)
Definition obj_eq (a b : access) : bool := list_eqb (a_obj a) (a_obj b).
Definition win (e : nat) (a : access) : list Z := firstn e (a_stamp a).
Definition pair_eq (e : nat) (a b : access) : bool := obj_eq a b && list_eqb (win e a) (win e b).

Fixpoint afills (e : nat) (hist l : list access) : Z :=
  match l with
  | [] => 0
  | a :: l' => (if negb (a_w a) && negb (existsb (pair_eq e a) hist) then 1 else 0)
               + afills e (a :: hist) l'
  end.

Fixpoint awbs (e : nat) (hist l : list access) : Z :=
  match l with
  | [] => 0
  | a :: l' => (if a_wb a && negb (existsb (fun h => pair_eq e a h && a_wb h) hist) then 1 else 0)
               + awbs e (a :: hist) l'
  end.

(* ------------------------------------------------------------------ dictionaries *)
Definition dict := list (list Z * (bool * Z)).

Lemma assoc_in {B} o (l : list (list Z * B)) v : assoc o l = Some v -> In (o, v) l.
Proof.
  induction l as [|[k w] l IH]; cbn [assoc]; [discriminate|].
  destruct (list_eqb o k) eqn:E.
  - intros H. inversion H; subst. apply list_eqb_eq in E. subst. left. reflexivity.
  - intros H. right. apply IH. exact H.
Qed.

Lemma assoc_none_keys {B} o (l : list (list Z * B)) : assoc o l = None <-> ~ In o (map fst l).
Proof.
  induction l as [|[k w] l IH]; cbn [assoc map fst In]; [tauto|].
  destruct (list_eqb o k) eqn:E.
  - apply list_eqb_eq in E. subst. split; [discriminate|]. intros H. exfalso. apply H. left. reflexivity.
  - apply list_eqb_neq in E. rewrite IH. split; [intros H [H'|H']; [congruence|auto]|tauto].
Qed.

Lemma assoc_some_keys {B} o (l : list (list Z * B)) v : assoc o l = Some v -> In o (map fst l).
Proof. intros H. apply assoc_in in H. apply (in_map fst) in H. exact H. Qed.

Lemma assoc_set_same o b (l : dict) :
  assoc o (set_dirty o b l) = option_map (fun v => (fst v || b, snd v)) (assoc o l).
Proof.
  induction l as [|[k [d s]] l IH]; cbn [set_dirty assoc]; auto.
  destruct (list_eqb o k) eqn:E; cbn [assoc]; rewrite E; auto.
Qed.

Lemma assoc_set_other o o' b (l : dict) : o' <> o -> assoc o' (set_dirty o b l) = assoc o' l.
Proof.
  intros N. induction l as [|[k [d s]] l IH]; cbn [set_dirty assoc]; auto.
  destruct (list_eqb o k) eqn:E; cbn [assoc].
  - apply list_eqb_eq in E. subst k.
    assert (list_eqb o' o = false) as -> by (apply list_eqb_neq; exact N). reflexivity.
  - rewrite IH. reflexivity.
Qed.

Lemma keys_set o b (l : dict) : map fst (set_dirty o b l) = map fst l.
Proof.
  induction l as [|[k [d s]] l IH]; cbn [set_dirty map fst]; auto.
  destruct (list_eqb o k); cbn [map fst]; [reflexivity|]. rewrite IH. reflexivity.
Qed.

Lemma assoc_remove_other {B} o o' (l : list (list Z * B)) :
  o' <> o -> assoc o' (remove_obj o l) = assoc o' l.
Proof.
  intros N. induction l as [|[k w] l IH]; cbn [remove_obj assoc]; auto.
  destruct (list_eqb o k) eqn:E.
  - apply list_eqb_eq in E. subst k.
    assert (list_eqb o' o = false) as -> by (apply list_eqb_neq; exact N). reflexivity.
  - cbn [assoc]. rewrite IH. reflexivity.
Qed.

Lemma keys_remove_incl {B} o (l : list (list Z * B)) x :
  In x (map fst (remove_obj o l)) -> In x (map fst l).
Proof.
  induction l as [|[k w] l IH]; cbn [remove_obj map fst In]; auto.
  destruct (list_eqb o k); cbn [map fst In]; tauto.
Qed.

Lemma nodup_remove {B} o (l : list (list Z * B)) :
  NoDup (map fst l) -> NoDup (map fst (remove_obj o l)).
Proof.
  induction l as [|[k w] l IH]; cbn [remove_obj map fst]; auto.
  intros H. inversion H as [|? ? Hn Hd]; subst.
  destruct (list_eqb o k); auto. cbn [map fst]. constructor; auto.
  intros Hin. apply Hn. eapply keys_remove_incl. exact Hin.
Qed.

Lemma assoc_remove_same {B} o (l : list (list Z * B)) :
  NoDup (map fst l) -> assoc o (remove_obj o l) = None.
Proof.
  induction l as [|[k w] l IH]; cbn [remove_obj map fst]; auto.
  intros H. inversion H as [|? ? Hn Hd]; subst.
  destruct (list_eqb o k) eqn:E.
  - apply list_eqb_eq in E. subst k. apply assoc_none_keys. exact Hn.
  - cbn [assoc]. rewrite E. apply IH. exact Hd.
Qed.

Definition ndirty (l : dict) : Z :=
  sumZ (map (fun x : list Z * (bool * Z) => if fst (snd x) then 1 else 0) l).

Lemma ndirty_set o b (l : dict) :
  ndirty (set_dirty o b l)
  = ndirty l + match assoc o l with Some (d, _) => if negb d && b then 1 else 0 | None => 0 end.
Proof.
  unfold ndirty, sumZ. induction l as [|[k [d s]] l IH]; cbn [set_dirty assoc map fold_right]; [lia|].
  destruct (list_eqb o k); cbn [map fold_right fst snd].
  - destruct d, b; cbn [orb negb andb]; lia.
  - rewrite IH. lia.
Qed.

Lemma ndirty_remove o (l : dict) :
  ndirty (remove_obj o l)
  = ndirty l - match assoc o l with Some (d, _) => if d then 1 else 0 | None => 0 end.
Proof.
  unfold ndirty, sumZ. induction l as [|[k [d s]] l IH]; cbn [remove_obj assoc map fold_right]; [lia|].
  destruct (list_eqb o k); cbn [map fold_right fst snd].
  - lia.
  - rewrite IH. lia.
Qed.

(* sequence numbers: the dictionary lists cnt-1, ..., ptr from the head *)
Fixpoint seqs_ok (l : dict) (p c : Z) : Prop :=
  match l with
  | [] => p = c
  | (_, (_, q)) :: rest => q = c - 1 /\ seqs_ok rest p (c - 1)
  end.

Lemma seqs_le l : forall p c, seqs_ok l p c -> p <= c.
Proof.
  induction l as [|[k [d q]] l IH]; cbn [seqs_ok]; intros p c H; [lia|].
  destruct H as [_ H]. apply IH in H. lia.
Qed.

Lemma seqs_bounds l : forall p c o d q, seqs_ok l p c -> In (o, (d, q)) l -> p <= q < c.
Proof.
  induction l as [|[k [d' q']] l IH]; cbn [seqs_ok In]; intros p c o d q H Hin; [destruct Hin|].
  destruct H as [Hq H]. destruct Hin as [E|Hin].
  - inversion E; subst. apply seqs_le in H. lia.
  - specialize (IH _ _ _ _ _ H Hin). lia.
Qed.

Lemma seqs_inj l : forall p c o1 d1 o2 d2 q, seqs_ok l p c ->
  In (o1, (d1, q)) l -> In (o2, (d2, q)) l -> o1 = o2.
Proof.
  induction l as [|[k [d' q']] l IH]; cbn [seqs_ok In]; intros p c o1 d1 o2 d2 q H H1 H2; [destruct H1|].
  destruct H as [Hq H].
  destruct H1 as [E1|H1], H2 as [E2|H2].
  - congruence.
  - inversion E1; subst. pose proof (seqs_bounds _ _ _ _ _ _ H H2). lia.
  - inversion E2; subst. pose proof (seqs_bounds _ _ _ _ _ _ H H1). lia.
  - eapply IH; eassumption.
Qed.

Lemma seqs_set o b l : forall p c, seqs_ok l p c -> seqs_ok (set_dirty o b l) p c.
Proof.
  induction l as [|[k [d q]] l IH]; cbn [set_dirty seqs_ok]; auto.
  intros p c [Hq H]. destruct (list_eqb o k); cbn [seqs_ok]; auto.
Qed.

Lemma seqs_last l : forall p c, seqs_ok l p c -> NoDup (map fst l) -> l <> [] ->
  exists o d, assoc o l = Some (d, p).
Proof.
  induction l as [|[k [d q]] l IH]; intros p c H N Hne; [contradiction|].
  cbn [seqs_ok] in H. destruct H as [Hq H]. cbn [map fst] in N. inversion N as [|? ? Hn Hd]; subst.
  destruct l as [|e l'].
  - cbn [seqs_ok] in H. exists k, d. cbn [assoc]. rewrite list_eqb_refl. f_equal. f_equal. lia.
  - destruct (IH _ _ H Hd ltac:(discriminate)) as [o [d' Ho]].
    exists o, d'. cbn [assoc].
    assert (list_eqb o k = false) as ->.
    { apply list_eqb_neq. intros ->. apply Hn. eapply assoc_some_keys. exact Ho. }
    exact Ho.
Qed.

Lemma seqs_remove_ptr o l : forall p c d, seqs_ok l p c -> NoDup (map fst l) ->
  assoc o l = Some (d, p) -> seqs_ok (remove_obj o l) (p + 1) c.
Proof.
  induction l as [|[k [d' q]] l IH]; intros p c d H N Ho; [discriminate|].
  cbn [seqs_ok] in H. destruct H as [Hq H]. cbn [map fst] in N. inversion N as [|? ? Hn Hd]; subst.
  cbn [assoc] in Ho. cbn [remove_obj]. destruct (list_eqb o k) eqn:E.
  - inversion Ho; subst. (* p = c - 1: the rest must be empty *)
    destruct l as [|[k2 [d2 q2]] l2]; cbn [seqs_ok] in *; [lia|].
    destruct H as [_ H]. apply seqs_le in H. lia.
  - cbn [seqs_ok]. split; auto. eapply IH; eauto.
Qed.

(* ready_to_drain *)
Lemma assocZ_remove_other {B} k q (l : list (Z * B)) : q <> k -> assocZ q (removeZ k l) = assocZ q l.
Proof.
  intros N. induction l as [|[k' v] l IH]; cbn [removeZ assocZ]; auto.
  destruct (Z.eqb_spec k k').
  - subst k'. destruct (Z.eqb_spec q k); [contradiction|reflexivity].
  - cbn [assocZ]. rewrite IH. reflexivity.
Qed.

Lemma length_removeZ {B} k (l : list (Z * B)) v :
  assocZ k l = Some v -> S (length (removeZ k l)) = length l.
Proof.
  induction l as [|[k' w] l IH]; cbn [removeZ assocZ]; [discriminate|].
  destruct (Z.eqb k k'); cbn [length]; auto.
Qed.

(* ------------------------------------------------------------------ the drain loop *)
Definition live (s : bst) (o : list Z) : Prop :=
  exists d q, assoc o (b_objs s) = Some (d, q) /\ assocZ q (b_ready s) = None.

Record PD (s : bst) : Prop := {
  P_nd : NoDup (map fst (b_objs s));
  P_seq : seqs_ok (b_objs s) (b_ptr s) (b_cnt s);
  P_rdy : forall q o, b_ptr s <= q -> assocZ q (b_ready s) = Some o ->
                      exists d, assoc o (b_objs s) = Some (d, q) }.

Lemma seq_unique s o1 o2 d1 d2 q : PD s ->
  assoc o1 (b_objs s) = Some (d1, q) -> assoc o2 (b_objs s) = Some (d2, q) -> o1 = o2.
Proof.
  intros P H1 H2. eapply seqs_inj; [exact (P_seq _ P)|apply assoc_in; exact H1|apply assoc_in; exact H2].
Qed.

Lemma drain_spec line : forall fuel s n s' n',
  drain fuel line s n = (s', n') -> PD s ->
  PD s' /\ b_rd s' = b_rd s /\ b_cnt s' = b_cnt s /\ b_ptr s <= b_ptr s'
  /\ b_wr s' + line * ndirty (b_objs s') = b_wr s + line * ndirty (b_objs s)
  /\ (forall o, live s' o <-> live s o)
  /\ (forall q, b_ptr s' <= q -> assocZ q (b_ready s') = assocZ q (b_ready s))
  /\ (forall o v, assoc o (b_objs s') = Some v -> assoc o (b_objs s) = Some v)
  /\ ((length (b_ready s) < fuel)%nat -> assocZ (b_ptr s') (b_ready s') = None).
Proof.
  induction fuel as [|f IH]; intros s n s' n' H P.
  - cbn [drain] in H. inversion H; subst.
    split; [exact P|]. repeat split; auto; try lia; try tauto.
  - cbn [drain] in H. destruct (assocZ (b_ptr s) (b_ready s)) as [o|] eqn:E.
    + destruct (P_rdy _ P _ _ (Z.le_refl _) E) as [d Ho]. rewrite Ho in H.
      match type of H with drain f line ?t _ = _ => pose (t0 := t); change (drain f line t0 (n + 1) = (s', n')) in H end.
      assert (Pt : PD t0).
      { constructor; cbn [t0 b_objs b_ptr b_cnt b_ready].
        - apply nodup_remove. exact (P_nd _ P).
        - eapply seqs_remove_ptr; [exact (P_seq _ P)|exact (P_nd _ P)|exact Ho].
        - intros q o' Hq Hr. rewrite assocZ_remove_other in Hr by lia.
          destruct (P_rdy _ P q o' ltac:(lia) Hr) as [d' Ho'].
          exists d'. rewrite assoc_remove_other; auto.
          intros ->. rewrite Ho in Ho'. inversion Ho'. lia. }
      destruct (IH _ _ _ _ H Pt) as (P' & Hrd & Hcnt & Hptr & Hwr & Hlive & Hrdy & Hsub & Hnone).
      cbn [t0 b_objs b_ptr b_cnt b_ready b_rd b_wr] in *.
      split; [exact P'|]. split; [exact Hrd|]. split; [exact Hcnt|]. split; [lia|].
      split.
      { rewrite Hwr, ndirty_remove, Ho. destruct d; lia. }
      split.
      { intros o'. rewrite Hlive. unfold live. cbn [t0 b_objs b_ready]. split.
        - intros (d' & q' & H1 & H2).
          destruct (list_eqb o' o) eqn:Eo.
          + apply list_eqb_eq in Eo. subst o'. rewrite assoc_remove_same in H1 by exact (P_nd _ P). discriminate.
          + apply list_eqb_neq in Eo. rewrite assoc_remove_other in H1 by exact Eo.
            exists d', q'. split; auto.
            rewrite assocZ_remove_other in H2; auto.
            intros ->. apply Eo. exact (seq_unique s o' o d' d (b_ptr s) P H1 Ho).
        - intros (d' & q' & H1 & H2).
          assert (Eo : o' <> o).
          { intros ->. rewrite Ho in H1. inversion H1; subst. congruence. }
          exists d', q'. rewrite assoc_remove_other by exact Eo. split; auto.
          rewrite assocZ_remove_other; auto.
          intros ->. apply Eo. exact (seq_unique s o' o d' d (b_ptr s) P H1 Ho). }
      split.
      { intros q Hq. rewrite Hrdy by exact Hq. apply assocZ_remove_other. lia. }
      split.
      { intros o' v Hv. apply Hsub in Hv.
        destruct (list_eqb o' o) eqn:Eo.
        - apply list_eqb_eq in Eo. subst o'. rewrite assoc_remove_same in Hv by exact (P_nd _ P). discriminate.
        - apply list_eqb_neq in Eo. rewrite assoc_remove_other in Hv by exact Eo. exact Hv. }
      intros Hlen. apply Hnone. pose proof (length_removeZ _ _ _ E). lia.
    + inversion H; subst. split; [exact P|]. repeat split; auto; try lia; try tauto.
Qed.

(* ------------------------------------------------------------------ the trace around a step *)
Definition lle (x y : list Z) : Prop := lex_lt y x = false.
Lemma lle_refl x : lle x x. Proof. apply lex_lt_irrefl. Qed.
Lemma lle_trans x y z : lle x y -> lle y z -> lle x z.
Proof. unfold lle. intros H1 H2. eapply lex_le_trans; eassumption. Qed.
Lemma lle_antisym x y : lle x y -> lle y x -> x = y.
Proof. unfold lle. intros H1 H2. apply lex_total; assumption. Qed.

Definition wle (e : nat) (x y : access) : Prop := lle (win e x) (win e y).

Fixpoint sortedL (e : nat) (l : list access) : Prop :=
  match l with
  | [] => True
  | a :: l' => (forall y, In y l' -> wle e a y) /\ sortedL e l'
  end.

Fixpoint nextok (l : list access) : Prop :=
  match l with
  | [] => True
  | a :: l' => a_next a = option_map a_stamp (find (obj_eq a) l') /\ nextok l'
  end.

Record Env (e : nat) (h l : list access) : Prop := {
  E_hl : forall x y, In x h -> In y l -> wle e x y;
  E_l : sortedL e l;
  E_h : match h with [] => True | hd :: _ => forall x, In x h -> wle e x hd end;
  E_nx : nextok l }.

Lemma env_step e h a l : Env e h (a :: l) -> Env e (a :: h) l.
Proof.
  intros [Hhl Hl Hh Hnx]. cbn [sortedL nextok] in *. destruct Hl as [Hal Hl]. destruct Hnx as [_ Hnx].
  constructor; auto.
  - intros x y [<-|Hx] Hy; [apply Hal; exact Hy|]. apply Hhl; [exact Hx|right; exact Hy].
  - intros x [<-|Hx]; [apply lle_refl|]. apply Hhl; [exact Hx|left; reflexivity].
Qed.

Definition liveb (e : nat) (h l : list access) (o : list Z) : bool :=
  match find (fun x => list_eqb o (a_obj x)) l with
  | None => false
  | Some a => existsb (pair_eq e a) h
  end.

Lemma liveb_here e h a l : liveb e h (a :: l) (a_obj a) = existsb (pair_eq e a) h.
Proof. unfold liveb. cbn [find]. rewrite list_eqb_refl. reflexivity. Qed.

Lemma liveb_other e h a l o : o <> a_obj a -> liveb e (a :: h) l o = liveb e h (a :: l) o.
Proof.
  intros N. unfold liveb. cbn [find].
  assert (list_eqb o (a_obj a) = false) as -> by (apply list_eqb_neq; exact N).
  destruct (find (fun x => list_eqb o (a_obj x)) l) as [b|] eqn:F; auto.
  apply find_some in F. destruct F as [_ F]. apply list_eqb_eq in F.
  cbn [existsb]. unfold pair_eq at 1, obj_eq.
  assert (list_eqb (a_obj b) (a_obj a) = false) as -> by (apply list_eqb_neq; congruence).
  reflexivity.
Qed.

Lemma liveb_next e h a l : Env e h (a :: l) -> liveb e (a :: h) l (a_obj a) = keep_of e a.
Proof.
  intros [Hhl Hl _ Hnx]. cbn [sortedL nextok] in *. destruct Hl as [Hal _]. destruct Hnx as [Hn _].
  unfold liveb, keep_of. rewrite Hn.
  change (fun x : access => list_eqb (a_obj a) (a_obj x)) with (obj_eq a).
  destruct (find (obj_eq a) l) as [b|] eqn:F; cbn [option_map]; auto.
  apply find_some in F. destruct F as [Hb F].
  cbn [existsb]. unfold pair_eq at 1. unfold obj_eq in *. rewrite (list_eqb_sym (a_obj b)), F. cbn [andb].
  fold (win e a). fold (win e b). rewrite (list_eqb_sym (win e b)).
  destruct (list_eqb (win e a) (win e b)) eqn:W; auto. cbn [orb].
  apply not_true_is_false. intros Hex. apply existsb_exists in Hex. destruct Hex as [x [Hx Hp]].
  unfold pair_eq in Hp. apply andb_true_iff in Hp. destruct Hp as [_ Hp]. apply list_eqb_eq in Hp.
  apply list_eqb_neq in W. apply W. apply lle_antisym.
  - apply Hal. exact Hb.
  - rewrite Hp. apply Hhl; [exact Hx|left; reflexivity].
Qed.

Lemma pair_eq_rep e x a y : a_obj x = a_obj a -> win e x = win e a -> pair_eq e x y = pair_eq e a y.
Proof. intros H1 H2. unfold pair_eq, obj_eq. rewrite H1, H2. reflexivity. Qed.

(* the first later access to a line is the earliest: later ones have later windows *)
Lemma find_first_le e p : forall l x0, sortedL e l -> find p l = Some x0 ->
  forall x, In x l -> p x = true -> wle e x0 x.
Proof.
  induction l as [|b l IH]; intros x0 S F x Hx Hp; [destruct Hx|].
  cbn [sortedL] in S. destruct S as [Hb S]. cbn [find] in F. destruct (p b) eqn:Pb.
  - inversion F; subst. destruct Hx as [<-|Hx]; [apply lle_refl|apply Hb; exact Hx].
  - destruct Hx as [<-|Hx]; [congruence|]. eapply IH; eauto.
Qed.

(* ------------------------------------------------------------------ the invariant *)
Record Inv (e : nat) (h l : list access) (s : bst) : Prop := {
  I_pd : PD s;
  I_ptr : assocZ (b_ptr s) (b_ready s) = None;
  I_live : forall o, live s o <-> liveb e h l o = true;
  I_R : match h with
        | [] => True
        | hd :: _ => forall q o, b_ptr s <= q -> assocZ q (b_ready s) = Some o ->
                                 forall x, In x l -> a_obj x = o -> win e x <> win e hd
        end;
  I_D : match h with
        | [] => True
        | hd :: _ => forall o d q x, assoc o (b_objs s) = Some (d, q) -> a_obj x = o ->
                                     win e x = win e hd ->
                                     d = existsb (fun h' => pair_eq e x h' && a_wb h') h
        end }.

Lemma inv_init e l : Inv e [] l bst0.
Proof.
  constructor; cbn; auto.
  - constructor; cbn; auto; [constructor|discriminate].
  - intros o. unfold live, liveb. cbn. split.
    + intros (d & q & H & _). discriminate.
    + destruct (find _ l); discriminate.
Qed.

(* while the dictionary is not empty the eviction window does not change *)
Lemma same_window e h a l s : Env e h (a :: l) -> Inv e h (a :: l) s -> b_objs s <> [] ->
  exists hd t, h = hd :: t /\ win e a = win e hd.
Proof.
  intros En In Hne.
  destruct (seqs_last _ _ _ (P_seq _ (I_pd _ _ _ _ In)) (P_nd _ (I_pd _ _ _ _ In)) Hne) as [o [d Ho]].
  assert (L : live s o) by (exists d, (b_ptr s); split; [exact Ho|exact (I_ptr _ _ _ _ In)]).
  apply (I_live _ _ _ _ In) in L. unfold liveb in L.
  destruct (find (fun x => list_eqb o (a_obj x)) (a :: l)) as [b|] eqn:F; [|discriminate].
  apply find_some in F. destruct F as [Hb _].
  apply existsb_exists in L. destruct L as [x [Hx Hp]].
  unfold pair_eq in Hp. apply andb_true_iff in Hp. destruct Hp as [_ Hp]. apply list_eqb_eq in Hp.
  destruct h as [|hd t]; [destruct Hx|]. exists hd, t. split; auto.
  pose proof (E_h _ _ _ En x Hx) as H1.            (* x <= hd *)
  pose proof (E_hl _ _ _ En hd a (or_introl eq_refl) (or_introl eq_refl)) as H2.   (* hd <= a *)
  assert (H3 : wle e a b).
  { destruct Hb as [<-|Hb]; [apply lle_refl|]. pose proof (E_l _ _ _ En) as S. cbn [sortedL] in S.
    destruct S as [S _]. apply S. exact Hb. }
  unfold wle in *. apply lle_antisym; [|exact H2].
  eapply lle_trans; [exact H3|]. rewrite Hp. exact H1.
Qed.

Lemma objs_nonempty (s : bst) o v : assoc o (b_objs s) = Some v -> b_objs s <> [].
Proof. intros H E. rewrite E in H. discriminate. Qed.

Lemma new_no_pair e h a l s : Inv e h (a :: l) s ->
  assoc (a_obj a) (b_objs s) = None -> existsb (pair_eq e a) h = false.
Proof.
  intros In Hn. destruct (existsb (pair_eq e a) h) eqn:E; auto.
  rewrite <- liveb_here with (l := l) in E. apply (I_live _ _ _ _ In) in E.
  destruct E as (d & q & H & _). congruence.
Qed.

Lemma accessed_live e h a l s d q : Env e h (a :: l) -> Inv e h (a :: l) s ->
  assoc (a_obj a) (b_objs s) = Some (d, q) ->
  assocZ q (b_ready s) = None /\ existsb (pair_eq e a) h = true
  /\ exists hd t, h = hd :: t /\ win e a = win e hd.
Proof.
  intros En In Ho.
  destruct (same_window _ _ _ _ _ En In (objs_nonempty _ _ _ Ho)) as (hd & t & Hh & Hw).
  assert (Hr : assocZ q (b_ready s) = None).
  { destruct (assocZ q (b_ready s)) as [o'|] eqn:R; auto. exfalso.
    pose proof (I_pd _ _ _ _ In) as P.
    pose proof (seqs_bounds _ _ _ _ _ _ (P_seq _ P) (assoc_in _ _ _ Ho)) as B.
    destruct (P_rdy _ P q o' ltac:(lia) R) as [d' Ho'].
    assert (o' = a_obj a) by (eapply seq_unique; eauto). subst o'.
    pose proof (I_R _ _ _ _ In) as IR. rewrite Hh in IR.
    apply (IR q (a_obj a) ltac:(lia) R a (or_introl eq_refl) eq_refl). exact Hw. }
  split; [exact Hr|]. split.
  - rewrite <- liveb_here with (l := l). apply (I_live _ _ _ _ In). exists d, q. split; assumption.
  - exists hd, t. split; assumption.
Qed.

(* ------------------------------------------------------------------ one step *)
Lemma bstep_new_keep e line s a :
  assoc (a_obj a) (b_objs s) = None -> keep_of e a = true ->
  bstep e line s a
  = {| b_objs := (a_obj a, (a_wb a, b_cnt s)) :: b_objs s; b_cnt := b_cnt s + 1;
       b_ptr := b_ptr s; b_ready := b_ready s;
       b_rd := b_rd s + (if negb (a_w a) then line else 0); b_wr := b_wr s |}.
Proof. intros H K. unfold bstep, buffet_step. rewrite H, K. reflexivity. Qed.

Lemma bstep_new_drop e line s a :
  assoc (a_obj a) (b_objs s) = None -> keep_of e a = false ->
  bstep e line s a
  = {| b_objs := b_objs s; b_cnt := b_cnt s; b_ptr := b_ptr s; b_ready := b_ready s;
       b_rd := b_rd s + (if negb (a_w a) then line else 0);
       b_wr := b_wr s + (if a_wb a then line else 0) |}.
Proof. intros H K. unfold bstep, buffet_step. rewrite H, K. reflexivity. Qed.

Lemma bstep_old_keep e line s a v :
  assoc (a_obj a) (b_objs s) = Some v -> keep_of e a = true ->
  bstep e line s a
  = {| b_objs := set_dirty (a_obj a) (a_wb a) (b_objs s); b_cnt := b_cnt s; b_ptr := b_ptr s;
       b_ready := b_ready s; b_rd := b_rd s + 0; b_wr := b_wr s |}.
Proof. intros H K. unfold bstep, buffet_step. rewrite H, K. reflexivity. Qed.

Lemma bstep_old_drop e line s a d q :
  assoc (a_obj a) (b_objs s) = Some (d, q) -> keep_of e a = false ->
  bstep e line s a
  = fst (drain (S (S (length (b_ready s)))) line
               {| b_objs := set_dirty (a_obj a) (a_wb a) (b_objs s); b_cnt := b_cnt s;
                  b_ptr := b_ptr s; b_ready := (q, a_obj a) :: b_ready s;
                  b_rd := b_rd s + 0; b_wr := b_wr s |} 0).
Proof.
  intros H K. unfold bstep, buffet_step. rewrite H, K. cbn [negb andb].
  rewrite assoc_set_same, H. cbn [option_map snd length].
  destruct (drain _ _ _ _) as [s2 n]. reflexivity.
Qed.

Lemma R_old e h a l s : Env e h (a :: l) -> Inv e h (a :: l) s ->
  forall q o, b_ptr s <= q -> assocZ q (b_ready s) = Some o ->
  forall x, In x l -> a_obj x = o -> win e x <> win e a.
Proof.
  intros En In q o Hq Hr x Hx Hxo.
  destruct (P_rdy _ (I_pd _ _ _ _ In) q o Hq Hr) as [d Ho].
  destruct (same_window _ _ _ _ _ En In (objs_nonempty _ _ _ Ho)) as (hd & t & Hh & Hw).
  pose proof (I_R _ _ _ _ In) as IR. rewrite Hh in IR. rewrite Hw.
  apply (IR q o Hq Hr x (or_intror Hx) Hxo).
Qed.

Lemma D_old e h a l s : Env e h (a :: l) -> Inv e h (a :: l) s ->
  forall o d q x, assoc o (b_objs s) = Some (d, q) -> o <> a_obj a -> a_obj x = o ->
  win e x = win e a ->
  d = existsb (fun h' => pair_eq e x h' && a_wb h') (a :: h).
Proof.
  intros En In o d q x Ho N Hxo Hxw.
  destruct (same_window _ _ _ _ _ En In (objs_nonempty _ _ _ Ho)) as (hd & t & Hh & Hw).
  pose proof (I_D _ _ _ _ In) as ID. rewrite Hh in ID.
  cbn [existsb]. unfold pair_eq at 1, obj_eq.
  assert (list_eqb (a_obj x) (a_obj a) = false) as -> by (apply list_eqb_neq; congruence).
  cbn [andb orb]. rewrite Hh. apply (ID o d q x Ho Hxo). congruence.
Qed.

Lemma D_acc e h a l s d q : Env e h (a :: l) -> Inv e h (a :: l) s ->
  assoc (a_obj a) (b_objs s) = Some (d, q) ->
  d = existsb (fun h' => pair_eq e a h' && a_wb h') h.
Proof.
  intros En In Ho.
  destruct (same_window _ _ _ _ _ En In (objs_nonempty _ _ _ Ho)) as (hd & t & Hh & Hw).
  pose proof (I_D _ _ _ _ In) as ID. rewrite Hh in ID. rewrite Hh.
  apply (ID (a_obj a) d q a Ho eq_refl Hw).
Qed.

Lemma pair_self e a : pair_eq e a a = true.
Proof. unfold pair_eq, obj_eq. rewrite !list_eqb_refl. reflexivity. Qed.

Lemma existsb_rep e x a (f : access -> bool) h :
  a_obj x = a_obj a -> win e x = win e a ->
  existsb (fun h' => pair_eq e x h' && f h') h = existsb (fun h' => pair_eq e a h' && f h') h.
Proof.
  intros H1 H2. induction h as [|y h IH]; cbn [existsb]; auto.
  rewrite (pair_eq_rep e x a y H1 H2), IH. reflexivity.
Qed.

Lemma no_pair_no_wb e a h : existsb (pair_eq e a) h = false ->
  existsb (fun h' => pair_eq e a h' && a_wb h') h = false.
Proof.
  induction h as [|y h IH]; cbn [existsb]; auto.
  intros H. apply orb_false_iff in H. destruct H as [H1 H2]. rewrite H1, (IH H2). reflexivity.
Qed.

Lemma live_transfer e h a l s s1 : Env e h (a :: l) -> Inv e h (a :: l) s ->
  (forall o, o <> a_obj a -> (live s1 o <-> live s o)) ->
  (live s1 (a_obj a) <-> keep_of e a = true) ->
  forall o, live s1 o <-> liveb e (a :: h) l o = true.
Proof.
  intros En In Hoth Hacc o.
  destruct (list_eqb o (a_obj a)) eqn:E.
  - apply list_eqb_eq in E. subst o. rewrite liveb_next by exact En. exact Hacc.
  - apply list_eqb_neq in E. rewrite liveb_other by exact E. rewrite (Hoth o E).
    apply (I_live _ _ _ _ In).
Qed.

Definition step_post (e : nat) (line : Z) (h : list access) (a : access) (l : list access)
           (s s1 : bst) : Prop :=
  Inv e (a :: h) l s1
  /\ b_rd s1 = b_rd s + line * (if negb (a_w a) && negb (existsb (pair_eq e a) h) then 1 else 0)
  /\ b_wr s1 + line * ndirty (b_objs s1)
     = b_wr s + line * ndirty (b_objs s)
       + line * (if a_wb a && negb (existsb (fun h' => pair_eq e a h' && a_wb h') h) then 1 else 0).

Lemma ndirty_cons o d q (l : dict) : ndirty ((o, (d, q)) :: l) = (if d then 1 else 0) + ndirty l.
Proof. reflexivity. Qed.

Lemma cnt_not_ready s : PD s -> assocZ (b_cnt s) (b_ready s) = None.
Proof.
  intros P. destruct (assocZ (b_cnt s) (b_ready s)) as [o|] eqn:R; auto. exfalso.
  pose proof (seqs_le _ _ _ (P_seq _ P)) as L.
  destruct (P_rdy _ P _ _ L R) as [d Ho].
  pose proof (seqs_bounds _ _ _ _ _ _ (P_seq _ P) (assoc_in _ _ _ Ho)). lia.
Qed.

Lemma step_A e line h a l s : Env e h (a :: l) -> Inv e h (a :: l) s ->
  assoc (a_obj a) (b_objs s) = None -> keep_of e a = true ->
  step_post e line h a l s (bstep e line s a).
Proof.
  intros En In Hn K. rewrite (bstep_new_keep e line s a Hn K).
  pose proof (new_no_pair _ _ _ _ _ In Hn) as Hnp. pose proof (no_pair_no_wb _ _ _ Hnp) as Hnw.
  pose proof (I_pd _ _ _ _ In) as P.
  unfold step_post. cbn [b_objs b_cnt b_ptr b_ready b_rd b_wr]. split; [|split].
  - constructor; cbn [b_objs b_cnt b_ptr b_ready b_rd b_wr].
    + constructor; cbn [b_objs b_cnt b_ptr b_ready].
      * cbn [map fst]. constructor; [apply assoc_none_keys; exact Hn|exact (P_nd _ P)].
      * cbn [seqs_ok]. split; [lia|]. replace (b_cnt s + 1 - 1) with (b_cnt s) by lia. exact (P_seq _ P).
      * intros q o' Hq Hr. destruct (P_rdy _ P q o' Hq Hr) as [d' Ho']. exists d'. cbn [assoc].
        destruct (list_eqb o' (a_obj a)) eqn:E; [|exact Ho'].
        apply list_eqb_eq in E. subst o'. congruence.
    + exact (I_ptr _ _ _ _ In).
    + apply (live_transfer e h a l s); auto.
      * intros o N. unfold live. cbn [b_objs b_ready assoc].
        assert (list_eqb o (a_obj a) = false) as -> by (apply list_eqb_neq; exact N). tauto.
      * split; [intros _; exact K|]. intros _. exists (a_wb a), (b_cnt s).
        cbn [b_objs b_ready assoc]. rewrite list_eqb_refl. split; [reflexivity|apply cnt_not_ready; exact P].
    + exact (R_old e h a l s En In).
    + intros o' d q x Ho' Hxo Hxw. cbn [assoc] in Ho'.
      destruct (list_eqb o' (a_obj a)) eqn:E.
      * apply list_eqb_eq in E. subst o'. inversion Ho'; subst.
        rewrite (existsb_rep e x a a_wb (a :: h) Hxo Hxw). cbn [existsb].
        rewrite pair_self, Hnw. cbn [andb]. rewrite orb_false_r. reflexivity.
      * apply list_eqb_neq in E. eapply (D_old e h a l s En In); eauto.
  - rewrite Hnp. cbn [negb]. rewrite andb_true_r. destruct (negb (a_w a)); lia.
  - rewrite ndirty_cons, Hnw. cbn [negb]. rewrite andb_true_r. destruct (a_wb a); lia.
Qed.

Lemma step_B e line h a l s : Env e h (a :: l) -> Inv e h (a :: l) s ->
  assoc (a_obj a) (b_objs s) = None -> keep_of e a = false ->
  step_post e line h a l s (bstep e line s a).
Proof.
  intros En In Hn K. rewrite (bstep_new_drop e line s a Hn K).
  pose proof (new_no_pair _ _ _ _ _ In Hn) as Hnp. pose proof (no_pair_no_wb _ _ _ Hnp) as Hnw.
  pose proof (I_pd _ _ _ _ In) as P.
  unfold step_post. cbn [b_objs b_cnt b_ptr b_ready b_rd b_wr]. split; [|split].
  - constructor; cbn [b_objs b_cnt b_ptr b_ready b_rd b_wr].
    + constructor; cbn [b_objs b_cnt b_ptr b_ready];
        [exact (P_nd _ P)|exact (P_seq _ P)|exact (P_rdy _ P)].
    + exact (I_ptr _ _ _ _ In).
    + apply (live_transfer e h a l s); auto.
      * intros o N. unfold live. cbn [b_objs b_ready]. tauto.
      * rewrite K. split; [|discriminate]. intros (d & q & H & _). cbn [b_objs] in H. congruence.
    + exact (R_old e h a l s En In).
    + intros o' d q x Ho' Hxo Hxw. eapply (D_old e h a l s En In); eauto. congruence.
  - rewrite Hnp. cbn [negb]. rewrite andb_true_r. destruct (negb (a_w a)); lia.
  - rewrite Hnw. cbn [negb]. rewrite andb_true_r. destruct (a_wb a); lia.
Qed.

Lemma R_new e h a l : Env e h (a :: l) -> keep_of e a = false ->
  forall x, In x l -> a_obj x = a_obj a -> win e x <> win e a.
Proof.
  intros [_ Hl _ Hnx] K x Hx Hxo Hw. cbn [sortedL nextok] in *.
  destruct Hl as [Hal Hl]. destruct Hnx as [Hn _].
  assert (Px : obj_eq a x = true) by (unfold obj_eq; rewrite Hxo; apply list_eqb_refl).
  unfold keep_of in K. rewrite Hn in K.
  destruct (find (obj_eq a) l) as [x0|] eqn:F; cbn [option_map] in K.
  - pose proof (find_first_le e _ _ _ Hl F x Hx Px) as L1.
    apply find_some in F. destruct F as [Hx0 _]. pose proof (Hal x0 Hx0) as L2.
    apply list_eqb_neq in K. apply K. fold (win e a). fold (win e x0).
    apply lle_antisym; [exact L2|]. unfold wle in L1. rewrite Hw in L1. exact L1.
  - pose proof (find_none _ _ F x Hx). congruence.
Qed.

Lemma D_set e h a l s d q : Env e h (a :: l) -> Inv e h (a :: l) s ->
  assoc (a_obj a) (b_objs s) = Some (d, q) ->
  forall o' d' q' x, assoc o' (set_dirty (a_obj a) (a_wb a) (b_objs s)) = Some (d', q') ->
  a_obj x = o' -> win e x = win e a ->
  d' = existsb (fun h' => pair_eq e x h' && a_wb h') (a :: h).
Proof.
  intros En In Ho o' d' q' x Ho' Hxo Hxw.
  destruct (list_eqb o' (a_obj a)) eqn:E.
  - apply list_eqb_eq in E. rewrite E in Ho', Hxo. rewrite assoc_set_same, Ho in Ho'. cbn [option_map fst snd] in Ho'.
    inversion Ho'; subst.
    rewrite (existsb_rep e x a a_wb (a :: h) Hxo Hxw). cbn [existsb]. rewrite pair_self. cbn [andb].
    rewrite <- (D_acc e h a l s d q' En In Ho). apply orb_comm.
  - apply list_eqb_neq in E. rewrite assoc_set_other in Ho' by exact E.
    eapply (D_old e h a l s En In); eauto.
Qed.

Lemma wr_set e h a l s d q : Env e h (a :: l) -> Inv e h (a :: l) s ->
  assoc (a_obj a) (b_objs s) = Some (d, q) ->
  ndirty (set_dirty (a_obj a) (a_wb a) (b_objs s))
  = ndirty (b_objs s)
    + (if a_wb a && negb (existsb (fun h' => pair_eq e a h' && a_wb h') h) then 1 else 0).
Proof.
  intros En In Ho. rewrite ndirty_set, Ho, <- (D_acc e h a l s d q En In Ho).
  destruct d, (a_wb a); reflexivity.
Qed.

Lemma PD_set s o b : PD s ->
  PD {| b_objs := set_dirty o b (b_objs s); b_cnt := b_cnt s; b_ptr := b_ptr s;
        b_ready := b_ready s; b_rd := b_rd s + 0; b_wr := b_wr s |}.
Proof.
  intros P. constructor; cbn [b_objs b_cnt b_ptr b_ready].
  - rewrite keys_set. exact (P_nd _ P).
  - apply seqs_set. exact (P_seq _ P).
  - intros q o' Hq Hr. destruct (P_rdy _ P q o' Hq Hr) as [d' Ho'].
    destruct (list_eqb o' o) eqn:E.
    + apply list_eqb_eq in E. subst o'. rewrite assoc_set_same, Ho'. cbn. eexists. reflexivity.
    + apply list_eqb_neq in E. rewrite assoc_set_other by exact E. exists d'. exact Ho'.
Qed.

Lemma step_C e line h a l s d q : Env e h (a :: l) -> Inv e h (a :: l) s ->
  assoc (a_obj a) (b_objs s) = Some (d, q) -> keep_of e a = true ->
  step_post e line h a l s (bstep e line s a).
Proof.
  intros En In Ho K. rewrite (bstep_old_keep e line s a _ Ho K).
  destruct (accessed_live _ _ _ _ _ _ _ En In Ho) as (Hr & Hex & _).
  pose proof (I_pd _ _ _ _ In) as P.
  unfold step_post. cbn [b_objs b_cnt b_ptr b_ready b_rd b_wr]. split; [|split].
  - constructor; cbn [b_objs b_cnt b_ptr b_ready b_rd b_wr].
    + apply PD_set. exact P.
    + exact (I_ptr _ _ _ _ In).
    + apply (live_transfer e h a l s); auto.
      * intros o N. unfold live. cbn [b_objs b_ready]. rewrite assoc_set_other by exact N. tauto.
      * split; [intros _; exact K|]. intros _. exists (d || a_wb a), q. cbn [b_objs b_ready].
        rewrite assoc_set_same, Ho. split; [reflexivity|exact Hr].
    + exact (R_old e h a l s En In).
    + exact (D_set e h a l s d q En In Ho).
  - rewrite Hex. cbn [negb]. rewrite andb_false_r. lia.
  - rewrite (wr_set e h a l s d q En In Ho). lia.
Qed.

Lemma step_D e line h a l s d q : Env e h (a :: l) -> Inv e h (a :: l) s ->
  assoc (a_obj a) (b_objs s) = Some (d, q) -> keep_of e a = false ->
  step_post e line h a l s (bstep e line s a).
Proof.
  intros En In Ho K. rewrite (bstep_old_drop e line s a d q Ho K).
  destruct (accessed_live _ _ _ _ _ _ _ En In Ho) as (Hr & Hex & _).
  pose proof (I_pd _ _ _ _ In) as P.
  set (s1 := {| b_objs := set_dirty (a_obj a) (a_wb a) (b_objs s); b_cnt := b_cnt s;
                b_ptr := b_ptr s; b_ready := (q, a_obj a) :: b_ready s;
                b_rd := b_rd s + 0; b_wr := b_wr s |}).
  pose proof (seqs_bounds _ _ _ _ _ _ (P_seq _ P) (assoc_in _ _ _ Ho)) as Bq.
  assert (P1 : PD s1).
  { destruct (PD_set s (a_obj a) (a_wb a) P) as [N1 S1 R1]. cbn [b_objs b_cnt b_ptr b_ready] in *.
    constructor; cbn [s1 b_objs b_cnt b_ptr b_ready]; auto.
    intros q' o' Hq Hr'. cbn [assocZ] in Hr'. destruct (Z.eqb_spec q' q) as [->|Nq].
    - inversion Hr'; subst. rewrite assoc_set_same, Ho. cbn. eexists. reflexivity.
    - apply R1; assumption. }
  destruct (drain (S (S (length (b_ready s)))) line s1 0) as [s2 n] eqn:Dr. cbn [fst].
  destruct (drain_spec line _ _ _ _ _ Dr P1) as (P2 & Hrd & Hcnt & Hptr & Hwr & Hlive & Hrdy & Hsub & Hnone).
  cbn [s1 b_objs b_cnt b_ptr b_ready b_rd b_wr] in Hrd, Hcnt, Hptr, Hwr, Hrdy, Hsub, Hnone.
  unfold step_post. split; [|split].
  - constructor.
    + exact P2.
    + apply Hnone. cbn [length]. lia.
    + apply (live_transfer e h a l s); auto.
      * intros o N. rewrite Hlive. unfold live. cbn [s1 b_objs b_ready].
        rewrite assoc_set_other by exact N. split.
        -- intros (d' & q' & H1 & H2). exists d', q'. split; auto.
           cbn [assocZ] in H2. destruct (Z.eqb q' q); [discriminate|exact H2].
        -- intros (d' & q' & H1 & H2). exists d', q'. split; auto.
           cbn [assocZ]. destruct (Z.eqb_spec q' q) as [->|Nq]; [|exact H2].
           exfalso. apply N. exact (seq_unique s o (a_obj a) d' d q P H1 Ho).
      * rewrite K. split; [|discriminate]. rewrite Hlive. intros (d' & q' & H1 & H2).
        cbn [s1 b_objs b_ready] in H1, H2. rewrite assoc_set_same, Ho in H1. cbn in H1.
        inversion H1; subst. cbn [assocZ] in H2. rewrite Z.eqb_refl in H2. discriminate.
    + intros q' o' Hq Hr' x Hx Hxo. rewrite Hrdy in Hr' by exact Hq. cbn [assocZ] in Hr'.
      destruct (Z.eqb_spec q' q) as [->|Nq].
      * injection Hr' as Eo. apply (R_new e h a l En K x Hx). congruence.
      * apply (R_old e h a l s En In q' o' ltac:(lia) Hr' x Hx Hxo).
    + intros o' d' q' x Ho' Hxo Hxw. apply Hsub in Ho'.
      exact (D_set e h a l s d q En In Ho o' d' q' x Ho' Hxo Hxw).
  - rewrite Hrd, Hex. cbn [negb]. rewrite andb_false_r. lia.
  - rewrite Hwr, (wr_set e h a l s d q En In Ho). lia.
Qed.

Lemma step_ok e line h a l s : Env e h (a :: l) -> Inv e h (a :: l) s ->
  step_post e line h a l s (bstep e line s a).
Proof.
  intros En In.
  destruct (assoc (a_obj a) (b_objs s)) as [[d q]|] eqn:Ho; destruct (keep_of e a) eqn:K.
  - eapply step_C; eauto.
  - eapply step_D; eauto.
  - apply step_A; auto.
  - apply step_B; auto.
Qed.

(* at the end of the trace nothing is live, hence the dictionary is empty *)
Lemma end_empty e h s : Inv e h [] s -> b_objs s = [].
Proof.
  intros In. destruct (b_objs s) as [|x t] eqn:E; auto. exfalso.
  pose proof (I_pd _ _ _ _ In) as P.
  destruct (seqs_last _ _ _ (P_seq _ P) (P_nd _ P) ltac:(rewrite E; discriminate)) as [o [d Ho]].
  assert (L : live s o) by (exists d, (b_ptr s); split; [exact Ho|exact (I_ptr _ _ _ _ In)]).
  apply (I_live _ _ _ _ In) in L. unfold liveb in L. cbn in L. discriminate.
Qed.

Lemma run_ok e line : forall l h s, Env e h l -> Inv e h l s ->
  let s' := fold_left (bstep e line) l s in
  b_rd s' = b_rd s + line * afills e h l
  /\ b_wr s' = b_wr s + line * ndirty (b_objs s) + line * awbs e h l
  /\ b_objs s' = [].
Proof.
  induction l as [|a l IH]; intros h s En In; cbn [fold_left afills awbs].
  - pose proof (end_empty _ _ _ In) as E. rewrite E. cbn. repeat split; lia.
  - destruct (step_ok e line h a l s En In) as (In1 & Hrd & Hwr).
    destruct (IH (a :: h) (bstep e line s a) (env_step _ _ _ _ En) In1) as (R1 & W1 & O1).
    cbn zeta in *. split; [|split]; [lia|lia|exact O1].
Qed.

(* the theorem about one binding: for a window-sorted access sequence with correct next-use
   stamps the machine charges exactly the window counts *)
Theorem buffet_machine_spec e line acc :
  sortedL e acc -> nextok acc ->
  let s := fold_left (bstep e line) acc bst0 in
  b_rd s = line * afills e [] acc /\ b_wr s = line * awbs e [] acc /\ b_objs s = [].
Proof.
  intros S N.
  assert (En : Env e [] acc) by (constructor; auto; intros x y []).
  destruct (run_ok e line acc [] bst0 En (inv_init e acc)) as (R & W & O).
  cbn zeta in *. cbn [bst0 b_rd b_wr b_objs] in R, W. unfold ndirty in W. cbn in W.
  split; [lia|split; [lia|exact O]].
Qed.
