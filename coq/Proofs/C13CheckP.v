(* Proofs tying Model/C13Check.v (the executable C13 oracle) to Proofs/C13ConvertP.v. *)
From Coq Require Import ZArith List Bool Lia ZifyBool.
From FT Require Import Model.Base Model.Obs Model.C13Convert Model.C13Check
                       Proofs.ObsP Proofs.C13ConvertP.
Import ListNotations.
Open Scope Z_scope.

Lemma tree_of_V_tree t : tree_of_V (V_tree t) = Some t.
Proof.
  induction t as [v|es IH] using tree_ind'; [reflexivity|].
  cbn [V_tree tree_of_V]. rewrite map_map.
  rewrite (all_some_map _ (fun ct : Z * tree => ct) es).
  - rewrite map_id. reflexivity.
  - rewrite Forall_forall in *. intros [a t] Hin. cbn [fst snd].
    pose proof (IH (a, t) Hin) as E. cbn [snd] in E. rewrite E. reflexivity.
Qed.

Lemma opt_eqb_eq a b : opt_eqb a b = true <-> a = b.
Proof.
  destruct a, b; cbn; split; intros H; try congruence; try discriminate.
  - f_equal. lia.
  - inversion H. lia.
Qed.

Lemma in_all_points dims : forall p,
  In p (all_points dims) ->
  Forall2 (fun c s => 0 <= c < s) p dims.
Proof.
  induction dims as [|s dims' IH]; intros p Hin.
  - destruct Hin as [<-|[]]. constructor.
  - cbn [all_points] in Hin. apply in_flat_map in Hin. destruct Hin as [c [Hc Hin]].
    apply in_map_iff in Hin. destruct Hin as [p' [<- Hp']].
    constructor; [|apply IH, Hp'].
    unfold iota in Hc. apply in_map_iff in Hc. destruct Hc as [k [<- Hk]].
    apply in_seq in Hk. lia.
Qed.

Lemma nest_get_in_box n : forall dims p,
  rect dims n = true -> Forall2 (fun c s => 0 <= c < s) p dims ->
  exists v, nest_get n p = Some v.
Proof.
  induction n as [v|l IH] using nest_ind'; intros dims p Hr Hp.
  - destruct dims; [|discriminate]. inversion Hp; subst. exists v. reflexivity.
  - destruct dims as [|s dims']; [discriminate|]. cbn [rect] in Hr.
    apply andb_true_iff in Hr. destruct Hr as [Hlen Hall]. rewrite forallb_forall in Hall.
    inversion Hp as [|c ? p' ? Hc Hp']; subst. cbn [nest_get].
    replace (Z.ltb c 0) with false by lia.
    destruct (nth_error l (Z.to_nat c)) as [x|] eqn:E.
    + rewrite Forall_forall in IH. apply nth_error_In in E.
      apply (IH x E dims' p' (Hall x E) Hp').
    + apply nth_error_None in E. lia.
Qed.

Lemma built_ok_from_uncompressed d dims n :
  dims_ok dims = true -> rect dims n = true ->
  built_ok d dims n (from_uncompressed d n) = true.
Proof.
  intros Hd Hr. unfold built_ok.
  rewrite from_uncompressed_canonical, from_uncompressed_sorted,
          (from_uncompressed_in_shape d dims n Hr). cbn [andb].
  rewrite forallb_forall. intros p Hp. apply opt_eqb_eq.
  pose proof (in_all_points dims p Hp) as Hbox.
  destruct (nest_get_in_box n dims p Hr Hbox) as [v Hv]. rewrite Hv.
  apply from_uncompressed_pointwise; [exact Hv|].
  unfold dims_ok in Hd. destruct dims; [discriminate|]. inversion Hbox. discriminate.
Qed.

Lemma built_ok_sound d dims n t :
  built_ok d dims n t = true ->
  canonical_top d t = true /\ sorted_t t = true /\ in_shape dims t = true
  /\ forall p, In p (all_points dims) -> tree_get d t p = nest_get n p.
Proof.
  unfold built_ok. intros H. repeat (apply andb_true_iff in H; destruct H as [H ?]).
  repeat split; try assumption. intros p Hp. apply opt_eqb_eq.
  match goal with Hf : forallb _ _ = true |- _ => rewrite forallb_forall in Hf; apply Hf, Hp end.
Qed.

Lemma model_shape tp d dims n :
  dims_ok dims = true -> rect dims n = true ->
  c13_region (KNest tp d dims n) = 0 ->
  (if tp then calc_shape n else fiber_shape d n) = dims.
Proof.
  intros Hd Hr Hreg. unfold dims_ok in Hd. apply andb_true_iff in Hd. destruct Hd as [Hne Hpos].
  destruct tp; [apply calc_shape_rect; assumption|].
  destruct (fiber_shape_rect d n dims Hr) as [Hst Hor].
  cbn [c13_region negb andb] in Hreg.
  destruct (stored d n) eqn:Es; [apply Hst; reflexivity|]. cbn [negb andb] in Hreg.
  destruct (2 <=? Z.of_nat (length dims)) eqn:E2; [discriminate|].
  destruct Hor as [H|H]; [exact H|]. rewrite H.
  destruct dims as [|s [|s' dims']]; [discriminate|reflexivity|cbn [length] in E2; lia].
Qed.

Lemma same_content_refl d t : same_content d t d t = true.
Proof. apply V_eqb_refl. Qed.

Lemma nest_case_holds tp d dims n :
  c13_wf (KNest tp d dims n) = true -> c13_region (KNest tp d dims n) = 0 ->
  c13_holds (KNest tp d dims n) (c13_model (KNest tp d dims n)) = true.
Proof.
  intros Hwf Hreg. cbn [c13_wf] in Hwf. apply andb_true_iff in Hwf. destruct Hwf as [Hd Hr].
  cbn [c13_holds c13_model]. rewrite (model_shape tp d dims n Hd Hr Hreg).
  cbn [nest_holds]. rewrite tree_of_V_tree, (built_ok_from_uncompressed d dims n Hd Hr).
  rewrite (uncompress_from_uncompressed d dims n Hd Hr), !V_eqb_refl. reflexivity.
Qed.

Lemma tens_wf_ok T : tens_wf T = true -> tens_ok T.
Proof.
  unfold tens_wf, tens_ok. destruct (t_root T); [|auto]. destruct (t_ids T); [auto|discriminate].
Qed.

Lemma tree_case_holds d T :
  c13_wf (KTree d T false) = true -> c13_region (KTree d T false) = 0 ->
  c13_holds (KTree d T false) (c13_model (KTree d T false)) = true.
Proof.
  intros Hwf Hreg. cbn [c13_wf] in Hwf. apply tens_wf_ok in Hwf.
  assert (Hsame : same_content d (t_root T) 0 (t_root T) = true).
  { cbn [c13_region] in Hreg. destruct (Z.eqb d 0) eqn:Ed.
    - replace d with 0 by lia. apply same_content_refl.
    - cbn [negb andb] in Hreg. destruct (same_content d (t_root T) 0 (t_root T)); [reflexivity|discriminate]. }
  cbn [c13_holds c13_model]. rewrite (yaml_roundtrip T Hwf).
  assert (Htens : tens_holds d T (V_tens d T (Some T)) = true).
  { unfold V_tens, tens_holds. rewrite zlist_eqb_refl, Hsame. cbn [andb Vb].
    rewrite !V_eqb_refl, Z.eqb_refl, tree_of_V_tree, same_content_refl. reflexivity. }
  rewrite Htens. cbn [andb].
  unfold dict_holds. destruct (is_node (t_root T)) eqn:En; [|reflexivity].
  cbn [tensor2dict y_root]. rewrite dict_roundtrip. cbn [Vo]. rewrite Hsame. cbn [Vb].
  rewrite tree_of_V_tree, same_content_refl. reflexivity.
Qed.

Lemma expand_density_length scalar dens (shape : list Z) :
  shape <> [] -> (scalar || Nat.eqb (length dens) (length shape)) = true ->
  length (expand_density scalar dens (length shape)) = length shape.
Proof.
  intros Hne H. unfold expand_density. destruct scalar.
  - rewrite app_length, repeat_length. cbn [length]. destruct shape; [congruence|]. cbn [length]. lia.
  - cbn [orb] in H. apply Nat.eqb_eq in H. exact H.
Qed.

Lemma rand_case_holds shape dens scalar interval d draws seed :
  c13_wf (KRand shape dens scalar interval d draws seed) = true ->
  c13_holds (KRand shape dens scalar interval d draws seed)
            (c13_model (KRand shape dens scalar interval d draws seed)) = true.
Proof.
  intros Hwf. cbn [c13_wf] in Hwf.
  apply andb_true_iff in Hwf. destruct Hwf as [Hwf Hlen].
  apply andb_true_iff in Hwf. destruct Hwf as [Hint Hne].
  assert (Hne' : shape <> []) by (destruct shape; [discriminate|discriminate]).
  cbn [c13_holds c13_model].
  set (dn := expand_density scalar dens (length shape)).
  unfold rand_holds. rewrite tree_of_V_tree.
  destruct (from_random_inside interval d shape dn draws) as [H1 H2]. rewrite H1, H2, V_eqb_refl.
  cbn [andb].
  destruct (dens_full dn && negb ((1 <=? d) && (d <=? interval))
            && forallb (fun s => 0 <? s) shape) eqn:Ec; [|reflexivity].
  apply andb_true_iff in Ec. destruct Ec as [Ec Hpos].
  apply andb_true_iff in Ec. destruct Ec as [Hfull Hd].
  rewrite from_random_full; [reflexivity| | | | | |].
  - apply expand_density_length; assumption.
  - exact Hfull.
  - exact Hpos.
  - exact Hne'.
  - lia.
  - lia.
Qed.

Theorem c13_model_holds c :
  c13_wf c = true -> c13_region c = 0 ->
  holds c13_checker c (model c13_checker c) = true.
Proof.
  intros Hwf Hreg. cbn [holds model c13_checker]. rewrite Hwf. cbn [andb].
  destruct c as [tp d dims n|d T flat|shape dens scalar interval d draws seed].
  - apply nest_case_holds; assumption.
  - destruct flat; [discriminate|]. apply tree_case_holds; assumption.
  - apply rand_case_holds; assumption.
Qed.
