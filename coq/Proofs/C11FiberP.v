(* C11FiberP.v — lemmas about Model/C11Fiber.v: fiber + and * are the elementwise sum over the
   union / product over the intersection, the scalar forms, and in-place = value-returning. *)
From Coq Require Import ZArith List Bool Lia Sorted.
From FT Require Import Model.Base Model.C11Fiber.
Import ListNotations.
Open Scope Z_scope.

Definition coordsP (a : zfib) : list Z := map fst a.
Definition sortedP (a : zfib) : Prop := StronglySorted Z.lt (coordsP a).
Definition lb (k : Z) (a : zfib) : Prop := Forall (Z.lt k) (coordsP a).

(* ---------------------------------------------------------------- sortedness, boolean <-> Prop *)
Lemma ssorted_Sorted l : ssorted l = true -> Sorted Z.lt l.
Proof.
  induction l as [|x l IH]; intros H; [constructor|].
  destruct l as [|y l'].
  - constructor; constructor.
  - cbn [ssorted] in H. apply andb_true_iff in H. destruct H as [Hxy Hs].
    constructor; [apply IH; exact Hs|]. constructor. apply Z.ltb_lt. exact Hxy.
Qed.

Lemma ssorted_strong l : ssorted l = true -> StronglySorted Z.lt l.
Proof.
  intros H. apply Sorted_StronglySorted; [|apply ssorted_Sorted; exact H].
  intros x y z; lia.
Qed.

Lemma strong_ssorted l : StronglySorted Z.lt l -> ssorted l = true.
Proof.
  induction l as [|x l IH]; intros H; [reflexivity|].
  apply StronglySorted_inv in H. destruct H as [Hs Hall].
  destruct l as [|y l']; [reflexivity|].
  cbn [ssorted]. apply andb_true_iff. split; [|apply IH; exact Hs].
  inversion Hall; subst. apply Z.ltb_lt. assumption.
Qed.

Lemma sortedP_cons c v a : sortedP ((c, v) :: a) -> sortedP a /\ lb c a.
Proof. unfold sortedP, lb; cbn [coordsP map fst]. intros H. apply StronglySorted_inv in H. exact H. Qed.

Lemma sortedP_cons_intro c v a : sortedP a -> lb c a -> sortedP ((c, v) :: a).
Proof. unfold sortedP, lb; cbn [coordsP map fst]. intros. constructor; assumption. Qed.

Lemma lb_weaken k k' a : k' <= k -> lb k a -> lb k' a.
Proof. unfold lb. intros Hk H. eapply Forall_impl; [|exact H]. cbn. intros; lia. Qed.

Lemma lb_cons k c v a : sortedP ((c, v) :: a) -> k < c -> lb k ((c, v) :: a).
Proof.
  intros Hs Hk. destruct (sortedP_cons _ _ _ Hs) as [_ Hl].
  unfold lb; cbn [coordsP map fst]. constructor; [exact Hk|].
  apply (lb_weaken c k); [lia|exact Hl].
Qed.

Lemma lb_of_incl k (r a b : zfib) :
  (forall c, In c (coordsP r) -> In c (coordsP a) \/ In c (coordsP b)) ->
  lb k a -> lb k b -> lb k r.
Proof.
  unfold lb. intros Hi Ha Hb. rewrite Forall_forall in *. intros c Hc.
  destruct (Hi c Hc); auto.
Qed.

(* ---------------------------------------------------------------- getz *)
Lemma getz_cons c c' v a : getz c ((c', v) :: a) = if c =? c' then v else getz c a.
Proof. reflexivity. Qed.

Lemma getz_notin c a : ~ In c (coordsP a) -> getz c a = 0.
Proof.
  induction a as [|[c' v] a IH]; intros H; [reflexivity|].
  cbn [getz]. cbn [coordsP map fst In] in H.
  destruct (Z.eqb_spec c c') as [E|E]; [exfalso; apply H; left; congruence|].
  apply IH. intros Hin. apply H. right. exact Hin.
Qed.

Lemma lb_notin k c a : lb k a -> c <= k -> ~ In c (coordsP a).
Proof. unfold lb. rewrite Forall_forall. intros H Hc Hin. specialize (H c Hin). lia. Qed.

Lemma getz_lb k c a : lb k a -> c <= k -> getz c a = 0.
Proof. intros H Hc. apply getz_notin. eapply lb_notin; eassumption. Qed.

Lemma coordsP_nonempty_incl c a : In c (coordsP (nonempty a)) -> In c (coordsP a).
Proof.
  unfold coordsP, nonempty. rewrite !in_map_iff. intros [x [Hx Hin]].
  apply filter_In in Hin. exists x. tauto.
Qed.

Lemma lb_nonempty k a : lb k a -> lb k (nonempty a).
Proof.
  unfold lb. rewrite !Forall_forall. intros H c Hc. apply H. apply coordsP_nonempty_incl. exact Hc.
Qed.

Lemma sortedP_nonempty a : sortedP a -> sortedP (nonempty a).
Proof.
  induction a as [|[c v] a IH]; intros H; [constructor|].
  destruct (sortedP_cons _ _ _ H) as [Hs Hl].
  unfold nonempty. cbn [filter snd]. fold (nonempty a).
  destruct (negb (v =? 0)).
  - apply sortedP_cons_intro; [apply IH; exact Hs|apply lb_nonempty; exact Hl].
  - apply IH; exact Hs.
Qed.

Lemma getz_nonempty c a : sortedP a -> getz c (nonempty a) = getz c a.
Proof.
  induction a as [|[c' v] a IH]; intros H; [reflexivity|].
  destruct (sortedP_cons _ _ _ H) as [Hs Hl].
  unfold nonempty. cbn [filter snd]. fold (nonempty a).
  destruct (Z.eqb_spec v 0) as [Ev|Ev]; cbn [negb getz].
  - destruct (Z.eqb_spec c c') as [E|E]; [|apply IH; exact Hs].
    subst. apply (getz_lb c'); [apply lb_nonempty; exact Hl|lia].
  - destruct (Z.eqb_spec c c'); [reflexivity|apply IH; exact Hs].
Qed.

(* c is stored with a non-default value  <->  the dense view is non-zero there *)
Lemma nonempty_In_iff c a : sortedP a -> (In c (coordsP (nonempty a)) <-> getz c a <> 0).
Proof.
  induction a as [|[c' v] a IH]; intros H.
  - cbn. split; [tauto|congruence].
  - destruct (sortedP_cons _ _ _ H) as [Hs Hl].
    unfold nonempty. cbn [filter snd getz]. fold (nonempty a).
    destruct (Z.eqb_spec v 0) as [Ev|Ev]; cbn [negb].
    + destruct (Z.eqb_spec c c') as [E|E].
      * subst. split; [|congruence]. intros Hin. exfalso.
        apply coordsP_nonempty_incl in Hin. revert Hin. apply (lb_notin c'); [exact Hl|lia].
      * apply IH; exact Hs.
    + cbn [coordsP map fst In]. destruct (Z.eqb_spec c c') as [E|E].
      * subst. split; [intros _; exact Ev|intros _; left; reflexivity].
      * rewrite <- (IH Hs). unfold coordsP. split; [intros [Hc|Hc]; [congruence|exact Hc]|intros Hc; right; exact Hc].
Qed.

(* ---------------------------------------------------------------- or_merge / fadd *)
Definition sumof (e : Z * (Z * Z)) : Z * Z := (fst e, fst (snd e) + snd (snd e)).
Definition prodof (e : Z * (Z * Z)) : Z * Z := (fst e, fst (snd e) * snd (snd e)).

Lemma sumof_eq c x y : sumof (c, (x, y)) = (c, x + y).
Proof. reflexivity. Qed.
Lemma prodof_eq c x y : prodof (c, (x, y)) = (c, x * y).
Proof. reflexivity. Qed.

Lemma or_merge_nil_r a : or_merge a [] = map (fun cv => (fst cv, (snd cv, 0))) a.
Proof. destruct a as [|[c v] a]; reflexivity. Qed.

Lemma or_merge_cons ca va a cb vb b :
  or_merge ((ca, va) :: a) ((cb, vb) :: b) =
  if ca =? cb then (ca, (va, vb)) :: or_merge a b
  else if ca <? cb then (ca, (va, 0)) :: or_merge a ((cb, vb) :: b)
  else (cb, (0, vb)) :: or_merge ((ca, va) :: a) b.
Proof. reflexivity. Qed.

Lemma getz_map_l c (a : zfib) : getz c (map sumof (map (fun cv => (fst cv, (snd cv, 0))) a)) = getz c a.
Proof.
  induction a as [|[c' v] a IH]; [reflexivity|]. cbn [map getz sumof fst snd].
  rewrite IH. destruct (c =? c'); [lia|reflexivity].
Qed.
Lemma getz_map_r c (a : zfib) : getz c (map sumof (map (fun cv => (fst cv, (0, snd cv))) a)) = getz c a.
Proof.
  induction a as [|[c' v] a IH]; [reflexivity|]. cbn [map getz sumof fst snd].
  rewrite IH. destruct (c =? c'); [lia|reflexivity].
Qed.

Lemma or_merge_getz c : forall a b, sortedP a -> sortedP b ->
  getz c (map sumof (or_merge a b)) = getz c a + getz c b.
Proof.
  induction a as [|[ca va] a IHa]; intros b Ha Hb.
  - cbn [or_merge]. rewrite getz_map_r. reflexivity.
  - induction b as [|[cb vb] b IHb].
    + rewrite or_merge_nil_r, getz_map_l. cbn [getz]. lia.
    + rewrite or_merge_cons.
      destruct (sortedP_cons _ _ _ Ha) as [Hsa Hla]. destruct (sortedP_cons _ _ _ Hb) as [Hsb Hlb].
      destruct (Z.eqb_spec ca cb) as [E|E].
      * subst cb. rewrite map_cons, sumof_eq, !(getz_cons c ca). rewrite (IHa b Hsa Hsb).
        destruct (c =? ca); reflexivity.
      * destruct (Z.ltb_spec ca cb) as [L|L].
        -- rewrite map_cons, sumof_eq, !(getz_cons c ca). rewrite (IHa _ Hsa Hb).
           destruct (Z.eqb_spec c ca) as [Ec|Ec]; [|reflexivity].
           subst c. rewrite (getz_lb ca ca ((cb, vb) :: b)); [lia| |lia].
           apply lb_cons; [exact Hb|exact L].
        -- rewrite map_cons, sumof_eq, !(getz_cons c cb). rewrite (IHb Hsb).
           destruct (Z.eqb_spec c cb) as [Ec|Ec]; [|reflexivity].
           subst c. rewrite (getz_lb cb cb ((ca, va) :: a)); [lia| |lia].
           apply lb_cons; [exact Ha|lia].
Qed.

Lemma or_merge_In c : forall a b,
  In c (map fst (or_merge a b)) <-> In c (coordsP a) \/ In c (coordsP b).
Proof.
  induction a as [|[ca va] a IHa]; intros b.
  - cbn [or_merge]. rewrite map_map. cbn [fst coordsP map In]. unfold coordsP. tauto.
  - induction b as [|[cb vb] b IHb].
    + rewrite or_merge_nil_r, map_map. cbn [fst]. unfold coordsP. cbn [map In]. tauto.
    + rewrite or_merge_cons.
      destruct (Z.eqb_spec ca cb) as [E|E].
      * subst. cbn [map fst In coordsP]. rewrite IHa. unfold coordsP. tauto.
      * destruct (ca <? cb).
        -- cbn [map fst In]. rewrite IHa. cbn [coordsP map fst In]. tauto.
        -- cbn [map fst In]. rewrite IHb. cbn [coordsP map fst In]. tauto.
Qed.

Lemma coordsP_mapval {X} (g : X -> Z) (f : X -> Z) (l : list X) :
  coordsP (map (fun e => (f e, g e)) l) = map f l.
Proof. unfold coordsP. rewrite map_map. reflexivity. Qed.

Lemma coords_sumof l : coordsP (map sumof l) = map fst l.
Proof. unfold coordsP, sumof. rewrite map_map. reflexivity. Qed.
Lemma coords_prodof l : coordsP (map prodof l) = map fst l.
Proof. unfold coordsP, prodof. rewrite map_map. reflexivity. Qed.

Lemma or_merge_sorted : forall a b, sortedP a -> sortedP b ->
  StronglySorted Z.lt (map fst (or_merge a b)).
Proof.
  assert (Hlb : forall k a b, lb k a -> lb k b -> Forall (Z.lt k) (map fst (or_merge a b))).
  { intros k a b Ha Hb. unfold lb in *. rewrite Forall_forall in *. intros c Hc.
    apply or_merge_In in Hc. destruct Hc; auto. }
  induction a as [|[ca va] a IHa]; intros b Ha Hb.
  - cbn [or_merge]. rewrite map_map. exact Hb.
  - induction b as [|[cb vb] b IHb].
    + rewrite or_merge_nil_r, map_map. exact Ha.
    + rewrite or_merge_cons.
      destruct (sortedP_cons _ _ _ Ha) as [Hsa Hla]. destruct (sortedP_cons _ _ _ Hb) as [Hsb Hlb'].
      destruct (Z.eqb_spec ca cb) as [E|E].
      * subst. cbn [map fst]. constructor; [apply IHa; assumption|apply Hlb; assumption].
      * destruct (Z.ltb_spec ca cb) as [L|L].
        -- cbn [map fst]. constructor; [apply IHa; assumption|].
           apply Hlb; [exact Hla|apply lb_cons; assumption].
        -- cbn [map fst]. constructor; [apply IHb; assumption|].
           apply Hlb; [apply lb_cons; [exact Ha|lia]|exact Hlb'].
Qed.

(* ---------------------------------------------------------------- and_merge / fmul *)
Lemma and_merge_nil_r a : and_merge a [] = [].
Proof. destruct a as [|[c v] a]; reflexivity. Qed.

Lemma and_merge_cons ca va a cb vb b :
  and_merge ((ca, va) :: a) ((cb, vb) :: b) =
  if ca =? cb then (ca, (va, vb)) :: and_merge a b
  else if ca <? cb then and_merge a ((cb, vb) :: b)
  else and_merge ((ca, va) :: a) b.
Proof. reflexivity. Qed.

Lemma and_merge_getz c : forall a b, sortedP a -> sortedP b ->
  getz c (map prodof (and_merge a b)) = getz c a * getz c b.
Proof.
  induction a as [|[ca va] a IHa]; intros b Ha Hb.
  - reflexivity.
  - induction b as [|[cb vb] b IHb].
    + rewrite and_merge_nil_r. cbn [map getz]. lia.
    + rewrite and_merge_cons.
      destruct (sortedP_cons _ _ _ Ha) as [Hsa Hla]. destruct (sortedP_cons _ _ _ Hb) as [Hsb Hlb].
      destruct (Z.eqb_spec ca cb) as [E|E].
      * subst cb. rewrite map_cons, prodof_eq, !(getz_cons c ca). rewrite (IHa b Hsa Hsb).
        destruct (c =? ca); reflexivity.
      * destruct (Z.ltb_spec ca cb) as [L|L].
        -- rewrite (IHa _ Hsa Hb). rewrite (getz_cons c ca).
           destruct (Z.eqb_spec c ca) as [Ec|Ec]; [|reflexivity].
           subst c. rewrite (getz_lb ca ca ((cb, vb) :: b)); [lia| |lia].
           apply lb_cons; [exact Hb|exact L].
        -- rewrite (IHb Hsb). rewrite (getz_cons c cb).
           destruct (Z.eqb_spec c cb) as [Ec|Ec]; [|reflexivity].
           subst c. rewrite (getz_lb cb cb ((ca, va) :: a)); [lia| |lia].
           apply lb_cons; [exact Ha|lia].
Qed.

Lemma and_merge_In c : forall a b, sortedP a -> sortedP b ->
  (In c (map fst (and_merge a b)) <-> In c (coordsP a) /\ In c (coordsP b)).
Proof.
  induction a as [|[ca va] a IHa]; intros b Ha Hb.
  - cbn. tauto.
  - induction b as [|[cb vb] b IHb].
    + rewrite and_merge_nil_r. cbn. tauto.
    + rewrite and_merge_cons.
      destruct (sortedP_cons _ _ _ Ha) as [Hsa Hla]. destruct (sortedP_cons _ _ _ Hb) as [Hsb Hlb].
      assert (Na : forall x, In x (coordsP a) -> ca < x)
        by (intros x Hx; unfold lb in Hla; rewrite Forall_forall in Hla; auto).
      assert (Nb : forall x, In x (coordsP b) -> cb < x)
        by (intros x Hx; unfold lb in Hlb; rewrite Forall_forall in Hlb; auto).
      destruct (Z.eqb_spec ca cb) as [E|E].
      * subst cb. cbn [map fst In coordsP]. rewrite (IHa b Hsa Hsb). unfold coordsP in *.
        split.
        -- intros [H|[H1 H2]]; [subst; auto|auto].
        -- intros [[H1|H1] [H2|H2]]; auto.
      * destruct (Z.ltb_spec ca cb) as [L|L].
        -- rewrite (IHa _ Hsa Hb). cbn [coordsP map fst In]. unfold coordsP in *.
           split.
           ++ intros [H1 H2]; auto.
           ++ intros [[H1|H1] H2]; [|auto]. subst c. exfalso.
              destruct H2 as [H2|H2]; [lia|]. specialize (Nb _ H2). lia.
        -- rewrite (IHb Hsb). cbn [coordsP map fst In]. unfold coordsP in *.
           split.
           ++ intros [H1 H2]; auto.
           ++ intros [H1 [H2|H2]]; [|auto]. subst c. exfalso.
              destruct H1 as [H1|H1]; [lia|]. specialize (Na _ H1). lia.
Qed.

Lemma and_merge_sorted : forall a b, sortedP a -> sortedP b ->
  StronglySorted Z.lt (map fst (and_merge a b)).
Proof.
  induction a as [|[ca va] a IHa]; intros b Ha Hb.
  - constructor.
  - induction b as [|[cb vb] b IHb].
    + rewrite and_merge_nil_r. constructor.
    + rewrite and_merge_cons.
      destruct (sortedP_cons _ _ _ Ha) as [Hsa Hla]. destruct (sortedP_cons _ _ _ Hb) as [Hsb Hlb].
      destruct (Z.eqb_spec ca cb) as [E|E].
      * subst. cbn [map fst]. constructor; [apply IHa; assumption|].
        rewrite Forall_forall. intros x Hx. apply (and_merge_In x a b Hsa Hsb) in Hx.
        destruct Hx as [Hx _]. unfold lb in Hla. rewrite Forall_forall in Hla. auto.
      * destruct (ca <? cb); [apply IHa; assumption|apply IHb; assumption].
Qed.

(* ---------------------------------------------------------------- the four value-returning forms *)
Lemma fadd_getz a b c : sortedP a -> sortedP b -> getz c (fadd a b) = getz c a + getz c b.
Proof.
  intros Ha Hb. unfold fadd. change (fun e : Z * (Z * Z) => (fst e, fst (snd e) + snd (snd e))) with sumof.
  rewrite or_merge_getz by (apply sortedP_nonempty; assumption).
  rewrite !getz_nonempty by assumption. reflexivity.
Qed.

Lemma fadd_In a b c :
  In c (coordsP (fadd a b)) <-> In c (coordsP (nonempty a)) \/ In c (coordsP (nonempty b)).
Proof.
  unfold fadd. change (fun e : Z * (Z * Z) => (fst e, fst (snd e) + snd (snd e))) with sumof.
  rewrite coords_sumof. apply or_merge_In.
Qed.

Lemma fadd_sorted a b : sortedP a -> sortedP b -> sortedP (fadd a b).
Proof.
  intros Ha Hb. unfold sortedP, fadd.
  change (fun e : Z * (Z * Z) => (fst e, fst (snd e) + snd (snd e))) with sumof.
  rewrite coords_sumof. apply or_merge_sorted; apply sortedP_nonempty; assumption.
Qed.

Lemma fmul_getz a b c : sortedP a -> sortedP b -> getz c (fmul a b) = getz c a * getz c b.
Proof.
  intros Ha Hb. unfold fmul. change (fun e : Z * (Z * Z) => (fst e, fst (snd e) * snd (snd e))) with prodof.
  rewrite and_merge_getz by (apply sortedP_nonempty; assumption).
  rewrite !getz_nonempty by assumption. reflexivity.
Qed.

Lemma fmul_In a b c : sortedP a -> sortedP b ->
  (In c (coordsP (fmul a b)) <-> In c (coordsP (nonempty a)) /\ In c (coordsP (nonempty b))).
Proof.
  intros Ha Hb. unfold fmul. change (fun e : Z * (Z * Z) => (fst e, fst (snd e) * snd (snd e))) with prodof.
  rewrite coords_prodof. apply and_merge_In; apply sortedP_nonempty; assumption.
Qed.

Lemma fmul_sorted a b : sortedP a -> sortedP b -> sortedP (fmul a b).
Proof.
  intros Ha Hb. unfold sortedP, fmul.
  change (fun e : Z * (Z * Z) => (fst e, fst (snd e) * snd (snd e))) with prodof.
  rewrite coords_prodof. apply and_merge_sorted; apply sortedP_nonempty; assumption.
Qed.

(* ---------------------------------------------------------------- ranges *)
Lemma zrange_In c n : In c (zrange n) <-> 0 <= c < n.
Proof.
  unfold zrange. rewrite in_map_iff. split.
  - intros [k [Hk Hin]]. apply in_seq in Hin. lia.
  - intros H. exists (Z.to_nat c). split; [lia|]. apply in_seq. lia.
Qed.

Lemma seq_sorted : forall len start, StronglySorted Z.lt (map Z.of_nat (seq start len)).
Proof.
  induction len as [|len IH]; intros start; [constructor|].
  cbn [seq map]. constructor; [apply IH|].
  rewrite Forall_forall. intros x Hx. apply in_map_iff in Hx. destruct Hx as [k [Hk Hin]].
  apply in_seq in Hin. lia.
Qed.

Lemma zrange_sorted n : StronglySorted Z.lt (zrange n).
Proof. apply seq_sorted. Qed.

Lemma zrange_NoDup n : NoDup (zrange n).
Proof.
  generalize (zrange_sorted n). generalize (zrange n). intros l.
  induction l as [|x l IH]; intros H; constructor.
  - apply StronglySorted_inv in H. destruct H as [_ H]. rewrite Forall_forall in H.
    intros Hin. specialize (H x Hin). lia.
  - apply IH. apply StronglySorted_inv in H. tauto.
Qed.

(* ---------------------------------------------------------------- scalar forms *)
Lemma getz_tab c (f : Z -> Z) l :
  getz c (map (fun x => (x, f x)) l) = if existsb (Z.eqb c) l then f c else 0.
Proof.
  induction l as [|x l IH]; [reflexivity|].
  cbn [map getz existsb]. destruct (Z.eqb_spec c x) as [E|E]; [subst; reflexivity|exact IH].
Qed.

Lemma existsb_In c l : existsb (Z.eqb c) l = true <-> In c l.
Proof.
  rewrite existsb_exists. split.
  - intros [x [Hin E]]. apply Z.eqb_eq in E. subst. exact Hin.
  - intros H. exists c. split; [exact H|apply Z.eqb_refl].
Qed.

Lemma fadd_scalar_coords sa a s : coordsP (fadd_scalar sa a s) = zrange (eff_shape sa a).
Proof. unfold fadd_scalar, coordsP. rewrite map_map. cbn [fst]. apply map_id. Qed.

Lemma fadd_scalar_getz sa a s c :
  getz c (fadd_scalar sa a s) = if (0 <=? c) && (c <? eff_shape sa a) then s + getz c a else 0.
Proof.
  unfold fadd_scalar. rewrite (getz_tab c (fun c => s + getz c a)).
  destruct (existsb (Z.eqb c) (zrange (eff_shape sa a))) eqn:E.
  - apply existsb_In, zrange_In in E.
    replace ((0 <=? c) && (c <? eff_shape sa a)) with true; [reflexivity|].
    symmetry. apply andb_true_iff. split; [apply Z.leb_le|apply Z.ltb_lt]; lia.
  - destruct ((0 <=? c) && (c <? eff_shape sa a)) eqn:E2; [|reflexivity].
    apply andb_true_iff in E2. destruct E2 as [E2 E3]. apply Z.leb_le in E2. apply Z.ltb_lt in E3.
    assert (In c (zrange (eff_shape sa a))) as Hin by (apply zrange_In; lia).
    apply existsb_In in Hin. congruence.
Qed.

Lemma getz_scale c s l : getz c (map (fun cv : Z * Z => (fst cv, s * snd cv)) l) = s * getz c l.
Proof.
  induction l as [|[c' v] l IH]; [cbn; lia|].
  cbn [map getz fst snd]. rewrite IH. destruct (c =? c'); reflexivity.
Qed.

Lemma fmul_scalar_coords a s : coordsP (fmul_scalar a s) = coordsP (nonempty a).
Proof. unfold fmul_scalar, coordsP. rewrite map_map. reflexivity. Qed.

Lemma fmul_scalar_getz a s c : sortedP a -> getz c (fmul_scalar a s) = s * getz c a.
Proof. intros Ha. unfold fmul_scalar. rewrite getz_scale, getz_nonempty by assumption. reflexivity. Qed.

(* ---------------------------------------------------------------- a *= b, a *= s *)
Lemma fimul_coords a b : coordsP (fimul a b) = coordsP a.
Proof.
  unfold fimul, coordsP. rewrite map_map. apply map_ext. intros [c v]. cbn [fst snd].
  destruct (v =? 0); reflexivity.
Qed.

Lemma fimul_getz a b c : getz c (fimul a b) = getz c a * getz c b.
Proof.
  induction a as [|[c' v] a IH]; [reflexivity|].
  unfold fimul in *. cbn [map fst snd]. destruct (Z.eqb_spec v 0) as [Ev|Ev].
  - rewrite !getz_cons. rewrite IH. destruct (c =? c'); [subst; lia|reflexivity].
  - rewrite !getz_cons. rewrite IH. destruct (Z.eqb_spec c c'); [subst; reflexivity|reflexivity].
Qed.

Lemma fimul_scalar_coords a s : coordsP (fimul_scalar a s) = coordsP a.
Proof.
  unfold fimul_scalar, coordsP. rewrite map_map. apply map_ext. intros [c v]. cbn [fst snd].
  destruct (v =? 0); reflexivity.
Qed.

Lemma fimul_scalar_getz a s c : getz c (fimul_scalar a s) = getz c a * s.
Proof.
  induction a as [|[c' v] a IH]; [reflexivity|].
  unfold fimul_scalar in *. cbn [map fst snd]. destruct (Z.eqb_spec v 0) as [Ev|Ev].
  - rewrite !getz_cons. rewrite IH. destruct (c =? c'); [subst; lia|reflexivity].
  - rewrite !getz_cons. rewrite IH. destruct (c =? c'); reflexivity.
Qed.

(* ---------------------------------------------------------------- a += b (populate) *)
Lemma lshift_iadd_nil_r a : lshift_iadd a [] = a.
Proof. destruct a as [|[c v] a]; reflexivity. Qed.

Lemma lshift_iadd_cons ca va a cb vb b :
  lshift_iadd ((ca, va) :: a) ((cb, vb) :: b) =
  if ca <? cb then (ca, va) :: lshift_iadd a ((cb, vb) :: b)
  else if ca =? cb then keep ca (va + vb) ++ lshift_iadd a b
  else keep cb (0 + vb) ++ lshift_iadd ((ca, va) :: a) b.
Proof. reflexivity. Qed.

Lemma keep_app_In x c v l : In x (coordsP (keep c v ++ l)) -> x = c \/ In x (coordsP l).
Proof.
  unfold keep. destruct (v =? 0); cbn [app coordsP map fst In]; [tauto|].
  intros [H|H]; [left; congruence|right; exact H].
Qed.

Lemma lshift_iadd_incl x : forall a b,
  In x (coordsP (lshift_iadd a b)) -> In x (coordsP a) \/ In x (coordsP b).
Proof.
  induction a as [|[ca va] a IHa]; intros b.
  - cbn [lshift_iadd]. induction b as [|[cb vb] b IHb]; [cbn; tauto|].
    cbn [flat_map fst snd]. intros H. apply keep_app_In in H.
    cbn [coordsP map fst In]. destruct H as [H|H]; [right; left; congruence|].
    destruct (IHb H) as [H'|H']; [left; exact H'|right; right; exact H'].
  - induction b as [|[cb vb] b IHb].
    + rewrite lshift_iadd_nil_r. tauto.
    + rewrite lshift_iadd_cons. destruct (ca <? cb).
      * cbn [coordsP map fst In]. intros [H|H]; [tauto|]. apply IHa in H.
        cbn [coordsP map fst In] in H. tauto.
      * destruct (ca =? cb).
        -- intros H. apply keep_app_In in H. cbn [coordsP map fst In].
           destruct H as [H|H]; [left; left; congruence|]. apply IHa in H. tauto.
        -- intros H. apply keep_app_In in H. cbn [coordsP map fst In].
           destruct H as [H|H]; [right; left; congruence|]. apply IHb in H.
           cbn [coordsP map fst In] in H. tauto.
Qed.

Lemma lshift_iadd_lb k a b : lb k a -> lb k b -> lb k (lshift_iadd a b).
Proof. apply lb_of_incl. intros c. apply lshift_iadd_incl. Qed.

Lemma getz_keep_app c c' v l : lb c' l ->
  getz c (keep c' v ++ l) = if c =? c' then v else getz c l.
Proof.
  intros Hl. unfold keep. destruct (Z.eqb_spec v 0) as [Ev|Ev]; cbn [app].
  - destruct (Z.eqb_spec c c') as [E|E]; [|reflexivity].
    subst. apply (getz_lb c'); [exact Hl|lia].
  - apply getz_cons.
Qed.

Lemma sorted_keep_app c v l : sortedP l -> lb c l -> sortedP (keep c v ++ l).
Proof.
  intros Hs Hl. unfold keep. destruct (v =? 0); cbn [app]; [exact Hs|].
  apply sortedP_cons_intro; assumption.
Qed.

Lemma lshift_iadd_spec c : forall a b, sortedP a -> sortedP b ->
  sortedP (lshift_iadd a b) /\ getz c (lshift_iadd a b) = getz c a + getz c b.
Proof.
  induction a as [|[ca va] a IHa]; intros b Ha Hb.
  - cbn [lshift_iadd getz]. induction b as [|[cb vb] b IHb]; [split; [constructor|reflexivity]|].
    destruct (sortedP_cons _ _ _ Hb) as [Hsb Hlb]. destruct (IHb Hsb) as [IH1 IH2].
    cbn [flat_map fst snd].
    assert (Hl : lb cb (flat_map (fun cv : Z * Z => keep (fst cv) (0 + snd cv)) b)).
    { change (lb cb (lshift_iadd [] b)). apply lshift_iadd_lb; [constructor|exact Hlb]. }
    split; [apply sorted_keep_app; assumption|].
    rewrite getz_keep_app by exact Hl. rewrite getz_cons, IH2.
    destruct (c =? cb); lia.
  - induction b as [|[cb vb] b IHb].
    + rewrite lshift_iadd_nil_r. split; [exact Ha|cbn [getz]; lia].
    + rewrite lshift_iadd_cons.
      destruct (sortedP_cons _ _ _ Ha) as [Hsa Hla]. destruct (sortedP_cons _ _ _ Hb) as [Hsb Hlb].
      destruct (Z.ltb_spec ca cb) as [L|L].
      * destruct (IHa _ Hsa Hb) as [IH1 IH2]. split.
        -- apply sortedP_cons_intro; [exact IH1|].
           apply lshift_iadd_lb; [exact Hla|apply lb_cons; assumption].
        -- rewrite !(getz_cons c ca), IH2.
           destruct (Z.eqb_spec c ca) as [Ec|Ec]; [|reflexivity].
           subst c. rewrite (getz_lb ca ca ((cb, vb) :: b)); [lia| |lia].
           apply lb_cons; assumption.
      * destruct (Z.eqb_spec ca cb) as [E|E].
        -- subst cb. destruct (IHa _ Hsa Hsb) as [IH1 IH2].
           assert (Hl : lb ca (lshift_iadd a b)) by (apply lshift_iadd_lb; assumption).
           split; [apply sorted_keep_app; assumption|].
           rewrite getz_keep_app by exact Hl. rewrite !(getz_cons c ca), IH2.
           destruct (c =? ca); reflexivity.
        -- destruct (IHb Hsb) as [IH1 IH2].
           assert (Hl : lb cb (lshift_iadd ((ca, va) :: a) b)).
           { apply lshift_iadd_lb; [apply lb_cons; [exact Ha|lia]|exact Hlb]. }
           split; [apply sorted_keep_app; assumption|].
           rewrite getz_keep_app by exact Hl. rewrite IH2, (getz_cons c cb).
           destruct (Z.eqb_spec c cb) as [Ec|Ec]; [|reflexivity].
           subst c. rewrite (getz_lb cb cb ((ca, va) :: a)); [lia| |lia].
           apply lb_cons; [exact Ha|lia].
Qed.

Lemma fiadd_getz a b c : sortedP a -> sortedP b -> getz c (fiadd a b) = getz c a + getz c b.
Proof.
  intros Ha Hb. unfold fiadd.
  destruct (lshift_iadd_spec c a (nonempty b) Ha (sortedP_nonempty b Hb)) as [_ H].
  rewrite H, getz_nonempty by assumption. reflexivity.
Qed.

Lemma fiadd_sorted a b : sortedP a -> sortedP b -> sortedP (fiadd a b).
Proof.
  intros Ha Hb. unfold fiadd.
  destruct (lshift_iadd_spec 0 a (nonempty b) Ha (sortedP_nonempty b Hb)) as [H _]. exact H.
Qed.

Lemma fiadd_incl a b x : In x (coordsP (fiadd a b)) -> In x (coordsP a) \/ In x (coordsP b).
Proof.
  unfold fiadd. intros H. apply lshift_iadd_incl in H.
  destruct H as [H|H]; [left; exact H|right; apply coordsP_nonempty_incl; exact H].
Qed.

(* ---------------------------------------------------------------- a += s (iterShapeRef) *)
Lemma upd_incl x c f a : In x (coordsP (upd c f a)) -> x = c \/ In x (coordsP a).
Proof.
  induction a as [|[ca va] a IH]; cbn [upd].
  - cbn. intros [H|[]]. left; congruence.
  - destruct (c =? ca) eqn:E.
    + apply Z.eqb_eq in E. subst. cbn [coordsP map fst In]. tauto.
    + destruct (c <? ca).
      * cbn [coordsP map fst In]. intros [H|H]; [left; congruence|right; exact H].
      * cbn [coordsP map fst In]. intros [H|H]; [right; left; exact H|].
        destruct (IH H); [left; assumption|right; right; assumption].
Qed.

Lemma upd_spec c f c' : forall a, sortedP a ->
  sortedP (upd c f a) /\ getz c' (upd c f a) = if c' =? c then f (getz c a) else getz c' a.
Proof.
  induction a as [|[ca va] a IH]; intros Ha; cbn [upd].
  - split; [apply sortedP_cons_intro; constructor|]. cbn [getz]. reflexivity.
  - destruct (sortedP_cons _ _ _ Ha) as [Hsa Hla].
    destruct (Z.eqb_spec c ca) as [E|E].
    + subst ca. split; [apply sortedP_cons_intro; assumption|].
      rewrite !getz_cons, Z.eqb_refl. destruct (c' =? c); reflexivity.
    + destruct (Z.ltb_spec c ca) as [L|L].
      * split; [apply sortedP_cons_intro; [exact Ha|apply lb_cons; assumption]|].
        rewrite (getz_cons c' c).
        rewrite (getz_lb c c ((ca, va) :: a)); [reflexivity| |lia]. apply lb_cons; assumption.
      * destruct (IH Hsa) as [IH1 IH2]. split.
        -- apply sortedP_cons_intro; [exact IH1|].
           unfold lb. rewrite Forall_forall. intros x Hx. apply upd_incl in Hx.
           destruct Hx as [Hx|Hx]; [lia|]. unfold lb in Hla. rewrite Forall_forall in Hla. auto.
        -- rewrite !getz_cons, IH2. destruct (Z.eqb_spec c ca); [lia|].
           destruct (Z.eqb_spec c' ca) as [E1|E1]; [|reflexivity].
           destruct (Z.eqb_spec c' c); [lia|reflexivity].
Qed.

Lemma fold_upd_spec s c' : forall l a, NoDup l -> sortedP a ->
  let r := fold_left (fun acc c => upd c (fun v => v + s) acc) l a in
  sortedP r
  /\ getz c' r = (if existsb (Z.eqb c') l then getz c' a + s else getz c' a)
  /\ (forall x, In x (coordsP r) -> In x l \/ In x (coordsP a)).
Proof.
  induction l as [|x l IH]; intros a Hnd Ha; cbn [fold_left existsb].
  - repeat split; [exact Ha|tauto].
  - inversion Hnd as [|? ? Hx Hnd']; subst.
    destruct (upd_spec x (fun v => v + s) c' a Ha) as [Hs Hg].
    destruct (IH (upd x (fun v => v + s) a) Hnd' Hs) as (H1 & H2 & H3).
    repeat split; [exact H1| |].
    + rewrite H2, Hg. destruct (Z.eqb_spec c' x) as [E|E]; [|reflexivity].
      subst x. cbn [orb].
      destruct (existsb (Z.eqb c') l) eqn:Ex; [apply existsb_In in Ex; contradiction|reflexivity].
    + intros y Hy. destruct (H3 y Hy) as [Hy'|Hy']; [left; right; exact Hy'|].
      apply upd_incl in Hy'. destruct Hy' as [Hy'|Hy']; [left; left; congruence|right; exact Hy'].
Qed.

Lemma fiadd_scalar_spec sa a s c : sortedP a ->
  sortedP (fiadd_scalar sa a s)
  /\ getz c (fiadd_scalar sa a s)
     = (if (0 <=? c) && (c <? eff_shape sa a) then getz c a + s else getz c a)
  /\ (forall x, In x (coordsP (fiadd_scalar sa a s)) -> 0 <= x < eff_shape sa a \/ In x (coordsP a)).
Proof.
  intros Ha. unfold fiadd_scalar.
  destruct (fold_upd_spec s c (zrange (eff_shape sa a)) a (zrange_NoDup _) Ha) as (H1 & H2 & H3).
  repeat split; [exact H1| |].
  - rewrite H2. destruct (existsb (Z.eqb c) (zrange (eff_shape sa a))) eqn:E.
    + apply existsb_In, zrange_In in E.
      replace ((0 <=? c) && (c <? eff_shape sa a)) with true; [reflexivity|].
      symmetry. apply andb_true_iff. split; [apply Z.leb_le|apply Z.ltb_lt]; lia.
    + destruct ((0 <=? c) && (c <? eff_shape sa a)) eqn:E2; [|reflexivity].
      apply andb_true_iff in E2. destruct E2 as [E2 E3]. apply Z.leb_le in E2. apply Z.ltb_lt in E3.
      assert (In c (zrange (eff_shape sa a))) as Hin by (apply zrange_In; lia).
      apply existsb_In in Hin. congruence.
  - intros x Hx. destruct (H3 x Hx) as [H|H]; [left; apply zrange_In; exact H|right; exact H].
Qed.

(* ---------------------------------------------------------------- the pinned a *= b (finding S25) *)
Lemma fimul_pinned_refuted :
  exists a b c, wf_fib None a = true /\ wf_fib None b = true /\
                getz c (fimul_pinned a b) <> getz c (fmul a b).
Proof. exists [(0, 1); (2, 2)], [(2, 10)], 0. vm_compute. repeat split; discriminate. Qed.
