(* C04FullP.v — the faithful model's observation satisfies the whole oracle c04_holds, for every
   well-formed case outside the known-finding region. *)
From Coq Require Import ZArith List Bool Lia Sorted.
From FT Require Import Model.Base Model.Obs Model.C04Coiter Model.C04Check
                       Proofs.ObsP Proofs.C04CoiterP Proofs.C04LexP Proofs.C04StreamP
                       Proofs.C04CheckP Proofs.C04LfP Proofs.C04PrefixP Proofs.C04AndP
                       Proofs.C04NaryP.
Import ListNotations.
Open Scope Z_scope.

(* ------------------------------------------------------------------ streams *)

Lemma stream_alllen o : wf_operand o = true -> alllen (op_arity o) (stream o).
Proof.
  intros Hwf. destruct (stream_spec o Hwf) as [SS LL].
  apply alllen_of_lookup; [exact SS|]. intros c v E. rewrite LL in E.
  destruct (present o c) eqn:Pc; [|discriminate]. exact (present_arity o c Hwf Pc).
Qed.

Lemma stream_unconstrained o :
  wf_operand o = true -> constrained o = false -> stream o = [].
Proof.
  intros Hwf Hc. destruct (stream o) as [|[c og] r] eqn:E; [reflexivity|].
  pose proof (stream_head o c og r Hwf E) as Pc.
  rewrite (present_constrained o c Pc) in Hc. discriminate.
Qed.

(* ------------------------------------------------------------------ a & b, any arities *)

Lemma and_holds_gen a b :
  wf_operand a = true -> wf_operand b = true ->
  check_items (exp_and a b) (universe a ++ universe b) (Vl V_item (m_and a b)) = true.
Proof.
  intros Ha Hb. destruct (stream_spec a Ha) as [SA LA]. destruct (stream_spec b Hb) as [SB LB].
  destruct (and_op_spec (op_arity a) (op_arity b) (stream a) (stream b) SA SB
              (stream_alllen a Ha) (stream_alllen b Hb)) as [RS RL].
  unfold m_and, items2.
  apply (check_items_keyed (fun w => (0, [fst w; snd w]))); [exact RS|].
  intros c. rewrite RL, LA, LB. unfold exp_and.
  destruct (present a (firstn (op_arity a) c)), (present b (firstn (op_arity b) c)),
    (Nat.eqb (length c) (Nat.max (op_arity a) (op_arity b))); cbn [andb]; try reflexivity.
  exists 0, [expect a (firstn (op_arity a) c); expect b (firstn (op_arity b) c)].
  split; [reflexivity|]. split; [reflexivity|]. cbn [fst snd].
  constructor; [apply expect_matches|]. constructor; [apply expect_matches|constructor].
Qed.

(* ------------------------------------------------------------------ a - b *)

Lemma filter_emit {W} (f : W -> bool) (l : list (coord * W)) :
  filter (fun x => f (snd x)) l
  = flat_map (emit (fun w => if f w then Some w else None)) l.
Proof.
  induction l as [|[c w] l IH]; [reflexivity|].
  cbn [filter flat_map snd]. unfold emit at 1. cbn [fst snd]. rewrite IH.
  destruct (f w); reflexivity.
Qed.

Lemma zrange_n_In n : forall lo z, lo <= z < lo + Z.of_nat n -> In z (zrange_n lo n).
Proof.
  induction n as [|n IH]; intros lo z H; [lia|].
  cbn [zrange_n]. destruct (Z.eq_dec z lo) as [->|N]; [left; reflexivity|].
  right. apply IH. lia.
Qed.

(* outside region 1 the payload a delivers at a coordinate that b lacks is not empty *)
Definition sub_ok (a b : operand) : Prop :=
  o_U a = false
  \/ existsb (fun z => negb (present b [z]) && stored_empty a [z]) (zrange (o_lo a) (o_hi a))
     = false.

Lemma sub_delivered_nonempty a b c :
  wf_operand a = true -> sub_ok a b ->
  present a c = true -> present b c = false ->
  origin_empty a (origin_of a c) = false.
Proof.
  intros Ha Hok Pa Pb. destruct (stream_spec a Ha) as [SA LA].
  destruct (o_U a) eqn:HU.
  - destruct Hok as [Hok|Hok]; [congruence|].
    unfold present in Pa. rewrite HU in Pa.
    destruct c as [|z [|? ?]]; try discriminate.
    apply andb_true_iff in Pa. destruct Pa as [P1 P2].
    apply Z.leb_le in P1. apply Z.ltb_lt in P2.
    assert (Hin : In z (zrange (o_lo a) (o_hi a))).
    { unfold zrange. apply zrange_n_In. lia. }
    assert (Hz : negb (present b [z]) && stored_empty a [z] = false).
    { destruct (negb (present b [z]) && stored_empty a [z]) eqn:E; [|reflexivity].
      assert (T : existsb (fun z => negb (present b [z]) && stored_empty a [z])
                          (zrange (o_lo a) (o_hi a)) = true)
        by (apply existsb_exists; exists z; split; assumption).
      rewrite T in Hok. discriminate. }
    rewrite Pb in Hz. cbn [negb andb] in Hz.
    unfold stored_empty in Hz. unfold origin_of.
    destruct (index_of [z] (keys a)) as [i|]; [|discriminate].
    cbn [origin_empty]. destruct (nth_error (o_es a) i) as [[c' p]|]; [exact Hz|reflexivity].
  - specialize (LA c). rewrite Pa in LA.
    apply alookup_In in LA; [|exact lex_eqb_spec].
    unfold stream in LA. rewrite HU in LA.
    destruct (iter_occ_nonempty _ _ _ _ _ LA) as [i [p [E [Hn He]]]].
    rewrite E. cbn [origin_empty Nat.add]. rewrite Hn. exact He.
Qed.

Lemma sub_holds_gen a b :
  wf_operand a = true -> wf_operand b = true -> sub_ok a b ->
  check_items (exp_sub a b) (universe a) (Vl V_item (m_sub a b)) = true.
Proof.
  intros Ha Hb Hok. destruct (stream_spec a Ha) as [SA LA]. destruct (stream_spec b Hb) as [SB LB].
  destruct (sub_merge_correct lex_eqb lex_ltb lex_eqb_spec lex_ltb_irrefl lex_ltb_trans lex_ltb_total
              (stream a) (stream b) SA SB) as [RS RL].
  unfold m_sub.
  rewrite (filter_emit (fun w => negb (origin_empty a w))).
  destruct (emit_spec lex_eqb lex_ltb lex_eqb_spec lex_ltb_irrefl lex_ltb_trans
              (fun w => if negb (origin_empty a w) then Some w else None) _ RS) as [ES EL].
  unfold items1.
  apply (check_items_keyed (fun w => (0, [w]))); [exact ES|].
  intros c. unfold llookup. rewrite EL, RL.
  fold (llookup c (stream a)). fold (llookup c (stream b)). rewrite LA, LB. unfold exp_sub.
  destruct (present a c) eqn:Pa, (present b c) eqn:Pb; cbn [andb negb]; try reflexivity.
  rewrite (sub_delivered_nonempty a b c Ha Hok Pa Pb). cbn [negb].
  exists 0, [expect a c]. repeat split. cbn [snd]. constructor; [apply expect_matches|constructor].
Qed.

(* ------------------------------------------------------------------ payload tuples of leaves *)

Definition unleaf (np : npay) : option origin :=
  match np with NLeaf o => Some o | _ => None end.
Definition unleafs (nps : list npay) : option (list origin) := opt_all (map unleaf nps).

Lemma unleafs_leaf os : unleafs (map NLeaf os) = Some os.
Proof.
  unfold unleafs. induction os as [|o os IH]; [reflexivity|].
  cbn [map opt_all unleaf]. rewrite IH. reflexivity.
Qed.

Lemma V_nitems_leaf {W} (m : W -> Z) (os : W -> list origin) (R : list (coord * W)) :
  Vl V_nitem (map (fun x => (fst x, m (snd x), map NLeaf (os (snd x)))) R)
  = Vl V_item (map (fun x => (fst x, m (snd x), os (snd x))) R).
Proof.
  unfold Vl. rewrite !map_map. f_equal. apply map_ext. intros [c w].
  unfold V_nitem, V_item, Vl. cbn [fst snd]. rewrite map_map. reflexivity.
Qed.

Lemma opt_all_some {A B} (h : A -> B) (l : list A) :
  opt_all (map (fun x => Some (h x)) l) = Some (map h l).
Proof. induction l as [|x l IH]; [reflexivity|]. cbn [map opt_all]. rewrite IH. reflexivity. Qed.

Lemma llookup_map_snd {X Y} (g : X -> Y) c (l : list (coord * X)) :
  llookup c (map (fun x => (fst x, g (snd x))) l)
  = match llookup c l with Some p => Some (g p) | None => None end.
Proof. apply (llookup_map_val (fun _ p => g p)). Qed.

(* ------------------------------------------------------------------ intersection of k operands *)

Lemma lookups_streams c ops :
  (forall o, In o ops -> wf_operand o = true) ->
  lookups c (map stream ops)
  = if forallb (fun o => present o c) ops then Some (map (fun o => origin_of o c) ops) else None.
Proof.
  induction ops as [|o ops IH]; intros Hwf; [reflexivity|].
  cbn [map forallb]. rewrite lookups_cons.
  destruct (stream_spec o (Hwf o (or_introl eq_refl))) as [_ LL]. rewrite LL.
  rewrite IH by (intros o' Ho'; apply Hwf; right; exact Ho').
  destruct (present o c); [|reflexivity]. cbn [andb].
  destruct (forallb _ ops); reflexivity.
Qed.

Lemma expect_all_match c ops :
  Forall2 origin_matches (map (fun o => expect o c) ops) (map (fun o => origin_of o c) ops).
Proof.
  induction ops as [|o ops IH]; [constructor|]. cbn [map].
  constructor; [apply expect_matches|exact IH].
Qed.

Lemma nand_holds n ops :
  ops <> [] -> (forall o, In o ops -> wf_operand o = true) ->
  (forall o, In o ops -> alllen n (stream o)) ->
  check_items (exp_nand ops) (univ_all ops) (Vl V_nitem (m_nand ops)) = true.
Proof.
  intros Hne Hwf Hlen.
  assert (Fs : Forall lsorted (map stream ops)).
  { rewrite Forall_forall. intros s Hs. apply in_map_iff in Hs. destruct Hs as [o [<- Ho]].
    apply stream_spec. apply Hwf. exact Ho. }
  assert (Fl : Forall (alllen n) (map stream ops)).
  { rewrite Forall_forall. intros s Hs. apply in_map_iff in Hs. destruct Hs as [o [<- Ho]].
    apply Hlen. exact Ho. }
  destruct (intersection_n_spec n (map stream ops) Fs Fl) as [LS LL0].
  assert (LL : forall c, llookup c (intersection_n (map stream ops))
                         = match lookups c (map stream ops) with
                           | Some os => Some (map NLeaf os) | None => None end).
  { intros c. rewrite LL0. destruct ops; [congruence|reflexivity]. }
  clear LL0.
  set (L := intersection_n (map stream ops)) in *.
  destruct (emit_spec lex_eqb lex_ltb lex_eqb_spec lex_ltb_irrefl lex_ltb_trans unleafs L LS)
    as [RS RL].
  set (R := flat_map (emit unleafs) L) in *.
  assert (RLk : forall c, llookup c R = lookups c (map stream ops)).
  { intros c. unfold llookup. rewrite RL. fold (llookup c L). rewrite LL.
    destruct (lookups c (map stream ops)); [apply unleafs_leaf|reflexivity]. }
  assert (EL : L = map (fun x => (fst x, map NLeaf (snd x))) R).
  { apply (ksorted_ext lex_eqb lex_ltb lex_eqb_spec lex_ltb_irrefl lex_ltb_trans).
    - exact LS.
    - apply lsorted_map_keys; [intros; reflexivity|exact RS].
    - intros c. fold (llookup c L).
      fold (llookup c (map (fun x : coord * list origin => (fst x, map NLeaf (snd x))) R)).
      rewrite (llookup_map_snd (map NLeaf)), RLk, LL. reflexivity. }
  unfold m_nand. fold L. rewrite EL, map_map. cbn [fst snd].
  rewrite (V_nitems_leaf (fun _ => 0) (fun w => w) R).
  apply (check_items_keyed (fun w : list origin => (0, w))); [exact RS|].
  intros c. rewrite RLk, (lookups_streams c ops Hwf). unfold exp_nand.
  destruct (forallb (fun o => present o c) ops); [|reflexivity].
  exists 0, (map (fun o => expect o c) ops). repeat split. cbn [snd]. apply expect_all_match.
Qed.

(* ------------------------------------------------------------------ union of k operands *)

Definition selU (v : option (Z * list npay)) : option (Z * list origin) :=
  match v with
  | Some (m, nps) => match unleafs nps with Some os => Some (m, os) | None => None end
  | None => None
  end.

Definition or_origin (o : operand) (c : coord) : origin :=
  if present o c then origin_of o c else Fresh (op_default o).

Lemma or_all_match c ops :
  Forall2 origin_matches (map (fun o => if present o c then expect o c else absent o) ops)
          (map (fun o => or_origin o c) ops).
Proof.
  induction ops as [|o ops IH]; [constructor|]. cbn [map]. constructor; [|exact IH].
  unfold or_origin. destruct (present o c); [apply expect_matches|apply absent_matches].
Qed.

Lemma existsb_exists_map {A B} (f : B -> bool) (g : A -> B) l :
  existsb f (map g l) = existsb (fun x => f (g x)) l.
Proof. induction l as [|x l IH]; [reflexivity|]. cbn [map existsb]. rewrite IH. reflexivity. Qed.

Lemma existsb_ext_in {A} (f g : A -> bool) l :
  (forall x, In x l -> f x = g x) -> existsb f l = existsb g l.
Proof.
  induction l as [|x l IH]; intros H; [reflexivity|]. cbn [existsb].
  rewrite (H x (or_introl eq_refl)), IH; [reflexivity|]. intros y Hy. apply H. right. exact Hy.
Qed.

Lemma nor_holds ops :
  (2 <= length ops)%nat -> (forall o, In o ops -> wf_operand o = true) ->
  match m_nor ops with
  | Some r => check_items (exp_nor ops) (univ_all ops) (Vl V_nitem r) = true
  | None => False
  end.
Proof.
  intros Hlen Hwf.
  set (all := map (fun o => (stream o, op_default o)) ops).
  assert (Hall : exists s0 d0 rest, all = (s0, d0) :: rest /\ rest <> []).
  { unfold all. destruct ops as [|o0 [|o1 ops']]; cbn [length] in Hlen; try lia.
    cbn [map]. eexists _, _, _. split; [reflexivity|discriminate]. }
  destruct Hall as [s0 [d0 [rest [Eall Hrest]]]].
  assert (Fs : Forall (fun sd => lsorted (fst sd)) all).
  { unfold all. rewrite Forall_forall. intros sd Hsd. apply in_map_iff in Hsd.
    destruct Hsd as [o [<- Ho]]. cbn [fst]. apply stream_spec. apply Hwf. exact Ho. }
  pose proof (union_n_spec s0 d0 rest Hrest) as Hspec. rewrite <- Eall in Hspec.
  destruct (Hspec Fs) as [US UL0]. clear Hspec.
  (* per operand: the stream holds c iff c is present, and then the operand's own payload *)
  assert (Hex : forall c, existsb (fun sd => isS (llookup c (fst sd))) all
                          = existsb (fun o => present o c) ops).
  { intros c. unfold all. rewrite existsb_exists_map. apply existsb_ext_in. intros o Ho. cbn [fst].
    destruct (stream_spec o (Hwf o Ho)) as [_ LL]. rewrite LL. destruct (present o c); reflexivity. }
  assert (Hmask : forall c, map (fun sd => isS (llookup c (fst sd))) all
                            = map (fun o => present o c) ops).
  { intros c. unfold all. rewrite map_map. apply map_ext_in. intros o Ho. cbn [fst].
    destruct (stream_spec o (Hwf o Ho)) as [_ LL]. rewrite LL. destruct (present o c); reflexivity. }
  assert (Hleaf : forall c, map (fun sd => leaf_of (llookup c (fst sd), snd sd)) all
                            = map NLeaf (map (fun o => or_origin o c) ops)).
  { intros c. unfold all. rewrite !map_map. apply map_ext_in. intros o Ho. cbn [fst snd].
    unfold leaf_of, or_origin. cbn [fst snd].
    destruct (stream_spec o (Hwf o Ho)) as [_ LL]. rewrite LL. destruct (present o c); reflexivity. }
  assert (UL : forall c, llookup c (union_n all)
                         = if existsb (fun o => present o c) ops
                           then Some (Some (mask_bits (map (fun o => present o c) ops) 1,
                                            map NLeaf (map (fun o => or_origin o c) ops)))
                           else None).
  { intros c. rewrite UL0, Hex, Hmask, Hleaf. reflexivity. }
  clear UL0.
  set (U := union_n all) in *.
  destruct (emit_spec lex_eqb lex_ltb lex_eqb_spec lex_ltb_irrefl lex_ltb_trans selU U US)
    as [RS RL].
  set (R := flat_map (emit selU) U) in *.
  assert (RLk : forall c, llookup c R
                          = if existsb (fun o => present o c) ops
                            then Some (mask_bits (map (fun o => present o c) ops) 1,
                                       map (fun o => or_origin o c) ops)
                            else None).
  { intros c. unfold llookup. rewrite RL. fold (llookup c U). rewrite UL.
    destruct (existsb (fun o => present o c) ops); [|reflexivity].
    cbn [selU]. rewrite unleafs_leaf. reflexivity. }
  assert (EU : U = map (fun x => (fst x, Some (fst (snd x), map NLeaf (snd (snd x))))) R).
  { apply (ksorted_ext lex_eqb lex_ltb lex_eqb_spec lex_ltb_irrefl lex_ltb_trans).
    - exact US.
    - apply lsorted_map_keys; [intros; reflexivity|exact RS].
    - intros c. fold (llookup c U).
      fold (llookup c (map (fun x : coord * (Z * list origin) =>
                              (fst x, Some (fst (snd x), map NLeaf (snd (snd x))))) R)).
      rewrite (llookup_map_snd (fun w : Z * list origin => Some (fst w, map NLeaf (snd w)))).
      rewrite RLk, UL. destruct (existsb (fun o => present o c) ops); reflexivity. }
  unfold m_nor. fold all. fold U. rewrite EU, map_map. cbn [fst snd].
  rewrite (opt_all_some (fun x : coord * (Z * list origin) =>
                           (fst x, fst (snd x), map NLeaf (snd (snd x)))) R).
  rewrite (V_nitems_leaf (fun w : Z * list origin => fst w) (fun w => snd w) R).
  apply (check_items_keyed (fun w : Z * list origin => w)); [exact RS|].
  intros c. rewrite RLk. unfold exp_nor.
  destruct (existsb (fun o => present o c) ops); [|reflexivity].
  exists (mask_bits (map (fun o => present o c) ops) 1),
         (map (fun o => if present o c then expect o c else absent o) ops).
  repeat split. cbn [snd]. apply or_all_match.
Qed.

(* ------------------------------------------------------------------ the case level *)

Lemma wf_case_alllen c :
  wf_case c = true -> k_mixed c = false ->
  exists n, forall o, In o (k_ops c) -> alllen n (stream o).
Proof.
  intros Hwf Hm.
  exists (fold_right Nat.max 1%nat
            (map (fun o' => if constrained o' then op_arity o' else 1%nat) (k_ops c))).
  intros o Ho. destruct (wf_case_ops c Hwf) as [_ [_ Hall]].
  pose proof (Hall o Ho) as Wo.
  destruct (constrained o) eqn:Co.
  - unfold wf_case in Hwf. rewrite Hm in Hwf.
    apply andb_true_iff in Hwf. destruct Hwf as [_ H]. rewrite forallb_forall in H.
    specialize (H o Ho). rewrite Co in H. apply Nat.eqb_eq in H. rewrite <- H.
    apply stream_alllen. exact Wo.
  - rewrite (stream_unconstrained o Wo Co). constructor.
Qed.

Lemma region_sub_ok c :
  k_mixed c = false -> c04_region c = 0 -> sub_ok (op_a c) (op_b c).
Proof.
  unfold c04_region, sub_ok. intros Hm H. rewrite Hm in H. cbn [negb andb] in H.
  destruct (o_U (op_a c)); [|left; reflexivity]. right. cbn [andb] in H.
  destruct (existsb _ (zrange _ _)); [discriminate|reflexivity].
Qed.

Lemma check_items_univ_comm exp_at u1 u2 r :
  check_items exp_at (u1 ++ u2) r = check_items exp_at (u2 ++ u1) r.
Proof.
  unfold check_items. destruct (dec_items r); [|reflexivity].
  f_equal. rewrite !forallb_app. apply andb_comm.
Qed.

(* the faithful model meets the whole oracle on every well-formed case outside region 1 *)
Theorem c04_model_holds c :
  wf_case c = true -> c04_region c = 0 ->
  c04_holds c (c04_model c) = true.
Proof.
  intros Hwf Hreg. unfold c04_holds, c04_model.
  rewrite holds_pure_model, andb_true_r.
  destruct (wf_case_ops c Hwf) as [Ia [Ib Hall]].
  pose proof (Hall _ Ia) as Wa. pose proof (Hall _ Ib) as Wb.
  pose proof (and_holds_gen _ _ Wa Wb) as Hab.
  pose proof (and_holds_gen _ _ Wb Wa) as Hba. rewrite check_items_univ_comm in Hba.
  destruct (k_mixed c) eqn:Hm.
  - unfold holds_mixed. rewrite Hab, Hba. reflexivity.
  - assert (Hlen : (2 <= length (k_ops c))%nat).
    { unfold wf_case in Hwf.
      apply andb_true_iff in Hwf. destruct Hwf as [Hwf _].
      apply andb_true_iff in Hwf. destruct Hwf as [_ Hwf]. apply Nat.leb_le. exact Hwf. }
    assert (Hne : k_ops c <> []) by (destruct (k_ops c); [cbn in Hlen; lia|discriminate]).
    unfold holds_binary, holds_nary.
    rewrite Hab, Hba, (or_holds _ _ Wa Wb), (xor_holds _ _ Wa Wb),
      (sub_holds_gen _ _ Wa Wb (region_sub_ok c Hm Hreg)).
    destruct (wf_case_alllen c Hwf Hm) as [n Hn].
    rewrite (nand_holds n (k_ops c) Hne Hall Hn).
    pose proof (nor_holds (k_ops c) Hlen Hall) as Hnor.
    destruct (m_nor (k_ops c)) as [r|]; [|contradiction]. rewrite Hnor.
    pose proof (lf_holds (k_ops c) Hne Hall) as Hlf.
    destruct (m_lf (k_ops c)) as [r'|]; [|contradiction]. rewrite Hlf. reflexivity.
Qed.
