(* C09SwapSpecP.v — the swap result is well formed; the model meets the oracle on OSwap. *)
From Coq Require Import ZArith List Bool Lia Permutation PeanoNat.
From FT Require Import Model.Base Model.Obs Model.C09Transform Model.C09Check
                       Proofs.C09OrderP Proofs.C09FlattenP Proofs.C09BelowP Proofs.C09CheckP
                       Proofs.C09SwizzleP Proofs.C09WfP Proofs.C09RebuildP Proofs.C09SwapP
                       Proofs.C09UnflP Proofs.C09SplitP Proofs.C09LinearP Proofs.C09RefP Proofs.C09SpecP
                       Proofs.C09DescentP Proofs.C09UnflWfP.
Import ListNotations.
Open Scope Z_scope.

Lemma at_depth_impl : forall (W W' : cfib -> Prop), (forall s, W s -> W' s) ->
  forall k es, at_depth k W es -> at_depth k W' es.
Proof.
  intros W W' H. induction k as [|k IH]; intros es Hes; simpl in *;
    (eapply Forall_impl; [|exact Hes]); intros cp [s [E Hs]]; exists s; split; auto.
Qed.

Theorem swap_fiber_good : forall fuel d es M r, wfl 1 es -> deepP 1 (gpay M) es ->
  swap_fiber fuel d es = Some r -> good (1 + M) r.
Proof.
  intros fuel d es M r Hwf Hdeep Hr.
  assert (Hs : tp st_pair) by (right; reflexivity).
  pose proof Hwf as [Hpw [Hsg Hsub]].
  assert (Hf : all_fibers es = true).
  { unfold all_fibers. apply forallb_forall. intros cp Hin. rewrite Forall_forall in Hsub.
    destruct (Hsub _ Hin) as [s [E _]]. rewrite E. reflexivity. }
  set (fl := merge_items st_pair (prodZ (firstn 1 (tl (@nil Z)))) d es) in *.
  assert (Hk : pw ccmp (map fst fl)).
  { apply merge_items_pw; auto. eapply Forall_impl; [|exact Hsub].
    intros cp [s [E Hw]]. rewrite E. simpl. eapply wfl_pw. exact Hw. }
  assert (Efl : merge_helper 1 st_pair true fuel [] d es = Some fl) by (apply merge_helper_1; assumption).
  pose proof (merge_items_len2 (prodZ (firstn 1 (tl (@nil Z)))) d es Hwf) as Hlen. fold fl in Hlen.
  assert (Hpay : Forall (fun cp : coord * ct => gpay M (snd cp)) fl) by (apply merge_items_payloads; exact Hdeep).
  assert (Hflne : fl <> []).
  { intros E. unfold swap_fiber in Hr. rewrite Efl, E in Hr. discriminate. }
  rewrite (swap_fiber_unfold fuel d es fl Efl Hflne) in Hr.
  set (rk := fun cp : coord * ct => (rev (fst cp), snd cp)) in *.
  set (s := sort_by ccmp fst (map rk fl)) in *.
  assert (HPs : Permutation s (map rk fl)) by apply sort_by_perm.
  assert (Hsne : s <> []).
  { intros E. rewrite E in HPs. apply Permutation_nil in HPs. destruct fl; [congruence|discriminate]. }
  assert (Hslen : Forall (fun cp : coord * ct => length (fst cp) = 2%nat) s).
  { apply Forall_forall. intros cp Hin. apply (Permutation_in _ HPs) in Hin.
    apply in_map_iff in Hin. destruct Hin as [cp0 [<- H0]]. simpl. rewrite rev_length.
    rewrite Forall_forall in Hlen. auto. }
  assert (Hspay : Forall (fun cp : coord * ct => gpay M (snd cp)) s).
  { apply Forall_forall. intros cp Hin. apply (Permutation_in _ HPs) in Hin.
    apply in_map_iff in Hin. destruct Hin as [cp0 [<- H0]]. simpl. rewrite Forall_forall in Hpay. auto. }
  assert (Hspw : pw ccmp (map fst s)).
  { apply (sort_by_pw ccmp fst ccmp_anti ccmp_eq ccmp_trans).
    rewrite map_map. simpl. rewrite <- map_map with (f := fst) (g := @rev Z).
    apply NoDup_map_inj_in2.
    - intros x y _ _ E. rewrite <- (rev_involutive x), <- (rev_involutive y), E. reflexivity.
    - apply (pw_NoDup ccmp); [exact ccmp_refl|exact Hk]. }
  destruct (unflatten_wf 1 s M Hsne Hspw Hslen Hspay) as [r0 [Er0 Hg]].
  assert (Hr' : unflatten 1 s = Some r) by exact Hr.
  rewrite Er0 in Hr'. inversion Hr'; subst r0. exact Hg.
Qed.

(* the transposition is an involution on long enough points *)
Lemma nunder_swap0_invol : forall k p, (k + 2 <= length p)%nat -> nunder k swap0 (nunder k swap0 p) = p.
Proof.
  induction k as [|k IH]; intros p H.
  - destruct p as [|a [|b q]]; simpl in H; try lia. reflexivity.
  - destruct p as [|c q]; simpl in H; try lia.
    change (nunder (S k) swap0 (c :: q)) with (c :: nunder k swap0 q).
    change (nunder (S k) swap0 (c :: nunder k swap0 q)) with (c :: nunder k swap0 (nunder k swap0 q)).
    rewrite IH by lia. reflexivity.
Qed.

Lemma nunder_swap0_len : forall k p, length (nunder k swap0 p) = length p.
Proof.
  induction k as [|k IH]; intros p.
  - destruct p as [|a [|b q]]; reflexivity.
  - destruct p as [|c q]; [reflexivity|]. change (nunder (S k) swap0 (c :: q)) with (c :: nunder k swap0 q).
    simpl. rewrite IH. reflexivity.
Qed.

Theorem spec_swap : forall c depth, k_op c = OSwap depth -> c09_wf c = true ->
  c09_holds c (c09_model c) = true.
Proof.
  intros c depth Hop Hwf. destruct (c09_wf_parts c Hwf) as [Hn [Et [Hd [Hs [Hi [Hsh Hok]]]]]].
  unfold op_ok in Hok. rewrite Hop in Hok. apply Nat.ltb_lt in Hok.
  rewrite Et in Hd, Hs, Hi, Hsh. set (es := k_es c) in *. set (d := k_d c). set (n := k_n c) in *.
  assert (Hod : out_depth c = n) by (unfold out_depth; rewrite Hop; reflexivity).
  assert (Hsrc : NoDup (map fst (ccontent d (CN es)))) by (apply content_NoDup; exact Hs).
  assert (Hrun : c09_run c = t_swap depth (S n) d es) by (unfold c09_run; rewrite Hop; reflexivity).
  assert (Hdom : swap_dom depth es).
  { destruct depth as [|k]; simpl.
    - apply (wfl_of_bool 1 n es); auto; lia.
    - apply (at_depth_impl (Wb (n - S k) (skipn (S k) (k_shape c)))).
      + intros s [A [B [C _]]]. apply (wfl_of_bool 1 (n - S k) s); auto; lia.
      + apply at_depth_of_bool; [lia|]. repeat split; assumption. }
  destruct (t_swap_content depth (S n) d es Hdom) as [r [Er HP]].
  assert (Hgood : csorted (CN r) = true /\ cdepth_ok n (CN r) = true).
  { unfold t_swap in Er. destruct (level_all_empty d depth (CN es)).
    - inversion Er; subst r. split; assumption.
    - destruct depth as [|k]; simpl modify_root in Er.
      + destruct (swap_fiber_good (S n) d es (n - 2) r Hdom) as [G1 G2]; auto.
        * pose proof (deepP_of_bool 1 n es ltac:(lia) Hd Hs) as H. replace (n - 1 - 1)%nat with (n - 2)%nat in H by lia. exact H.
        * replace (S (1 + (n - 2))) with n in G2 by lia. split; assumption.
      + destruct (below_wf (Wb (n - S k) (skipn (S k) (k_shape c))) (swap_fiber (S n) d) d (1 + (n - S k - 2)))
          with (k := k) (es := es) (r := r) as [G1 G2]; auto.
        * intros s r' [A [B [C _]]] _ Efs. apply (swap_fiber_good (S n) d s (n - S k - 2) r'); auto.
          -- apply (wfl_of_bool 1 (n - S k) s); auto; lia.
          -- pose proof (deepP_of_bool 1 (n - S k) s ltac:(lia) A B) as H.
             replace (n - S k - 1 - 1)%nat with (n - S k - 2)%nat in H by lia. exact H.
        * apply at_depth_of_bool; [lia|]. repeat split; assumption.
        * replace (S (S k + (1 + (n - S k - 2)))) with n in G2 by lia. split; assumption. }
  destruct Hgood as [Hs' Hd'].
  apply (holds_of_parts c r); auto.
  - rewrite Hrun. exact Er.
  - rewrite Hod. exact Hd'.
  - rewrite Et. fold es. fold d. unfold op_img. rewrite Hop.
    assert (Hlenp : forall pv, In pv (ccontent d (CN es)) -> length (fst pv) = n).
    { intros pv Hin. apply (points_len d n (CN es) Hd _ Hin). }
    apply content_ok_of_perm; auto.
    + intros p p' Hp Hp' E.
      apply in_map_iff in Hp. destruct Hp as [pv [<- Hp]]. apply in_map_iff in Hp'. destruct Hp' as [pv' [<- Hp']].
      rewrite <- !nunder_swap0 in E by (rewrite Hlenp by assumption; lia).
      rewrite <- (nunder_swap0_invol depth (fst pv)) by (rewrite Hlenp by assumption; lia).
      rewrite <- (nunder_swap0_invol depth (fst pv')) by (rewrite Hlenp by assumption; lia).
      rewrite E. reflexivity.
    + eapply Permutation_trans; [exact HP|]. apply Permutation_refl'.
      apply map_ext_in. intros [q v] Hin. unfold on_pt. simpl. f_equal.
      apply nunder_swap0. pose proof (Hlenp _ Hin) as Hq. simpl in Hq. lia.
Qed.
