(* C09ComposeP.v — two successive *Below descents are one descent of the composed fiber
   transform; unflatten(flatten) and flatten(split) of one fiber; the model meets the oracle on
   OFlatUnflat and OSplitFlat. *)
From Coq Require Import ZArith List Bool Lia Permutation PeanoNat.
From FT Require Import Model.Base Model.Obs Model.C09Transform Model.C09Check
                       Proofs.C09OrderP Proofs.C09FlattenP Proofs.C09BelowP Proofs.C09CheckP
                       Proofs.C09SwizzleP Proofs.C09WfP Proofs.C09RebuildP Proofs.C09SwapP
                       Proofs.C09UnflP Proofs.C09SplitP Proofs.C09LinearP Proofs.C09RefP Proofs.C09SpecP
                       Proofs.C09DescentP Proofs.C09UnflWfP Proofs.C09SwapSpecP.
Import ListNotations.
Open Scope Z_scope.

Definition f12 (f1 f2 : cfib -> option cfib) (d : Z) (s : cfib) : option cfib :=
  match f1 s with
  | None => None
  | Some r => if cempty d (CN r) then Some [] else f2 r
  end.

Definition e0 (f : cfib -> option cfib) (d : Z) (cp : coord * ct) : option (coord * ct) :=
  if cempty d (snd cp) then Some (fst cp, match snd cp with CN _ => CN [] | CL v => CL v end)
  else match snd cp with
       | CN s => option_map (fun r => (fst cp, CN r)) (f s)
       | CL _ => None
       end.

Definition eS (f : cfib -> option cfib) (d : Z) (k : nat) (cp : coord * ct) : option (coord * ct) :=
  match snd cp with
  | CN s => option_map (fun r => (fst cp, CN r)) (upd_below k f d s)
  | CL _ => None
  end.

Lemma upd0_eq : forall f d es, upd_below 0 f d es = all_some (map (e0 f d) es).
Proof. reflexivity. Qed.
Lemma updS_eq : forall f d k es, upd_below (S k) f d es = all_some (map (eS f d k) es).
Proof. reflexivity. Qed.

Lemma all_some_compose : forall {A} (a b c : A -> option A) es r1,
  all_some (map a es) = Some r1 -> (forall x y, a x = Some y -> b y = c x) ->
  all_some (map b r1) = all_some (map c es).
Proof.
  intros A a b c. induction es as [|x es IH]; intros r1 Hr H.
  - simpl in Hr. inversion Hr. reflexivity.
  - simpl in Hr. destruct (a x) as [y|] eqn:Ea; [|discriminate].
    destruct (all_some (map a es)) as [ys|] eqn:Eys; [|discriminate]. inversion Hr; subst r1.
    simpl. rewrite (H x y Ea), (IH ys eq_refl H). reflexivity.
Qed.

Lemma e0_compose : forall f1 f2 d cp y, e0 f1 d cp = Some y -> e0 f2 d y = e0 (f12 f1 f2 d) d cp.
Proof.
  intros f1 f2 d [c p] y H. unfold e0 in *. cbn [fst snd] in *.
  destruct (cempty d p) eqn:Ee.
  - inversion H; subst y. cbn [fst snd]. destruct p as [v|s]; [simpl in Ee; simpl; rewrite Ee; reflexivity|reflexivity].
  - destruct p as [v|s]; [discriminate|]. unfold f12.
    destruct (f1 s) as [rs|] eqn:E1; [|discriminate]. simpl in H. inversion H; subst y. cbn [fst snd].
    destruct (cempty d (CN rs)); reflexivity.
Qed.

Lemma upd_below_compose : forall f1 f2 d k es r1, upd_below k f1 d es = Some r1 ->
  upd_below k f2 d r1 = upd_below k (f12 f1 f2 d) d es.
Proof.
  intros f1 f2 d. induction k as [|k IH]; intros es r1 Hr.
  - rewrite upd0_eq in *. apply (all_some_compose (e0 f1 d)); [exact Hr|]. intros x y. apply e0_compose.
  - rewrite updS_eq in *. apply (all_some_compose (eS f1 d k)); [exact Hr|].
    intros [c p] y H. unfold eS in *. cbn [fst snd] in *. destruct p as [v|s]; [discriminate|].
    destruct (upd_below k f1 d s) as [rs|] eqn:Ers; [|discriminate]. simpl in H. inversion H; subst y.
    cbn [fst snd]. rewrite (IH s rs Ers). reflexivity.
Qed.

Lemma nunder_id : forall k p, nunder k (fun q : list coord => q) p = p.
Proof. induction k as [|k IH]; intros p; [reflexivity|]. destruct p as [|c q]; [reflexivity|]. simpl. rewrite IH. reflexivity. Qed.

Lemma map_on_pt_id : forall (l : list (list coord * Z)), map (on_pt (fun q => q)) l = l.
Proof. intros l. rewrite <- (map_id l) at 2. apply map_ext. intros [q v]. reflexivity. Qed.

(* ------------------------------------------------------------------ unflatten(flatten) of one fiber *)
Theorem fu_fiber : forall style l N sh fuel d s, tp style -> (S l < N)%nat -> length sh = N -> Wb N sh s ->
  exists r', f12 (merge_helper (S l) style true fuel sh d) (unflatten (S l)) d s = Some r'
    /\ ccontent d (CN r') = ccontent d (CN s) /\ good (N - 1) r'.
Proof.
  intros style l N sh fuel d s Htp Hl Hsh Ws.
  destruct (flatten_fiber style l N sh fuel d s (or_introl Htp) Hl Hsh Ws) as [Efr [Cfr Gfr]].
  pose proof Ws as [Hd [Hs [Hi _]]].
  pose proof (wfl_of_bool (S l) N s Hl Hd Hs Hi) as Hwfl.
  destruct (flatten_unfl_facts l style true fuel sh d s _ Htp Hwfl Efr) as [E1 [E2 E3]].
  set (fr := flat_ref l style sh d s) in *.
  unfold f12. rewrite Efr.
  destruct fr as [|x fr'] eqn:Efr0.
  - exists []. split; [reflexivity|]. split; [|apply good_nil].
    change (ccontent d (CN [])) with (@nil (list coord * Z)) in *.
    symmetry in Cfr. apply map_eq_nil in Cfr. rewrite Cfr. reflexivity.
  - assert (Hne : cempty d (CN (x :: fr')) = false).
    { inversion E1 as [|? ? Hx _]; subst. simpl. rewrite Hx. reflexivity. }
    rewrite Hne.
    destruct (unflatten_flatten_content l style true fuel sh d s (x :: fr') Htp Hwfl Efr (E3 ltac:(discriminate)))
      as [r' [Er' Cr']].
    exists r'. split; [exact Er'|]. split; [exact Cr'|].
    pose proof (deepP_of_bool (S l) N s Hl Hd Hs) as Hdeep.
    pose proof (ref_ok_tp l style sh d s Htp Hwfl) as Hrok.
    pose proof (flat_ref_payloads _ l style sh d s Hdeep) as Hpay. fold fr in Hpay. rewrite Efr0 in Hpay.
    pose proof (ref_ok_pw _ _ _ _ _ Hrok) as Hpw. fold fr in Hpw. rewrite Efr0 in Hpw.
    destruct (unflatten_wf (S l) (x :: fr') (N - 1 - S l) ltac:(discriminate) Hpw E2 Hpay) as [r0 [Er0 Hg]].
    rewrite Er0 in Er'. inversion Er'; subst r0.
    replace (N - 1)%nat with (S l + (N - 1 - S l))%nat by lia. exact Hg.
Qed.

(* ------------------------------------------------------------------ flatten(split) of one fiber *)
Lemma split_cempty : forall step d s, cempty d (CN (split_uniform step d s)) = true -> cpresent d s = [].
Proof.
  intros step d s H. unfold split_uniform in H. destruct (cpresent d s) as [|[cx p] rest] eqn:EP; [reflexivity|].
  exfalso. set (gs := split_go step (hd 0 cx / step * step) [(cx, p)] rest) in *.
  assert (Hcat : flat_map snd gs = (cx, p) :: rest) by (unfold gs; rewrite split_go_concat; reflexivity).
  assert (Hin : In (cx, p) (flat_map snd gs)) by (rewrite Hcat; left; reflexivity).
  apply in_flat_map in Hin. destruct Hin as [g [Hg Hing]].
  simpl in H. rewrite forallb_forall in H.
  specialize (H ([fst g], CN (snd g))). simpl in H.
  assert (Hm : In ([fst g], CN (snd g)) (map (fun g0 : Z * cfib => ([fst g0], CN (snd g0))) gs)).
  { apply in_map_iff. exists g. auto. }
  specialize (H Hm). rewrite forallb_forall in H. specialize (H _ Hing). simpl in H.
  assert (Hp : In (cx, p) (cpresent d s)) by (rewrite EP; left; reflexivity).
  unfold cpresent in Hp. apply filter_In in Hp. destruct Hp as [_ Hp]. simpl in Hp. rewrite H in Hp. discriminate.
Qed.

Lemma pw_fst_filter : forall (f : coord * ct -> bool) es, pw ccmp (map fst es) -> pw ccmp (map fst (filter f es)).
Proof.
  intros f. induction es as [|[c q] es IH]; intros Hpw; [exact I|]. simpl in Hpw. destruct Hpw as [Hc Hpw]. simpl.
  destruct (f (c, q)); simpl; [|auto]. split; [|auto].
  apply Forall_forall. intros y Hy. apply in_map_iff in Hy. destruct Hy as [[c' q'] [<- Hy]].
  apply filter_In in Hy. rewrite Forall_forall in Hc. apply Hc. apply in_map_iff. exists (c', q'). tauto.
Qed.

Theorem sf_fiber : forall step fuel N sh d s, (1 <= N)%nat -> Wb N sh s ->
  f12 (fun s0 => Some (split_uniform step d s0)) (merge_helper 1 st_absolute true fuel [] d) d s
  = Some (cpresent d s)
  /\ ccontent d (CN (cpresent d s)) = ccontent d (CN s) /\ good (N - 1) (cpresent d s).
Proof.
  intros step fuel N sh d s HN [Hd [Hs _]].
  apply csorted_CN in Hs. destruct Hs as [Hpw Hall]. split; [|split].
  - unfold f12. destruct (cempty d (CN (split_uniform step d s))) eqn:E.
    + rewrite (split_cempty step d s E). reflexivity.
    + apply split_flatten_abs. exact Hpw.
  - apply content_present.
  - destruct N as [|N']; [lia|]. replace (S N' - 1)%nat with N' by lia. split.
    + apply csorted_CN. split.
      * unfold cpresent. apply pw_fst_filter. exact Hpw.
      * apply Forall_forall. intros cp Hin. unfold cpresent in Hin. apply filter_In in Hin.
        rewrite Forall_forall in Hall. apply Hall. tauto.
    + simpl in *. rewrite forallb_forall in *. intros cp Hin. unfold cpresent in Hin. apply filter_In in Hin.
      apply Hd. tauto.
Qed.

(* ------------------------------------------------------------------ more about the descent *)
Lemma below_total : forall (W : cfib -> Prop) f d,
  (forall s, W s -> exists r, f s = Some r) ->
  forall k es, at_depth k W es -> exists r1, upd_below k f d es = Some r1 /\ at_depth k (fun _ => True) r1.
Proof.
  intros W f d Hf. induction k as [|k IH]; intros es Hes.
  - rewrite upd0_eq. induction es as [|[c p] es IHes]; [exists []; split; [reflexivity|constructor]|].
    inversion Hes as [|? ? [s [Es Ws]] Hrest]; subst. simpl in Es. subst p.
    destruct (IHes Hrest) as [ys [Eys Hys]]. destruct (Hf s Ws) as [rs Ers].
    cbn [map all_some]. unfold e0 at 1. cbn [fst snd]. rewrite Eys.
    destruct (cempty d (CN s)).
    + exists ((c, CN []) :: ys). split; [reflexivity|]. constructor; [exists []; auto|exact Hys].
    + rewrite Ers. exists ((c, CN rs) :: ys). split; [reflexivity|]. constructor; [exists rs; auto|exact Hys].
  - rewrite updS_eq. induction es as [|[c p] es IHes]; [exists []; split; [reflexivity|constructor]|].
    inversion Hes as [|? ? [s [Es Ws]] Hrest]; subst. simpl in Es. subst p.
    destruct (IHes Hrest) as [ys [Eys Hys]]. destruct (IH s Ws) as [rs [Ers Hrs]].
    cbn [map all_some]. unfold eS at 1. cbn [fst snd]. rewrite Ers, Eys.
    exists ((c, CN rs) :: ys). split; [reflexivity|]. constructor; [exists rs; auto|exact Hys].
Qed.

Lemma level_all_empty0 : forall d fr, level_all_empty d 0 (CN fr) = cempty d (CN fr).
Proof. intros. unfold level_all_empty. simpl. apply andb_true_r. Qed.

Lemma holds_identity : forall c r, c09_wf c = true -> c09_run c = Some r -> op_mfn c = mf_sum ->
  (forall p, op_img c p = p) -> out_depth c = k_n c ->
  ccontent (k_d c) (CN r) = ccontent (k_d c) (inj (k_tree c)) ->
  csorted (CN r) = true -> cdepth_ok (k_n c) (CN r) = true ->
  c09_holds c (c09_model c) = true.
Proof.
  intros c r Hwf Hrun Hm Himg Hod Hc Hs Hd. destruct (c09_wf_parts c Hwf) as [_ [_ [_ [Hs0 _]]]].
  apply (holds_of_parts c r); auto; [rewrite Hod; exact Hd|].
  apply content_ok_of_perm.
  - apply content_NoDup. exact Hs0.
  - intros p p' _ _ E. rewrite !Himg in E. exact E.
  - rewrite Hc. apply Permutation_refl'.
    transitivity (map (fun x : point * Z => x) (ccontent (k_d c) (inj (k_tree c)))); [symmetry; apply map_id|].
    apply map_ext. intros [q v]. unfold on_pt. simpl. rewrite Himg. reflexivity.
Qed.

Lemma cdepth_nil : forall n, (1 <= n)%nat -> cdepth_ok n (CN []) = true.
Proof. intros [|n] H; [lia|reflexivity]. Qed.

Lemma good_top : forall n r, good (n - 1) r -> (1 <= n)%nat -> csorted (CN r) = true /\ cdepth_ok n (CN r) = true.
Proof. intros n r [H1 H2] Hn. replace (S (n - 1)) with n in H2 by lia. auto. Qed.

Theorem spec_flatunflat : forall c depth levels style, k_op c = OFlatUnflat depth levels style ->
  c09_wf c = true -> c09_holds c (c09_model c) = true.
Proof.
  intros c depth levels style Hop Hwf. destruct (c09_wf_parts c Hwf) as [Hn [Et [Hd [Hs [Hi [Hsh Hok]]]]]].
  unfold op_ok in Hok. rewrite Hop in Hok.
  apply andb_true_iff in Hok. destruct Hok as [Hok Hst]. apply andb_true_iff in Hok. destruct Hok as [Hl0 Hl1].
  apply Nat.ltb_lt in Hl0, Hl1.
  assert (Htp : tp style).
  { apply orb_true_iff in Hst. destruct Hst as [E|E]; apply Z.eqb_eq in E; [left|right]; exact E. }
  destruct levels as [|l]; [lia|].
  assert (Himg : forall p, op_img c p = p) by (intros; unfold op_img; rewrite Hop; reflexivity).
  assert (Hod : out_depth c = k_n c) by (unfold out_depth; rewrite Hop; reflexivity).
  pose proof Et as Et'. rewrite Et in Hd, Hs, Hi, Hsh. set (es := k_es c) in *. set (d := k_d c) in *. set (n := k_n c) in *.
  destruct depth as [|k].
  - destruct (fu_fiber style l n (k_shape c) (S n) d es Htp ltac:(lia) eq_refl) as [r' [Er' [Cr' Gr']]];
      [repeat split; assumption|].
    destruct (good_top n r' Gr' ltac:(lia)) as [G1 G2].
    apply (holds_identity c r'); auto.
    + unfold c09_run. rewrite Hop. fold es d n. unfold t_merge_f, merge_ranks_f, obind.
      unfold f12 in Er'. destruct (merge_helper (S l) style true (S n) (k_shape c) d es) as [fr|]; [|discriminate].
      unfold t_unflatten. rewrite level_all_empty0. exact Er'.
    + fold d. rewrite Cr', Et'. reflexivity.
  - set (sh' := skipn (S k) (k_shape c)). set (N' := (n - S k)%nat).
    assert (Hshl : length sh' = N') by (unfold sh', N'; rewrite skipn_length; reflexivity).
    set (f1 := merge_helper (S l) style true (S n) sh' d).
    assert (Hat : at_depth k (Wb N' sh') es) by (apply at_depth_of_bool; [lia|repeat split; assumption]).
    destruct (below_content (Wb N' sh') f1 (gflat style l sh') d
                (fun s Ws => let '(conj A (conj B _)) := flatten_fiber style l N' sh' (S n) d s (or_introl Htp) ltac:(unfold N'; lia) Hshl Ws in
                             ex_intro _ (flat_ref l style sh' d s) (conj A B)) k es Hat) as [r1 [Er1 [Cr1 _]]].
    destruct (below_total (Wb N' sh') f1 d
                (fun s Ws => let '(conj A _) := flatten_fiber style l N' sh' (S n) d s (or_introl Htp) ltac:(unfold N'; lia) Hshl Ws in
                             ex_intro _ (flat_ref l style sh' d s) A) k es Hat) as [r1' [Er1' Hshape]].
    rewrite Er1 in Er1'. inversion Er1'; subst r1'.
    assert (Hrun : c09_run c = if level_all_empty d (S k) (CN r1) then Some [] else upd_below k (unflatten (S l)) d r1).
    { unfold c09_run. rewrite Hop. fold es d n. unfold t_merge_f, merge_ranks_f. fold sh' f1. rewrite Er1. reflexivity. }
    destruct (level_all_empty d (S k) (CN r1)) eqn:Eall.
    + assert (Hc1 : ccontent d (CN r1) = []) by (apply (all_empty_content (fun _ => True) d k r1 Hshape Eall)).
      rewrite Hc1 in Cr1. symmetry in Cr1. apply map_eq_nil in Cr1.
      apply (holds_identity c []); auto.
      * fold d. rewrite Et'. fold es. rewrite Cr1. reflexivity.
      * apply cdepth_nil. lia.
    + rewrite (upd_below_compose f1 (unflatten (S l)) d k es r1 Er1) in Hrun.
      set (f := f12 f1 (unflatten (S l)) d) in *.
      destruct (below_content (Wb N' sh') f (fun q => q) d
                  (fun s Ws => let '(ex_intro _ r' (conj A (conj B _))) := fu_fiber style l N' sh' (S n) d s Htp ltac:(unfold N'; lia) Hshl Ws in
                               ex_intro _ r' (conj A (eq_trans B (eq_sym (map_on_pt_id _))))) k es Hat) as [r [Er [Cr _]]].
      assert (Hgood : good (S k + (N' - 1)) r).
      { apply (below_wf (Wb N' sh') f d (N' - 1)) with (k := k) (es := es); auto.
        intros s r' Ws _ Efs.
        destruct (fu_fiber style l N' sh' (S n) d s Htp ltac:(unfold N'; lia) Hshl Ws) as [r0 [A [_ G]]].
        unfold f, f1 in Efs. rewrite A in Efs. inversion Efs; subst r'. exact G. }
      destruct Hgood as [G1 G2]. replace (S (S k + (N' - 1))) with n in G2 by (unfold N'; lia).
      apply (holds_identity c r); auto.
      * rewrite Hrun. exact Er.
      * fold d. rewrite Cr, Et'. fold es.
        transitivity (map (on_pt (fun q : list coord => q)) (ccontent d (CN es))); [|apply map_on_pt_id].
        apply map_ext. intros [q v]. unfold on_pt. cbn [fst snd]. rewrite nunder_id. reflexivity.
Qed.

Theorem spec_splitflat : forall c depth step, k_op c = OSplitFlat depth step ->
  c09_wf c = true -> c09_holds c (c09_model c) = true.
Proof.
  intros c depth step Hop Hwf. destruct (c09_wf_parts c Hwf) as [Hn [Et [Hd [Hs [Hi [Hsh Hok]]]]]].
  unfold op_ok in Hok. rewrite Hop in Hok. apply andb_true_iff in Hok. destruct Hok as [Hdp _]. apply Nat.ltb_lt in Hdp.
  assert (Himg : forall p, op_img c p = p) by (intros; unfold op_img; rewrite Hop; reflexivity).
  assert (Hod : out_depth c = k_n c) by (unfold out_depth; rewrite Hop; reflexivity).
  pose proof Et as Et'. rewrite Et in Hd, Hs, Hi, Hsh. set (es := k_es c) in *. set (d := k_d c) in *. set (n := k_n c) in *.
  destruct depth as [|k].
  - destruct (sf_fiber step (S n) n (k_shape c) d es ltac:(lia)) as [_ [Cr Gr]]; [repeat split; assumption|].
    destruct (good_top n _ Gr ltac:(lia)) as [G1 G2].
    apply (holds_identity c (cpresent d es)); auto.
    + unfold c09_run. rewrite Hop. fold es d n. simpl modify_root. unfold obind, t_merge_f, merge_ranks_f.
      apply split_flatten_abs. apply csorted_CN in Hs. tauto.
    + fold d. rewrite Cr, Et'. reflexivity.
  - set (sh' := skipn (S k) (k_shape c)). set (N' := (n - S k)%nat).
    set (f1 := fun s0 : cfib => Some (split_uniform step d s0)).
    set (f2 := merge_helper 1 st_absolute true (S n) [] d).
    assert (Hat : at_depth k (Wb N' sh') es) by (apply at_depth_of_bool; [lia|repeat split; assumption]).
    destruct (below_total (Wb N' sh') f1 d (fun s _ => ex_intro _ (split_uniform step d s) eq_refl) k es Hat)
      as [r1 [Er1 _]].
    assert (Hrun : c09_run c = upd_below k f2 d r1).
    { unfold c09_run. rewrite Hop. fold es d n. simpl modify_root. fold f1. rewrite Er1. unfold obind, t_merge_f, merge_ranks_f.
      replace (skipn (S k) (@nil Z)) with (@nil Z) by (destruct k; reflexivity). reflexivity. }
    rewrite (upd_below_compose f1 f2 d k es r1 Er1) in Hrun.
    set (f := f12 f1 f2 d) in *.
    destruct (below_content (Wb N' sh') f (fun q => q) d
                (fun s Ws => let '(conj A (conj B _)) := sf_fiber step (S n) N' sh' d s ltac:(unfold N'; lia) Ws in
                             ex_intro _ (cpresent d s) (conj A (eq_trans B (eq_sym (map_on_pt_id _))))) k es Hat) as [r [Er [Cr _]]].
    assert (Hgood : good (S k + (N' - 1)) r).
    { apply (below_wf (Wb N' sh') f d (N' - 1)) with (k := k) (es := es); auto.
      intros s r' Ws _ Efs.
      destruct (sf_fiber step (S n) N' sh' d s ltac:(unfold N'; lia) Ws) as [A [_ G]].
      unfold f, f1, f2 in Efs. rewrite A in Efs. inversion Efs; subst r'. exact G. }
    destruct Hgood as [G1 G2]. replace (S (S k + (N' - 1))) with n in G2 by (unfold N'; lia).
    apply (holds_identity c r); auto.
    + rewrite Hrun. exact Er.
    + fold d. rewrite Cr, Et'. fold es.
      transitivity (map (on_pt (fun q : list coord => q)) (ccontent d (CN es))); [|apply map_on_pt_id].
      apply map_ext. intros [q v]. unfold on_pt. cbn [fst snd]. rewrite nunder_id. reflexivity.
Qed.
