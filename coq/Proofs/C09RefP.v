(* C09RefP.v — a closed form of flattenRanks on ascending keys (flat_ref), and from it the
   well-formedness of the flattened fiber. *)
From Coq Require Import ZArith List Bool Lia Permutation PeanoNat.
From FT Require Import Model.Base Model.Obs Model.C09Transform Model.C09Check
                       Proofs.C09OrderP Proofs.C09FlattenP Proofs.C09BelowP Proofs.C09CheckP
                       Proofs.C09LinearP.
Import ListNotations.
Open Scope Z_scope.

(* flattening l+1 levels when no two elements collide: flatten the lower fibers, then
   concatenate the blocks *)
Fixpoint flat_ref (l : nat) (style : Z) (shapes : list Z) (d : Z) (es : cfib) : cfib :=
  merge_items style (prodZ (firstn (S l) (tl shapes))) d
    match l with
    | O => es
    | S l' => map (fun cp => (fst cp, CN (flat_ref l' style (tl shapes) d (sub (snd cp))))) es
    end.

Fixpoint ref_ok (l : nat) (style : Z) (shapes : list Z) (d : Z) (es : cfib) : Prop :=
  all_fibers es = true /\ pw ccmp (map fst (flat_ref l style shapes d es)) /\
  match l with
  | O => True
  | S l' => Forall (fun cp => ref_ok l' style (tl shapes) d (sub (snd cp))) es
  end.

Lemma ref_ok_pw : forall l style shapes d es, ref_ok l style shapes d es ->
  pw ccmp (map fst (flat_ref l style shapes d es)).
Proof. intros l style shapes d es H. destruct l; destruct H as [_ [H _]]; exact H. Qed.

Lemma CN_sub : forall p, negb (is_leaf p) = true -> p = CN (sub p).
Proof. intros [v|es] H; [discriminate|reflexivity]. Qed.

Theorem merge_helper_ref : forall l style raise fuel shapes d es, ref_ok l style shapes d es ->
  merge_helper (S l) style raise fuel shapes d es = Some (flat_ref l style shapes d es).
Proof.
  induction l as [|l IH]; intros style raise fuel shapes d es Hok; destruct Hok as [Hf [Hpw Hsub]].
  - apply merge_helper_1'; assumption.
  - rewrite merge_helper_step.
    rewrite (all_some_map_Some (lowF l style raise fuel shapes d)
               (fun cp => (fst cp, CN (flat_ref l style (tl shapes) d (sub (snd cp)))))).
    + rewrite existsb_leaf_false.
      * cbn [flat_ref] in Hpw. rewrite group_items_asc by exact Hpw. apply merge_singles.
      * unfold all_fibers. apply forallb_forall. intros cp Hin. apply in_map_iff in Hin.
        destruct Hin as [cp0 [<- _]]. reflexivity.
    + intros cp Hin. unfold lowF. unfold all_fibers in Hf. rewrite forallb_forall in Hf.
      rewrite (CN_sub (snd cp) (Hf _ Hin)) at 1. rewrite Forall_forall in Hsub.
      rewrite (IH style raise fuel (tl shapes) d _ (Hsub _ Hin)). reflexivity.
Qed.

(* tuple / pair *)
Lemma ref_ok_tp : forall l style shapes d es, tp style -> wfl (S l) es -> ref_ok l style shapes d es.
Proof.
  induction l as [|l IH]; intros style shapes d es Hs Hwf; destruct Hwf as [Hpw [Hsg Hsub]].
  - assert (Hf : all_fibers es = true).
    { unfold all_fibers. apply forallb_forall. intros cp Hin. rewrite Forall_forall in Hsub.
      destruct (Hsub _ Hin) as [s [E _]]. rewrite E. reflexivity. }
    split; [exact Hf|]. split; [|exact I]. apply merge_items_pw; auto.
    eapply Forall_impl; [|exact Hsub]. intros cp [s [E Hw]]. rewrite E. simpl. eapply wfl_pw. exact Hw.
  - assert (Hf : all_fibers es = true).
    { unfold all_fibers. apply forallb_forall. intros cp Hin. rewrite Forall_forall in Hsub.
      destruct (Hsub _ Hin) as [s [E _]]. rewrite E. reflexivity. }
    assert (Hlow : Forall (fun cp => ref_ok l style (tl shapes) d (sub (snd cp))) es).
    { eapply Forall_impl; [|exact Hsub]. intros cp [s [E Hw]]. rewrite E. simpl. apply IH; assumption. }
    split; [exact Hf|]. split; [|exact Hlow]. cbn [flat_ref]. apply merge_items_pw; auto.
    + rewrite map_map. simpl. exact Hpw.
    + rewrite forallb_forall in *. intros cp Hin. apply in_map_iff in Hin. destruct Hin as [cp0 [<- H0]]. simpl. auto.
    + apply Forall_forall. intros cp Hin. apply in_map_iff in Hin. destruct Hin as [cp0 [<- H0]]. simpl.
      rewrite Forall_forall in Hlow. apply ref_ok_pw. apply (Hlow _ H0).
Qed.

(* linear *)
Lemma ref_ok_lin : forall l shapes d es, (S (S l) <= length shapes)%nat ->
  wfl (S l) es -> wfs (S l) shapes es ->
  ref_ok l st_linear shapes d es
  /\ Forall (in_range (hd 0 shapes * prodZ (firstn (S l) (tl shapes)))) (flat_ref l st_linear shapes d es).
Proof.
  induction l as [|l IH]; intros shapes d es Hlen Hwf Hws; destruct Hwf as [Hpw [Hsg Hsub]]; destruct Hws as [Htop Hsubs];
    destruct shapes as [|s0 [|s1 ss]]; simpl in Hlen; try lia; cbn [hd tl] in *.
  - assert (Hf : all_fibers es = true).
    { unfold all_fibers. apply forallb_forall. intros cp Hin. rewrite Forall_forall in Hsub.
      destruct (Hsub _ Hin) as [s [E _]]. rewrite E. reflexivity. }
    set (sh := prodZ (firstn 1 (s1 :: ss))).
    assert (Esh : sh = s1) by (unfold sh; simpl; lia).
    assert (Hlow : Forall (fun cp => pw ccmp (map fst (sub (snd cp))) /\ Forall (in_range sh) (sub (snd cp))) es).
    { apply Forall_forall. intros cp Hin. rewrite Forall_forall in Hsub, Hsubs.
      destruct (Hsub _ Hin) as [s [E Hw]]. destruct (Hsubs _ Hin) as [s' [E' [Hr _]]].
      rewrite E in E'. inversion E'; subst s'. rewrite E. simpl. split; [eapply wfl_pw; exact Hw|].
      rewrite Esh. exact Hr. }
    destruct (merge_items_keys_lin sh s0 d es Hpw Htop Hlow) as [Hk Hrange].
    split; [split; [exact Hf|split; [exact Hk|exact I]]|exact Hrange].
  - assert (Hf : all_fibers es = true).
    { unfold all_fibers. apply forallb_forall. intros cp Hin. rewrite Forall_forall in Hsub.
      destruct (Hsub _ Hin) as [s [E _]]. rewrite E. reflexivity. }
    set (sh := prodZ (firstn (S (S l)) (s1 :: ss))).
    assert (Hboth : Forall (fun cp => ref_ok l st_linear (s1 :: ss) d (sub (snd cp))
                     /\ Forall (in_range sh) (flat_ref l st_linear (s1 :: ss) d (sub (snd cp)))) es).
    { apply Forall_forall. intros cp Hin. rewrite Forall_forall in Hsub, Hsubs.
      destruct (Hsub _ Hin) as [s [E Hw]]. destruct (Hsubs _ Hin) as [s' [E' Hws']].
      rewrite E in E'. inversion E'; subst s'. rewrite E. simpl.
      apply (IH (s1 :: ss) d s); [simpl; lia|exact Hw|exact Hws']. }
    set (cur := map (fun cp : coord * ct => (fst cp, CN (flat_ref l st_linear (s1 :: ss) d (sub (snd cp))))) es).
    assert (Hpw' : pw ccmp (map fst cur)) by (unfold cur; rewrite map_map; simpl; exact Hpw).
    assert (Htop' : Forall (in_range s0) cur).
    { apply (in_range_map_fst s0 es); [unfold cur; rewrite map_map; reflexivity|exact Htop]. }
    assert (Hlow : Forall (fun cp => pw ccmp (map fst (sub (snd cp))) /\ Forall (in_range sh) (sub (snd cp))) cur).
    { apply Forall_forall. intros cp Hin. unfold cur in Hin. apply in_map_iff in Hin. destruct Hin as [cp0 [<- H0]].
      simpl. rewrite Forall_forall in Hboth. destruct (Hboth _ H0) as [Hk Hr]. split; [apply ref_ok_pw; exact Hk|exact Hr]. }
    destruct (merge_items_keys_lin sh s0 d cur Hpw' Htop' Hlow) as [Hk Hrange].
    split; [|exact Hrange]. split; [exact Hf|]. split; [exact Hk|].
    eapply Forall_impl; [|exact Hboth]. intros cp [H _]. exact H.
Qed.

(* ------------------------------------------------------------------ payloads of the flattened fiber *)
(* every payload n+1 levels below es satisfies P *)
Fixpoint deepP (n : nat) (P : ct -> Prop) (es : cfib) : Prop :=
  match n with
  | O => Forall (fun cp => P (snd cp)) es
  | S n' => Forall (fun cp => deepP n' P (sub (snd cp))) es
  end.

Lemma merge_items_payloads : forall (P : ct -> Prop) style sh d cur,
  Forall (fun cp => Forall (fun cp0 => P (snd cp0)) (sub (snd cp))) cur ->
  Forall (fun cp => P (snd cp)) (merge_items style sh d cur).
Proof.
  intros P style sh d cur H. apply Forall_forall. intros [k p] Hin. unfold merge_items in Hin.
  apply in_flat_map in Hin. destruct Hin as [cp [Hcp Hin]].
  apply in_map_iff in Hin. destruct Hin as [[c0 p0] [E H0]]. inversion E; subst. simpl.
  unfold cpresent in H0. apply filter_In in H0. destruct H0 as [H0 _].
  rewrite Forall_forall in H. specialize (H _ Hcp). rewrite Forall_forall in H. apply (H _ H0).
Qed.

Lemma flat_ref_payloads : forall (P : ct -> Prop) l style shapes d es, deepP (S l) P es ->
  Forall (fun cp => P (snd cp)) (flat_ref l style shapes d es).
Proof.
  intros P. induction l as [|l IH]; intros style shapes d es H; cbn [flat_ref]; apply merge_items_payloads.
  - exact H.
  - apply Forall_forall. intros cp Hin. apply in_map_iff in Hin. destruct Hin as [cp0 [<- H0]]. simpl.
    apply IH. simpl in H. rewrite Forall_forall in H. apply (H _ H0).
Qed.

(* the flattened fiber is a well-formed fiber *)
Theorem flat_ref_wf : forall l style shapes d es m, ref_ok l style shapes d es ->
  deepP (S l) (fun p => csorted p = true /\ cdepth_ok m p = true) es ->
  csorted (CN (flat_ref l style shapes d es)) = true
  /\ cdepth_ok (S m) (CN (flat_ref l style shapes d es)) = true.
Proof.
  intros l style shapes d es m Hok Hdeep. pose proof (ref_ok_pw _ _ _ _ _ Hok) as Hpw.
  pose proof (flat_ref_payloads _ l style shapes d es Hdeep) as Hp. rewrite Forall_forall in Hp.
  split; simpl.
  - rewrite (pw_asc ccmp _ Hpw). simpl. apply forallb_forall. intros cp Hin. apply (Hp _ Hin).
  - apply forallb_forall. intros cp Hin. apply (Hp _ Hin).
Qed.
